import GomlVerif.Model.Query
import GomlVerif.Gen.QueryGlue
/-!
# C20 — the position logic of the editor queries

What is proved here is the part of C20 a model can carry: for every text and every
`(line, col)` the offset the queries work with is absent or inside the text on a char
boundary; rowan's `token_at_offset` precondition then holds and the selected token contains
the offset; the completion placeholder is inserted at a valid place and the `.` / `::` the
completion is anchored to is still at the same offset of the text that is parsed.
Crash-freedom of the Rust code behind these offsets (lowering, typer) and agreement of the
hover text with the compiler are *searched*, not proved (see `tools/props/c20.py`).
-/
namespace Goml.Query

/-! ## line index -/

theorem newlinesFrom_bounds (t : Text) (pos : Nat) :
    ∀ x ∈ newlinesFrom pos t, pos < x ∧ x ≤ pos + t.length := by
  induction t generalizing pos with
  | nil => intro x hx; simp [newlinesFrom] at hx
  | cons b bs ih =>
    intro x hx
    simp only [newlinesFrom] at hx
    split at hx
    · rcases List.mem_cons.1 hx with h | h
      · subst h; simp only [List.length_cons]; omega
      · have := ih (pos + 1) x h; simp only [List.length_cons]; omega
    · have := ih (pos + 1) x hx; simp only [List.length_cons]; omega

/-- every line start lies inside the text -/
theorem startOffset_le_length {t : Text} {line s : Nat}
    (h : startOffset (newlines t) line = some s) : s ≤ t.length := by
  cases line with
  | zero => simp [startOffset] at h; omega
  | succ l =>
    simp only [startOffset] at h
    have hm : s ∈ newlines t := List.mem_of_getElem? h
    have := newlinesFrom_bounds t 0 s hm
    omega

/-- a line past the last one has no start: `offset` is `None` there -/
theorem startOffset_none_of_large {t : Text} {line : Nat} (h : (newlines t).length < line) :
    startOffset (newlines t) line = none := by
  cases line with
  | zero => omega
  | succ l => simp only [startOffset]; exact List.getElem?_eq_none (by omega)

/-! ## the offset handed to the queries -/

/-- with the bounds and boundary checks in place the offset is absent or valid -/
theorem offsetAt_checked_total (g : Glue) (hb : g.boundsCheck = true) (hc : g.boundaryCheck = true)
    (t : Text) (line col o : Nat) (h : offsetAt g t line col = some o) :
    o ≤ t.length ∧ isCharBoundary t o = true := by
  unfold offsetAt at h
  split at h
  · cases h
  · rename_i s hs
    simp only [hb, hc, Bool.true_and] at h
    split at h
    · cases h
    · split at h
      · cases h
      · rename_i h1
        split at h
        · cases h
        · rename_i h2
          simp only [Option.some.injEq] at h
          subst h
          simp only [decide_eq_true_eq, Nat.not_lt] at h1
          simp only [Bool.not_eq_true', Bool.not_eq_false] at h2
          exact ⟨h1, h2⟩

/-- **offset_total** for the code as it is now (`Gen.queryGlue` is regenerated from query.rs on
every run; if a check disappears from the source this theorem stops compiling) -/
theorem offset_total (t : Text) (line col : Nat) :
    match offsetAt Gen.queryGlue t line col with
    | none => True
    | some o => o ≤ t.length ∧ isCharBoundary t o = true := by
  cases h : offsetAt Gen.queryGlue t line col with
  | none => trivial
  | some o => exact offsetAt_checked_total Gen.queryGlue rfl rfl t line col o h

/-- the check is not vacuous: every position inside the text on a char boundary is accepted -/
theorem offset_complete (g : Glue) (t : Text) (line col s : Nat) (hlen : t.length < U32)
    (hs : startOffset (newlines t) line = some s) (hin : s + col ≤ t.length)
    (hcb : isCharBoundary t (s + col) = true) :
    offsetAt g t line col = some (s + col) := by
  have h1 : ¬ U32 ≤ s + col := by omega
  have h2 : (s + col) % U32 = s + col := Nat.mod_eq_of_lt (by omega)
  simp [offsetAt, hs, h1, h2, hcb, Nat.not_lt.2 hin]

/-- without the checks the model is exactly `LineIndex::offset` -/
theorem offsetAt_unchecked_eq_raw (t : Text) (line col : Nat) :
    offsetAt Glue.unchecked t line col = rawOffset t line col := by
  unfold offsetAt rawOffset
  cases startOffset (newlines t) line <;> simp [Glue.unchecked]

/-- the defect that was in the tree: without the bounds check a column one past the end of the
last line gives an offset outside the text, and rowan's `token_at_offset` asserts -/
example :
    offsetAt Glue.unchecked [102, 110] 0 3 = some 3 ∧ ¬ (3 ≤ [102, 110].length) ∧
      rowanTokenAt [⟨"FnKeyword", 2⟩] 3 = none := by decide

/-- and the `u32` addition wraps: line 1 starts at 2, column `u32::MAX` lands on offset 1 -/
example : offsetAt Glue.unchecked [97, 10, 98] 1 4294967295 = some 1 := by decide
example : offsetAt Glue.checked [97, 10, 98] 1 4294967295 = none := by decide

/-- non-vacuity of `offset_total`: the second line of "a\nbé" (é = c3 a9): column 1 is a
position, column 2 is inside the two-byte character, column 3 is the end, column 4 is outside -/
example : offsetAt Glue.checked [97, 10, 98, 195, 169] 1 1 = some 3 ∧
    offsetAt Glue.checked [97, 10, 98, 195, 169] 1 2 = none ∧
    offsetAt Glue.checked [97, 10, 98, 195, 169] 1 3 = some 5 ∧
    offsetAt Glue.checked [97, 10, 98, 195, 169] 1 4 = none ∧
    offsetAt Glue.checked [97, 10, 98, 195, 169] 2 0 = none := by decide

/-! ## token selection -/

theorem nextNonEmpty_spec (ts : List Tok) (idx j : Nat) (h : nextNonEmpty ts idx = some j) :
    ∃ m u, j = idx + m ∧ ts[m]? = some u ∧ 0 < u.len ∧ tokStart ts m = 0 := by
  induction ts generalizing idx with
  | nil => simp [nextNonEmpty] at h
  | cons t ts ih =>
    simp only [nextNonEmpty] at h
    split at h
    · rename_i h0
      obtain ⟨m, u, hj, hu, hpos, hst⟩ := ih (idx + 1) h
      refine ⟨m + 1, u, by omega, by simpa using hu, hpos, ?_⟩
      simp [tokStart, h0, hst]
    · rename_i h0
      simp only [Option.some.injEq] at h
      exact ⟨0, t, by omega, by simp, by omega, by simp [tokStart]⟩

theorem nextNonEmpty_none (ts : List Tok) (idx : Nat) (h : nextNonEmpty ts idx = none) :
    totalLen ts = 0 := by
  induction ts generalizing idx with
  | nil => rfl
  | cons t ts ih =>
    simp only [nextNonEmpty] at h
    split at h
    · rename_i h0; simp [totalLen, h0, ih (idx + 1) h]
    · cases h

/-- what `tokenAtFrom` returns, relative to the scan position -/
def AtSpec (ts : List Tok) (idx start off : Nat) : TokenAt → Prop
  | .none => totalLen ts = 0
  | .single i => ∃ k t, i = idx + k ∧ ts[k]? = some t ∧ 0 < t.len ∧
      start + tokStart ts k ≤ off ∧ off ≤ start + tokStart ts k + t.len
  | .between i j => ∃ k m t u, i = idx + k ∧ j = idx + m ∧ k < m ∧ ts[k]? = some t ∧ ts[m]? = some u ∧
      0 < t.len ∧ 0 < u.len ∧ off = start + tokStart ts k + t.len ∧ off = start + tokStart ts m

theorem tokenAtFrom_spec (ts : List Tok) (idx start off : Nat)
    (h1 : start ≤ off) (h2 : off ≤ start + totalLen ts) :
    AtSpec ts idx start off (tokenAtFrom ts idx start off) := by
  induction ts generalizing idx start with
  | nil => simp [tokenAtFrom, AtSpec, totalLen]
  | cons t ts ih =>
    simp only [tokenAtFrom]
    split
    · rename_i h0
      have := ih (idx + 1) start h1 (by simpa [totalLen, h0] using h2)
      revert this
      cases tokenAtFrom ts (idx + 1) start off with
      | none => intro h; simpa [AtSpec, totalLen, h0] using h
      | single i =>
        rintro ⟨k, u, hi, hu, hp, ha, hb⟩
        exact ⟨k + 1, u, by omega, by simpa using hu, hp, by simp [tokStart, h0]; omega,
          by simp [tokStart, h0]; omega⟩
      | between i j =>
        rintro ⟨k, m, u, v, hi, hj, hkm, hu, hv, hpu, hpv, ha, hb⟩
        exact ⟨k + 1, m + 1, u, v, by omega, by omega, by omega, by simpa using hu, by simpa using hv,
          hpu, hpv, by simp [tokStart, h0]; omega, by simp [tokStart, h0]; omega⟩
    · rename_i h0
      have hpos : 0 < t.len := Nat.pos_of_ne_zero h0
      split
      · omega
      · split
        · exact ⟨0, t, by omega, by simp, hpos, by simp [tokStart]; omega, by simp [tokStart]; omega⟩
        · split
          · rename_i heq
            split
            · rename_i j hj
              obtain ⟨m, u, hjm, hu, hpu, hst⟩ := nextNonEmpty_spec ts (idx + 1) j hj
              exact ⟨0, m + 1, t, u, by omega, by omega, by omega, by simp, by simpa using hu, hpos, hpu,
                by simp [tokStart]; omega, by simp [tokStart, hst]; omega⟩
            · exact ⟨0, t, by omega, by simp, hpos, by simp [tokStart]; omega, by simp [tokStart]; omega⟩
          · rename_i hlt hne
            have := ih (idx + 1) (start + t.len) (by omega) (by simp only [totalLen] at h2; omega)
            revert this
            cases tokenAtFrom ts (idx + 1) (start + t.len) off with
            | none =>
              intro h
              simp only [AtSpec] at h
              simp only [totalLen, h] at h2
              omega
            | single i =>
              rintro ⟨k, u, hi, hu, hp, ha, hb⟩
              exact ⟨k + 1, u, by omega, by simpa using hu, hp, by simp [tokStart]; omega,
                by simp [tokStart]; omega⟩
            | between i j =>
              rintro ⟨k, m, u, v, hi, hj, hkm, hu, hv, hpu, hpv, ha, hb⟩
              exact ⟨k + 1, m + 1, u, v, by omega, by omega, by omega, by simpa using hu,
                by simpa using hv, hpu, hpv, by simp [tokStart]; omega, by simp [tokStart]; omega⟩

/-- token `i` is a non-empty token whose closed range contains `off` -/
def InTok (toks : List Tok) (off i : Nat) : Prop :=
  ∃ t, toks[i]? = some t ∧ 0 < t.len ∧ tokStart toks i ≤ off ∧ off ≤ tokStart toks i + t.len

/-- **token_at_in_range**: for an offset inside a non-empty token sequence rowan's selection does
not fail (the `unwrap` on the first matching child is safe), and every token it returns is a
non-empty token whose range contains the offset; a `Between` pair meets exactly at the offset -/
theorem token_at_in_range (toks : List Tok) (off : Nat) (hoff : off ≤ totalLen toks)
    (hne : 0 < totalLen toks) :
    match tokenAtFrom toks 0 0 off with
    | .none => False
    | .single i => InTok toks off i
    | .between i j => InTok toks off i ∧ InTok toks off j ∧ i < j ∧
        (∃ t, toks[i]? = some t ∧ tokStart toks i + t.len = off) ∧ tokStart toks j = off := by
  have := tokenAtFrom_spec toks 0 0 off (Nat.zero_le _) (by omega)
  revert this
  cases tokenAtFrom toks 0 0 off with
  | none => intro h; simp only [AtSpec] at h; omega
  | single i =>
    rintro ⟨k, t, hi, ht, hp, ha, hb⟩
    simp only [Nat.zero_add] at hi ha hb; subst hi
    exact ⟨t, ht, hp, ha, hb⟩
  | between i j =>
    rintro ⟨k, m, t, u, hi, hj, hkm, ht, hu, hpt, hpu, ha, hb⟩
    simp only [Nat.zero_add] at hi hj ha hb; subst hi; subst hj
    exact ⟨⟨t, ht, hpt, by omega, by omega⟩, ⟨u, hu, hpu, by omega, by omega⟩, hkm,
      ⟨t, ht, by omega⟩, by omega⟩

/-- rowan's assertion holds for every offset the (checked) position mapping produces, for any
token sequence that tiles the text (C12: the tree is lossless) -/
theorem hover_no_bad_offset (t : Text) (toks : List Tok) (line col o : Nat)
    (htile : totalLen toks = t.length) (h : offsetAt Gen.queryGlue t line col = some o) :
    rowanTokenAt toks o ≠ none := by
  have := (offsetAt_checked_total Gen.queryGlue rfl rfl t line col o h).1
  simp [rowanTokenAt, htile, Nat.not_lt.2 this]

/-- the token each query goes on with is one of the tokens at the offset -/
theorem hoverPick_mem (toks : List Tok) (ta : TokenAt) (i : Nat) (h : hoverPick toks ta = some i) :
    match ta with
    | .none => False
    | .single a => i = a
    | .between a b => i = a ∨ i = b := by
  cases ta with
  | none => simp [hoverPick] at h
  | single a => simp [hoverPick] at h; exact h.symm
  | between a b =>
    simp only [hoverPick] at h
    split at h <;> simp only [Option.some.injEq] at h <;> subst h <;> simp

theorem dotPick_is_dot (toks : List Tok) (ta : TokenAt) (i : Nat) (h : dotPick toks ta = some i) :
    kindAt toks i = "Dot" := by
  cases ta with
  | none => simp [dotPick] at h
  | single a =>
    simp only [dotPick] at h
    split at h
    · rename_i hk; simp only [Option.some.injEq] at h; subst h; simpa using hk
    · cases h
  | between a b =>
    simp only [dotPick] at h
    split at h
    · rename_i hk; simp only [Option.some.injEq] at h; subst h; simpa using hk
    · split at h
      · rename_i hk; simp only [Option.some.injEq] at h; subst h; simpa using hk
      · cases h

/-- non-vacuity: `p.x` — at offset 1 (between `p` and `.`) hover takes the identifier, the dot
query takes the dot; at offset 2 (between `.` and `x`) hover takes `x` -/
example :
    let toks : List Tok := [⟨"Ident", 1⟩, ⟨"Dot", 1⟩, ⟨"Ident", 1⟩]
    tokenAtFrom toks 0 0 1 = .between 0 1 ∧ hoverPick toks (.between 0 1) = some 0 ∧
    dotPick toks (.between 0 1) = some 1 ∧ tokenAtFrom toks 0 0 2 = .between 1 2 ∧
    hoverPick toks (.between 1 2) = some 2 ∧ colonPick toks (.between 1 2) = some 2 ∧
    tokenAtFrom toks 0 0 3 = .single 2 ∧ tokenAtFrom toks 0 0 0 = .single 0 := by decide

/-! ## identifier prefix and the completion placeholder -/

theorem length_takeWhile_le_len {α} (p : α → Bool) (l : List α) : (l.takeWhile p).length ≤ l.length := by
  induction l with
  | nil => simp
  | cons a l ih => simp only [List.takeWhile]; split <;> simp <;> omega

theorem identRun_le (t : Text) (off : Nat) : identRun t off ≤ off := by
  unfold identRun
  have h1 := length_takeWhile_le_len isIdentByte (t.take off).reverse
  have h2 : (t.take off).reverse.length ≤ off := by simp [List.length_take]; omega
  omega

theorem identPrefixStart_spec (t : Text) (off s : Nat) (h : identPrefixStart t off = some s) :
    s ≤ off ∧ off ≤ t.length ∧ isCharBoundary t s = true ∧ isCharBoundary t off = true ∧
      s = off - identRun t off := by
  unfold identPrefixStart at h
  split at h
  · cases h
  · rename_i hlen
    simp only at h
    split at h
    · rename_i hb
      simp only [Option.some.injEq] at h
      simp only [Bool.and_eq_true] at hb
      subst h
      exact ⟨Nat.sub_le _ _, by omega, hb.1, hb.2, rfl⟩
    · cases h

theorem insertAt_length (t ph : Text) (off : Nat) :
    (insertAt t off ph).length = t.length + ph.length := by
  simp only [insertAt, List.length_append, List.length_take, List.length_drop]
  omega

/-- the text before the insertion point is untouched, so the `.`/`::` offsets computed on the
original text address the same bytes in the text that is parsed -/
theorem insertAt_get_lt (t ph : Text) (off i : Nat) (hi : i < off) (hoff : off ≤ t.length) :
    (insertAt t off ph)[i]? = t[i]? := by
  have hlt : i < (t.take off).length := by simp [List.length_take]; omega
  simp only [insertAt, List.append_assoc]
  rw [List.getElem?_append_left hlt, List.getElem?_take]
  simp [hi]

/-- `dot_completions` up to the parse: whatever the position mapping lets through (even without
the bounds checks), the `.` is inside the parsed text at `anchor`, the tree is searched at an
offset inside the parsed text, and `insert_str` is called on a char boundary of the text -/
theorem dot_prepare_safe (g : Glue) (ph t : Text) (line col : Nat) (p : Prep)
    (h : dotPrepare g ph t line col = some p) :
    p.parseSrc[p.anchor]? = some 46 ∧ p.focus < p.parseSrc.length ∧
      (p.inserted = true → ∃ off, off ≤ t.length ∧ isCharBoundary t off = true ∧
        p.parseSrc = insertAt t off ph ∧ p.anchor + 1 = off) := by
  unfold dotPrepare at h
  split at h
  · cases h
  · rename_i off hoff
    split at h
    · cases h
    · rename_i start hst
      obtain ⟨hle, hlen, hbs, hbo, _⟩ := identPrefixStart_spec t off start hst
      split at h
      · cases h
      · rename_i h0
        split at h
        · cases h
        · rename_i hdot
          simp only [ne_eq, Decidable.not_not] at hdot
          simp only [Option.some.injEq] at h
          subst h
          have hlt : start - 1 < t.length := by
            have := (List.getElem?_eq_some_iff.1 hdot).1; exact this
          by_cases hins : start = off
          · subst hins
            simp only [beq_self_eq_true, if_true]
            refine ⟨?_, ?_, ?_⟩
            · rw [insertAt_get_lt t ph start (start - 1) (by omega) hlen]; exact hdot
            · rw [insertAt_length]; omega
            · intro _; exact ⟨start, hlen, hbo, rfl, by omega⟩
          · have hb : (start == off) = false := by simpa using hins
            simp only [hb]
            exact ⟨hdot, hlt, by intro hc; cases hc⟩

/-- the same for `colon_colon_completions` -/
theorem colon_prepare_safe (g : Glue) (ph t : Text) (line col : Nat) (p : Prep)
    (h : colonPrepare g ph t line col = some p) :
    p.parseSrc[p.anchor]? = some 58 ∧ p.parseSrc[p.anchor + 1]? = some 58 ∧
      p.focus ≤ p.parseSrc.length ∧
      (p.inserted = true → ∃ off, off ≤ t.length ∧ isCharBoundary t off = true ∧
        p.parseSrc = insertAt t off ph ∧ p.anchor + 2 = off ∧ p.focus = off) := by
  unfold colonPrepare at h
  split at h
  · cases h
  · rename_i off hoff
    split at h
    · cases h
    · rename_i start hst
      obtain ⟨hle, hlen, hbs, hbo, _⟩ := identPrefixStart_spec t off start hst
      split at h
      · cases h
      · rename_i h0
        split at h
        · cases h
        · rename_i hcc
          simp only [ne_eq, not_or, Decidable.not_not] at hcc
          obtain ⟨hc1, hc2⟩ := hcc
          have e2 : start - 2 + 1 = start - 1 := by omega
          by_cases hins : start = off
          · subst hins
            simp only [beq_self_eq_true, Bool.not_true, Bool.false_and, if_true] at h
            simp only [Bool.false_eq_true, if_false, Option.some.injEq] at h
            subst h
            refine ⟨?_, ?_, ?_, ?_⟩
            · show (insertAt t start ph)[start - 2]? = some 58
              rw [insertAt_get_lt t ph start (start - 2) (by omega) hlen]; exact hc1
            · show (insertAt t start ph)[start - 2 + 1]? = some 58
              rw [e2, insertAt_get_lt t ph start (start - 1) (by omega) hlen]; exact hc2
            · show start ≤ (insertAt t start ph).length
              rw [insertAt_length]; omega
            · intro _; exact ⟨start, hlen, hbo, rfl, by show start - 2 + 2 = start; omega, rfl⟩
          · have hb : (start == off) = false := by simpa using hins
            simp only [hb, Bool.not_false, Bool.true_and] at h
            split at h
            · cases h
            · simp only [Bool.false_eq_true, if_false, Option.some.injEq] at h
              subst h
              refine ⟨hc1, ?_, ?_, by intro hc; cases hc⟩
              · show t[start - 2 + 1]? = some 58
                rw [e2]; exact hc2
              · show off - 1 ≤ t.length
                omega

/-- non-vacuity: `p.` + cursor after the dot: the placeholder goes in at offset 2, the dot stays at 1 -/
example :
    (dotPrepare Glue.checked [112, 104] [112, 46] 0 2).map (fun p => (p.anchor, p.parseSrc, p.inserted))
      = some (1, [112, 46, 112, 104], true) := by decide

example :
    (colonPrepare Glue.checked [112, 104] [65, 58, 58, 66] 0 4).map (fun p => (p.anchor, p.focus, p.inserted))
      = some (1, 3, false) := by decide

end Goml.Query
