import GomlVerif.Lemmas.DcePrune
import GomlVerif.Lemmas.DceScope
import GomlVerif.Lemmas.DceSim6
import GomlVerif.Lemmas.DceFile2
/-!
# DCE (C02 / C09): theorems about the model of `go/dce.rs` (`Model/Dce.lean`)

(a) `dce_no_unused`, (b) `dce_decl_before_use` — Go's two rules about locals, for every block
that is well scoped (`scopeErrs = []`: every local is declared before use and nothing is
shadowed) and contains no block expression (`shapeOK`);
(c) `dce_preserves` — every definite `Go.Sem` run (ends normally or panics) of a block is reproduced
by its DCE'd form: same world (stdout, heap, spawned, extern events), same signal / returned
value / panic, and environments that agree on the live variables.  Forward simulation, fuel
existential on the output side; `Go.Sem` is fuel-monotone (`Lemmas/GoSemMono.lean`), so the
output result does not depend on which sufficient fuel is taken (`dce_output_unique`).
(d) `prune_imports_exact`, `prune_funcs_closed`, `prune_funcs_keeps_roots`.
(e) `dce_file_preserves` — the FILE-level lifting of (c): inside the decidable contract `FileDceOK`, every
definite run of `main` in a file is reproduced by `eliminate_dead_vars` of the file (all function bodies
DCE'd at once, unreachable functions and unused imports pruned).
-/
set_option linter.unusedSimpArgs false
set_option linter.unusedVariables false
namespace Goml.Dce
open Goml.Go

/-- the table of `expr_has_side_effects` arms that answer `true` outright, as extracted from the
    Rust source, is the one `exprEffects` was written against (a changed arm list stops the build) -/
theorem effects_table_is_modelled :
    Goml.Gen.dceAlwaysEffects = ["Call", "Index", "UnaryOp.Deref", "BinaryOp.Div", "Cast"] := by decide

/-! ## (a), (b) the two Go rules DCE exists for -/

/-- **(a) no unused local** — in the output of `dce_block_with_live` on a function body every
    declared local and every kept type-switch binding is read later in its scope.
    Hypotheses on the input: `scopeErrs D scope ss = []` (locals declared before use, no
    shadowing; `D` = all locals of the function, `scope` = its parameters) and `shapeOK ss`
    (no `Expr::Block`, which the backend never builds).  Both are decidable and evaluated on
    every input of the correspondence run. -/
theorem dce_no_unused (D scope : Names) (ss : List GStmt)
    (hscope : scopeErrs D scope ss = []) (hshape : shapeOK ss = true) :
    unusedStmts (dceBody ss) = [] :=
  (scope_body D scope ss hscope hshape).2

/-- **(b) declared before use** — if every use of a local in the input is preceded by its
    declaration in scope (and nothing is shadowed), the same holds of the output: DCE never
    removes a declaration that a kept read or a kept assignment still needs. -/
theorem dce_decl_before_use (D scope : Names) (ss : List GStmt)
    (hscope : scopeErrs D scope ss = []) (hshape : shapeOK ss = true) :
    scopeErrs D scope (dceBody ss) = [] :=
  (scope_body D scope ss hscope hshape).1

/-- per function: `D` = parameters + everything declared in the body -/
theorem dce_fn_scope_sound (f : GFunc)
    (hscope : scopeErrs (localsOf f) (f.params.map (·.1)) f.body = []) (hshape : shapeOK f.body = true) :
    scopeErrs (localsOf f) (f.params.map (·.1)) (dceBody f.body) = [] ∧ unusedStmts (dceBody f.body) = [] :=
  scope_body _ _ f.body hscope hshape

section Examples
private def i32 : GTy := .int 32 true
private def vx (x : String) : GExpr := .var x i32
private def pr (e : GExpr) : GStmt := .expr (.call .unit (.var "show" (.func [i32] .unit)) [e])

/-- `var a = 1; var dead = a + 1; var r int32; if a < 2 { r = 3 } else { r = f() }; show(r)` -/
private def exBody : List GStmt :=
  [ .varDecl "a" i32 (some (.int "1" i32)),
    .varDecl "dead" i32 (some (.bin .add i32 (vx "a") (.int "1" i32))),
    .varDecl "r" i32 none,
    .ite (.bin .less .bool (vx "a") (.int "2" i32))
      [.assign "r" (.int "3" i32)]
      (some [.varDecl "t" i32 (some (.call i32 (.var "f" (.func [] i32)) [])), .assign "r" (vx "t")]),
    pr (vx "r") ]

/-- non-vacuity: the hypotheses hold of a block on which DCE does something -/
example : scopeErrs ["a", "dead", "r", "t"] [] exBody = [] ∧ shapeOK exBody = true ∧
    (dceBody exBody).length = 4 ∧ unusedStmts exBody = ["dead"] := by decide

/-- the shadowing hypothesis is needed: `var x = 0; if c { var x = 2 }; show(x)` — the inner,
    never-read `x` is kept because the name `x` is live after the `if` (liveness is by name) -/
private def exShadow : List GStmt :=
  [ .varDecl "x" i32 (some (.int "0" i32)),
    .ite (.bool true) [.varDecl "x" i32 (some (.int "2" i32))] none,
    pr (vx "x") ]

example : unusedStmts (dceBody exShadow) = ["x"] ∧ scopeErrs ["x"] [] exShadow = ["x"] := by decide
end Examples

/-! ## (c) DCE preserves `Go.Sem` -/
open Goml.Sem in
/-- **(c) preservation.**  `F` is the file the block runs in (callees are looked up in `F` on both
    sides), `ρi` / `ρo` the environments of the input / output run, related by `Rel` on the live-in
    and needs sets that `dce_block_with_live` computes (for a function body: the same parameter
    environment, `dce_preserves_body`).  Contract on the input, all decidable and evaluated on
    every real input of the correspondence run:
    * `scopeErrs D (keys ρi) ss = []` — declared before use, no shadowing (liveness is by name);
    * `shapeOK ss` — no `Expr::Block`, no `x = …x…`, `_` never read, a type-switch binding is not
      assigned in its clauses;
    * `semOK P ss L` — every initialiser / stored value that the pass deletes satisfies `P`, and a
      variable assigned in a loop body is neither live after the loop nor live at the start of an
      iteration (the pass analyses a loop body once and treats `break` as falling through);
    and `P e → Inert F e`: what is deleted cannot panic and cannot touch the world — after the
    `fix:` commit `expr_has_side_effects` covers division, indexing, dereference and type
    assertion, so `P := inertSyn false` (proved sound: `inertSyn_sound`) leaves out only field
    access and `&`-allocation.
    Conclusion: if the input run is definite, some fuel makes the output run end the same way. -/
theorem dce_preserves (F : GFile) (D : Names) (P : GExpr → Bool) (hP : ∀ e, P e = true → Inert F e)
    (ss : List GStmt) (L : Names) (ρi ρo : GEnv) (w : GWorld) (n : Nat) (r : GRes (GEnv × Sig))
    (hscope : scopeErrs D (keys ρi) ss = []) (hshape : shapeOK ss = true) (hsem : semOK P ss L = true)
    (hrel : Rel (dceStmts ss L).live (dceStmts ss L).needs ρo ρi)
    (hrun : execBlockG n F ρi w ss = r) (hdef : Definite r) :
    ∃ m r', execBlockG m F ρo w (dceStmts ss L).out = r' ∧ ResRel L [] r' r :=
  (sim_all hP n).bl hscope hshape hsem hrel hrun hdef

open Goml.Sem in
/-- a function body: both runs start from the same parameter environment, nothing is live at the end -/
theorem dce_preserves_body (F : GFile) (D : Names) (P : GExpr → Bool) (hP : ∀ e, P e = true → Inert F e)
    (body : List GStmt) (ρ : GEnv) (w : GWorld) (n : Nat) (r : GRes (GEnv × Sig))
    (hblank : ¬ "_" ∈ keys ρ)
    (hscope : scopeErrs D (keys ρ) body = []) (hshape : shapeOK body = true) (hsem : semOK P body [] = true)
    (hrun : execBlockG n F ρ w body = r) (hdef : Definite r) :
    ∃ m r', execBlockG m F ρ w (dceBody body) = r' ∧ ResRel [] [] r' r :=
  dce_preserves F D P hP body [] ρ ρ w n r hscope hshape hsem (rel_refl _ _ ρ hblank) hrun hdef

open Goml.Sem in
/-- the instance with the proved syntactic criterion for "cannot fail, cannot write" -/
theorem dce_preserves_syn (F : GFile) (D : Names) (body : List GStmt) (ρ : GEnv) (w : GWorld) (n : Nat)
    (r : GRes (GEnv × Sig)) (hblank : ¬ "_" ∈ keys ρ)
    (hscope : scopeErrs D (keys ρ) body = []) (hshape : shapeOK body = true)
    (hsem : semOK (inertSyn false) body [] = true)
    (hrun : execBlockG n F ρ w body = r) (hdef : Definite r) :
    ∃ m r', execBlockG m F ρ w (dceBody body) = r' ∧ ResRel [] [] r' r :=
  dce_preserves_body F D (inertSyn false) (fun e h => inertSyn_sound F e h) body ρ w n r hblank hscope hshape
    hsem hrun hdef

open Goml.Sem in
/-- the same with dead field projections admitted: `inertSyn true` also accepts `e.f` where the
    static type of `e` is not a pointer (`inertSyn_sound_field`: a struct value is never nil, and
    `Go.Sem` has no rule — `stuck`, not a panic — for a nil value of a non-pointer type) -/
theorem dce_preserves_syn_field (F : GFile) (D : Names) (body : List GStmt) (ρ : GEnv) (w : GWorld) (n : Nat)
    (r : GRes (GEnv × Sig)) (hblank : ¬ "_" ∈ keys ρ)
    (hscope : scopeErrs D (keys ρ) body = []) (hshape : shapeOK body = true)
    (hsem : semOK (inertSyn true) body [] = true)
    (hrun : execBlockG n F ρ w body = r) (hdef : Definite r) :
    ∃ m r', execBlockG m F ρ w (dceBody body) = r' ∧ ResRel [] [] r' r :=
  dce_preserves_body F D (inertSyn true) (fun e h => inertSyn_sound_field F e h) body ρ w n r hblank hscope hshape
    hsem hrun hdef

open Goml.Sem in
/-- fuel does not matter once it suffices: two runs of the same block that did not stop for lack
    of fuel give the same result (from fuel monotonicity) -/
theorem dce_output_unique (F : GFile) (ρ : GEnv) (w : GWorld) (ss : List GStmt) (m1 m2 : Nat)
    (h1 : (execBlockG m1 F ρ w ss).nf) (h2 : (execBlockG m2 F ρ w ss).nf) :
    execBlockG m1 F ρ w ss = execBlockG m2 F ρ w ss := by
  rw [← execBlockG_mono (Nat.le_max_left m1 m2) h1, ← execBlockG_mono (Nat.le_max_right m1 m2) h2]

section SemExamples
open Goml.Sem
private def vb (x : String) : GExpr := .var x .bool
private def ρb : GEnv := [("x", .bool false), ("k", .bool false), ("p", .nilv)]
private def retB : GRes (GEnv × Sig) → Option Bool
  | .ok (_, .ret (.bool v)) _ => some v
  | _ => none
private def isFuel : GRes (GEnv × Sig) → Bool
  | .fail .fuel _ => true
  | _ => false
private def isPanic : GRes (GEnv × Sig) → Bool
  | .fail (.panic _) _ => true
  | _ => false

/-- non-vacuity: a block on which DCE deletes a store, inside the contract -/
private def exOK : List GStmt :=
  [ .assign "k" (.bool true), .assign "k" (.un .not .bool (vb "x")),
    .ite (vb "k") [.assign "x" (.bool true)] (some [.assign "x" (.bool false)]), .ret (some (vb "x")) ]
example : scopeErrs ["x", "k", "p"] (keys ρb) exOK = [] ∧ shapeOK exOK = true ∧
    semOK (inertSyn false) exOK [] = true ∧ (dceBody exOK).length = 3 ∧
    retB (execBlockG 20 { items := [] } ρb {} exOK) = some true ∧
    retB (execBlockG 20 { items := [] } ρb {} (dceBody exOK)) = some true := by decide +kernel

/-- the loop clause of `semOK` is needed: `for { k = x; x = true; if k { break } }; return k` —
    the store to `x` is dead for a single pass over the body and is deleted; the input returns
    `true`, the output never leaves the loop -/
private def exLoop : List GStmt :=
  [ .loop [ .assign "k" (vb "x"), .assign "x" (.bool true), .ite (vb "k") [.brk] none ],
    .ret (some (vb "k")) ]
example : scopeErrs ["x", "k", "p"] (keys ρb) exLoop = [] ∧ shapeOK exLoop = true ∧
    semOK (inertSyn false) exLoop [] = false ∧
    retB (execBlockG 40 { items := [] } ρb {} exLoop) = some true ∧
    isFuel (execBlockG 40 { items := [] } ρb {} (dceBody exLoop)) = true := by decide +kernel

/-- the self-assignment clause of `shapeOK` is needed: `x = true; x = !x; return x` — `dce.rs`
    removes `x` from the live set after adding the uses of `!x`, so `x = true` looks dead -/
private def exSelf : List GStmt :=
  [ .assign "x" (.bool true), .assign "x" (.un .not .bool (vb "x")), .ret (some (vb "x")) ]
example : shapeOK exSelf = false ∧ retB (execBlockG 20 { items := [] } ρb {} exSelf) = some false ∧
    retB (execBlockG 20 { items := [] } ρb {} (dceBody exSelf)) = some true := by decide +kernel

/-- the hypothesis on `P` is needed: a dead `k = p.f` with `p == nil` panics in the input and is
    deleted (field access is not an effect for `dce.rs`); `inertSyn false` rejects it -/
private def exNil : List GStmt :=
  [ .assign "k" (.field "f" .bool (.var "p" (.ptr (.name "T")))), .ret (some (vb "x")) ]
example : semOK (fun _ => true) exNil [] = true ∧ semOK (inertSyn false) exNil [] = false ∧
    isPanic (execBlockG 20 { items := [] } ρb {} exNil) = true ∧
    retB (execBlockG 20 { items := [] } ρb {} (dceBody exNil)) = some false := by decide +kernel
end SemExamples

/-! ## (d) pruning -/
/-- **`prune_unused_imports` is exact**: an import spec survives iff some call node
    `pkg.f(…)` in a function or method body names its binding. -/
theorem prune_imports_exact (F : GFile) (spec : String × String) :
    spec ∈ importSpecs (pruneUnusedImports F).items ↔
      spec ∈ importSpecs F.items ∧ AnyE (CallsPkg (specBinding spec)) (itemsExprs F.items) := by
  unfold pruneUnusedImports
  simp only []
  split
  · rename_i h
    have : importSpecs F.items = [] := by
      have := importNames_eq F
      simp [List.isEmpty_iff] at h
      rw [h] at this
      simpa using this.symm
    simp [this]
  · rw [pruneImportItems_specs, usedPackages_iff]
    constructor
    · rintro ⟨h1, _, h3⟩; exact ⟨h1, h3⟩
    · rintro ⟨h1, h3⟩
      refine ⟨h1, ?_, h3⟩
      rw [importNames_eq]; exact List.mem_map_of_mem h1
/-- **`prune_dead_functions` leaves no dangling reference**: a name that a surviving function
    mentions and that is a function of the input file is still a function of the output file.
    (Function names are pairwise distinct, as Go requires.) -/
theorem prune_funcs_closed (F : GFile) (hnd : (F.funcs.map (·.name)).Nodup)
    (g : GFunc) (hg : g ∈ (pruneDeadFunctions F).funcs) (x : String)
    (hx : AnyE (IsVar x) (exprsS g.body)) (hf : x ∈ F.funcs.map (·.name)) :
    x ∈ (pruneDeadFunctions F).funcs.map (·.name) := by
  rcases pruned_funcs F with h | ⟨h, _⟩
  · rw [h] at hg ⊢
    simp only [List.mem_filter, List.contains_iff_mem] at hg
    obtain ⟨hgF, hgR⟩ := hg
    have hgR : g.name ∈ reachable F := by simpa using hgR
    have hcall : x ∈ calledStmts (F.funcs.map (·.name)) g.body := (calledStmts_iff _ x g.body).mpr ⟨hf, hx⟩
    have hcal : x ∈ calleesOf F.funcs (F.funcs.map (·.name)) (reachable F) :=
      (mem_calleesOf _ _ x _).mpr ⟨g.name, hgR, g, lastFunc_of_mem _ g hnd hgF, hcall⟩
    have hxR : x ∈ reachable F := closure_closed _ _ _ x hcal hf
    obtain ⟨f, hfF, hfn⟩ := List.mem_map.mp hf
    apply List.mem_map.mpr
    refine ⟨f, ?_, hfn⟩
    simp only [List.mem_filter, List.contains_iff_mem]
    exact ⟨hfF, by simpa [hfn] using hxR⟩
  · rw [h]; exact hf

/-- the roots (`main`, `main0`) are never pruned -/
theorem prune_funcs_keeps_roots (F : GFile) (r : String) (hr : r ∈ Goml.Gen.dceRoots)
    (g : GFunc) (hg : g ∈ F.funcs) (hn : g.name = r) : g ∈ (pruneDeadFunctions F).funcs := by
  rcases pruned_funcs F with h | ⟨h, _⟩
  · rw [h]
    simp only [List.mem_filter, List.contains_iff_mem]
    refine ⟨hg, ?_⟩
    have : r ∈ Goml.Gen.dceRoots.filter fun r => (F.funcs.map (·.name)).contains r := by
      simp only [List.mem_filter, List.contains_iff_mem]
      exact ⟨hr, by simpa using List.mem_map.mpr ⟨g, hg, hn⟩⟩
    have := closure_sub F.funcs (F.funcs.map (·.name)) _ r this
    simpa [hn, reachable] using this
  · rw [h]; exact hg

example : "main" ∈ Goml.Gen.dceRoots := by decide

/-! ## (e) the whole pass on a whole file -/

/-- the contract of `dce_file_preserves` (decidable; `Model/Dce.lean`): every function of the file
    satisfies the contract of `dce_preserves_syn_field` for the parameter environment of a call (no `_`
    parameter, `scopeErrs = []` w.r.t. its parameters, `shapeOK`, `semOK (inertSyn true)`), and
    function names are pairwise distinct -/
def FileDceOK (F : GFile) : Prop := fileDceOK F = true

instance (F : GFile) : Decidable (FileDceOK F) := by unfold FileDceOK; infer_instance

open Goml.Sem in
/-- **(e) file-level preservation.**  For every file inside `FileDceOK`: a run of `main` that ends
    normally or panics is reproduced — stdout, status, extern events — by the file
    `eliminate_dead_vars` returns, under either `go` schedule and either capacity policy.
    `eliminate_dead_vars` = `dce_item` on every function at once, then `prune_dead_functions`, then
    `prune_unused_imports`; the three steps are `mapDce_preserves_call` (the `Go.Sem` file congruence
    `fileSim_all` with `dce_preserves_syn` applied at every call) and two instances of the lock-step
    theorem `prune_all` (the semantics never looks up a function outside the reachable set, by the
    invariant that no value contains a function value outside it).  Rests on two properties of
    `Go.Sem` made explicit for it: `zero` reads the file only through its struct declarations, and a
    call with another number of arguments than parameters has no rule (`stuck`). -/
theorem dce_file_preserves (F : GFile) (hok : FileDceOK F) (fuel : Nat) (eager : Bool) (cap : Nat)
    (hdef : (runGo fuel F "main" eager cap).status = "ok" ∨ ∃ k, (runGo fuel F "main" eager cap).status = "panic:" ++ k) :
    ∃ m, runGo m (eliminateDeadVars F) "main" eager cap = runGo fuel F "main" eager cap := by
  unfold runGo at hdef ⊢
  generalize hr : callG fuel F { eager := eager, capPolicy := cap } (.func "main") [] = r at hdef ⊢
  have hd : Definite r := by
    cases r with
    | ok v w => trivial
    | fail f w =>
      cases f with
      | panic k => trivial
      | fuel =>
        exfalso
        simp only [failStr] at hdef
        rcases hdef with h | ⟨k, h⟩
        · exact absurd h (by decide)
        · exact absurd (congrArg String.toList h) (by simp)
      | stuck s =>
        exfalso
        simp only [failStr] at hdef
        rcases hdef with h | ⟨k, h⟩
        · exact absurd (congrArg String.toList h) (by simp)
        · exact absurd (congrArg String.toList h) (by simp)
  obtain ⟨m, hm⟩ := dce_file_call hok fuel { eager := eager, capPolicy := cap } rfl rfl r hr hd
  exact ⟨m, by rw [hm]⟩

/-- the call-level form: any definite call of `main` in the initial world -/
theorem dce_file_preserves_call (F : GFile) (hok : FileDceOK F) (n : Nat) (w0 : GWorld) (h0 : w0.heap = #[])
    (hs0 : w0.spawned = []) (r : GRes GVal) (h : callG n F w0 (.func "main") [] = r) (hdef : Definite r) :
    ∃ m, callG m (eliminateDeadVars F) w0 (.func "main") [] = r :=
  dce_file_call hok n w0 h0 hs0 r h hdef

end Goml.Dce
