import GomlVerif.Lemmas.DcePrune
/-!
# DCE (C02 / C09): theorems about the model of `go/dce.rs` (`Model/Dce.lean`)

(d) `prune_imports_exact`, `prune_funcs_closed`, `prune_funcs_keeps_roots`.
-/
set_option linter.unusedSimpArgs false
set_option linter.unusedVariables false
namespace Goml.Dce
open Goml.Go

/-- the table of `expr_has_side_effects` arms that answer `true` outright, as extracted from the
    Rust source, is the one `exprEffects` was written against (a changed arm list stops the build) -/
theorem effects_table_is_modelled :
    Goml.Gen.dceAlwaysEffects = ["Call", "Index", "UnaryOp.Deref", "BinaryOp.Div", "Cast"] := by decide

/-! ## (d) pruning -/
/-- **`prune_unused_imports` is exact**: an import spec survives iff some call node
    `pkg.f(…)` in a function or method body names its binding. -/
theorem prune_imports_exact (F : GFile) (spec : String × String) :
    spec ∈ importSpecs (pruneUnusedImports F).items ↔
      spec ∈ importSpecs F.items ∧ AnyE (CallsPkg (specBinding spec)) (itemsExprs F.items) := by
  unfold pruneUnusedImports
  simp only []
  split
  · rename_i h
    have : importSpecs F.items = [] := by
      have := importNames_eq F
      simp [List.isEmpty_iff] at h
      rw [h] at this
      simpa using this.symm
    simp [this]
  · rw [pruneImportItems_specs, usedPackages_iff]
    constructor
    · rintro ⟨h1, _, h3⟩; exact ⟨h1, h3⟩
    · rintro ⟨h1, h3⟩
      refine ⟨h1, ?_, h3⟩
      rw [importNames_eq]; exact List.mem_map_of_mem h1
/-- **`prune_dead_functions` leaves no dangling reference**: a name that a surviving function
    mentions and that is a function of the input file is still a function of the output file.
    (Function names are pairwise distinct, as Go requires.) -/
theorem prune_funcs_closed (F : GFile) (hnd : (F.funcs.map (·.name)).Nodup)
    (g : GFunc) (hg : g ∈ (pruneDeadFunctions F).funcs) (x : String)
    (hx : AnyE (IsVar x) (exprsS g.body)) (hf : x ∈ F.funcs.map (·.name)) :
    x ∈ (pruneDeadFunctions F).funcs.map (·.name) := by
  rcases pruned_funcs F with h | ⟨h, _⟩
  · rw [h] at hg ⊢
    simp only [List.mem_filter, List.contains_iff_mem] at hg
    obtain ⟨hgF, hgR⟩ := hg
    have hgR : g.name ∈ reachable F := by simpa using hgR
    have hcall : x ∈ calledStmts (F.funcs.map (·.name)) g.body := (calledStmts_iff _ x g.body).mpr ⟨hf, hx⟩
    have hcal : x ∈ calleesOf F.funcs (F.funcs.map (·.name)) (reachable F) :=
      (mem_calleesOf _ _ x _).mpr ⟨g.name, hgR, g, lastFunc_of_mem _ g hnd hgF, hcall⟩
    have hxR : x ∈ reachable F := closure_closed _ _ _ x hcal hf
    obtain ⟨f, hfF, hfn⟩ := List.mem_map.mp hf
    apply List.mem_map.mpr
    refine ⟨f, ?_, hfn⟩
    simp only [List.mem_filter, List.contains_iff_mem]
    exact ⟨hfF, by simpa [hfn] using hxR⟩
  · rw [h]; exact hf

/-- the roots (`main`, `main0`) are never pruned -/
theorem prune_funcs_keeps_roots (F : GFile) (r : String) (hr : r ∈ Goml.Gen.dceRoots)
    (g : GFunc) (hg : g ∈ F.funcs) (hn : g.name = r) : g ∈ (pruneDeadFunctions F).funcs := by
  rcases pruned_funcs F with h | ⟨h, _⟩
  · rw [h]
    simp only [List.mem_filter, List.contains_iff_mem]
    refine ⟨hg, ?_⟩
    have : r ∈ Goml.Gen.dceRoots.filter fun r => (F.funcs.map (·.name)).contains r := by
      simp only [List.mem_filter, List.contains_iff_mem]
      exact ⟨hr, by simpa using List.mem_map.mpr ⟨g, hg, hn⟩⟩
    have := closure_sub F.funcs (F.funcs.map (·.name)) _ r this
    simpa [hn, reachable] using this
  · rw [h]; exact hg

example : "main" ∈ Goml.Gen.dceRoots := by decide

end Goml.Dce
