import GomlVerif.Lemmas.GoCompLink
import GomlVerif.Lemmas.GoCompScope
import GomlVerif.Lemmas.GoCompTyped
import GomlVerif.Props.Dce
import GomlVerif.Gen.GoCompTables
/-!
# The Go back end (`go/compile.rs`): theorems about its model `Model/GoCompile.lean`

`GoCompile.goFilePre env file n` is everything `go_file` builds before it runs dead-code
elimination (exact tie: `gv gocomp` / `gomlmodel gocomp`, composed with `Dce.eliminateDeadVars`).
`progOf file` is the `Sem` program of the ANF file (`AFn.toFn` erases the annotations, as the
shared dump does); the theorems hold for every `P : Prog` with those functions (`P.fns = file.map AFn.toFn`,
any dispatch table `impls`: the fragment never consults it).

* **T1 `compile_preserves`** — forward simulation: for every function of a set `G` of functions of
  the file that passes the decidable check `closedOK` (`Model/GoFrag.lean`: scalars, struct values (user structs, closure
  environments) and enum values (recursive enums included), operators, struct / enum construction, field and payload
  access, `match` on enums (type switch), on bool / integers / strings (value switch) and on unit, `let`, `if`, `while`,
  `Ref` cells (the `Sem` store against the Go heap, `Hp` / `WRel`), tuples, fixed-size arrays, top-level functions as
  values and calls through variables of function type, calls inside `G`, printing / `*_to_string` builtins; Go names
  pairwise distinct; no Go constant expression whose exact value is not the run-time value), every definite `Sem.apply` run (a value
  or a panic, with its stdout and extern events) is reproduced by `callG` of the compiled function in the emitted file for
  some fuel, with the corresponding value (`toGV`: `C01.toG` on scalars, struct values field by field, an enum value as the
  Go struct of its variant) and the same observable world.  `compile_preserves_fragment` is
  the instance for `inGoFragment`; `compile_preserves_run` the whole-program form
  (`runGo m F = Sem.run fuel P`).
* **T3 `compile_order`** — the statements of `let x = v in body` are those of `v` followed by those
  of `body`, and the Go world after the first part is the `Sem` world after `v`: nothing of `body`
  runs before `v` is complete, and when `v` panics nothing of `body` runs at all.
* **T2 `compile_wellformed`** — the Go function compiled from a fragment function obeys Go's rules
  for locals (`scopeErrs = []`: every local declared before use, nothing redeclared or shadowed) and
  lies in the shape contract of the DCE theorems; hence (`dce_fn_scope_sound`) after dead-code
  elimination it still does and no local is left unused.  `compile_wellformed_typed_partial` is the
  typing half for stage (a) functions (against the total mirror `GoTyping.fnOKT` of `Go.check`'s typing rules).

What is missing for the full property (C01 for the back end): the fragment (`Vec`, `dyn` / trait
objects, `go`, floats, operations on literals whose Go constant value is not the run-time value
(`noConstExpr`), the string builtins beyond `builtinSig` are outside — those
functions stay decided by the per-program oracles), divergence (forward simulation of definite
runs only), and the composition with `eliminate_dead_vars` for a whole file (`dce_preserves` is
per block, callees not DCE'd at the same time).
-/
set_option linter.unusedSimpArgs false
set_option linter.unusedVariables false
namespace Goml.GoCompileProps
open Goml Goml.Go Goml.GoCompile Goml.GoFrag Goml.GoComp
open Goml.Sem (Val World Res Fail)
open Goml.C01 (toG)

/-- the anchors of `go/compile.rs`, `goast.rs`, `runtime.rs` extracted from the Rust text on every run
    are the ones the model and the fragment were written against: the callee names the `ECall` arm
    special-cases, `tast_ty_to_go_type` never answers `TVoid` (so the `TVoid` arm of `compile_fn`,
    `compile_aexpr`, is dead and rightly not modelled), the two `gensym` prefixes, the runtime
    functions in order, the set of lowering functions (a changed table stops the build) -/
theorem tables_are_modelled :
    Goml.Gen.gocompSpecialCallees = specialCallees ∧ Goml.Gen.gocompTyToGoMentionsVoid = false ∧
    Goml.Gen.gocompGensymPrefixes = ["cond", "ret"] ∧
    Goml.Gen.gocompRuntimeFns = runtimeFile.funcs.map (·.name) ∧
    Goml.Gen.gocompLoweringFns = ["compile_aexpr_effect", "compile_aexpr_assign", "compile_aexpr", "compile_while",
      "compile_match_branches", "compile_cexpr_effect", "compile_go", "compile_fn", "go_file"] := by
  refine ⟨by decide, rfl, by decide, by decide +kernel, by decide⟩

/-- T1 at function level from the facts about the two programs (`Link`) -/
theorem compile_preserves_of_link {env : Env} {file : AFile} {G : List String} {P : Prog} {F : GFile} (hl : Link env file G P F)
    (f : AFn) (hf : f ∈ file) (hfG : f.name ∈ G)
    (η : Hp) (hη : η.fns = fnSigs file G) (hηd : η.dyns = dynTable env file G) (args : List Val) (gargs : List GVal)
    (hargs : ArgsRel env η args gargs (f.params.map (·.2)))
    (w : World) (gw : GWorld) (hw : WRel env η w gw) (fuel : Nat) :
    match Sem.apply fuel P w (.fn f.name) args with
    | .ok v w' => ∃ m η' gv gw', η.le η' ∧ callG m F gw (.func (fnName f.name)) gargs = .ok gv gw' ∧
        VRel env η' v f.ret gv ∧ WRel env η' w' gw'
    | .fail (.panic k) w' => ∃ m η' gw', η.le η' ∧ callG m F gw (.func (fnName f.name)) gargs =
        .fail (.panic k) gw' ∧ WRel env η' w' gw'
    | _ => True := by
  have h := (sim_all hl fuel).u f hf hfG η args gargs w gw hη hηd hargs hw
  revert h
  cases Sem.apply fuel P w (.fn f.name) args with
  | ok v w' =>
    rintro ⟨η1, hle1, gv, gw', hc, h3, _, h5⟩
    obtain ⟨m, hm⟩ := hc.exists
    exact ⟨m, η1, gv, gw', hle1, hm, h3, h5⟩
  | fail fl w' =>
    cases fl with
    | panic k =>
      rintro ⟨η1, hle1, gw', hc, h5⟩
      obtain ⟨m, hm⟩ := hc.exists
      exact ⟨m, η1, gw', hle1, hm, h5⟩
    | fuel => intro _; trivial
    | stuck s => intro _; trivial

/-- **T1, function level.**  `G` is any set of function names of the file on which the decidable
    check `closedOK` succeeds (file-level name conditions + every member in the fragment
    with all its callees in `G` or builtins; no trait objects: see `compile_preserves_dyn`).  `args` / `gargs` are related
    arguments of the parameter types (`VRel`), `w` / `gw` related worlds (`WRel`: same stdout, extern events and schedule,
    the `Sem` store inside the Go heap, the no-spare-capacity `append` policy), `η` the heap context they are related in. -/
theorem compile_preserves (env : Env) (file : AFile) (n0 : Nat) (G : List String)
    (hG : closedOK env file n0 G = true) (P : Prog) (hP : P.fns = file.map AFn.toFn) (f : AFn) (hf : f ∈ file) (hfG : f.name ∈ G)
    (η : Hp) (hη : η.fns = fnSigs file G) (hηd : η.dyns = dynTable env file G) (args : List Val) (gargs : List GVal)
    (hargs : ArgsRel env η args gargs (f.params.map (·.2)))
    (w : World) (gw : GWorld) (hw : WRel env η w gw) (fuel : Nat) :
    match Sem.apply fuel P w (.fn f.name) args with
    | .ok v w' => ∃ m η' gv gw', η.le η' ∧ callG m (goFilePreSt env file n0).1 gw (.func (fnName f.name)) gargs = .ok gv gw' ∧
        VRel env η' v f.ret gv ∧ WRel env η' w' gw'
    | .fail (.panic k) w' => ∃ m η' gw', η.le η' ∧ callG m (goFilePreSt env file n0).1 gw (.func (fnName f.name)) gargs =
        .fail (.panic k) gw' ∧ WRel env η' w' gw'
    | _ => True :=
  compile_preserves_of_link (link_of_closed hG hP) f hf hfG η hη hηd args gargs hargs w gw hw fuel

/-- the hypothesis on the program's dispatch table under which trait objects are simulated (decidable; the harness
    evaluates it on every real program) -/
def ImplsOK (env : Env) (file : AFile) (G : List String) (P : Prog) : Prop := implsOK env file G P = true

instance (env : Env) (file : AFile) (G : List String) (P : Prog) : Decidable (ImplsOK env file G P) := by
  unfold ImplsOK; infer_instance

/-- **T1 with trait objects, function level.**  `G` may carry the flag `dynMarker` (`closedOKD`): then `EToDyn` and
    method calls on trait objects are in the fragment, for the vtables of `dynTable env file G`; `Sem` dispatches through
    `P.impls`, so the theorem assumes `ImplsOK`: the lookup `(trait, tyKey receiver, method)` finds the function the Go
    wrapper calls. -/
theorem compile_preserves_dyn (env : Env) (file : AFile) (n0 : Nat) (G : List String)
    (hG : closedOKD env file n0 G = true) (P : Prog) (hP : P.fns = file.map AFn.toFn) (hI : ImplsOK env file G P)
    (f : AFn) (hf : f ∈ file) (hfG : f.name ∈ G)
    (η : Hp) (hη : η.fns = fnSigs file G) (hηd : η.dyns = dynTable env file G) (args : List Val) (gargs : List GVal)
    (hargs : ArgsRel env η args gargs (f.params.map (·.2)))
    (w : World) (gw : GWorld) (hw : WRel env η w gw) (fuel : Nat) :
    match Sem.apply fuel P w (.fn f.name) args with
    | .ok v w' => ∃ m η' gv gw', η.le η' ∧ callG m (goFilePreSt env file n0).1 gw (.func (fnName f.name)) gargs = .ok gv gw' ∧
        VRel env η' v f.ret gv ∧ WRel env η' w' gw'
    | .fail (.panic k) w' => ∃ m η' gw', η.le η' ∧ callG m (goFilePreSt env file n0).1 gw (.func (fnName f.name)) gargs =
        .fail (.panic k) gw' ∧ WRel env η' w' gw'
    | _ => True :=
  compile_preserves_of_link (link_of_closedD hG hP (impls_of_ok hI)) f hf hfG η hη hηd args gargs hargs w gw hw fuel

/-- the hypothesis of T1 as one decidable predicate on a function of a file -/
def InGoFragment (env : Env) (file : AFile) (n0 : Nat) (f : AFn) : Prop := inGoFragment env file n0 f = true

instance (env : Env) (file : AFile) (n0 : Nat) (f : AFn) : Decidable (InGoFragment env file n0 f) := by
  unfold InGoFragment; infer_instance

/-- the same with trait objects admitted (the theorems then assume `ImplsOK`) -/
def InGoFragmentD (env : Env) (file : AFile) (n0 : Nat) (f : AFn) : Prop := inGoFragmentD env file n0 f = true

instance (env : Env) (file : AFile) (n0 : Nat) (f : AFn) : Decidable (InGoFragmentD env file n0 f) := by
  unfold InGoFragmentD; infer_instance

/-- **T1 for `InGoFragment`** (`G` = the set `goodFns` computes, its closure re-checked) -/
theorem compile_preserves_fragment (env : Env) (file : AFile) (n0 : Nat) (f : AFn) (hf : f ∈ file)
    (hfrag : InGoFragment env file n0 f) (P : Prog) (hP : P.fns = file.map AFn.toFn)
    (η : Hp) (hη : η.fns = fnSigs file (goodFns env file n0)) (hηd : η.dyns = dynTable env file (goodFns env file n0))
    (args : List Val) (gargs : List GVal)
    (hargs : ArgsRel env η args gargs (f.params.map (·.2)))
    (w : World) (gw : GWorld) (hw : WRel env η w gw) (fuel : Nat) :
    match Sem.apply fuel P w (.fn f.name) args with
    | .ok v w' => ∃ m η' gv gw', η.le η' ∧ callG m (goFilePreSt env file n0).1 gw (.func (fnName f.name)) gargs = .ok gv gw' ∧
        VRel env η' v f.ret gv ∧ WRel env η' w' gw'
    | .fail (.panic k) w' => ∃ m η' gw', η.le η' ∧ callG m (goFilePreSt env file n0).1 gw (.func (fnName f.name)) gargs =
        .fail (.panic k) gw' ∧ WRel env η' w' gw'
    | _ => True := by
  simp only [InGoFragment, inGoFragment, Bool.and_eq_true] at hfrag
  exact compile_preserves env file n0 _ hfrag.1 P hP f hf (by simpa using hfrag.2) η hη hηd args gargs hargs w gw hw fuel

/-- T1 for whole programs from the facts about the two programs (`Link`) -/
theorem compile_preserves_run_of_link {env : Env} {file : AFile} {n0 : Nat} {G : List String} {P : Prog}
    (hl : Link env file G P (goFilePreSt env file n0).1)
    (hnd : ((goFilePreSt env file n0).1.funcs.map (·.name)).Nodup)
    (f : AFn) (hf : f ∈ file) (hname : f.name = "main") (hps : f.params = [])
    (hfG : "main" ∈ G) (fuel : Nat) (eager : Bool)
    (hdef : (Sem.run fuel P "main" eager).status = "ok" ∨
      ∃ k, (Sem.run fuel P "main" eager).status = "panic:" ++ k) :
    ∃ m, runGo m (goFilePreSt env file n0).1 "main" eager = Sem.run fuel P "main" eager := by
  -- the Go `main` wrapper
  have hmainMem : mainFn ∈ (goFilePreSt env file n0).1.funcs := by
    rw [funcs_goFilePre]; simp
  have hmainFind : (goFilePreSt env file n0).1.findFunc "main" = some mainFn := by
    have := find?_of_nodup (fun g : GFunc => g.name) _ hnd _ hmainMem
    simpa [GFile.findFunc, mainFn] using this
  have hsim := (sim_all hl fuel).u f hf (hname ▸ hfG) { fns := fnSigs file G, dyns := dynTable env file G } [] []
    { eager := eager } { eager := eager, capPolicy := 0 }
    rfl rfl (by rw [hps]; trivial) (WRel.init env eager (fnSigs file G) (dynTable env file G))
  rw [hname] at hsim
  have hfn : fnName "main" = "main0" := by simp [fnName, isEntry]
  rw [hfn] at hsim
  -- `main` calls `main0`
  have hwrap : ∀ r, CallS (goFilePreSt env file n0).1 { eager := eager, capPolicy := 0 } (.func "main0") [] r →
      (∀ v gw', r = .ok v gw' → CallS (goFilePreSt env file n0).1 { eager := eager, capPolicy := 0 } (.func "main") [] (.ok .void gw')) ∧
      (∀ fl gw', r = .fail fl gw' → CallS (goFilePreSt env file n0).1 { eager := eager, capPolicy := 0 } (.func "main") [] (.fail fl gw')) := by
    intro r hc
    have hcall : EvS (goFilePreSt env file n0).1 [] { eager := eager, capPolicy := 0 }
        (.call .void (.var "main0" (.func [] .void)) []) r := ev_call (ev_var_none rfl) evl_nil hc
    refine ⟨fun v gw' hr => ?_, fun fl gw' hr => ?_⟩
    · subst hr
      exact call_func_env hmainFind rfl (block_cons (stmt_expr hcall) block_nil) rfl
    · subst hr
      exact call_func_env hmainFind rfl (block_cons_fail (stmt_expr_fail hcall)) rfl
  unfold Sem.run at hdef ⊢
  unfold runGo
  generalize hap : Sem.apply fuel P { eager := eager } (.fn "main") [] = r at hsim hdef ⊢
  cases r with
  | ok v w' =>
    obtain ⟨η1, _, gv, gw', hc, _, _, h5⟩ := hsim
    obtain ⟨m, hm⟩ := ((hwrap _ hc).1 gv gw' rfl).exists
    exact ⟨m, by rw [hm]; simp only [h5.out, h5.externs]⟩
  | fail fl w' =>
    cases fl with
    | panic k =>
      obtain ⟨η1, _, gw', hc, h5⟩ := hsim
      obtain ⟨m, hm⟩ := ((hwrap _ hc).2 _ gw' rfl).exists
      exact ⟨m, by rw [hm]; simp only [h5.out, h5.externs]⟩
    | fuel =>
      simp only [Sem.failStr] at hdef
      rcases hdef with hd | ⟨k, hd⟩
      · exact absurd hd (by decide)
      · exact absurd (congrArg String.toList hd) (by simp)
    | stuck s =>
      simp only [Sem.failStr] at hdef
      rcases hdef with hd | ⟨k, hd⟩
      · exact absurd (congrArg String.toList hd) (by simp)
      · exact absurd (congrArg String.toList hd) (by simp)

/-- **T1, whole program** (the shape `Props/C01pipe.lean` composes with): when the entry `main`
    (no parameters) is in the fragment, every definite `Sem.run` of the ANF program is the `runGo`
    outcome of the emitted file (before dead-code elimination) for some fuel — stdout, status and
    extern events. -/
theorem compile_preserves_run (env : Env) (file : AFile) (n0 : Nat) (G : List String)
    (hG : closedOK env file n0 G = true) (f : AFn) (hf : f ∈ file) (hname : f.name = "main") (hps : f.params = [])
    (hfG : "main" ∈ G) (P : Prog) (hP : P.fns = file.map AFn.toFn) (fuel : Nat) (eager : Bool)
    (hdef : (Sem.run fuel P "main" eager).status = "ok" ∨
      ∃ k, (Sem.run fuel P "main" eager).status = "panic:" ++ k) :
    ∃ m, runGo m (goFilePreSt env file n0).1 "main" eager = Sem.run fuel P "main" eager :=
  compile_preserves_run_of_link (link_of_closed hG hP) (closed_funcs_nodup (closedD_of_closed hG).1) f hf hname hps hfG fuel eager hdef

/-- **T1, whole program, with trait objects**: the same for a closed set that admits trait objects (`closedOKD`, `G` carries
    `dynMarker`), under `ImplsOK` on the program's dispatch table -/
theorem compile_preserves_run_dyn (env : Env) (file : AFile) (n0 : Nat) (G : List String)
    (hG : closedOKD env file n0 G = true) (f : AFn) (hf : f ∈ file) (hname : f.name = "main") (hps : f.params = [])
    (hfG : "main" ∈ G) (P : Prog) (hP : P.fns = file.map AFn.toFn) (hI : ImplsOK env file G P) (fuel : Nat) (eager : Bool)
    (hdef : (Sem.run fuel P "main" eager).status = "ok" ∨
      ∃ k, (Sem.run fuel P "main" eager).status = "panic:" ++ k) :
    ∃ m, runGo m (goFilePreSt env file n0).1 "main" eager = Sem.run fuel P "main" eager :=
  compile_preserves_run_of_link (link_of_closedD hG hP (impls_of_ok hI)) (closed_funcs_nodup hG) f hf hname hps hfG fuel eager hdef

/-! ## statement level (what T1 is built from) -/

/-- the hypotheses of the statement-level simulation at a program point, bundled: `e` is in the
    fragment under the context `Γ` (and `K`: the variables whose enum variant an enclosing `match` arm
    fixed), the environments and worlds are related, the Go names `S` is about to declare are new,
    the assignment target is a declared Go variable -/
structure Ready (env : Env) (η : Hp) (file : AFile) (G : List String) (Bad : List String) (m : Mode) (st : St) (e : AExpr)
    (Γ : GoFrag.Ctx) (K : KCtx) (ρ : Sem.Env) (w : World) (gρ : GEnv) (gw : GWorld) : Prop where
  frag : fragA env file G Γ K e = true
  envs : EnvRel env η Γ ρ gρ
  known : KRel K ρ
  worlds : WRel env η w gw
  names : GInv Bad (compileA env m st e).1 gρ
  target : TgtOK m Γ gρ (aTy e)
  blank : "_" ∈ Bad
  fns : FCtx env file G Bad η
  callees : ∀ x, x ∈ calleesA (Γ.map (·.1)) e → x ∈ Bad

/-- **T1, statement level**: the statements `compile_aexpr_effect` / `compile_aexpr_assign` emit for
    an ANF expression of the fragment reproduce every definite `Sem.eval` run of it: same world, and
    in assign mode the target variable holds the corresponding value afterwards (`Concl`). -/
theorem compile_stmts_preserve (env : Env) (η : Hp) (file : AFile) (n0 : Nat) (G : List String)
    (hG : closedOK env file n0 G = true) (P : Prog) (hP : P.fns = file.map AFn.toFn) (Bad : List String) (m : Mode) (st : St) (e : AExpr) (Γ : GoFrag.Ctx) (K : KCtx) (ρ : Sem.Env)
    (w : World) (gρ : GEnv) (gw : GWorld) (h : Ready env η file G Bad m st e Γ K ρ w gρ gw) (fuel : Nat) :
    Concl env η (goFilePreSt env file n0).1 (compileA env m st e).1 m gρ gw (aTy e)
      (Sem.eval fuel P ρ w e.toExpr) :=
  (sim_all (link_of_closed hG hP) fuel).a m st e η Γ K ρ w gρ gw Bad h.frag h.envs h.known h.worlds h.names h.target h.blank h.fns h.callees

/-- **T3 `compile_order`**: the Go statements of `let x = v in body` are those of `v`
    (`letPrefix`, which does not depend on `body`) followed by those of `body`; the first part runs
    to completion — leaving exactly the `Sem` world after `v` and the value of `v` in the Go variable
    of `x` — before any statement of `body`, and when `v` panics the block panics there, whatever
    follows.  So successive `let`s perform their effects in ANF order and a failure cuts off
    everything after it. -/
theorem compile_order (env : Env) (η : Hp) (file : AFile) (n0 : Nat) (G : List String)
    (hG : closedOK env file n0 G = true) (P : Prog) (hP : P.fns = file.map AFn.toFn) (Bad : List String) (m : Mode) (st : St) (x : String) (v : CExpr)
    (body : AExpr) (ty : Ty) (Γ : GoFrag.Ctx) (K : KCtx) (ρ : Sem.Env) (w : World) (gρ : GEnv) (gw : GWorld)
    (h : Ready env η file G Bad m st (.letE x v body ty) Γ K ρ w gρ gw) (fuel : Nat) :
    (compileA env m st (.letE x v body ty)).1 =
        letPrefix env st x v ++ (compileA env m (letBodySt env st x v) body).1 ∧
    (match Sem.eval fuel P ρ w v.toExpr with
     | .ok vv w1 => ∃ η1, η.le η1 ∧ ∃ env1 gv gw1,
         BlockS (goFilePreSt env file n0).1 gρ gw (letPrefix env st x v) (.ok (env1, .normal) gw1) ∧ WRel env η1 w1 gw1 ∧
         lookupG env1 (vn x) = some gv ∧ VRel env η1 vv v.annTy gv
     | .fail (.panic k) w1 => ∀ rest, ∃ η1, η.le η1 ∧ ∃ gw1,
         BlockS (goFilePreSt env file n0).1 gρ gw (letPrefix env st x v ++ rest) (.fail (.panic k) gw1) ∧ WRel env η1 w1 gw1
     | _ => True) :=
  ⟨compileA_let env m st x v body ty,
   let_order (sim_all (link_of_closed hG hP) fuel).v (sim_all (link_of_closed hG hP) fuel).c (sim_all (link_of_closed hG hP) fuel).g m st x v body ty Γ K ρ w gρ gw Bad
     h.frag h.envs h.known h.worlds h.names h.blank h.fns h.callees⟩

/-- operands keep their ANF order in the emitted expression (`Go.Sem` evaluates `l` before `r`, and
    call arguments left to right) -/
theorem compile_order_operands (env : Env) (op : BinOp) (l r : Imm) (ty : Ty) :
    compileCExpr env (.bin op l r ty) = .bin (gBin op) (goTy ty) (compileImm env l) (compileImm env r) := rfl

/-! ## T2 -/

/-- **T2 `compile_wellformed`**: for a function `f` of a closed set `G`, the compiled Go function
    `gf` (found in the emitted file under `fnName f.name`)
    * declares every local before use and never redeclares or shadows one (`scopeErrs = []`, with
      `D` = its parameters and declarations, initial scope = its parameters),
    * lies inside the shape contract of the DCE theorems (`shapeOK`),
    and therefore after `dce_block_with_live` (`Dce.dceBody`) the same scope rules hold and no
    declared local is unused (`unusedStmts = []`). -/
theorem compile_wellformed (env : Env) (file : AFile) (n0 : Nat) (G : List String)
    (hG : closedOK env file n0 G = true) (f : AFn) (hf : f ∈ file) (hfG : f.name ∈ G) :
    ∃ gf, (goFilePreSt env file n0).1.findFunc (fnName f.name) = some gf ∧
      Goml.Dce.scopeErrs (Goml.Dce.localsOf gf) (gf.params.map (·.1)) gf.body = [] ∧
      Goml.Dce.shapeOK gf.body = true ∧
      Goml.Dce.scopeErrs (Goml.Dce.localsOf gf) (gf.params.map (·.1)) (Goml.Dce.dceBody gf.body) = [] ∧
      Goml.Dce.unusedStmts (Goml.Dce.dceBody gf.body) = [] := by
  obtain ⟨st, hfind, hlocal⟩ := (link_of_closed hG (P := progOf file) rfl).fnGo f hf hfG
  have hclean := fn_clean hlocal
  exact ⟨_, hfind, hclean.1, hclean.2, (Goml.Dce.dce_fn_scope_sound _ hclean.1 hclean.2).1,
    (Goml.Dce.dce_fn_scope_sound _ hclean.1 hclean.2).2⟩

/-- **T2, typing half `compile_wellformed_typed_partial`**: for a function `f` of a closed set `G` that is inside the part
    of the fragment the typing half covers (`stdFn`: parameters, result and every annotation are unit / bool / string / an
    integer type of a Go width / a struct type — closure environments included — / an enum type / a function type / a
    reference, tuple or array of those; operators; calls of functions of `G` — also through a local of function type, also
    with function names as arguments —, of the printing builtins and of the reference and array helpers (`ref__T`,
    `ref_get__T`, `ref_set__T`, `array_get__T`, `array_set__T`: an index of type `int32`, the helper's parameter type);
    construction and field access of admitted structs, enum variants, tuples (of a tuple type whose struct the file
    declares) and arrays; `let`, `if`, `while`; `match` on an enum variable that no enclosing arm has narrowed already
    (Go rejects a type switch on a variable of struct type: the known C02 finding), on a literal, on unit; `go`),
    in a file whose struct declarations carry the Go types of the fields and whose variant structs have the methods of
    their enum's interface (`typedTablesOK`: decidable, on the model's own output), the compiled Go function obeys the
    **typing** rules of `Go.check` — every expression has the Go type of its ANF annotation (up to `norm`: the result type
    of a call is the normalised one) or, for a value of enum type, the struct type of one of its variants (a variable inside
    the arm of a type switch on it, a variant literal: assignable to the enum's interface by its method set); operands
    agree, conditions are `bool`, a type switch is on an interface, case labels have the scrutinee's type, payload fields
    are read from the variant's struct, call arguments, fields and elements of composite literals, assignments,
    initialisers and the `return` are assignable, integer literals fit their type, expression statements are calls, the body
    ends in a `return` — in the typing context of the emitted file.
    *Partial* in two ways: (i) not all of the fragment (trait objects are not covered; `Vec` operations and `string_len`
    cannot be: the mirror answers "unknown" on `append`, `len` and conversions); (ii) `Go.check` itself is
    written with `partial def`s, opaque to the kernel, so the statement is about its total mirror `GoTyping.fnOKT`
    (`Model/GoTyping.lean`), which `gomlmodel gocomp` compares with `Go.check` on every function of every real emitted file
    on every run (0 disagree).  No separate `Wt` hypothesis: the fragment check `fragA` is itself a type checker of the ANF
    (every variable at its binder's type, every operator and call at its signature) and is what the proof uses. -/
theorem compile_wellformed_typed_partial (env : Env) (file : AFile) (n0 : Nat) (G : List String)
    (hG : closedOK env file n0 G = true) (hT : typedTablesOK env file n0 = true) (f : AFn) (hf : f ∈ file) (hfG : f.name ∈ G)
    (hstd : stdFn env file f = true) :
    ∃ gf, (goFilePreSt env file n0).1.findFunc (fnName f.name) = some gf ∧
      Goml.GoTyping.fnOKT (Goml.GoTyping.mkTCtx (goFilePreSt env file n0).1) gf = .ok () := by
  have hl := link_of_closed hG (P := progOf file) rfl
  obtain ⟨st, hfind, hlocal⟩ := hl.fnGo f hf hfG
  simp only [typedTablesOK, Bool.and_eq_true] at hT
  exact ⟨_, hfind, fn_typed (tlink_of_link hl hT.1.1 hT.1.2 hT.2) hlocal hstd⟩

/-! ## non-vacuity: a concrete file inside the fragment -/
section Examples
private def t32 : Ty := .int 32 true
private def litI (v : Int) : Imm := .prim (.int 32 true v) t32
/-- `fn add(a, b) { a + b }` -/
private def exAdd : AFn :=
  { name := "add", params := [("a/0", t32), ("b/1", t32)], ret := t32,
    body := .ret (.bin .add (.var "a/0" t32) (.var "b/1" t32) t32) }
/-- `let x = add(1, 2); let t = x > 2; let s = if t {"big"} else {"small"}; while x < 0 { println("never") };`
    `println(int32_to_string(x) + s)` in ANF -/
private def exMainBody : AExpr :=
  .letE "x/2" (.call (.var "add" (.func [t32, t32] t32)) [litI 1, litI 2] t32)
  (.letE "t10" (.bin .greater (.var "x/2" t32) (litI 2) .bool)
  (.letE "s/4" (.ite (.var "t10" .bool) (.ret (.imm (.prim (.str "big") .string))) (.ret (.imm (.prim (.str "small") .string))) .string)
  (.letE "w/5" (.while (.ret (.bin .less (.var "x/2" t32) (litI 0) .bool))
                  (.ret (.call (.var "string_println" (.func [.string] .unit)) [.prim (.str "never") .string] .unit)) .unit)
  (.letE "t5" (.call (.var "int32_to_string" (.func [t32] .string)) [.var "x/2" t32] .string)
  (.letE "t6" (.bin .add (.var "t5" .string) (.var "s/4" .string) .string)
  (.ret (.call (.var "string_println" (.func [.string] .unit)) [.var "t6" .string] .unit)) .unit) .unit) .unit) .unit) .unit) .unit
private def exMain : AFn := { name := "main", params := [], ret := .unit, body := exMainBody }
private def exFile : AFile := [exAdd, exMain]

/-- both functions are in the fragment (file-level conditions, source and Go-side checks) -/
example : InGoFragment {} exFile 0 exMain ∧ InGoFragment {} exFile 0 exAdd := by
  constructor <;> (unfold InGoFragment; decide +kernel)

/-- both are stage (a) functions, so the typing half of T2 applies to them: the functions the back end emits for
    them are well typed -/
example : stdFn {} exFile exMain = true ∧ stdFn {} exFile exAdd = true ∧ typedTablesOK {} exFile 0 = true := by decide +kernel
example : ∃ gf, (goFilePreSt {} exFile 0).1.findFunc "main0" = some gf ∧
    Goml.GoTyping.fnOKT (Goml.GoTyping.mkTCtx (goFilePreSt {} exFile 0).1) gf = .ok () :=
  compile_wellformed_typed_partial {} exFile 0 (goodFns {} exFile 0) (by decide +kernel) (by decide +kernel) exMain (by simp [exFile])
    (by decide +kernel) (by decide +kernel)

/-- the hypotheses of `compile_preserves_run` hold of it and its `Sem` run is definite -/
example : closedOK {} exFile 0 (goodFns {} exFile 0) = true ∧ "main" ∈ goodFns {} exFile 0 ∧
    (Sem.run 200 (progOf exFile)).status = "ok" ∧ (Sem.run 200 (progOf exFile)).out = "3big\n" := by
  decide +kernel

/-- struct values are inside: `struct P { x: int32, y: int32 }`, `fn sum(p) { p.x + p.y }`,
    `fn mk(a) { P { x: a, y: a } }` with the emitted file declaring `P` with exactly these fields -/
private def envP : Env :=
  { structs := [{ name := "P", generics := [], fields := [("x", t32), ("y", t32)] }],
    structsLookup := [{ name := "P", generics := [], fields := [("x", t32), ("y", t32)] }] }
private def exSum : AFn :=
  { name := "sum", params := [("p/0", .struct "P")], ret := t32,
    body := .letE "t1" (.cget (.var "p/0" (.struct "P")) (.struct "P") 0 t32)
      (.letE "t2" (.cget (.var "p/0" (.struct "P")) (.struct "P") 1 t32)
      (.ret (.bin .add (.var "t1" t32) (.var "t2" t32) t32)) t32) t32 }
private def exMk : AFn :=
  { name := "mk", params := [("a/0", t32)], ret := .struct "P",
    body := .ret (.constr (.struct "P") [.var "a/0" t32, .var "a/0" t32] (.struct "P")) }
example : InGoFragment envP [exSum, exMk] 0 exSum ∧ InGoFragment envP [exSum, exMk] 0 exMk := by
  constructor <;> (unfold InGoFragment; decide +kernel)
/-- and the typing half of T2 applies to both (the struct table carries the field types) -/
example : stdFn envP [exSum, exMk] exSum = true ∧ stdFn envP [exSum, exMk] exMk = true ∧
    typedTablesOK envP [exSum, exMk] 0 = true := by decide +kernel

/-- enum values and `match` are inside: `enum Opt { None, Some(int32) }`, `fn get(o) { match o { None => 0, Some(x) => x } }`
    (type switch, payload read in the arm that fixes the variant), `fn mk(a) { Some(a) }`, and a `main` that matches on
    an integer (value switch with a default) and on unit (first arm in place) -/
private def envE : Env :=
  { enums := [{ name := "Opt", generics := [], variants := [("None", []), ("Some", [t32])] }] }
private def tOpt : Ty := .enum "Opt"
private def exGet : AFn :=
  { name := "get", params := [("o/0", tOpt)], ret := t32,
    body := .ret (.matchE (.var "o/0" tOpt)
      [.mk (.tag 0 tOpt) (.ret (.imm (litI 0))),
       .mk (.tag 1 tOpt) (.letE "x0" (.cget (.var "o/0" tOpt) (.enum "Opt" "Some" 1) 0 t32) (.ret (.imm (.var "x0" t32))) t32)]
      .none t32) }
private def exMkSome : AFn :=
  { name := "mk", params := [("a/0", t32)], ret := tOpt,
    body := .ret (.constr (.enum "Opt" "Some" 1) [.var "a/0" t32] tOpt) }
private def exMainE : AFn :=
  { name := "main", params := [], ret := .unit,
    body :=
      .letE "o/1" (.call (.var "mk" (.func [t32] tOpt)) [litI 5] tOpt)
      (.letE "n/2" (.imm (.tag 0 tOpt))
      (.letE "r/3" (.call (.var "get" (.func [tOpt] t32)) [.var "o/1" tOpt] t32)
      (.letE "u/4" (.matchE (.var "r/3" t32)
          [.mk (litI 5) (.ret (.call (.var "string_println" (.func [.string] .unit)) [.prim (.str "five") .string] .unit))]
          (.some (.ret (.call (.var "string_println" (.func [.string] .unit)) [.prim (.str "other") .string] .unit))) .unit)
      (.ret (.matchE (.var "u/4" .unit)
          [.mk (.prim .unit .unit) (.ret (.call (.var "string_println" (.func [.string] .unit)) [.prim (.str "done") .string] .unit))]
          .none .unit)) .unit) .unit) .unit) .unit }
private def exFileE : AFile := [exGet, exMkSome, exMainE]
example : InGoFragment envE exFileE 0 exGet ∧ InGoFragment envE exFileE 0 exMkSome ∧ InGoFragment envE exFileE 0 exMainE := by
  refine ⟨?_, ?_, ?_⟩ <;> (unfold InGoFragment; decide +kernel)
example : (Sem.run 200 (progOf exFileE)).status = "ok" ∧ (Sem.run 200 (progOf exFileE)).out = "five\ndone\n" := by
  decide +kernel
/-- and the typing half of T2 applies to all three (type switch with the payload read in the arm, value switch, unit match) -/
example : stdFn envE exFileE exGet = true ∧ stdFn envE exFileE exMkSome = true ∧ stdFn envE exFileE exMainE = true ∧
    typedTablesOK envE exFileE 0 = true := by decide +kernel
/-- the same local in two clauses of a `match` is inside (each clause is its own Go block: `scopedLocalsOK`), declared
    twice in one block it is outside (Go rejects the redeclaration) -/
private def exGet2 : AFn :=
  { name := "get2", params := [("o/0", tOpt)], ret := t32,
    body := .ret (.matchE (.var "o/0" tOpt)
      [.mk (.tag 0 tOpt) (.letE "x0" (.imm (litI 0)) (.ret (.imm (.var "x0" t32))) t32),
       .mk (.tag 1 tOpt) (.letE "x0" (.cget (.var "o/0" tOpt) (.enum "Opt" "Some" 1) 0 t32) (.ret (.imm (.var "x0" t32))) t32)]
      .none t32) }
private def exTwice : AFn :=
  { name := "twice", params := [], ret := t32,
    body := .letE "x0" (.imm (litI 0)) (.letE "x0" (.imm (litI 1)) (.ret (.imm (.var "x0" t32))) t32) t32 }
example : InGoFragment envE [exGet2] 0 exGet2 ∧ ¬ InGoFragment envE [exTwice] 0 exTwice := by
  refine ⟨?_, ?_⟩ <;> (unfold InGoFragment; decide +kernel)
/-- reading a payload outside the arm that fixes the variant is outside the fragment -/
private def exBadGet : AFn :=
  { name := "bad", params := [("o/0", tOpt)], ret := t32,
    body := .ret (.cget (.var "o/0" tOpt) (.enum "Opt" "Some" 1) 0 t32) }
example : ¬ InGoFragment envE [exBadGet] 0 exBadGet := by unfold InGoFragment; decide +kernel

/-- references are inside: `fn bump(r: Ref[int32]) { ref_set(r, ref_get(r) + 41) }`, and a `main` that allocates a cell,
    passes it on and reads it back (the `Sem` store against the Go heap: `WRel`) -/
private def tRef : Ty := .ref t32
private def exBump : AFn :=
  { name := "bump", params := [("r/0", tRef)], ret := .unit,
    body :=
      .letE "t1" (.call (.var "ref_get" (.func [tRef] t32)) [.var "r/0" tRef] t32)
      (.letE "t2" (.bin .add (.var "t1" t32) (litI 41) t32)
      (.ret (.call (.var "ref_set" (.func [tRef, t32] .unit)) [.var "r/0" tRef, .var "t2" t32] .unit)) .unit) .unit }
private def exMainR : AFn :=
  { name := "main", params := [], ret := .unit,
    body :=
      .letE "r/1" (.call (.var "ref" (.func [t32] tRef)) [litI 1] tRef)
      (.letE "u/2" (.call (.var "bump" (.func [tRef] .unit)) [.var "r/1" tRef] .unit)
      (.letE "t3" (.call (.var "ref_get" (.func [tRef] t32)) [.var "r/1" tRef] t32)
      (.letE "t4" (.call (.var "int32_to_string" (.func [t32] .string)) [.var "t3" t32] .string)
      (.ret (.call (.var "string_println" (.func [.string] .unit)) [.var "t4" .string] .unit)) .unit) .unit) .unit) .unit }
private def exFileR : AFile := [exBump, exMainR]
example : InGoFragment {} exFileR 0 exBump ∧ InGoFragment {} exFileR 0 exMainR := by
  constructor <;> (unfold InGoFragment; decide +kernel)
example : stdFn {} exFileR exBump = true ∧ stdFn {} exFileR exMainR = true ∧ typedTablesOK {} exFileR 0 = true := by decide +kernel
example : (Sem.run 200 (progOf exFileR)).status = "ok" ∧ (Sem.run 200 (progOf exFileR)).out = "42\n" := by
  decide +kernel

/-- tuples are inside: `fn pair(a) { (a, "x") }`, `fn fst(p) { p.0 }` (the Go struct of a tuple is named after its
    component types; the emitted file declares it) -/
private def tPair : Ty := .tuple [t32, .string]
private def exTuple : AFn :=
  { name := "pair", params := [("a/0", t32)], ret := tPair,
    body := .ret (.tuple [.var "a/0" t32, .prim (.str "x") .string] tPair) }
private def exFst : AFn :=
  { name := "fst", params := [("p/0", tPair)], ret := t32, body := .ret (.proj (.var "p/0" tPair) 0 t32) }
example : InGoFragment {} [exTuple, exFst] 0 exTuple ∧ InGoFragment {} [exTuple, exFst] 0 exFst := by
  constructor <;> (unfold InGoFragment; decide +kernel)
example : stdFn {} [exTuple, exFst] exTuple = true ∧ stdFn {} [exTuple, exFst] exFst = true ∧
    typedTablesOK {} [exTuple, exFst] 0 = true := by decide +kernel

/-- arrays are inside: `fn mk(a) { [a, a] }`, `fn upd(x, i) { array_get(array_set(x, i, 7), 0) }` (out-of-range
    indexing panics on both sides) -/
private def tArr : Ty := .array 2 t32
private def exArray : AFn :=
  { name := "arr", params := [("a/0", t32)], ret := tArr,
    body := .ret (.array [.var "a/0" t32, .var "a/0" t32] tArr) }
private def exUpd : AFn :=
  { name := "upd", params := [("x/0", tArr), ("i/1", t32)], ret := t32,
    body := .letE "y/2" (.call (.var "array_set" (.func [tArr, t32, t32] tArr)) [.var "x/0" tArr, .var "i/1" t32, litI 7] tArr)
      (.ret (.call (.var "array_get" (.func [tArr, t32] t32)) [.var "y/2" tArr, litI 0] t32)) t32 }
example : InGoFragment {} [exArray, exUpd] 0 exArray ∧ InGoFragment {} [exArray, exUpd] 0 exUpd := by
  constructor <;> (unfold InGoFragment; decide +kernel)
example : stdFn {} [exArray, exUpd] exArray = true ∧ stdFn {} [exArray, exUpd] exUpd = true := by decide +kernel

/-- `Vec` is inside (under the no-spare-capacity policy of `runGo`'s default `capPolicy = 0`, which is part of `WRel`):
    `fn push2(v, x) { vec_push(vec_push(v, x), x) }`, and a `main` that builds a vector, reads it back and prints its length
    and an element; reading past the end panics on both sides -/
private def tVec : Ty := .vec t32
private def exPush2 : AFn :=
  { name := "push2", params := [("v/0", tVec), ("x/1", t32)], ret := tVec,
    body := .letE "t2" (.call (.var "vec_push" (.func [tVec, t32] tVec)) [.var "v/0" tVec, .var "x/1" t32] tVec)
      (.ret (.call (.var "vec_push" (.func [tVec, t32] tVec)) [.var "t2" tVec, .var "x/1" t32] tVec)) tVec }
private def exMainV : AFn :=
  { name := "main", params := [], ret := .unit,
    body :=
      .letE "e/0" (.call (.var "vec_new" (.func [] tVec)) [] tVec)
      (.letE "v/1" (.call (.var "push2" (.func [tVec, t32] tVec)) [.var "e/0" tVec, litI 7] tVec)
      (.letE "n/2" (.call (.var "vec_len" (.func [tVec] t32)) [.var "v/1" tVec] t32)
      (.letE "g/3" (.call (.var "vec_get" (.func [tVec, t32] t32)) [.var "v/1" tVec, litI 1] t32)
      (.letE "s/4" (.bin .add (.var "n/2" t32) (.var "g/3" t32) t32)
      (.letE "t5" (.call (.var "int32_to_string" (.func [t32] .string)) [.var "s/4" t32] .string)
      (.letE "u/6" (.call (.var "string_println" (.func [.string] .unit)) [.var "t5" .string] .unit)
      (.letE "b/7" (.call (.var "vec_get" (.func [tVec, t32] t32)) [.var "e/0" tVec, litI 0] t32)
      (.ret (.call (.var "string_println" (.func [.string] .unit)) [.prim (.str "unreachable") .string] .unit))
      .unit) .unit) .unit) .unit) .unit) .unit) .unit) .unit }
private def exFileV : AFile := [exPush2, exMainV]
example : InGoFragment {} exFileV 0 exPush2 ∧ InGoFragment {} exFileV 0 exMainV := by
  constructor <;> (unfold InGoFragment; decide +kernel)
example : (Sem.run 200 (progOf exFileV)).status = "panic:index out of range" ∧ (Sem.run 200 (progOf exFileV)).out = "9\n" := by
  decide +kernel

/-- a function that makes a trait object is outside the fragment (the model still compiles it: the tie
    covers it, the theorem does not) -/
private def exDyn : AFn :=
  { name := "mkdyn", params := [("a/0", t32)], ret := .dyn "Show",
    body := .ret (.toDyn "Show" t32 (.var "a/0" t32) (.dyn "Show")) }
example : ¬ InGoFragment {} [exDyn] 0 exDyn := by unfold InGoFragment; decide +kernel

/-- function values are inside: a top-level function passed as an argument (`apply(inc, 41)`) and called through the
    parameter that holds it (`f(x)`: a Go call through a variable of function type) -/
private def tFn : Ty := .func [t32] t32
private def exInc : AFn :=
  { name := "inc", params := [("a/0", t32)], ret := t32, body := .ret (.bin .add (.var "a/0" t32) (litI 1) t32) }
private def exApply : AFn :=
  { name := "apply", params := [("f/0", tFn), ("x/1", t32)], ret := t32,
    body := .ret (.call (.var "f/0" tFn) [.var "x/1" t32] t32) }
private def exMainF : AFn :=
  { name := "main", params := [], ret := .unit,
    body :=
      .letE "r/0" (.call (.var "apply" (.func [tFn, t32] t32)) [.var "inc" tFn, litI 41] t32)
      (.letE "t1" (.call (.var "int32_to_string" (.func [t32] .string)) [.var "r/0" t32] .string)
      (.ret (.call (.var "string_println" (.func [.string] .unit)) [.var "t1" .string] .unit)) .unit) .unit }
private def exFileF : AFile := [exInc, exApply, exMainF]
example : InGoFragment {} exFileF 0 exInc ∧ InGoFragment {} exFileF 0 exApply ∧ InGoFragment {} exFileF 0 exMainF := by
  refine ⟨?_, ?_, ?_⟩ <;> (unfold InGoFragment; decide +kernel)
example : (Sem.run 200 (progOf exFileF)).status = "ok" ∧ (Sem.run 200 (progOf exFileF)).out = "42\n" := by
  decide +kernel

/-- an operation on literals only is a Go *constant expression* (finding C10: evaluated exactly and range-checked at compile
    time — `2147483647 + 1` at `int32` does not compile, `0.1 + 0.2` is `0.3`), where `Go.Sem` is not faithful to Go: such
    functions are outside the fragment (`noConstExpr`, checked on the emitted function); the same sum with a variable
    operand is inside -/
private def exConstI : AFn :=
  { name := "k", params := [], ret := t32, body := .ret (.bin .add (litI 2147483647) (litI 1) t32) }
private def exConstF : AFn :=
  { name := "kf", params := [], ret := .float 64,
    body := .ret (.bin .add (.prim (.float 64 0x3FB999999999999A) (.float 64)) (.prim (.float 64 0x3FC999999999999A) (.float 64)) (.float 64)) }
/-- on the emitted expressions: the overflowing sum and the float sum are rejected, `1 + 2` (exact result in range: Go's
    constant is the run-time value) is accepted -/
example : noConstE (compileCExpr {} (.bin .add (litI 2147483647) (litI 1) t32)) = false ∧
    noConstE (compileCExpr {} (.bin .add (litI 1) (litI 2) t32)) = true ∧
    noConstE (compileCExpr {} (.bin .add (.prim (.float 64 0x3FB999999999999A) (.float 64))
      (.prim (.float 64 0x3FC999999999999A) (.float 64)) (.float 64))) = false := by
  refine ⟨?_, ?_, ?_⟩ <;>
    simp [compileCExpr, compileImm, lit, litI, t32, goTy, noConstE, constG, constOpOK, intLitG, toString_toInt, gBin] <;> decide
example : noConstExpr {} { n := 0, ok := true } exInc = true := by decide +kernel
example : ¬ InGoFragment {} [exConstF] 0 exConstF := by unfold InGoFragment; decide +kernel
/-- `go` is inside: `go f` for a lambda-lifted closure `f` is the statement `go apply(env)`; under the eager schedule both
    sides run it at the `go`, under the other both only record it -/
private def envG : Env :=
  { structs := [{ name := "closure_env_main_0", generics := [], fields := [] }],
    structsLookup := [{ name := "closure_env_main_0", generics := [], fields := [] }],
    applyTys := [("closure_env_main_0", some (.func [.struct "closure_env_main_0"] .unit))] }
private def tEnv : Ty := .struct "closure_env_main_0"
private def exApplyG : AFn :=
  { name := "inherent#closure_env_main_0#closure_env_main_0#apply", params := [("env0", tEnv)], ret := .unit,
    body := .ret (.call (.var "string_println" (.func [.string] .unit)) [.prim (.str "spawned") .string] .unit) }
private def exMainG : AFn :=
  { name := "main", params := [], ret := .unit,
    body :=
      .letE "t1" (.constr (.struct "closure_env_main_0") [] tEnv)
      (.letE "_wild2" (.go (.var "t1" tEnv) .unit)
      (.ret (.call (.var "string_println" (.func [.string] .unit)) [.prim (.str "main") .string] .unit)) .unit) .unit }
private def exFileG : AFile := [exApplyG, exMainG]
example : InGoFragment envG exFileG 0 exApplyG ∧ InGoFragment envG exFileG 0 exMainG := by
  constructor <;> (unfold InGoFragment; decide +kernel)
example : stdFn envG exFileG exApplyG = true ∧ stdFn envG exFileG exMainG = true ∧ typedTablesOK envG exFileG 0 = true := by decide +kernel
example : (Sem.run 200 (progOf exFileG)).out = "spawned\nmain\n" ∧ (Sem.run 200 (progOf exFileG) "main" false).out = "main\n" := by
  decide +kernel
/-- trait objects are inside `InGoFragmentD`: `trait Show { fn show(self) -> string }`, `impl Show for P`, and a `main` that
    converts a `P` to `dyn Show` and calls the method through the vtable; the program's dispatch table satisfies `ImplsOK`;
    without the flag (`InGoFragment`) the same `main` is outside -/
private def envD : Env :=
  { structs := [{ name := "P", generics := [], fields := [] }],
    structsLookup := [{ name := "P", generics := [], fields := [] }],
    traits := [("Show", [("show", .func [.param "Self"] .string)])] }
private def implShowP : String := Goml.Mono.traitImplFnName "Show" (.struct "P") "show"
private def exShowImpl : AFn :=
  { name := implShowP, params := [("self/0", .struct "P")], ret := .string,
    body := .ret (.imm (.prim (.str "a P") .string)) }
private def exMainD : AFn :=
  { name := "main", params := [], ret := .unit,
    body :=
      .letE "p/1" (.constr (.struct "P") [] (.struct "P"))
      (.letE "d/2" (.toDyn "Show" (.struct "P") (.var "p/1" (.struct "P")) (.dyn "Show"))
      (.letE "s/3" (.dynCall "Show" "show" (.var "d/2" (.dyn "Show")) [] .string)
      (.ret (.call (.var "string_println" (.func [.string] .unit)) [.var "s/3" .string] .unit)) .unit) .unit) .unit }
private def exFileD : AFile := [exShowImpl, exMainD]
private def exProgD : Prog := { fns := exFileD.map AFn.toFn, impls := [("Show", "P", "show", implShowP)] }
example : InGoFragmentD envD exFileD 0 exMainD ∧ InGoFragmentD envD exFileD 0 exShowImpl ∧ ¬ InGoFragment envD exFileD 0 exMainD := by
  refine ⟨?_, ?_, ?_⟩ <;> (first | unfold InGoFragmentD | unfold InGoFragment) <;> decide +kernel
example : ImplsOK envD exFileD (goodFnsD envD exFileD 0) exProgD := by unfold ImplsOK; decide +kernel
example : (Sem.run 200 exProgD).status = "ok" ∧ (Sem.run 200 exProgD).out = "a P\n" := by decide +kernel
/-- a numeric literal that becomes a trait object is stored under the conversion to its own type (`int32(42)`: as a bare
    untyped constant Go would store an `int`, finding C01 / go-default-typing), a variable as it is -/
example : (∃ lit, dynDataExpr {} (litI 42) = .call (.int 32 true) (.var "int32" (.func [.int 32 true] (.int 32 true))) [lit]) ∧
    dynDataExpr {} (.var "x" t32) = .var (vn "x") (.int 32 true) := ⟨⟨_, rfl⟩, rfl⟩
/-! ### Go.Check: constants must be representable (round 11)
`Go.constOverflow` is the arithmetic core of `Go.Scope.constFits` (the rule applied wherever `Go.check` demands
assignability to a typed target, and on a constant operand against a typed operand). -/
/-- the literal texts are written as the back end prints them (`v.to_string()`, here `toString v`; read back by
    `String.toInt?`, `toString_toInt`).  Representable: the extreme values of uint64 and int8 (a negative literal is one
    token `-128`, and unary minus on a literal is the same constant) -/
example : Go.constOverflow 64 false (.int (toString (18446744073709551615 : Int)) (.int 64 false)) = none ∧
    Go.constOverflow 64 false (.int (toString (9223372036854775808 : Int)) (.int 64 false)) = none ∧
    Go.constOverflow 8 true (.int (toString (-128 : Int)) (.int 8 true)) = none ∧
    Go.constOverflow 8 true (.un .neg (.int 8 true) (.int (toString (128 : Int)) (.int 8 true))) = none := by
  simp [Go.constOverflow, Go.intConst, toString_toInt, Go.intFits]
/-- not representable: what the seeded change C10-u64-literal-above-i64-max-printed-negative emits (`var max uint64 = -1`,
    `var x uint64 = -9223372036854775808`), also spelled with unary minus; 128 and -129 at int8 -/
example : Go.constOverflow 64 false (.int (toString (-1 : Int)) (.int 64 false)) = some (-1) ∧
    Go.constOverflow 64 false (.int (toString (-9223372036854775808 : Int)) (.int 64 false)) = some (-9223372036854775808) ∧
    Go.constOverflow 64 false (.un .neg (.int 64 false) (.int (toString (1 : Int)) (.int 64 false))) = some (-1) ∧
    Go.constOverflow 8 true (.int (toString (128 : Int)) (.int 8 true)) = some 128 ∧
    Go.constOverflow 8 true (.int (toString (-129 : Int)) (.int 8 true)) = some (-129) := by
  simp [Go.constOverflow, Go.intConst, toString_toInt, Go.intFits]
/-- not a constant: a variable — the rule says nothing -/
example : Go.constOverflow 8 true (.var "x" (.int 64 true)) = none := by simp [Go.constOverflow, Go.intConst]
end Examples

end Goml.GoCompileProps
