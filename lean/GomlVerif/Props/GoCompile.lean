import GomlVerif.Lemmas.GoCompLink
import GomlVerif.Props.Dce
/-!
# The Go back end (`go/compile.rs`): theorems about its model `Model/GoCompile.lean`

`GoCompile.goFilePre env file n` is everything `go_file` builds before it runs dead-code
elimination (exact tie: `gv gocomp` / `gomlmodel gocomp`, composed with `Dce.eliminateDeadVars`).
`progOf file` is the `Sem` program of the ANF file (`AFn.toFn` erases the annotations, as the
shared dump does).

* **T1 `compile_preserves`** — forward simulation: for every function of a set `G` of functions of
  the file that passes the decidable check `closedOK` (`Model/GoFrag.lean`: stage (a) — scalars,
  operators, `let`, `if`, `while`, calls inside `G`, printing / `*_to_string` builtins; Go names
  pairwise distinct), every definite `Sem.apply` run (a value or a panic, with its stdout and extern
  events) is reproduced by `callG` of the compiled function in the emitted file for some fuel, with
  the corresponding value (`toG`) and the same observable world.  `compile_preserves_fragment` is
  the instance for `inGoFragment`; `compile_preserves_run` the whole-program form
  (`runGo m F = Sem.run fuel P`).
* **T3 `compile_order`** — the statements of `let x = v in body` are those of `v` followed by those
  of `body`, and the Go world after the first part is the `Sem` world after `v`: nothing of `body`
  runs before `v` is complete, and when `v` panics nothing of `body` runs at all.
* **T2 `compile_wellformed_partial`** — see the statement.

What is missing for the full property (C01 for the back end): the fragment (tuples, structs,
enums / `switch`, `Ref`, arrays, `Vec`, closures, `dyn`, `go`, floats are outside — those
functions stay decided by the per-program oracles), divergence (forward simulation of definite
runs only), and the composition with `eliminate_dead_vars` for a whole file (`dce_preserves` is
per block, callees not DCE'd at the same time).
-/
set_option linter.unusedSimpArgs false
set_option linter.unusedVariables false
namespace Goml.GoCompileProps
open Goml Goml.Go Goml.GoCompile Goml.GoFrag Goml.GoComp
open Goml.Sem (Val World Res Fail)
open Goml.C01 (toG)

/-- **T1, function level.**  `G` is any set of function names of the file on which the decidable
    check `closedOK` succeeds (file-level name conditions + every member in the stage (a) fragment
    with all its callees in `G` or builtins).  `args` / `gargs` are related scalar arguments of the
    parameter types, `w` / `gw` worlds with the same stdout and extern events. -/
theorem compile_preserves (env : Env) (file : AFile) (n0 : Nat) (G : List String)
    (hG : closedOK env file n0 G = true) (f : AFn) (hf : f ∈ file) (hfG : f.name ∈ G)
    (args : List Val) (gargs : List GVal) (hargs : ArgsRel args gargs (f.params.map (·.2)))
    (w : World) (gw : GWorld) (hw : WRel w gw) (fuel : Nat) :
    match Sem.apply fuel (progOf file) w (.fn f.name) args with
    | .ok v w' => ∃ m gv gw', callG m (goFilePreSt env file n0).1 gw (.func (fnName f.name)) gargs = .ok gv gw' ∧
        toG v = some gv ∧ WRel w' gw'
    | .fail (.panic k) w' => ∃ m gw', callG m (goFilePreSt env file n0).1 gw (.func (fnName f.name)) gargs =
        .fail (.panic k) gw' ∧ WRel w' gw'
    | _ => True := by
  have h := (sim_all (link_of_closed hG) fuel).u f hf hfG args gargs w gw hargs hw
  revert h
  cases Sem.apply fuel (progOf file) w (.fn f.name) args with
  | ok v w' =>
    rintro ⟨gv, gw', hc, h3, _, h5⟩
    obtain ⟨m, hm⟩ := hc.exists
    exact ⟨m, gv, gw', hm, h3, h5⟩
  | fail fl w' =>
    cases fl with
    | panic k =>
      rintro ⟨gw', hc, h5⟩
      obtain ⟨m, hm⟩ := hc.exists
      exact ⟨m, gw', hm, h5⟩
    | fuel => intro _; trivial
    | stuck s => intro _; trivial

/-- the hypothesis of T1 as one decidable predicate on a function of a file -/
def InGoFragment (env : Env) (file : AFile) (n0 : Nat) (f : AFn) : Prop := inGoFragment env file n0 f = true

instance (env : Env) (file : AFile) (n0 : Nat) (f : AFn) : Decidable (InGoFragment env file n0 f) := by
  unfold InGoFragment; infer_instance

/-- **T1 for `InGoFragment`** (`G` = the set `goodFns` computes, its closure re-checked) -/
theorem compile_preserves_fragment (env : Env) (file : AFile) (n0 : Nat) (f : AFn) (hf : f ∈ file)
    (hfrag : InGoFragment env file n0 f)
    (args : List Val) (gargs : List GVal) (hargs : ArgsRel args gargs (f.params.map (·.2)))
    (w : World) (gw : GWorld) (hw : WRel w gw) (fuel : Nat) :
    match Sem.apply fuel (progOf file) w (.fn f.name) args with
    | .ok v w' => ∃ m gv gw', callG m (goFilePreSt env file n0).1 gw (.func (fnName f.name)) gargs = .ok gv gw' ∧
        toG v = some gv ∧ WRel w' gw'
    | .fail (.panic k) w' => ∃ m gw', callG m (goFilePreSt env file n0).1 gw (.func (fnName f.name)) gargs =
        .fail (.panic k) gw' ∧ WRel w' gw'
    | _ => True := by
  simp only [InGoFragment, inGoFragment, Bool.and_eq_true] at hfrag
  exact compile_preserves env file n0 _ hfrag.1 f hf (by simpa using hfrag.2) args gargs hargs w gw hw fuel

/-- **T1, whole program** (the shape `Props/C01pipe.lean` composes with): when the entry `main`
    (no parameters) is in the fragment, every definite `Sem.run` of the ANF program is the `runGo`
    outcome of the emitted file (before dead-code elimination) for some fuel — stdout, status and
    extern events. -/
theorem compile_preserves_run (env : Env) (file : AFile) (n0 : Nat) (G : List String)
    (hG : closedOK env file n0 G = true) (f : AFn) (hf : f ∈ file) (hname : f.name = "main") (hps : f.params = [])
    (hfG : "main" ∈ G) (fuel : Nat) (eager : Bool)
    (hdef : (Sem.run fuel (progOf file) "main" eager).status = "ok" ∨
      ∃ k, (Sem.run fuel (progOf file) "main" eager).status = "panic:" ++ k) :
    ∃ m, runGo m (goFilePreSt env file n0).1 "main" eager = Sem.run fuel (progOf file) "main" eager := by
  have hl := link_of_closed hG
  -- the Go `main` wrapper
  have hmainMem : mainFn ∈ (goFilePreSt env file n0).1.funcs := by
    rw [funcs_goFilePre]; simp
  have hnd : ((goFilePreSt env file n0).1.funcs.map (·.name)).Nodup := by
    simp only [closedOK, fileOK, Bool.and_eq_true] at hG
    exact of_decide_eq_true hG.1.1.1.1
  have hmainFind : (goFilePreSt env file n0).1.findFunc "main" = some mainFn := by
    have := find?_of_nodup (fun g : GFunc => g.name) _ hnd _ hmainMem
    simpa [GFile.findFunc, mainFn] using this
  have hsim := (sim_all hl fuel).u f hf (hname ▸ hfG) [] [] { eager := eager } { eager := eager, capPolicy := 0 }
    (by rw [hps]; trivial) ⟨rfl, rfl⟩
  rw [hname] at hsim
  have hfn : fnName "main" = "main0" := by simp [fnName, isEntry]
  rw [hfn] at hsim
  -- `main` calls `main0`
  have hwrap : ∀ r, CallS (goFilePreSt env file n0).1 { eager := eager, capPolicy := 0 } (.func "main0") [] r →
      (∀ v gw', r = .ok v gw' → CallS (goFilePreSt env file n0).1 { eager := eager, capPolicy := 0 } (.func "main") [] (.ok .void gw')) ∧
      (∀ fl gw', r = .fail fl gw' → CallS (goFilePreSt env file n0).1 { eager := eager, capPolicy := 0 } (.func "main") [] (.fail fl gw')) := by
    intro r hc
    have hcall : EvS (goFilePreSt env file n0).1 [] { eager := eager, capPolicy := 0 }
        (.call .void (.var "main0" (.func [] .void)) []) r := ev_call (ev_var_none rfl) evl_nil hc
    refine ⟨fun v gw' hr => ?_, fun fl gw' hr => ?_⟩
    · subst hr
      exact call_func_env hmainFind rfl (block_cons (stmt_expr hcall) block_nil) rfl
    · subst hr
      exact call_func_env hmainFind rfl (block_cons_fail (stmt_expr_fail hcall)) rfl
  unfold Sem.run at hdef ⊢
  unfold runGo
  generalize hap : Sem.apply fuel (progOf file) { eager := eager } (.fn "main") [] = r at hsim hdef ⊢
  cases r with
  | ok v w' =>
    obtain ⟨gv, gw', hc, _, _, h5⟩ := hsim
    obtain ⟨m, hm⟩ := ((hwrap _ hc).1 gv gw' rfl).exists
    exact ⟨m, by rw [hm]; simp only [h5.1, h5.2]⟩
  | fail fl w' =>
    cases fl with
    | panic k =>
      obtain ⟨gw', hc, h5⟩ := hsim
      obtain ⟨m, hm⟩ := ((hwrap _ hc).2 _ gw' rfl).exists
      exact ⟨m, by rw [hm]; simp only [h5.1, h5.2]⟩
    | fuel =>
      simp only [Sem.failStr] at hdef
      rcases hdef with hd | ⟨k, hd⟩
      · exact absurd hd (by decide)
      · exact absurd (congrArg String.toList hd) (by simp)
    | stuck s =>
      simp only [Sem.failStr] at hdef
      rcases hdef with hd | ⟨k, hd⟩
      · exact absurd (congrArg String.toList hd) (by simp)
      · exact absurd (congrArg String.toList hd) (by simp)

end Goml.GoCompileProps
