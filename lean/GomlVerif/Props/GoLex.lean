import GomlVerif.Props.GoPrint
import GomlVerif.Props.C19
/-!
# The lexical half of the printer's round trip, at character level (round 11)

`Model/GoLex.lean` is Go's lexer on characters.  This file proves what it returns on a *layout* of the printer's pieces:
every token text followed by the next piece, one blank per `sp`, a newline and ANY indentation per `nl`.

* `lex_layout` — the skeleton (fuel, blanks, newlines, indentation, Go's automatic semicolons): if every token of the
  layout is read back by `lexTok` from the position where it starts (`TokSound`), `lex` returns exactly
  `expectToks false pieces` — the pieces' tokens (kinds and texts) with a `semi` at every newline / at the end that
  follows an identifier, a literal, `break continue fallthrough return` or `++ -- ) ] }`.
* `lexTok_word` — identifiers and keywords at character level: a `Tok.wf` identifier (in particular every output of
  `go::mangle::go_ident`, `goIdent_wf`) or keyword, followed by anything that does not start with a letter or digit,
  is read back as that token with its kind and stops there.
* `lex_render_tokens_partial` — both together for layouts whose tokens are identifiers / keywords separated by
  blanks or newlines.

Second pass (bottom of the file): `goIdent_wf` (every output of `go_ident` is a `Tok.wf` identifier), `lexTok_int`
(decimal integers), `lexTok_op` (each of Go's 47 operators, maximal munch, boundary `opEnds`), and
`lex_render_tokens_spaced_partial` (identifiers, keywords, integers and operators separated by blanks / newlines).

Missing for the full `lex_render_tokens` (validated by the `golex` tie on 767 675 real tokens instead): floats and
strings, and the derivation of the per-kind boundaries (`wordEnds`, `intEnds`, `opEnds`) from `glueFree` for tokens
written with nothing between them (`glued` is pairwise and misses `.` `.` `.` = `...`, see the example; `glued` is left
as it is).
-/
namespace Goml.GoPrint
open Goml.GoLex

/-- a layout of a piece list: each piece with the indentation written after it when it is a newline -/
def layChars : List (Piece × Nat) → List Char
  | [] => []
  | (.tok t, _) :: r => t.text.toList ++ layChars r
  | (.sp, _) :: r => ' ' :: layChars r
  | (.nl, k) :: r => '\n' :: (List.replicate k ' ' ++ layChars r)

def startOK (t : Tok) : Bool :=
  match t.text.toList with
  | c :: _ => !isBlank c && c != '\n'
  | [] => false

/-- every token is read back by `lexTok` from where it starts in the layout -/
def TokSound : List (Piece × Nat) → Prop
  | [] => True
  | (.tok t, _) :: r =>
      startOK t = true ∧ lexTok (t.text.toList ++ layChars r) = some (t.lt, layChars r) ∧ TokSound r
  | _ :: r => TokSound r

theorem lexF_indent (fl : Bool) (cs : List Char) : ∀ (k m : Nat),
    lexF (m + k) fl (List.replicate k ' ' ++ cs) = lexF m fl cs := by
  intro k
  induction k with
  | zero => intro m; simp
  | succ k ih =>
    intro m
    have : m + (k + 1) = (m + k) + 1 := by omega
    rw [this, List.replicate_succ, List.cons_append, lexF]
    simp only [show isBlank ' ' = true from by decide, if_true]
    exact ih m

theorem lexF_layout : ∀ (ps : List (Piece × Nat)), TokSound ps → ∀ (fl : Bool) (n : Nat), (layChars ps).length < n →
    lexF n fl (layChars ps) = some (expectToks fl (ps.map (·.1))) := by
  intro ps
  induction ps with
  | nil =>
    intro _ fl n hn
    cases n with
    | zero => simp at hn
    | succ m => simp [layChars, lexF, expectToks]
  | cons p r ih =>
    obtain ⟨pc, k⟩ := p
    intro hs fl n hn
    cases pc with
    | sp =>
      cases n with
      | zero => simp at hn
      | succ m =>
        simp only [layChars, List.length_cons] at hn
        simp only [layChars, lexF, show isBlank ' ' = true from by decide, if_true, List.map_cons, expectToks]
        exact ih hs fl m (by omega)
    | nl =>
      cases n with
      | zero => simp at hn
      | succ m =>
        simp only [layChars, List.length_cons, List.length_append, List.length_replicate] at hn
        simp only [layChars, lexF, show isBlank '\n' = false from by decide, show ('\n' == '\n') = true from by decide,
          if_true, List.map_cons, expectToks]
        obtain ⟨m', rfl⟩ : ∃ m', m = m' + k := ⟨m - k, by omega⟩
        have e := lexF_indent false (layChars r) k m'
        have := ih hs false m' (by omega)
        cases fl <;> simp [e, this]
    | tok t =>
      obtain ⟨h0, h1, h2⟩ := hs
      cases n with
      | zero => simp at hn
      | succ m =>
        simp only [layChars, List.length_append] at hn
        simp only [layChars, List.map_cons, expectToks]
        unfold startOK at h0
        cases htx : t.text.toList with
        | nil => simp [htx] at h0
        | cons c w =>
          rw [htx] at h0 h1 hn
          simp only [Bool.and_eq_true, Bool.not_eq_true', bne_iff_ne, ne_eq] at h0
          simp only [List.cons_append] at h1 ⊢
          rw [lexF]
          simp only [h0.1, Bool.false_eq_true, if_false, show (c == '\n') = false from by simpa using h0.2, h1]
          have := ih h2 (GoLex.semiAfter t.lt) m (by simp at hn; omega)
          simp [this]

/-- **the lexer's skeleton**: on any layout of a piece list (one blank per `sp`, a newline and any indentation per
    `nl`) whose tokens are each read back by `lexTok`, Go's lexer returns the pieces' tokens — kinds and texts — with
    the automatic semicolons of the specification, and nothing else -/
theorem lex_layout (ps : List (Piece × Nat)) (h : TokSound ps) :
    GoLex.lex (layChars ps) = some (expectToks false (ps.map (·.1))) :=
  lexF_layout ps h false _ (Nat.lt_succ_self _)

/-! ## identifiers and keywords at character level -/

theorem takeWhile_stop (p : Char → Bool) : ∀ (w rest : List Char), w.all p = true → (∀ c r, rest = c :: r → p c = false) →
    (w ++ rest).takeWhile p = w ∧ (w ++ rest).dropWhile p = rest := by
  intro w
  induction w with
  | nil =>
    intro rest _ hr
    cases rest with
    | nil => simp
    | cons c r => simp [List.takeWhile, List.dropWhile, hr c r rfl]
  | cons a w ih =>
    intro rest hw hr
    simp only [List.all_cons, Bool.and_eq_true] at hw
    have := ih rest hw.2 hr
    simp [List.takeWhile, List.dropWhile, hw.1, this.1, this.2]

/-- the next character does not continue a word -/
def wordEnds (rest : List Char) : Prop := ∀ c r, rest = c :: r → isIdChar c = false

theorem lexTok_word (c : Char) (w rest : List Char) (hc : isLetter c = true) (hw : w.all isIdChar = true)
    (hr : wordEnds rest) :
    lexTok (c :: (w ++ rest)) =
      some (⟨if keywords.contains (c :: w) then .kw else .ident, c :: w⟩, rest) := by
  have := takeWhile_stop isIdChar w rest hw hr
  simp [lexTok, hc, this.1, this.2]

def wordShape : List Char → Bool
  | c :: w => isLetter c && w.all isIdChar
  | [] => false

theorem lexTok_ident (s : String) (h : (Tok.ident s).wf = true) (rest : List Char) (hr : wordEnds rest) :
    lexTok (s.toList ++ rest) = some ((Tok.ident s).lt, rest) := by
  unfold Tok.wf at h
  cases hs : s.toList with
  | nil => simp [hs] at h
  | cons c w =>
    simp only [hs, Bool.and_eq_true, Bool.not_eq_true'] at h
    rw [List.cons_append, lexTok_word c w rest h.1.1 h.1.2 hr]
    have hn : ¬ (c :: w ∈ keywords) := by simpa using h.2
    simp [Tok.lt, hs, hn]

theorem lexTok_kw (s : String) (h : (Tok.kw s).wf = true) (rest : List Char) (hr : wordEnds rest) :
    lexTok (s.toList ++ rest) = some ((Tok.kw s).lt, rest) := by
  have hmem : s.toList ∈ keywords := by simpa [Tok.wf] using h
  have hall : ∀ k ∈ keywords, wordShape k = true := by decide
  have hsh := hall _ hmem
  cases hk : s.toList with
  | nil => simp [hk, wordShape] at hsh
  | cons c w =>
    simp only [hk, wordShape, Bool.and_eq_true] at hsh
    rw [List.cons_append, lexTok_word c w rest hsh.1 hsh.2 hr]
    have : keywords.contains (c :: w) = true := by rw [← hk]; simpa using hmem
    have hm : c :: w ∈ keywords := by simpa using this
    simp [Tok.lt, hk, hm]

end Goml.GoPrint

namespace Goml.GoPrint
open Goml.GoLex

/-- words only: every token is a `Tok.wf` identifier or keyword and is followed by a blank, a newline or the end -/
def WordsSpaced : List (Piece × Nat) → Prop
  | [] => True
  | (.tok t, _) :: r =>
      ((∃ s, t = .ident s) ∨ (∃ s, t = .kw s)) ∧ t.wf = true ∧
        (match r with | (.tok _, _) :: _ => False | _ => True) ∧ WordsSpaced r
  | _ :: r => WordsSpaced r

theorem wordEnds_after : ∀ r : List (Piece × Nat), (match r with | (.tok _, _) :: _ => False | _ => True) →
    wordEnds (layChars r) := by
  intro r h c r' hc
  match r, h with
  | [], _ => simp [layChars] at hc
  | (.sp, _) :: _, _ => simp only [layChars, List.cons.injEq] at hc; rw [← hc.1]; decide
  | (.nl, _) :: _, _ => simp only [layChars, List.cons.injEq] at hc; rw [← hc.1]; decide

theorem wordShape_startOK {t : Tok} (h : wordShape t.text.toList = true) : startOK t = true := by
  unfold startOK
  cases ht : t.text.toList with
  | nil => simp [ht, wordShape] at h
  | cons c w =>
    simp only [ht, wordShape, Bool.and_eq_true] at h
    have h1 := h.1
    simp only [Bool.and_eq_true, Bool.not_eq_true', bne_iff_ne, ne_eq]
    constructor
    · cases hb : isBlank c with
      | false => rfl
      | true =>
        simp only [isBlank, Bool.or_eq_true, beq_iff_eq] at hb
        rcases hb with (rfl | rfl) | rfl <;> exact absurd h1 (by decide)
    · intro hc; subst hc; exact absurd h1 (by decide)

theorem tokSound_words : ∀ ps : List (Piece × Nat), WordsSpaced ps → TokSound ps := by
  intro ps
  induction ps with
  | nil => intro _; trivial
  | cons p r ih =>
    obtain ⟨pc, k⟩ := p
    cases pc with
    | sp => intro h; exact ih h
    | nl => intro h; exact ih h
    | tok t =>
      intro ⟨hk, hwf, hnext, hr⟩
      have he := wordEnds_after r hnext
      rcases hk with ⟨s, rfl⟩ | ⟨s, rfl⟩
      · refine ⟨wordShape_startOK ?_, lexTok_ident s hwf _ he, ih hr⟩
        simp only [Tok.wf] at hwf
        simp only [Tok.text]
        cases hs : s.toList with
        | nil => simp [hs] at hwf
        | cons c w => simp only [hs, Bool.and_eq_true] at hwf; simp [wordShape, hwf.1.1, hwf.1.2]
      · refine ⟨wordShape_startOK ?_, lexTok_kw s hwf _ he, ih hr⟩
        have hmem : s.toList ∈ keywords := by simpa [Tok.wf] using hwf
        have hall : ∀ k ∈ keywords, wordShape k = true := by decide
        exact hall _ hmem

/-- **character-level lexing of the printer's words** (partial `lex_render_tokens`: identifiers — every output of
    `go_ident` is one — and keywords, separated by blanks / newlines with any indentation): Go's lexer on the characters
    returns exactly the tokens, kinds and texts, with the automatic semicolons.  Numbers, strings and operators, and
    tokens written with nothing between them (`glueFree`), are covered by `lex_layout` + the `golex` tie only. -/
theorem lex_render_tokens_partial (ps : List (Piece × Nat)) (h : WordsSpaced ps) :
    GoLex.lex (layChars ps) = some (expectToks false (ps.map (·.1))) :=
  lex_layout ps (tokSound_words ps h)

/-- non-vacuity: `return x⏎    break` — two keywords after which Go inserts a semicolon, an identifier, an indentation -/
example : GoLex.lex (layChars [(.tok (.kw "return"), 0), (.sp, 0), (.tok (.ident "x"), 0), (.nl, 4), (.tok (.kw "break"), 0)]) =
    some [⟨.kw, "return".toList⟩, ⟨.ident, ['x']⟩, semiTok, ⟨.kw, "break".toList⟩, semiTok] := by
  rw [lex_render_tokens_partial _ (by
    refine ⟨Or.inr ⟨_, rfl⟩, by decide, trivial, Or.inl ⟨_, rfl⟩, by decide, trivial, Or.inr ⟨_, rfl⟩, by decide, trivial, trivial⟩)]
  decide

end Goml.GoPrint

/-! # Round 11, second pass: `go_ident` outputs, integers, operators -/
namespace Goml.GoPrint
open Goml.GoLex Goml.Mangle

/-! ## (1) every output of `go::mangle::go_ident` is a well-formed identifier token -/

theorem isDigit_eq_ascii (c : Char) : isDigit c = isAsciiDigit c := by
  simp only [isDigit, Char.isDigit, isAsciiDigit, Char.toNat, ge_iff_le, UInt32.le_iff_toNat_le]
  rfl

theorem asciiAlpha_isLetter (c : Char) (h : isAsciiAlpha c = true) : isLetter c = true := by
  have : c.isAlpha = true := by
    simp only [isAsciiAlpha, isAsciiLower, isAsciiUpper, Bool.or_eq_true, Bool.and_eq_true, decide_eq_true_eq, Char.toNat] at h
    simp only [Char.isAlpha, Char.isUpper, Char.isLower, ge_iff_le, UInt32.le_iff_toNat_le, Bool.or_eq_true, Bool.and_eq_true,
      decide_eq_true_eq]
    rcases h with h | h
    · right; exact h
    · left; exact h
  simp [isLetter, this]

theorem identStart_isLetter (c : Char) (h : isIdentStart c = true) : isLetter c = true := by
  simp only [isIdentStart, Bool.or_eq_true, beq_iff_eq] at h
  rcases h with h | rfl
  · exact asciiAlpha_isLetter c h
  · decide

theorem identChar_isIdChar (c : Char) (h : isIdentChar c = true) : isIdChar c = true := by
  simp only [isIdentChar, isAsciiAlnum, Bool.or_eq_true, beq_iff_eq] at h
  rcases h with (h | h) | rfl
  · simp [isIdChar, asciiAlpha_isLetter c h]
  · simp [isIdChar, isDigit_eq_ascii, h]
  · decide

theorem lexKeywords_spec : ∀ k ∈ GoLex.keywords, k ∈ goSpecKeywords := by decide

/-- **the names the compiler emits are identifier tokens of Go's grammar**: for EVERY string, `go_ident`'s output
    satisfies `Tok.wf` (letter or `_`, then letters / digits / `_`, not one of Go's 25 keywords) — from `goIdent_legal`
    (C19); so `lexTok_ident` / `lex_render_tokens_partial` apply to them -/
theorem goIdent_wf (s : Mangle.Name) : (Tok.ident (String.ofList (goIdent s))).wf = true := by
  obtain ⟨hv, _, hk⟩ := goIdent_legal s
  unfold Tok.wf
  simp only [String.toList_ofList]
  cases hg : goIdent s with
  | nil => simp [hg, isValidGoIdent] at hv
  | cons c w =>
    rw [hg] at hv hk
    simp only [isValidGoIdent, Bool.and_eq_true] at hv
    have h1 : isLetter c = true := identStart_isLetter c hv.1
    have h2 : w.all isIdChar = true := by
      have := hv.2
      rw [List.all_eq_true] at this ⊢
      intro x hx; exact identChar_isIdChar x (this x hx)
    have h3 : GoLex.keywords.contains (c :: w) = false := by
      cases hc : GoLex.keywords.contains (c :: w) with
      | false => rfl
      | true => exact absurd (lexKeywords_spec _ (by simpa using hc)) hk
    have hn : ¬ (c :: w ∈ GoLex.keywords) := fun h => hk (lexKeywords_spec _ h)
    simp [h1, h2, hn]

/-! ## (2) decimal integer literals -/

theorem digit_not_letter (c : Char) (h : isDigit c = true) : isLetter c = false := by
  rw [isDigit_eq_ascii] at h
  simp only [isAsciiDigit, Bool.and_eq_true, decide_eq_true_eq, Char.toNat] at h
  simp only [isLetter, Char.isAlpha, Char.isUpper, Char.isLower, ge_iff_le, UInt32.le_iff_toNat_le, Bool.or_eq_false_iff,
    Bool.and_eq_false_iff, decide_eq_false_iff_not, beq_eq_false_iff_ne, ne_eq, Char.toNat]
  have e1 : 'A'.val.toNat = 65 := by decide
  have e2 : 'a'.val.toNat = 97 := by decide
  refine ⟨⟨⟨?_, ?_⟩, ?_⟩, ?_⟩
  · omega
  · omega
  · rintro rfl; revert h; decide
  · omega

/-- the next character does not continue a decimal literal: not a digit, letter, `_`, nor `.` -/
def intEnds (rest : List Char) : Prop := ∀ c r, rest = c :: r → isIdChar c = false ∧ c ≠ '.'

theorem scanFrac_stop (rest : List Char) (h : intEnds rest) : scanFrac rest = ([], rest) := by
  cases rest with
  | nil => rfl
  | cons c r =>
    have hc := (h c r rfl).2
    unfold scanFrac
    split
    · rename_i heq; cases heq; exact absurd rfl hc
    · rfl

theorem scanExp_stop (rest : List Char) (h : ∀ c r, rest = c :: r → isIdChar c = false) : scanExp rest = ([], rest) := by
  cases rest with
  | nil => rfl
  | cons c r =>
    have hc := h c r rfl
    have h1 : (c == 'e') = false := by
      cases hh : c == 'e' with
      | false => rfl
      | true => rw [beq_iff_eq] at hh; subst hh; exact absurd hc (by decide)
    have h2 : (c == 'E') = false := by
      cases hh : c == 'E' with
      | false => rfl
      | true => rw [beq_iff_eq] at hh; subst hh; exact absurd hc (by decide)
    simp [scanExp, h1, h2]

/-- **a decimal integer literal at character level**: digits followed by anything that does not start with a digit, a
    letter, `_` or `.` are lexed as ONE `num` token with exactly those digits, and lexing stops there -/
theorem lexTok_int (d : Char) (ds rest : List Char) (hd : isDigit d = true) (hds : ds.all isDigit = true)
    (hr : intEnds rest) : lexTok (d :: (ds ++ rest)) = some (⟨.num, d :: ds⟩, rest) := by
  have hnl := digit_not_letter d hd
  have hid : ∀ c r, rest = c :: r → isIdChar c = false := fun c r e => (hr c r e).1
  have hdig : ∀ c r, rest = c :: r → isDigit c = false := by
    intro c r e
    have := hid c r e
    simp only [isIdChar, Bool.or_eq_false_iff] at this
    exact this.2
  have tw := takeWhile_stop isDigit (d :: ds) rest (by simp [hd, hds]) hdig
  rw [List.cons_append] at tw
  simp [lexTok, hnl, hd, scanNum, tw.1, tw.2, scanFrac_stop rest hr, scanExp_stop rest hid]

def isIntText (cs : List Char) : Bool := !cs.isEmpty && cs.all isDigit

theorem lexTok_intTok (s : String) (h : isIntText s.toList = true) (rest : List Char) (hr : intEnds rest) :
    lexTok (s.toList ++ rest) = some ((Tok.num s).lt, rest) := by
  cases hs : s.toList with
  | nil => simp [hs, isIntText] at h
  | cons d ds =>
    simp only [hs, isIntText, List.all_cons, Bool.and_eq_true] at h
    rw [List.cons_append, lexTok_int d ds rest h.2.1 h.2.2 hr]
    simp [Tok.lt, hs]

/-! ## (3) operators and punctuation: maximal munch -/

def allOps : List (List Char) := ops1 ++ ops2 ++ ops3
/-- what can be longer than an operator: the 2- and 3-character operators and the two comment openers -/
def longerOps : List (List Char) := ops2 ++ ops3 ++ [['/', '/'], ['/', '*']]

/-- the operator followed by `c` is the beginning of a longer operator (or of a comment) -/
def extendsOp (o : List Char) (c : Char) : Bool := longerOps.any fun p => (o ++ [c]).isPrefixOf p

/-- the next character does not extend the operator under maximal munch (and `.` is not followed by a digit: `.5`) -/
def opEnds (o rest : List Char) : Prop :=
  ∀ c r, rest = c :: r → extendsOp o c = false ∧ (o = ['.'] → isDigit c = false)

theorem take_len_add (c : Char) (r : List Char) (j : Nat) : ∀ o : List Char,
    (o ++ c :: r).take (o.length + 1 + j) = (o ++ [c]) ++ r.take j := by
  intro o
  induction o with
  | nil => simp [show 0 + 1 + j = j + 1 from by omega]
  | cons a o ih =>
    have : (a :: o).length + 1 + j = (o.length + 1 + j) + 1 := by simp; omega
    rw [this, List.cons_append, List.take_succ_cons, ih]; rfl

/-- the generic lemma: nothing longer than `o` is an operator at this position -/
theorem take_not_longer (o rest p : List Char) (hp : p ∈ longerOps) (hl : o.length < p.length) (hr : opEnds o rest) :
    (o ++ rest).take p.length ≠ p := by
  intro he
  cases rest with
  | nil =>
    have := congrArg List.length he
    simp at this; omega
  | cons c r =>
    have h1 := (hr c r rfl).1
    obtain ⟨j, hj⟩ : ∃ j, p.length = o.length + 1 + j := ⟨p.length - o.length - 1, by omega⟩
    rw [hj, take_len_add] at he
    have hpre : (o ++ [c]).isPrefixOf p = true := by
      rw [List.isPrefixOf_iff_prefix]; exact ⟨_, he⟩
    have : extendsOp o c = true := List.any_eq_true.mpr ⟨p, hp, hpre⟩
    rw [h1] at this; cases this

theorem ops3_len : ∀ p ∈ ops3, p.length = 3 := by decide
theorem ops2_len : ∀ p ∈ ops2, p.length = 2 := by decide
theorem ops1_len : ∀ p ∈ ops1, p.length = 1 := by decide

theorem no_op3 (o rest : List Char) (hl : o.length < 3) (hr : opEnds o rest) : ops3.contains ((o ++ rest).take 3) = false := by
  cases h : ops3.contains ((o ++ rest).take 3) with
  | false => rfl
  | true =>
    have hm : (o ++ rest).take 3 ∈ ops3 := by simpa using h
    have h3 := ops3_len _ hm
    have := take_not_longer o rest ((o ++ rest).take 3)
      (by simp only [longerOps, List.mem_append]; exact Or.inl (Or.inr hm)) (by omega) hr
    rw [h3] at this; exact absurd rfl this

theorem no_op2 (o rest : List Char) (hl : o.length < 2) (hr : opEnds o rest) : ops2.contains ((o ++ rest).take 2) = false := by
  cases h : ops2.contains ((o ++ rest).take 2) with
  | false => rfl
  | true =>
    have hm : (o ++ rest).take 2 ∈ ops2 := by simpa using h
    have h2 := ops2_len _ hm
    have := take_not_longer o rest ((o ++ rest).take 2)
      (by simp only [longerOps, List.mem_append]; exact Or.inl (Or.inl hm)) (by omega) hr
    rw [h2] at this; exact absurd rfl this

/-- maximal munch returns the operator when the next character does not extend it -/
theorem munch_op (o rest : List Char) (ho : o ∈ allOps) (hr : opEnds o rest) : munch (o ++ rest) = some (o, rest) := by
  simp only [allOps, List.mem_append] at ho
  rcases ho with (h1 | h2) | h3
  · have hl := ops1_len o h1
    have n3 : ¬ ((o ++ rest).take 3 ∈ ops3) := by simpa using no_op3 o rest (by omega) hr
    have n2 : ¬ ((o ++ rest).take 2 ∈ ops2) := by simpa using no_op2 o rest (by omega) hr
    simp [munch, n3, n2, List.take_left' hl, List.drop_left' hl, h1]
  · have hl := ops2_len o h2
    have n3 : ¬ ((o ++ rest).take 3 ∈ ops3) := by simpa using no_op3 o rest (by omega) hr
    simp [munch, n3, List.take_left' hl, List.drop_left' hl, h2]
  · have hl := ops3_len o h3
    simp [munch, List.take_left' hl, List.drop_left' hl, h3]

def opHeadOK : List Char → Bool
  | c :: _ => !isLetter c && !isDigit c && c != '"' && !isBlank c && c != '\n'
  | [] => false

theorem ops_head : ∀ o ∈ allOps, opHeadOK o = true := by decide
theorem ops_dot : ∀ o ∈ allOps, o.head? = some '.' → o = ['.'] ∨ o = ['.', '.', '.'] := by decide
theorem ops_slash : ∀ o ∈ allOps, o.head? = some '/' → o = ['/'] ∨ o = ['/', '='] := by decide

/-- **an operator / punctuation token at character level**: any of Go's 47 operators followed by a character that does
    not extend it (no operator and no comment opener starts with operator + that character; `.` not before a digit) is
    lexed as that `sym` token, and lexing stops there -/
theorem lexTok_op (o rest : List Char) (ho : o ∈ allOps) (hr : opEnds o rest) :
    lexTok (o ++ rest) = some (⟨.sym, o⟩, rest) := by
  have hm := munch_op o rest ho hr
  have hh := ops_head o ho
  cases ho' : o with
  | nil => simp [ho', opHeadOK] at hh
  | cons c0 o' =>
    rw [ho'] at hm hh
    simp only [opHeadOK, Bool.and_eq_true, Bool.not_eq_true', bne_iff_ne, ne_eq] at hh
    obtain ⟨⟨⟨⟨hl, hd⟩, hq⟩, _⟩, _⟩ := hh
    have hdot : (c0 == '.' && startsDigit (o' ++ rest)) = false := by
      cases hc : c0 == '.' with
      | false => rfl
      | true =>
        rw [beq_iff_eq] at hc; subst hc
        rcases ops_dot o ho (by simp [ho']) with h | h
        · rw [ho'] at h; injection h with _ h'; subst h'
          cases rest with
          | nil => rfl
          | cons c r => simpa [startsDigit] using (hr c r rfl).2 (by rw [ho'])
        · rw [ho'] at h; injection h with _ h'; subst h'; rfl
    have hsl : (c0 == '/' && startsComment (o' ++ rest)) = false := by
      cases hc : c0 == '/' with
      | false => rfl
      | true =>
        rw [beq_iff_eq] at hc; subst hc
        rcases ops_slash o ho (by simp [ho']) with h | h
        · rw [ho'] at h; injection h with _ h'; subst h'
          cases rest with
          | nil => rfl
          | cons c r =>
            have he := (hr c r rfl).1
            rw [ho'] at he
            have n1 : c ≠ '/' := by rintro rfl; exact absurd he (by decide)
            have n2 : c ≠ '*' := by rintro rfl; exact absurd he (by decide)
            simp only [Bool.true_and, List.nil_append]
            unfold startsComment
            split
            · rename_i heq; cases heq; exact absurd rfl n1
            · rename_i heq; cases heq; exact absurd rfl n2
            · rfl
        · rw [ho'] at h; injection h with _ h'; subst h'; rfl
    have hq' : (c0 == '"') = false := by simpa using hq
    rw [List.cons_append] at hm ⊢
    simp [lexTok, hl, hd, hdot, hsl, hq', hm]

theorem lexTok_symTok (s : String) (h : s.toList ∈ allOps) (rest : List Char) (hr : opEnds s.toList rest) :
    lexTok (s.toList ++ rest) = some ((Tok.sym s).lt, rest) := by
  rw [lexTok_op _ _ h hr]; rfl

/-- the obstacle to deriving `opEnds` from the pairwise `glued`: three `.` written with nothing between them are
    pairwise not `glued` (`..` is no operator), yet Go reads ONE token `...`; `extendsOp` (prefix of a longer operator)
    is the right boundary and does flag it -/
example : glueFree [.tok (.sym "."), .tok (.sym "."), .tok (.sym ".")] = true ∧
    GoLex.lex ['.', '.', '.'] = some [⟨.sym, ['.', '.', '.']⟩] ∧ extendsOp ['.'] '.' = true := by decide

/-! ## identifiers, keywords, integers and operators separated by blanks / newlines -/

/-- every token is a `Tok.wf` identifier or keyword, a decimal integer or one of Go's operators, and is followed by a
    blank, a newline or the end -/
def SimpleSpaced : List (Piece × Nat) → Prop
  | [] => True
  | (.tok t, _) :: r =>
      ((∃ s, t = .ident s ∧ t.wf = true) ∨ (∃ s, t = .kw s ∧ t.wf = true) ∨
        (∃ s, t = .num s ∧ isIntText s.toList = true) ∨ (∃ s, t = .sym s ∧ s.toList ∈ allOps)) ∧
        (match r with | (.tok _, _) :: _ => False | _ => True) ∧ SimpleSpaced r
  | _ :: r => SimpleSpaced r

theorem ops_blank : ∀ o ∈ allOps, extendsOp o ' ' = false ∧ extendsOp o '\n' = false := by decide

theorem ends_after (r : List (Piece × Nat)) (h : match r with | (.tok _, _) :: _ => False | _ => True) :
    intEnds (layChars r) ∧ ∀ o ∈ allOps, opEnds o (layChars r) := by
  match r, h with
  | [], _ => exact ⟨fun c r' hc => by simp [layChars] at hc, fun o _ c r' hc => by simp [layChars] at hc⟩
  | (.sp, _) :: _, _ =>
    refine ⟨fun c r' hc => ?_, fun o ho c r' hc => ?_⟩
    · simp only [layChars, List.cons.injEq] at hc; rw [← hc.1]; decide
    · simp only [layChars, List.cons.injEq] at hc; rw [← hc.1]
      exact ⟨(ops_blank o ho).1, fun _ => by decide⟩
  | (.nl, _) :: _, _ =>
    refine ⟨fun c r' hc => ?_, fun o ho c r' hc => ?_⟩
    · simp only [layChars, List.cons.injEq] at hc; rw [← hc.1]; decide
    · simp only [layChars, List.cons.injEq] at hc; rw [← hc.1]
      exact ⟨(ops_blank o ho).2, fun _ => by decide⟩

theorem tokSound_simple : ∀ ps : List (Piece × Nat), SimpleSpaced ps → TokSound ps := by
  intro ps
  induction ps with
  | nil => intro _; trivial
  | cons p r ih =>
    obtain ⟨pc, k⟩ := p
    cases pc with
    | sp => intro h; exact ih h
    | nl => intro h; exact ih h
    | tok t =>
      intro ⟨hk, hnext, hr⟩
      have he := wordEnds_after r hnext
      have he2 := ends_after r hnext
      rcases hk with ⟨s, rfl, hwf⟩ | ⟨s, rfl, hwf⟩ | ⟨s, rfl, hi⟩ | ⟨s, rfl, ho⟩
      · have := tokSound_words [(.tok (.ident s), k)] ⟨Or.inl ⟨s, rfl⟩, hwf, trivial, trivial⟩
        exact ⟨this.1, lexTok_ident s hwf _ he, ih hr⟩
      · have := tokSound_words [(.tok (.kw s), k)] ⟨Or.inr ⟨s, rfl⟩, hwf, trivial, trivial⟩
        exact ⟨this.1, lexTok_kw s hwf _ he, ih hr⟩
      · refine ⟨?_, lexTok_intTok s hi _ he2.1, ih hr⟩
        unfold startOK
        simp only [Tok.text]
        cases hs : s.toList with
        | nil => simp [hs, isIntText] at hi
        | cons d ds =>
          simp only [hs, isIntText, List.all_cons, Bool.and_eq_true] at hi
          have hd := hi.2.1
          have b1 : isBlank d = false := by
            cases hb : isBlank d with
            | false => rfl
            | true =>
              simp only [isBlank, Bool.or_eq_true, beq_iff_eq] at hb
              rcases hb with (rfl | rfl) | rfl <;> exact absurd hd (by decide)
          have b2 : d ≠ '\n' := by rintro rfl; exact absurd hd (by decide)
          simp [b1, b2]
      · refine ⟨?_, lexTok_symTok s ho _ (he2.2 _ ho), ih hr⟩
        have hh := ops_head _ ho
        unfold startOK
        simp only [Tok.text]
        cases hs : s.toList with
        | nil => simp [hs, opHeadOK] at hh
        | cons c0 o' =>
          simp only [hs, opHeadOK, Bool.and_eq_true, Bool.not_eq_true', bne_iff_ne, ne_eq] at hh
          simp [hh.1.2, hh.2]

/-- **character-level lexing of identifiers, keywords, decimal integers and operators** (second partial
    `lex_render_tokens`): a layout whose tokens are `Tok.wf` identifiers (every `go_ident` output, `goIdent_wf`),
    keywords, decimal integers and Go's operators, each followed by a blank, a newline (any indentation) or the end, is
    lexed by Go's lexer to exactly the tokens — kinds and texts — with the automatic semicolons.  Still missing: floats,
    strings, and tokens written with nothing between them (`lexTok_int` / `lexTok_op` / `lexTok_word` give the
    character-level boundary for each kind; deriving those boundaries from `glueFree` is not done — see the `...`
    example). -/
theorem lex_render_tokens_spaced_partial (ps : List (Piece × Nat)) (h : SimpleSpaced ps) :
    GoLex.lex (layChars ps) = some (expectToks false (ps.map (·.1))) :=
  lex_layout ps (tokSound_simple ps h)

/-- non-vacuity: `x := 10 <<= y ;⏎}` -/
example : GoLex.lex (layChars [(.tok (.ident "x"), 0), (.sp, 0), (.tok (.sym ":="), 0), (.sp, 0), (.tok (.num "10"), 0), (.sp, 0),
      (.tok (.sym "<<="), 0), (.sp, 0), (.tok (.ident "y"), 0), (.nl, 2), (.tok (.sym "}"), 0)]) =
    some [⟨.ident, ['x']⟩, ⟨.sym, [':', '=']⟩, ⟨.num, ['1', '0']⟩, ⟨.sym, ['<', '<', '=']⟩, ⟨.ident, ['y']⟩, semiTok,
      ⟨.sym, ['}']⟩, semiTok] := by
  rw [lex_render_tokens_spaced_partial _ (by
    refine ⟨Or.inl ⟨_, rfl, by decide⟩, trivial, Or.inr (Or.inr (Or.inr ⟨_, rfl, by decide⟩)), trivial,
      Or.inr (Or.inr (Or.inl ⟨_, rfl, by decide⟩)), trivial, Or.inr (Or.inr (Or.inr ⟨_, rfl, by decide⟩)), trivial,
      Or.inl ⟨_, rfl, by decide⟩, trivial, Or.inr (Or.inr (Or.inr ⟨_, rfl, by decide⟩)), trivial, trivial⟩)]
  decide

end Goml.GoPrint
