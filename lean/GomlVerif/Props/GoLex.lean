import GomlVerif.Props.GoPrint
/-!
# The lexical half of the printer's round trip, at character level (round 11)

`Model/GoLex.lean` is Go's lexer on characters.  This file proves what it returns on a *layout* of the printer's pieces:
every token text followed by the next piece, one blank per `sp`, a newline and ANY indentation per `nl`.

* `lex_layout` — the skeleton (fuel, blanks, newlines, indentation, Go's automatic semicolons): if every token of the
  layout is read back by `lexTok` from the position where it starts (`TokSound`), `lex` returns exactly
  `expectToks false pieces` — the pieces' tokens (kinds and texts) with a `semi` at every newline / at the end that
  follows an identifier, a literal, `break continue fallthrough return` or `++ -- ) ] }`.
* `lexTok_word` — identifiers and keywords at character level: a `Tok.wf` identifier (in particular every output of
  `go::mangle::go_ident`, `goIdent_wf`) or keyword, followed by anything that does not start with a letter or digit,
  is read back as that token with its kind and stops there.
* `lex_render_tokens_partial` — both together for layouts whose tokens are identifiers / keywords separated by
  blanks or newlines.

Missing for the full `lex_render_tokens` (validated by the `golex` tie on 767 675 real tokens instead): the `TokSound`
fact for numbers, strings and operators derived from `Tok.wf` + `glueFree`.
-/
namespace Goml.GoPrint
open Goml.GoLex

/-- a layout of a piece list: each piece with the indentation written after it when it is a newline -/
def layChars : List (Piece × Nat) → List Char
  | [] => []
  | (.tok t, _) :: r => t.text.toList ++ layChars r
  | (.sp, _) :: r => ' ' :: layChars r
  | (.nl, k) :: r => '\n' :: (List.replicate k ' ' ++ layChars r)

def startOK (t : Tok) : Bool :=
  match t.text.toList with
  | c :: _ => !isBlank c && c != '\n'
  | [] => false

/-- every token is read back by `lexTok` from where it starts in the layout -/
def TokSound : List (Piece × Nat) → Prop
  | [] => True
  | (.tok t, _) :: r =>
      startOK t = true ∧ lexTok (t.text.toList ++ layChars r) = some (t.lt, layChars r) ∧ TokSound r
  | _ :: r => TokSound r

theorem lexF_indent (fl : Bool) (cs : List Char) : ∀ (k m : Nat),
    lexF (m + k) fl (List.replicate k ' ' ++ cs) = lexF m fl cs := by
  intro k
  induction k with
  | zero => intro m; simp
  | succ k ih =>
    intro m
    have : m + (k + 1) = (m + k) + 1 := by omega
    rw [this, List.replicate_succ, List.cons_append, lexF]
    simp only [show isBlank ' ' = true from by decide, if_true]
    exact ih m

theorem lexF_layout : ∀ (ps : List (Piece × Nat)), TokSound ps → ∀ (fl : Bool) (n : Nat), (layChars ps).length < n →
    lexF n fl (layChars ps) = some (expectToks fl (ps.map (·.1))) := by
  intro ps
  induction ps with
  | nil =>
    intro _ fl n hn
    cases n with
    | zero => simp at hn
    | succ m => simp [layChars, lexF, expectToks]
  | cons p r ih =>
    obtain ⟨pc, k⟩ := p
    intro hs fl n hn
    cases pc with
    | sp =>
      cases n with
      | zero => simp at hn
      | succ m =>
        simp only [layChars, List.length_cons] at hn
        simp only [layChars, lexF, show isBlank ' ' = true from by decide, if_true, List.map_cons, expectToks]
        exact ih hs fl m (by omega)
    | nl =>
      cases n with
      | zero => simp at hn
      | succ m =>
        simp only [layChars, List.length_cons, List.length_append, List.length_replicate] at hn
        simp only [layChars, lexF, show isBlank '\n' = false from by decide, show ('\n' == '\n') = true from by decide,
          if_true, List.map_cons, expectToks]
        obtain ⟨m', rfl⟩ : ∃ m', m = m' + k := ⟨m - k, by omega⟩
        have e := lexF_indent false (layChars r) k m'
        have := ih hs false m' (by omega)
        cases fl <;> simp [e, this]
    | tok t =>
      obtain ⟨h0, h1, h2⟩ := hs
      cases n with
      | zero => simp at hn
      | succ m =>
        simp only [layChars, List.length_append] at hn
        simp only [layChars, List.map_cons, expectToks]
        unfold startOK at h0
        cases htx : t.text.toList with
        | nil => simp [htx] at h0
        | cons c w =>
          rw [htx] at h0 h1 hn
          simp only [Bool.and_eq_true, Bool.not_eq_true', bne_iff_ne, ne_eq] at h0
          simp only [List.cons_append] at h1 ⊢
          rw [lexF]
          simp only [h0.1, Bool.false_eq_true, if_false, show (c == '\n') = false from by simpa using h0.2, h1]
          have := ih h2 (GoLex.semiAfter t.lt) m (by simp at hn; omega)
          simp [this]

/-- **the lexer's skeleton**: on any layout of a piece list (one blank per `sp`, a newline and any indentation per
    `nl`) whose tokens are each read back by `lexTok`, Go's lexer returns the pieces' tokens — kinds and texts — with
    the automatic semicolons of the specification, and nothing else -/
theorem lex_layout (ps : List (Piece × Nat)) (h : TokSound ps) :
    GoLex.lex (layChars ps) = some (expectToks false (ps.map (·.1))) :=
  lexF_layout ps h false _ (Nat.lt_succ_self _)

/-! ## identifiers and keywords at character level -/

theorem takeWhile_stop (p : Char → Bool) : ∀ (w rest : List Char), w.all p = true → (∀ c r, rest = c :: r → p c = false) →
    (w ++ rest).takeWhile p = w ∧ (w ++ rest).dropWhile p = rest := by
  intro w
  induction w with
  | nil =>
    intro rest _ hr
    cases rest with
    | nil => simp
    | cons c r => simp [List.takeWhile, List.dropWhile, hr c r rfl]
  | cons a w ih =>
    intro rest hw hr
    simp only [List.all_cons, Bool.and_eq_true] at hw
    have := ih rest hw.2 hr
    simp [List.takeWhile, List.dropWhile, hw.1, this.1, this.2]

/-- the next character does not continue a word -/
def wordEnds (rest : List Char) : Prop := ∀ c r, rest = c :: r → isIdChar c = false

theorem lexTok_word (c : Char) (w rest : List Char) (hc : isLetter c = true) (hw : w.all isIdChar = true)
    (hr : wordEnds rest) :
    lexTok (c :: (w ++ rest)) =
      some (⟨if keywords.contains (c :: w) then .kw else .ident, c :: w⟩, rest) := by
  have := takeWhile_stop isIdChar w rest hw hr
  simp [lexTok, hc, this.1, this.2]

def wordShape : List Char → Bool
  | c :: w => isLetter c && w.all isIdChar
  | [] => false

theorem lexTok_ident (s : String) (h : (Tok.ident s).wf = true) (rest : List Char) (hr : wordEnds rest) :
    lexTok (s.toList ++ rest) = some ((Tok.ident s).lt, rest) := by
  unfold Tok.wf at h
  cases hs : s.toList with
  | nil => simp [hs] at h
  | cons c w =>
    simp only [hs, Bool.and_eq_true, Bool.not_eq_true'] at h
    rw [List.cons_append, lexTok_word c w rest h.1.1 h.1.2 hr]
    have hn : ¬ (c :: w ∈ keywords) := by simpa using h.2
    simp [Tok.lt, hs, hn]

theorem lexTok_kw (s : String) (h : (Tok.kw s).wf = true) (rest : List Char) (hr : wordEnds rest) :
    lexTok (s.toList ++ rest) = some ((Tok.kw s).lt, rest) := by
  have hmem : s.toList ∈ keywords := by simpa [Tok.wf] using h
  have hall : ∀ k ∈ keywords, wordShape k = true := by decide
  have hsh := hall _ hmem
  cases hk : s.toList with
  | nil => simp [hk, wordShape] at hsh
  | cons c w =>
    simp only [hk, wordShape, Bool.and_eq_true] at hsh
    rw [List.cons_append, lexTok_word c w rest hsh.1 hsh.2 hr]
    have : keywords.contains (c :: w) = true := by rw [← hk]; simpa using hmem
    have hm : c :: w ∈ keywords := by simpa using this
    simp [Tok.lt, hk, hm]

end Goml.GoPrint

namespace Goml.GoPrint
open Goml.GoLex

/-- words only: every token is a `Tok.wf` identifier or keyword and is followed by a blank, a newline or the end -/
def WordsSpaced : List (Piece × Nat) → Prop
  | [] => True
  | (.tok t, _) :: r =>
      ((∃ s, t = .ident s) ∨ (∃ s, t = .kw s)) ∧ t.wf = true ∧
        (match r with | (.tok _, _) :: _ => False | _ => True) ∧ WordsSpaced r
  | _ :: r => WordsSpaced r

theorem wordEnds_after : ∀ r : List (Piece × Nat), (match r with | (.tok _, _) :: _ => False | _ => True) →
    wordEnds (layChars r) := by
  intro r h c r' hc
  match r, h with
  | [], _ => simp [layChars] at hc
  | (.sp, _) :: _, _ => simp only [layChars, List.cons.injEq] at hc; rw [← hc.1]; decide
  | (.nl, _) :: _, _ => simp only [layChars, List.cons.injEq] at hc; rw [← hc.1]; decide

theorem wordShape_startOK {t : Tok} (h : wordShape t.text.toList = true) : startOK t = true := by
  unfold startOK
  cases ht : t.text.toList with
  | nil => simp [ht, wordShape] at h
  | cons c w =>
    simp only [ht, wordShape, Bool.and_eq_true] at h
    have h1 := h.1
    simp only [Bool.and_eq_true, Bool.not_eq_true', bne_iff_ne, ne_eq]
    constructor
    · cases hb : isBlank c with
      | false => rfl
      | true =>
        simp only [isBlank, Bool.or_eq_true, beq_iff_eq] at hb
        rcases hb with (rfl | rfl) | rfl <;> exact absurd h1 (by decide)
    · intro hc; subst hc; exact absurd h1 (by decide)

theorem tokSound_words : ∀ ps : List (Piece × Nat), WordsSpaced ps → TokSound ps := by
  intro ps
  induction ps with
  | nil => intro _; trivial
  | cons p r ih =>
    obtain ⟨pc, k⟩ := p
    cases pc with
    | sp => intro h; exact ih h
    | nl => intro h; exact ih h
    | tok t =>
      intro ⟨hk, hwf, hnext, hr⟩
      have he := wordEnds_after r hnext
      rcases hk with ⟨s, rfl⟩ | ⟨s, rfl⟩
      · refine ⟨wordShape_startOK ?_, lexTok_ident s hwf _ he, ih hr⟩
        simp only [Tok.wf] at hwf
        simp only [Tok.text]
        cases hs : s.toList with
        | nil => simp [hs] at hwf
        | cons c w => simp only [hs, Bool.and_eq_true] at hwf; simp [wordShape, hwf.1.1, hwf.1.2]
      · refine ⟨wordShape_startOK ?_, lexTok_kw s hwf _ he, ih hr⟩
        have hmem : s.toList ∈ keywords := by simpa [Tok.wf] using hwf
        have hall : ∀ k ∈ keywords, wordShape k = true := by decide
        exact hall _ hmem

/-- **character-level lexing of the printer's words** (partial `lex_render_tokens`: identifiers — every output of
    `go_ident` is one — and keywords, separated by blanks / newlines with any indentation): Go's lexer on the characters
    returns exactly the tokens, kinds and texts, with the automatic semicolons.  Numbers, strings and operators, and
    tokens written with nothing between them (`glueFree`), are covered by `lex_layout` + the `golex` tie only. -/
theorem lex_render_tokens_partial (ps : List (Piece × Nat)) (h : WordsSpaced ps) :
    GoLex.lex (layChars ps) = some (expectToks false (ps.map (·.1))) :=
  lex_layout ps (tokSound_words ps h)

/-- non-vacuity: `return x⏎    break` — two keywords after which Go inserts a semicolon, an identifier, an indentation -/
example : GoLex.lex (layChars [(.tok (.kw "return"), 0), (.sp, 0), (.tok (.ident "x"), 0), (.nl, 4), (.tok (.kw "break"), 0)]) =
    some [⟨.kw, "return".toList⟩, ⟨.ident, ['x']⟩, semiTok, ⟨.kw, "break".toList⟩, semiTok] := by
  rw [lex_render_tokens_partial _ (by
    refine ⟨Or.inr ⟨_, rfl⟩, by decide, trivial, Or.inl ⟨_, rfl⟩, by decide, trivial, Or.inr ⟨_, rfl⟩, by decide, trivial, trivial⟩)]
  decide

end Goml.GoPrint
