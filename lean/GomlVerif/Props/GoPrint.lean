import GomlVerif.Model.GoPrint
/-!
# The Go printer (`pprint/go_pprint.rs`) — theorems about its model `Model/GoPrint.lean`

(counts under C02; cited from C01 / C10).  The model is tied to the real printer byte for byte by
`gv gopp | gomlmodel gopp` (tools/props/gopp.py) at widths 40, 80, 120.

* `render_width_irrelevant` — the layout of every item / file does not depend on the width: the printer builds
  documents without `group` / `line` (`itemDoc_hard`), and on such documents `best` ignores the width.
* `no_break_inserts_semicolon` — every line break the layout puts inside an expression follows `{` or `,`,
  tokens after which Go inserts no semicolon: an expression is never cut by the automatic-semicolon rule.
* `escape_go_string_decodes` — Go's interpreted-string-literal lexing of `escape_go_string s ++ "\""` yields `s`.
* `print_expr_roundtrip` — the printed tokens of a paren-free expression of the operator subset parse back to the
  same tree by Go's precedence rules (`Parse`, a deterministic relation: `parse_deterministic`).
* `glue_free_expr` — in that text no two tokens written without a space between them read as another token.
-/
namespace Goml.GoPrint
open Goml.Go

/-! ## the documents the printer builds have no soft break -/

@[simp] theorem hard_append (a b : Doc) : (a ++ b).Hard ↔ a.Hard ∧ b.Hard := by
  show (Doc.append a b).Hard ↔ _
  cases a <;> cases b <;> simp [Doc.append, Doc.Hard]

@[simp] theorem hard_tokD (t : Tok) : (tokD t).Hard := by
  unfold tokD; split <;> simp [Doc.Hard]

@[simp] theorem hard_kw (s : String) : (kw s).Hard := hard_tokD _
@[simp] theorem hard_sym (s : String) : (sym s).Hard := hard_tokD _
@[simp] theorem hard_ident (s : String) : (ident s).Hard := hard_tokD _
@[simp] theorem hard_sp : Doc.sp.Hard := trivial
@[simp] theorem hard_nil : Doc.nil.Hard := trivial
@[simp] theorem hard_hardline : Doc.hardline.Hard := trivial

@[simp] theorem hard_nestD (n : Nat) (d : Doc) : (nestD n d).Hard ↔ d.Hard := by
  cases d <;> simp [nestD, Doc.Hard]

theorem hard_foldl (sep : Doc) (hs : sep.Hard) : ∀ (ds : List Doc) (acc : Doc), acc.Hard → (∀ d ∈ ds, d.Hard) →
    (ds.foldl (fun acc x => acc ++ sep ++ x) acc).Hard := by
  intro ds
  induction ds with
  | nil => intro acc h _; exact h
  | cons d ds ih =>
    intro acc h hd
    apply ih
    · simp [h, hs, hd d (List.mem_cons_self)]
    · intro x hx; exact hd x (List.mem_cons_of_mem _ hx)

theorem hard_intersperse (sep : Doc) (hs : sep.Hard) (ds : List Doc) (hd : ∀ d ∈ ds, d.Hard) :
    (intersperse sep ds).Hard := by
  cases ds with
  | nil => trivial
  | cons d ds =>
    exact hard_foldl sep hs ds d (hd d List.mem_cons_self) (fun x hx => hd x (List.mem_cons_of_mem _ hx))

@[simp] theorem hard_toksDoc (ts : List Tok) : (toksDoc ts).Hard := by
  induction ts with
  | nil => trivial
  | cons t ts ih =>
    cases ts with
    | nil => simp [toksDoc]
    | cons u us => simp [toksDoc, ih]

@[simp] theorem hard_numDoc (s : String) : (numDoc s).Hard := by
  unfold numDoc
  split
  · exact (hard_append _ _).2 ⟨hard_sym _, hard_tokD _⟩
  · exact hard_tokD _

theorem hard_commaSep : (sym "," ++ Doc.sp).Hard := by simp

mutual
theorem typeDoc_hard : ∀ t : GTy, (typeDoc t).Hard
  | .func ps r => by
      have h1 := typeDocs_hard ps
      have h2 := typeDoc_hard r
      cases r <;> simp_all [typeDoc, hard_intersperse]
  | .array _ e => by have := typeDoc_hard e; simp [typeDoc, this]
  | .slice e => by have := typeDoc_hard e; simp [typeDoc, this]
  | .ptr e => by have := typeDoc_hard e; simp [typeDoc, this]
  | .void | .unit | .bool | .int _ _ | .float _ | .string | .struct _ _ | .name _ => by simp [typeDoc]
theorem typeDocs_hard : ∀ ts : List GTy, ∀ d ∈ typeDocs ts, d.Hard
  | [] => by simp [typeDocs]
  | t :: ts => by
      have h1 := typeDoc_hard t
      have h2 := typeDocs_hard ts
      simp [typeDocs]; exact ⟨h1, h2⟩
end

theorem paramsDoc_hard (ps : List (String × GTy)) : (paramsDoc ps).Hard := by
  unfold paramsDoc
  apply hard_intersperse _ hard_commaSep
  intro d hd
  simp only [List.mem_map] at hd
  obtain ⟨⟨p, t⟩, _, rfl⟩ := hd
  simp [typeDoc_hard]

theorem hard_hl : Doc.hardline.Hard := trivial

mutual
theorem exprDoc_hard : ∀ e : GExpr, (exprDoc e).Hard
  | .nil _ | .voidv _ | .unitv _ | .var _ _ | .bool _ | .int _ _ | .float _ _ | .str _ => by simp [exprDoc]
  | .call _ f args => by
      have h1 := exprDoc_hard f
      have h2 := hard_intersperse _ hard_commaSep _ (exprDocs_hard args)
      simp [exprDoc, h1, h2]
  | .un _ _ e => by have := exprDoc_hard e; simp [exprDoc, this]
  | .bin _ _ l r => by have h1 := exprDoc_hard l; have h2 := exprDoc_hard r; simp [exprDoc, h1, h2]
  | .field _ _ o => by have := exprDoc_hard o; simp [exprDoc, this]
  | .index _ a i => by have h1 := exprDoc_hard a; have h2 := exprDoc_hard i; simp [exprDoc, h1, h2]
  | .cast ty e => by have := exprDoc_hard e; simp [exprDoc, this, typeDoc_hard]
  | .slit _ [] => by simp [exprDoc]
  | .slit _ (f :: fs) => by
      have h := hard_intersperse _ hard_hl _ (fieldDocs_hard (f :: fs))
      simp [exprDoc, h]
  | .alit ty elems => by
      have h := hard_intersperse _ hard_commaSep _ (exprDocs_hard elems)
      cases ty <;> simp [exprDoc, panicTok, h, typeDoc_hard]
  | .blocke _ [] none => by simp [exprDoc]
  | .blocke _ [] (some x) => by have hx := exprDoc_hard x; simp [exprDoc, hx]
  | .blocke _ (s :: ss) none => by
      have h1 := stmtDoc_hard s
      have h2 := stmtDocs_hard ss
      simp [exprDoc]
      apply hard_intersperse _ hard_hl
      intro d hd; simp at hd; rcases hd with rfl | hd
      · exact h1
      · exact h2 d hd
  | .blocke _ (s :: ss) (some x) => by
      have h1 := stmtDoc_hard s
      have h2 := stmtDocs_hard ss
      have hx := exprDoc_hard x
      simp [exprDoc, hx]
      apply hard_intersperse _ hard_hl
      intro d hd; simp at hd; rcases hd with rfl | hd
      · exact h1
      · exact h2 d hd
theorem exprDocs_hard : ∀ es : List GExpr, ∀ d ∈ exprDocs es, d.Hard
  | [] => by simp [exprDocs]
  | e :: es => by
      have h1 := exprDoc_hard e
      have h2 := exprDocs_hard es
      simp [exprDocs]; exact ⟨h1, h2⟩
theorem fieldDocs_hard : ∀ fs : List GField, ∀ d ∈ fieldDocs fs, d.Hard
  | [] => by simp [fieldDocs]
  | .mk _ e :: fs => by
      have h1 := exprDoc_hard e
      have h2 := fieldDocs_hard fs
      simp [fieldDocs, h1]; exact h2
theorem stmtDoc_hard : ∀ s : GStmt, (stmtDoc s).Hard
  | .expr e => by have := exprDoc_hard e; simp [stmtDoc, this]
  | .go c => by have := exprDoc_hard c; simp [stmtDoc, this]
  | .varDecl _ ty none => by simp [stmtDoc, typeDoc_hard]
  | .varDecl _ ty (some v) => by have := exprDoc_hard v; simp [stmtDoc, typeDoc_hard, this]
  | .assign _ v => by have := exprDoc_hard v; simp [stmtDoc, this]
  | .fieldAssign t v => by have h1 := exprDoc_hard t; have h2 := exprDoc_hard v; simp [stmtDoc, h1, h2]
  | .ptrAssign t v => by have h1 := exprDoc_hard t; have h2 := exprDoc_hard v; simp [stmtDoc, h1, h2]
  | .indexAssign a i v => by
      have h1 := exprDoc_hard a; have h2 := exprDoc_hard i; have h3 := exprDoc_hard v
      simp [stmtDoc, h1, h2, h3]
  | .ret none => by simp [stmtDoc]
  | .ret (some e) => by have := exprDoc_hard e; simp [stmtDoc, this]
  | .loop [] => by simp [stmtDoc]
  | .loop (s :: ss) => by
      have h1 := stmtDoc_hard s
      have h2 := stmtDocs_hard ss
      simp [stmtDoc]
      apply hard_intersperse _ hard_hl
      intro d hd; simp at hd; rcases hd with rfl | hd
      · exact h1
      · exact h2 d hd
  | .brk => by simp [stmtDoc]
  | .ite c t none => by have h1 := exprDoc_hard c; have h2 := blockDoc_hard t; simp [stmtDoc, h1, h2]
  | .ite c t (some e) => by
      have h1 := exprDoc_hard c; have h2 := blockDoc_hard t; have h3 := blockDoc_hard e
      simp [stmtDoc, h1, h2, h3]
  | .switch e cases none => by
      have h1 := exprDoc_hard e; have h2 := hard_intersperse _ hard_hl _ (caseDocs_hard cases)
      simp [stmtDoc, h1, h2]
  | .switch e cases (some d) => by
      have h1 := exprDoc_hard e; have h2 := hard_intersperse _ hard_hl _ (caseDocs_hard cases); have h3 := caseBody_hard d
      simp [stmtDoc, h1, h2, h3]
  | .tswitch none e cases none => by
      have h1 := exprDoc_hard e; have h2 := hard_intersperse _ hard_hl _ (tcaseDocs_hard cases)
      simp [stmtDoc, h1, h2]
  | .tswitch none e cases (some d) => by
      have h1 := exprDoc_hard e; have h2 := hard_intersperse _ hard_hl _ (tcaseDocs_hard cases); have h3 := caseBody_hard d
      simp [stmtDoc, h1, h2, h3]
  | .tswitch (some _) e cases none => by
      have h1 := exprDoc_hard e; have h2 := hard_intersperse _ hard_hl _ (tcaseDocs_hard cases)
      simp [stmtDoc, h1, h2]
  | .tswitch (some _) e cases (some d) => by
      have h1 := exprDoc_hard e; have h2 := hard_intersperse _ hard_hl _ (tcaseDocs_hard cases); have h3 := caseBody_hard d
      simp [stmtDoc, h1, h2, h3]
theorem stmtDocs_hard : ∀ ss : List GStmt, ∀ d ∈ stmtDocs ss, d.Hard
  | [] => by simp [stmtDocs]
  | s :: ss => by
      have h1 := stmtDoc_hard s
      have h2 := stmtDocs_hard ss
      simp [stmtDocs]; exact ⟨h1, h2⟩
theorem blockDoc_hard : ∀ ss : List GStmt, (blockDoc ss).Hard
  | [] => by simp [blockDoc]
  | s :: ss => by
      have h1 := stmtDoc_hard s
      have h2 := stmtDocs_hard ss
      simp [blockDoc]
      apply hard_intersperse _ hard_hl
      intro d hd; simp at hd; rcases hd with rfl | hd
      · exact h1
      · exact h2 d hd
theorem caseBody_hard : ∀ ss : List GStmt, (caseBody ss).Hard
  | [] => by simp [caseBody]
  | s :: ss => by
      have h1 := stmtDoc_hard s
      have h2 := stmtDocs_hard ss
      simp [caseBody]
      apply hard_intersperse _ hard_hl
      intro d hd; simp at hd; rcases hd with rfl | hd
      · exact h1
      · exact h2 d hd
theorem caseDocs_hard : ∀ cs : List GCase, ∀ d ∈ caseDocs cs, d.Hard
  | [] => by simp [caseDocs]
  | .mk v body :: cs => by
      have h1 := exprDoc_hard v
      have h2 := caseBody_hard body
      have h3 := caseDocs_hard cs
      simp [caseDocs, h1, h2]; exact h3
theorem tcaseDocs_hard : ∀ cs : List GTCase, ∀ d ∈ tcaseDocs cs, d.Hard
  | [] => by simp [tcaseDocs]
  | .mk ty body :: cs => by
      have h2 := caseBody_hard body
      have h3 := tcaseDocs_hard cs
      simp [tcaseDocs, typeDoc_hard, h2]; exact h3
end

/-! ## the layout does not depend on the width -/

def StackHard (s : List Cmd) : Prop := ∀ c ∈ s, c.2.2.Hard

theorem StackHard.tail {c : Cmd} {r : List Cmd} (h : StackHard (c :: r)) : StackHard r :=
  fun x hx => h x (List.mem_cons_of_mem _ hx)

theorem StackHard.cat {i : Nat} {f : Bool} {a b : Doc} {r : List Cmd} (h : StackHard ((i, f, .cat a b) :: r)) :
    StackHard ((i, f, a) :: (i, f, b) :: r) := by
  intro c hc
  have hab : (Doc.cat a b).Hard := h _ List.mem_cons_self
  simp only [List.mem_cons] at hc
  rcases hc with rfl | rfl | hc
  · exact hab.1
  · exact hab.2
  · exact h.tail c hc

theorem StackHard.nest {i j n : Nat} {f : Bool} {d : Doc} {r : List Cmd} (h : StackHard ((i, f, .nest n d) :: r)) :
    StackHard ((j, f, d) :: r) := by
  intro c hc
  have hd : (Doc.nest n d).Hard := h _ List.mem_cons_self
  simp only [List.mem_cons] at hc
  rcases hc with rfl | hc
  · exact hd
  · exact h.tail c hc

/-- on a stack of documents without soft breaks `best` never consults the width -/
theorem best_width_irrelevant (w w' : Nat) : ∀ (col : Nat) (s : List Cmd), StackHard s → best w col s = best w' col s
  | _, [], _ => by simp [best]
  | col, (i, f, .nil) :: r, h => by
      rw [best, best]; exact best_width_irrelevant w w' col r h.tail
  | col, (i, f, .tok t) :: r, h => by
      rw [best, best, best_width_irrelevant w w' _ r h.tail]
  | col, (i, f, .sp) :: r, h => by
      rw [best, best, best_width_irrelevant w w' _ r h.tail]
  | col, (i, f, .hardline) :: r, h => by
      rw [best, best, best_width_irrelevant w w' _ r h.tail]
  | col, (i, f, .cat a b) :: r, h => by
      rw [best, best]; exact best_width_irrelevant w w' col _ h.cat
  | col, (i, f, .nest n d) :: r, h => by
      rw [best, best]; exact best_width_irrelevant w w' col _ h.nest
  | _, (_, _, .line) :: _, h => absurd (h _ List.mem_cons_self) (by simp [Doc.Hard])
  | _, (_, _, .group _) :: _, h => absurd (h _ List.mem_cons_self) (by simp [Doc.Hard])
termination_by _ s => stackSize s
decreasing_by all_goals simp [stackSize, Doc.size] <;> omega

theorem render_hard (w w' : Nat) (d : Doc) (h : d.Hard) : render w d = render w' d := by
  unfold render
  rw [best_width_irrelevant w w' 0 [(0, false, d)] (by intro c hc; simp at hc; subst hc; exact h)]

theorem methodDoc_hard (m : GMethod) : (methodDoc m).Hard := by
  simp [methodDoc, typeDoc_hard, paramsDoc_hard, blockDoc_hard]

theorem funcDoc_hard (f : GFunc) : (funcDoc f).Hard := by
  unfold funcDoc
  cases f.ret <;> simp [typeDoc_hard, paramsDoc_hard, blockDoc_hard]

theorem methodElemDoc_hard (m : String × List (String × GTy) × Option GTy) : (methodElemDoc m).Hard := by
  unfold methodElemDoc
  cases m.2.2 <;> simp [typeDoc_hard, paramsDoc_hard]

theorem importSpecDoc_hard (sp : String × String) : (importSpecDoc sp).Hard := by
  unfold importSpecDoc
  split <;> simp

theorem hard_map {α} (f : α → Doc) (hf : ∀ a, (f a).Hard) (l : List α) : ∀ d ∈ l.map f, d.Hard := by
  intro d hd
  simp only [List.mem_map] at hd
  obtain ⟨a, _, rfl⟩ := hd
  exact hf a

/-- no item's document contains a `line` or a `group`: the printer has exactly one layout -/
theorem itemDoc_hard (it : GItem) : (itemDoc it).Hard := by
  cases it with
  | package n => simp [itemDoc]
  | imports specs =>
    cases specs with
    | nil => simp [itemDoc]
    | cons sp specs =>
      have h := hard_intersperse _ hard_hl _ (hard_map importSpecDoc importSpecDoc_hard (sp :: specs))
      simpa [itemDoc] using h
  | interface name methods =>
    cases methods with
    | nil => simp [itemDoc]
    | cons m ms =>
      have h := hard_intersperse _ hard_hl _ (hard_map methodElemDoc methodElemDoc_hard (m :: ms))
      simpa [itemDoc] using h
  | structDef name fields methods =>
    have hf : ∀ fs : List (String × GTy), (intersperse Doc.hardline (fs.map fun (f, t) => ident f ++ Doc.sp ++ typeDoc t)).Hard := by
      intro fs
      exact hard_intersperse _ hard_hl _ (hard_map _ (fun a => by simp [typeDoc_hard]) fs)
    have hm : ∀ ms : List GMethod, (intersperse (Doc.hardline ++ Doc.hardline) (ms.map methodDoc)).Hard := by
      intro ms
      exact hard_intersperse _ (by simp) _ (hard_map methodDoc methodDoc_hard ms)
    cases fields with
    | nil =>
      cases methods with
      | nil => simp [itemDoc]
      | cons m ms => have h2 := hm (m :: ms); simp_all [itemDoc]
    | cons f fs =>
      cases methods with
      | nil => have h1 := hf (f :: fs); simp_all [itemDoc]
      | cons m ms => have h1 := hf (f :: fs); have h2 := hm (m :: ms); simp_all [itemDoc]
  | alias name ty => simp [itemDoc, typeDoc_hard]
  | func f => simp [itemDoc, funcDoc_hard]

theorem fileDoc_hard (f : GFile) : (fileDoc f).Hard := by
  unfold fileDoc
  have := hard_intersperse (Doc.hardline ++ Doc.hardline) (by simp) _ (hard_map itemDoc itemDoc_hard f.items)
  simp [this]

/-- **The layout is independent of the width** passed to `to_pretty` (the real default is 120): the text of an
    item, and of a whole file, is the same at every two widths.  (The printer builds its documents from
    `text`, `space`, `hardline`, `nest`, `append` only; `Gen/GoPrintTables.docCombinators`, regenerated from the
    Rust text on every run, is checked against that list by `combinators_hard` below.) -/
theorem render_width_irrelevant (w w' : Nat) (it : GItem) : printItem w it = printItem w' it :=
  render_hard w w' _ (itemDoc_hard it)

theorem render_width_irrelevant_file (w w' : Nat) (f : GFile) : printFile w f = printFile w' f :=
  render_hard w w' _ (fileDoc_hard f)

theorem render_width_irrelevant_expr (w w' : Nat) (e : GExpr) : printExpr w e = printExpr w' e :=
  render_hard w w' _ (exprDoc_hard e)

/-- the Doc combinators go_pprint.rs uses (extracted from its text) are the ones the model has, none of them a
    soft break; a `group()` / `line()` / `softline()` added to the Rust changes the generated list and this fails -/
theorem combinators_hard :
    Gen.GoPrintTables.docCombinators = ["append", "as_string", "hardline", "intersperse", "nest", "nil", "space", "text"] := by
  decide

/-- the fixed texts the Rust writes are the ones the model was written against (a keyword respelled or a new
    text literal in go_pprint.rs changes the generated list) -/
theorem text_literals_as_modelled :
    Gen.GoPrintTables.textLiterals =
      ["", "!", "!=", "\"", "&", "&&", "(", ")", "*", "+", ",", ", ", "-", ".", ".(", ".(type)", "/", ":", ":=", "<", "<=",
       "=", "==", ">", ">=", "[", "[]", "]", "break", "case", "default:", "else", "for", "func", "func(", "go", "if",
       "import (", "import ()", "interface", "nil", "package", "return", "struct", "struct{}{}", "switch", "type", "var",
       "{", "{}", "||", "}"] := by
  decide

/-! ## `print_expr_roundtrip`: the printed tokens parse back to the tree (Go's precedence rules)

The grammar (Go spec "Operators", "Primary expressions"; the shape of `go/parser`'s `parseBinaryExpr` /
`parseUnaryExpr` / `parsePrimaryExpr`) is given as the big-step relation `Parse` over the printer's token
stream; it is deterministic (`parse_deterministic`), so "`Parse … e rest`" means: this is what a Go parser
reads.  The subset: identifiers (`Var`, `nil`, `true`/`false`), integer, float and string literals (a negative
number is `-` applied to a literal; a literal is one opaque token here — `escape_go_string_decodes` is about the
inside of a string token), calls, selectors, index expressions, the four unary and twelve binary operators.
Outside it (not in this theorem): type assertions and composite literals (they need the type grammar). -/

/-- what a parser builds: the tree without the back end's type annotations -/
inductive PE where
  | ident (x : String)
  | num (s : String)
  | str (s : String)
  | paren (e : PE)
  | un (op : GUn) (e : PE)
  | bin (op : GBin) (l r : PE)
  | call (f : PE) (args : List PE)
  | sel (o : PE) (f : String)
  | index (a i : PE)

abbrev TS := List (Option Tok)

def unOfSym (s : String) : Option GUn := [GUn.neg, .not, .addr, .deref].find? fun u => unSym u == s
def binOfSym (s : String) : Option GBin :=
  [GBin.add, .sub, .mul, .div, .less, .greater, .lessEq, .greaterEq, .eq, .notEq, .and, .or].find? fun b => binSym b == s

theorem unOfSym_unSym (u : GUn) : unOfSym (unSym u) = some u := by cases u <;> decide
theorem binOfSym_binSym (b : GBin) : binOfSym (binSym b) = some b := by cases b <;> decide
theorem binPrec_le (b : GBin) : binPrec b ≤ 5 := by cases b <;> decide
theorem binPrec_pos (b : GBin) : 1 ≤ binPrec b := by cases b <;> decide

/-- precedence of the binary operator at the head of the input, 0 when there is none -/
def headPrec : TS → Nat
  | some (.sym s) :: _ => ((binOfSym s).map binPrec).getD 0
  | _ => 0

/-- does the input continue a primary expression (`.f`, `(args)`, `[i]`)? -/
def postStart : TS → Bool
  | some (.sym s) :: _ => s == "." || s == "(" || s == "["
  | _ => false

inductive NT where
  | unary | post (x : PE) | bin (p : Nat) | loop (p : Nat) (x : PE) | args | more

inductive Res where
  | e (x : PE) | es (xs : List PE)

/-- `Parse nt input result rest`: non-terminal `nt` consumes a prefix of `input`, builds `result`, leaves `rest` -/
inductive Parse : NT → TS → Res → TS → Prop where
  -- UnaryExpr = unary_op UnaryExpr | PrimaryExpr
  | u_un {s u ts x r} : unOfSym s = some u → Parse .unary ts (.e x) r → Parse .unary (some (.sym s) :: ts) (.e (.un u x)) r
  | u_ident {x ts res r} : Parse (.post (.ident x)) ts res r → Parse .unary (some (.ident x) :: ts) res r
  | u_num {n ts res r} : Parse (.post (.num n)) ts res r → Parse .unary (some (.num n) :: ts) res r
  | u_str {n ts res r} : Parse (.post (.str n)) ts res r → Parse .unary (some (.str n) :: ts) res r
  | u_paren {s ts x r res r'} : s = "(" → Parse (.bin 1) ts (.e x) (some (.sym ")") :: r) → Parse (.post (.paren x)) r res r' →
      Parse .unary (some (.sym s) :: ts) res r'
  -- PrimaryExpr = Operand { Selector | Index | Arguments }
  | p_sel {s x f ts res r} : s = "." → Parse (.post (.sel x f)) ts res r → Parse (.post x) (some (.sym s) :: some (.ident f) :: ts) res r
  | p_call {s x ts as r res r'} : s = "(" → Parse .args ts (.es as) r → Parse (.post (.call x as)) r res r' →
      Parse (.post x) (some (.sym s) :: ts) res r'
  | p_index {s x ts i r res r'} : s = "[" → Parse (.bin 1) ts (.e i) (some (.sym "]") :: r) → Parse (.post (.index x i)) r res r' →
      Parse (.post x) (some (.sym s) :: ts) res r'
  | p_stop {x ts} : postStart ts = false → Parse (.post x) ts (.e x) ts
  -- parseBinaryExpr(prec1): a unary expression, then every operator of precedence ≥ prec1, each with a right
  -- operand parsed at its own precedence + 1 (left associativity)
  | b {p ts x r res r'} : Parse .unary ts (.e x) r → Parse (.loop p x) r res r' → Parse (.bin p) ts res r'
  | l_step {p x s b ts y r res r'} : binOfSym s = some b → p ≤ binPrec b → Parse (.bin (binPrec b + 1)) ts (.e y) r →
      Parse (.loop p (.bin b x y)) r res r' → Parse (.loop p x) (some (.sym s) :: ts) res r'
  | l_stop {p x ts} : headPrec ts < p → Parse (.loop p x) ts (.e x) ts
  -- Arguments = "(" [ Expression { "," Expression } ] ")"
  | a_nil {s r} : s = ")" → Parse .args (some (.sym s) :: r) (.es []) r
  | a_cons {ts a r as r'} : Parse (.bin 1) ts (.e a) r → Parse .more r (.es as) r' → Parse .args ts (.es (a :: as)) r'
  | m_done {s r} : s = ")" → Parse .more (some (.sym s) :: r) (.es []) r
  | m_more {s ts a r as r'} : s = "," → Parse (.bin 1) ts (.e a) r → Parse .more r (.es as) r' →
      Parse .more (some (.sym s) :: ts) (.es (a :: as)) r'

def eraseNum (text : String) : PE :=
  match text.toList with
  | '-' :: rest => .un .neg (.num (String.ofList rest))
  | _ => .num text

mutual
/-- the tree a parser should find in the text of `e` -/
def erase : GExpr → PE
  | .nil _ => .ident "nil"
  | .var x _ => .ident x
  | .bool b => .ident (if b then "true" else "false")
  | .int text _ => eraseNum text
  | .float bits _ => eraseNum (goFloatLiteral bits.toNat)
  | .str v => .str ("\"" ++ escapeGoString v ++ "\"")
  | .call _ f args => .call (erase f) (eraseList args)
  | .un op _ e => .un op (erase e)
  | .bin op _ l r => .bin op (erase l) (erase r)
  | .field f _ o => .sel (erase o) f
  | .index _ a i => .index (erase a) (erase i)
  | _ => .ident "<outside the subset>"
def eraseList : List GExpr → List PE
  | [] => []
  | e :: es => erase e :: eraseList es
end

/-! ### token streams of the printer's documents -/

@[simp] theorem items_append (a b : Doc) : (a ++ b).items = a.items ++ b.items := by
  show (Doc.append a b).items = _
  cases a <;> cases b <;> simp [Doc.append, Doc.items]

theorem items_tokD {t : Tok} (h : t.text.isEmpty = false) : (tokD t).items = [some t] := by
  simp [tokD, h, Doc.items]

@[simp] theorem items_sp : Doc.sp.items = [] := rfl

theorem items_sym_un (u : GUn) : (sym (unSym u)).items = [some (.sym (unSym u))] := by cases u <;> decide
theorem items_sym_bin (b : GBin) : (sym (binSym b)).items = [some (.sym (binSym b))] := by cases b <;> decide

theorem items_foldl (sep : Doc) : ∀ (ds : List Doc) (acc : Doc),
    (ds.foldl (fun acc x => acc ++ sep ++ x) acc).items = acc.items ++ ds.flatMap (fun x => sep.items ++ x.items) := by
  intro ds
  induction ds with
  | nil => intro acc; simp
  | cons d ds ih => intro acc; simp [List.foldl, ih, List.flatMap_cons]

theorem items_intersperse_cons (sep d : Doc) (ds : List Doc) :
    (intersperse sep (d :: ds)).items = d.items ++ ds.flatMap (fun x => sep.items ++ x.items) := by
  simp [intersperse, items_foldl]

/-! ### the round trip -/

def RT1 (e : GExpr) : Prop :=
  ∀ rest res r', Parse (.post (erase e)) rest res r' → Parse .unary ((exprDoc e).items ++ rest) res r'
def RT2 (e : GExpr) : Prop :=
  ∀ rest, postStart rest = false → Parse .unary ((exprDoc e).items ++ rest) (.e (erase e)) rest
def RT3 (e : GExpr) : Prop :=
  ∀ p, p ≤ level e → p ≤ 6 → ∀ rest res r', postStart rest = false → headPrec rest ≤ level e →
    Parse (.loop p (erase e)) rest res r' → Parse (.bin p) ((exprDoc e).items ++ rest) res r'

theorem rt2_of_rt1 {e} (h : RT1 e) : RT2 e := fun rest hr => h rest _ _ (.p_stop hr)
theorem rt3_of_rt2 {e} (h : RT2 e) : RT3 e := fun _ _ _ rest _ _ hr _ hl => .b (h rest hr) hl

/-- the statement proved by induction: as the base of a postfix form (level 7), as a unary operand (level ≥ 6),
    as a binary operand at any precedence the expression's level allows -/
structure RT (e : GExpr) : Prop where
  post : level e = 7 → RT1 e
  unary : 6 ≤ level e → RT2 e
  bin : RT3 e

theorem rt_of_rt1 {e} (h : RT1 e) : RT e := ⟨fun _ => h, fun _ => rt2_of_rt1 h, rt3_of_rt2 (rt2_of_rt1 h)⟩
theorem rt_of_rt2 {e} (h6 : level e = 6) (h : RT2 e) : RT e :=
  ⟨fun h7 => by omega, fun _ => h, rt3_of_rt2 h⟩

theorem level_le (e : GExpr) : level e ≤ 7 := by
  cases e <;> simp only [level] <;> first | omega | (split <;> omega) | (rename_i op _ _ _; have := binPrec_le op; omega)
theorem level_pos (e : GExpr) : 1 ≤ level e := by
  cases e <;> simp only [level] <;> first | omega | (split <;> omega) | (rename_i op _ _ _; have := binPrec_pos op; omega)

theorem headPrec_binSym (b : GBin) (rest : TS) : headPrec (some (.sym (binSym b)) :: rest) = binPrec b := by
  show ((binOfSym (binSym b)).map binPrec).getD 0 = _
  rw [binOfSym_binSym]; rfl
theorem postStart_binSym (b : GBin) (rest : TS) : postStart (some (.sym (binSym b)) :: rest) = false := by
  show (binSym b == "." || binSym b == "(" || binSym b == "[") = false
  cases b <;> decide
theorem headPrec_closer (s : String) (hs : binOfSym s = none) (rest : TS) : headPrec (some (.sym s) :: rest) = 0 := by
  show ((binOfSym s).map binPrec).getD 0 = 0
  rw [hs]; rfl

def commaItems : TS := (sym "," ++ Doc.sp).items
theorem commaItems_eq : commaItems = [some (.sym ",")] := by decide

/-- the tokens of the 2nd, 3rd, … argument, each preceded by its comma -/
def moreItems (ds : List Doc) : TS := ds.flatMap fun x => commaItems ++ x.items

theorem moreItems_head (ds : List Doc) (rest : TS) :
    postStart (moreItems ds ++ some (.sym ")") :: rest) = false ∧ headPrec (moreItems ds ++ some (.sym ")") :: rest) = 0 := by
  cases ds with
  | nil => exact ⟨rfl, headPrec_closer ")" (by decide) rest⟩
  | cons d ds =>
    simp only [moreItems, List.flatMap_cons, commaItems_eq, List.cons_append, List.nil_append, List.append_assoc]
    exact ⟨rfl, headPrec_closer "," (by decide) _⟩

theorem items_numDoc_neg {text : String} {rest : List Char} (h : text.toList = '-' :: rest)
    (hne : (String.ofList rest).isEmpty = false) :
    (numDoc text).items = [some (.sym "-"), some (.num (String.ofList rest))] := by
  unfold numDoc
  rw [h]
  simp only [items_append]
  rw [items_tokD (t := .num (String.ofList rest)) hne]
  rfl

theorem rt_numlit (e : GExpr) (text : String) (hs' : numOK text = true) (hdoc : exprDoc e = numDoc text)
    (her : erase e = eraseNum text) (hlv : level e = if isNegText text then 6 else 7) : RT e := by
      cases htl : text.toList with
      | nil =>
        have hne : text.isEmpty = false := by simpa [numOK, htl] using hs'
        refine rt_of_rt1 ?_
        intro rest res r' h
        have hi : (exprDoc e).items = [some (.num text)] := by
          rw [hdoc]; unfold numDoc; rw [htl]; exact items_tokD hne
        have he : erase e = .num text := by rw [her]; unfold eraseNum; rw [htl]
        rw [hi]; rw [he] at h; exact .u_num h
      | cons c cs =>
        by_cases hc : c = '-'
        · subst hc
          have hne : (String.ofList cs).isEmpty = false := by simpa [numOK, htl] using hs'
          refine rt_of_rt2 (by rw [hlv]; simp [isNegText, htl]) ?_
          intro rest hr
          have hi := items_numDoc_neg htl hne
          have he : erase e = .un .neg (.num (String.ofList cs)) := by
            simp [her, eraseNum, htl]
          rw [hdoc, hi, he]
          exact .u_un (by decide) (.u_num (.p_stop hr))
        · have hne : text.isEmpty = false := by
            unfold numOK at hs'; rw [htl] at hs'; split at hs'
            · rename_i heq; injection heq with h1 _; exact absurd h1 hc
            · simpa using hs'
          refine rt_of_rt1 ?_
          intro rest res r' h
          have hi : (exprDoc e).items = [some (.num text)] := by
            rw [hdoc]; unfold numDoc; rw [htl]; split
            · rename_i heq; injection heq with h1 _; exact absurd h1 hc
            · exact items_tokD hne
          have he : erase e = .num text := by
            rw [her]; unfold eraseNum; rw [htl]; split
            · rename_i heq; injection heq with h1 _; exact absurd h1 hc
            · rfl
          rw [hi]; rw [he] at h; exact .u_num h

mutual
theorem rt : ∀ e : GExpr, inSubset e = true → exprParenFree e = true → RT e
  | .nil t, _, _ => rt_of_rt1 (by
      intro rest res r' h
      rw [show (exprDoc (GExpr.nil t)).items = [some (.ident "nil")] from by rw [exprDoc]; decide]
      exact .u_ident h)
  | .bool b, _, _ => rt_of_rt1 (by
      intro rest res r' h
      cases b
      · rw [show (exprDoc (GExpr.bool false)).items = [some (.ident "false")] from by rw [exprDoc]; decide]
        exact .u_ident h
      · rw [show (exprDoc (GExpr.bool true)).items = [some (.ident "true")] from by rw [exprDoc]; decide]
        exact .u_ident h)
  | .var x t, hs, _ => rt_of_rt1 (by
      intro rest res r' h
      have hx : x.isEmpty = false := by simpa [inSubset] using hs
      rw [show (exprDoc (GExpr.var x t)).items = [some (.ident x)] from by rw [exprDoc]; exact items_tokD hx]
      exact .u_ident h)
  | .int text t, hs, _ =>
      rt_numlit (.int text t) text (by simpa [inSubset] using hs) (by rw [exprDoc]) (by rw [erase]) (by simp only [level])
  | .float bits t, hs, _ =>
      rt_numlit (.float bits t) (goFloatLiteral bits.toNat) (by simpa [inSubset] using hs) (by rw [exprDoc]) (by rw [erase])
        (by simp only [level])
  | .str v, _, _ => rt_of_rt1 (by
      intro rest res r' h
      have hne : ("\"" ++ escapeGoString v ++ "\"").isEmpty = false := by simp [String.isEmpty]
      rw [show (exprDoc (GExpr.str v)).items = [some (.str ("\"" ++ escapeGoString v ++ "\""))] from by
        rw [exprDoc]; exact items_tokD hne]
      rw [erase] at h
      exact .u_str h)
  | .call t f args, hs, hp => rt_of_rt1 (by
      intro rest res r' h
      simp only [inSubset, Bool.and_eq_true] at hs
      simp only [exprParenFree, Bool.and_eq_true, decide_eq_true_eq] at hp
      have hf7 : level f = 7 := by have := level_le f; omega
      have hargs := rtArgs args hs.2 hp.2 rest
      have := (rt f hs.1 hp.1.2).post hf7
        (some (.sym "(") :: ((intersperse (sym "," ++ Doc.sp) (exprDocs args)).items ++ some (.sym ")") :: rest)) res r'
        (.p_call rfl hargs (by rw [erase] at h; exact h))
      rw [exprDoc]
      simp only [items_append, List.append_assoc]
      rw [show (sym "(").items = [some (.sym "(")] from by decide, show (sym ")").items = [some (.sym ")")] from by decide]
      simpa using this)
  | .field fl t o, hs, hp => rt_of_rt1 (by
      intro rest res r' h
      simp only [inSubset, Bool.and_eq_true, Bool.not_eq_true'] at hs
      simp only [exprParenFree, Bool.and_eq_true, decide_eq_true_eq] at hp
      have ho7 : level o = 7 := by have := level_le o; omega
      have := (rt o hs.2 hp.2).post ho7 (some (.sym ".") :: some (.ident fl) :: rest) res r'
        (.p_sel rfl (by rw [erase] at h; exact h))
      rw [exprDoc]
      simp only [items_append, List.append_assoc]
      rw [show (sym ".").items = [some (.sym ".")] from by decide, show (ident fl).items = [some (.ident fl)] from items_tokD hs.1]
      simpa using this)
  | .index t a i, hs, hp => rt_of_rt1 (by
      intro rest res r' h
      simp only [inSubset, Bool.and_eq_true] at hs
      simp only [exprParenFree, Bool.and_eq_true, decide_eq_true_eq] at hp
      have ha7 : level a = 7 := by have := level_le a; omega
      have hi : Parse (.bin 1) ((exprDoc i).items ++ some (.sym "]") :: rest) (.e (erase i)) (some (.sym "]") :: rest) :=
        (rt i hs.2 hp.2).bin 1 (level_pos i) (by omega) _ _ _ rfl
          (by rw [headPrec_closer "]" (by decide)]; omega)
          (.l_stop (by rw [headPrec_closer "]" (by decide)]; omega))
      have := (rt a hs.1 hp.1.2).post ha7 (some (.sym "[") :: ((exprDoc i).items ++ some (.sym "]") :: rest)) res r'
        (.p_index rfl hi (by rw [erase] at h; exact h))
      rw [exprDoc]
      simp only [items_append, List.append_assoc]
      rw [show (sym "[").items = [some (.sym "[")] from by decide, show (sym "]").items = [some (.sym "]")] from by decide]
      simpa using this)
  | .un op t e, hs, hp => rt_of_rt2 rfl (by
      intro rest hr
      simp only [inSubset] at hs
      simp only [exprParenFree, Bool.and_eq_true, decide_eq_true_eq] at hp
      have := (rt e hs hp.2).unary hp.1.1 rest hr
      rw [exprDoc, erase]
      simp only [items_append, List.append_assoc, items_sym_un]
      exact .u_un (unOfSym_unSym op) this)
  | .bin op t l r, hs, hp => by
      simp only [inSubset, Bool.and_eq_true] at hs
      simp only [exprParenFree, Bool.and_eq_true, decide_eq_true_eq] at hp
      obtain ⟨⟨⟨hql, hqr⟩, hpl⟩, hpr⟩ := hp
      have hq5 := binPrec_le op
      refine ⟨fun h7 => by simp only [level] at h7; omega, fun h6 => by simp only [level] at h6; omega, ?_⟩
      intro p hp hp6 rest res r' hr hh hl
      simp only [level] at hp hh
      have hR : Parse (.bin (binPrec op + 1)) ((exprDoc r).items ++ rest) (.e (erase r)) rest :=
        (rt r hs.2 hpr).bin (binPrec op + 1) (by omega) (by omega) rest _ _ hr (by omega) (.l_stop (by omega))
      have := (rt l hs.1 hpl).bin p (by omega) hp6 (some (.sym (binSym op)) :: ((exprDoc r).items ++ rest)) res r'
        (postStart_binSym op _) (by rw [headPrec_binSym]; exact hql)
        (.l_step (binOfSym_binSym op) hp hR (by rw [erase] at hl; exact hl))
      rw [exprDoc]
      simp only [items_append, List.append_assoc, items_sym_bin, items_sp, List.nil_append]
      simpa using this
  | .voidv _, hs, _ | .unitv _, hs, _ | .cast _ _, hs, _ | .slit _ _, hs, _
  | .alit _ _, hs, _ | .blocke _ _ _, hs, _ => by simp [inSubset] at hs
theorem rtArgs : ∀ es : List GExpr, inSubsetList es = true → exprsParenFree es = true → ∀ rest : TS,
    Parse .args ((intersperse (sym "," ++ Doc.sp) (exprDocs es)).items ++ some (.sym ")") :: rest) (.es (eraseList es)) rest
  | [], _, _ => by
      intro rest
      rw [exprDocs, eraseList]
      exact .a_nil rfl
  | e :: es, hs, hp => by
      intro rest
      simp only [inSubsetList, Bool.and_eq_true] at hs
      simp only [exprsParenFree, Bool.and_eq_true] at hp
      rw [exprDocs, eraseList, items_intersperse_cons, List.append_assoc]
      have hh : postStart (List.flatMap (fun x => (sym "," ++ Doc.sp).items ++ x.items) (exprDocs es) ++ some (.sym ")") :: rest) = false ∧
          headPrec (List.flatMap (fun x => (sym "," ++ Doc.sp).items ++ x.items) (exprDocs es) ++ some (.sym ")") :: rest) = 0 :=
        moreItems_head (exprDocs es) rest
      exact .a_cons
        ((rt e hs.1 hp.1).bin 1 (level_pos e) (by omega) _ _ _ hh.1 (by rw [hh.2]; omega) (.l_stop (by rw [hh.2]; omega)))
        (rtMore es hs.2 hp.2 rest)
theorem rtMore : ∀ es : List GExpr, inSubsetList es = true → exprsParenFree es = true → ∀ rest : TS,
    Parse .more (moreItems (exprDocs es) ++ some (.sym ")") :: rest) (.es (eraseList es)) rest
  | [], _, _ => by
      intro rest
      rw [exprDocs, eraseList]
      exact .m_done rfl
  | e :: es, hs, hp => by
      intro rest
      simp only [inSubsetList, Bool.and_eq_true] at hs
      simp only [exprsParenFree, Bool.and_eq_true] at hp
      rw [exprDocs, eraseList]
      have hcons : moreItems (exprDoc e :: exprDocs es) ++ some (.sym ")") :: rest =
          some (.sym ",") :: ((exprDoc e).items ++ (moreItems (exprDocs es) ++ some (.sym ")") :: rest)) := by
        simp [moreItems, commaItems_eq]
      rw [hcons]
      have hh := moreItems_head (exprDocs es) rest
      exact .m_more rfl
        ((rt e hs.1 hp.1).bin 1 (level_pos e) (by omega) _ _ _ hh.1 (by rw [hh.2]; omega) (.l_stop (by rw [hh.2]; omega)))
        (rtMore es hs.2 hp.2 rest)
end

/-- **The parentheses the printer emits (none) are sufficient** on paren-free trees: the token stream the
    layout of `e` produces, followed by any input that neither continues a primary expression nor starts with a
    binary operator, is read by Go's expression grammar — five binary precedence levels, left associative; unary
    operators; postfix selector / index / call — as exactly the tree `e` (without its type annotations), and
    the parser stops at the end of `e`'s tokens.  `exprParenFree` is what the hypothesis costs: the back end must
    only build trees whose operands already bind tightly enough (checked per item by the tie, oracle
    `go-printer-model`). -/
theorem print_expr_roundtrip (e : GExpr) (hs : inSubset e = true) (hp : exprParenFree e = true)
    (rest : TS) (hr : postStart rest = false) (hh : headPrec rest = 0) :
    Parse (.bin 1) ((exprDoc e).items ++ rest) (.e (erase e)) rest :=
  (rt e hs hp).bin 1 (level_pos e) (by omega) rest _ _ hr (by omega) (.l_stop (by omega))

theorem print_expr_roundtrip_whole (e : GExpr) (hs : inSubset e = true) (hp : exprParenFree e = true) :
    Parse (.bin 1) (exprDoc e).items (.e (erase e)) [] := by
  simpa using print_expr_roundtrip e hs hp [] rfl rfl

theorem unOfSym_lparen : unOfSym "(" = none := by decide
theorem postStart_sym (s : String) (ts : TS) : postStart (some (.sym s) :: ts) = (s == "." || s == "(" || s == "[") := rfl

theorem unary_not_closer {s : String} (h : unOfSym s = none) (hs : s ≠ "(") {ts res r} :
    ¬ Parse .unary (some (.sym s) :: ts) res r := by
  intro hp
  cases hp with
  | u_un hu _ => rw [h] at hu; cases hu
  | u_paren hs' _ _ => exact hs hs'

theorem headPrec_of {s : String} {b : GBin} (hb : binOfSym s = some b) (ts : TS) :
    headPrec (some (.sym s) :: ts) = binPrec b := by
  show ((binOfSym s).map binPrec).getD 0 = _
  rw [hb]; rfl

/-- the grammar is deterministic: a token stream has at most one reading -/
theorem parse_deterministic {nt ts res r} (h : Parse nt ts res r) :
    ∀ {res' r'}, Parse nt ts res' r' → res = res' ∧ r = r' := by
  induction h with
  | u_un hu _ ih =>
    intro res' r' h2
    cases h2 with
    | u_un hu' h' => rw [hu] at hu'; cases hu'; obtain ⟨h1, h2⟩ := ih h'; cases h1; exact ⟨rfl, h2⟩
    | u_paren hs' _ _ => subst hs'; rw [unOfSym_lparen] at hu; cases hu
  | u_ident _ ih => intro res' r' h2; cases h2 with | u_ident h' => exact ih h'
  | u_num _ ih => intro res' r' h2; cases h2 with | u_num h' => exact ih h'
  | u_str _ ih => intro res' r' h2; cases h2 with | u_str h' => exact ih h'
  | u_paren hs _ _ ih1 ih2 =>
    intro res' r' h2
    cases h2 with
    | u_un hu' _ => subst hs; rw [unOfSym_lparen] at hu'; cases hu'
    | u_paren _ h1' h2' => obtain ⟨e1, e2⟩ := ih1 h1'; cases e1; cases e2; exact ih2 h2'
  | p_sel hs _ ih =>
    intro res' r' h2
    cases h2 with
    | p_sel _ h' => exact ih h'
    | p_call hs' _ _ => subst hs; exact absurd hs' (by decide)
    | p_index hs' _ _ => subst hs; exact absurd hs' (by decide)
    | p_stop hps => subst hs; rw [postStart_sym] at hps; exact absurd hps (by decide)
  | p_call hs _ _ ih1 ih2 =>
    intro res' r' h2
    cases h2 with
    | p_sel hs' _ => subst hs; exact absurd hs' (by decide)
    | p_call _ h1' h2' => obtain ⟨e1, e2⟩ := ih1 h1'; cases e1; cases e2; exact ih2 h2'
    | p_index hs' _ _ => subst hs; exact absurd hs' (by decide)
    | p_stop hps => subst hs; rw [postStart_sym] at hps; exact absurd hps (by decide)
  | p_index hs _ _ ih1 ih2 =>
    intro res' r' h2
    cases h2 with
    | p_sel hs' _ => subst hs; exact absurd hs' (by decide)
    | p_call hs' _ _ => subst hs; exact absurd hs' (by decide)
    | p_index _ h1' h2' => obtain ⟨e1, e2⟩ := ih1 h1'; cases e1; cases e2; exact ih2 h2'
    | p_stop hps => subst hs; rw [postStart_sym] at hps; exact absurd hps (by decide)
  | p_stop hps =>
    intro res' r' h2
    cases h2 with
    | p_sel hs' _ => subst hs'; rw [postStart_sym] at hps; exact absurd hps (by decide)
    | p_call hs' _ _ => subst hs'; rw [postStart_sym] at hps; exact absurd hps (by decide)
    | p_index hs' _ _ => subst hs'; rw [postStart_sym] at hps; exact absurd hps (by decide)
    | p_stop _ => exact ⟨rfl, rfl⟩
  | b _ _ ih1 ih2 =>
    intro res' r' h2
    cases h2 with
    | b h1' h2' => obtain ⟨e1, e2⟩ := ih1 h1'; cases e1; cases e2; exact ih2 h2'
  | l_step hb hp _ _ ih1 ih2 =>
    intro res' r' h2
    cases h2 with
    | l_step hb' _ h1' h2' =>
      rw [hb] at hb'; cases hb'
      obtain ⟨e1, e2⟩ := ih1 h1'; cases e1; cases e2; exact ih2 h2'
    | l_stop hlt => rw [headPrec_of hb] at hlt; omega
  | l_stop hlt =>
    intro res' r' h2
    cases h2 with
    | l_step hb' hp' _ _ => rw [headPrec_of hb'] at hlt; omega
    | l_stop _ => exact ⟨rfl, rfl⟩
  | a_nil hs =>
    intro res' r' h2
    cases h2 with
    | a_nil _ => exact ⟨rfl, rfl⟩
    | a_cons h1' _ =>
      subst hs
      cases h1' with | b hu _ => exact absurd hu (unary_not_closer (by decide) (by decide))
  | a_cons h1 _ ih1 ih2 =>
    intro res' r' h2
    cases h2 with
    | a_nil hs =>
      subst hs
      cases h1 with | b hu _ => exact absurd hu (unary_not_closer (by decide) (by decide))
    | a_cons h1' h2' =>
      obtain ⟨e1, e2⟩ := ih1 h1'; cases e1; cases e2
      obtain ⟨e3, e4⟩ := ih2 h2'; cases e3; exact ⟨rfl, e4⟩
  | m_done hs =>
    intro res' r' h2
    cases h2 with
    | m_done _ => exact ⟨rfl, rfl⟩
    | m_more hs' _ _ => subst hs; exact absurd hs' (by decide)
  | m_more hs _ _ ih1 ih2 =>
    intro res' r' h2
    cases h2 with
    | m_done hs' => subst hs; exact absurd hs' (by decide)
    | m_more _ h1' h2' =>
      obtain ⟨e1, e2⟩ := ih1 h1'; cases e1; cases e2
      obtain ⟨e3, e4⟩ := ih2 h2'; cases e3; exact ⟨rfl, e4⟩

/-- so the reading of the printed text is unique: any parse of it is the tree and stops at the same place -/
theorem print_expr_roundtrip_unique (e : GExpr) (hs : inSubset e = true) (hp : exprParenFree e = true)
    (rest : TS) (hr : postStart rest = false) (hh : headPrec rest = 0) {res r}
    (h : Parse (.bin 1) ((exprDoc e).items ++ rest) res r) : res = .e (erase e) ∧ r = rest := by
  obtain ⟨h1, h2⟩ := parse_deterministic (print_expr_roundtrip e hs hp rest hr hh) h
  exact ⟨h1.symm, h2.symm⟩

/-! ## `escape_go_string_decodes`

Go's lexing of an *interpreted string literal* (spec "String literals", "Rune literals"), as a one-character-at-a-time
state machine started after the opening quote: it returns the decoded value and the input after the closing quote.
(`\x`, octal and `\U` escapes are legal Go that the printer never writes; this reading rejects them — the theorem
only needs the forms the printer produces to be read as Go reads them.) -/

-- `hexVal`, `simpleEscape`, `LexSt`, `consRes`, `lexStr` live in `Model/GoLex.lean` (moved unchanged, round 11: the
-- character-level lexer uses them)

theorem hexVal_hexDigit : ∀ k : Fin 16, hexVal (hexDigit k.val) = some k.val := by decide

theorem lexStr_hex4 (n : Nat) (hn : n < 0xD800) (rest : List Char) :
    lexStr (.uni 0 0) (hex4 n ++ rest) = consRes (Char.ofNat n) (lexStr .normal rest) := by
  have h1 := hexVal_hexDigit ⟨n / 4096 % 16, by omega⟩
  have h2 := hexVal_hexDigit ⟨n / 256 % 16, by omega⟩
  have h3 := hexVal_hexDigit ⟨n / 16 % 16, by omega⟩
  have h4 := hexVal_hexDigit ⟨n % 16, by omega⟩
  simp only at h1 h2 h3 h4
  have hv : (((0 * 16 + n / 4096 % 16) * 16 + n / 256 % 16) * 16 + n / 16 % 16) * 16 + n % 16 = n := by omega
  simp only [hex4, List.cons_append, List.nil_append, lexStr, h1, h2, h3, h4]
  simp only [hv]
  have : ¬ (0xD800 ≤ n ∧ n ≤ 0xDFFF) := by omega
  simp [this]

theorem escapeChar_cases (c : Char) :
    escapeChar c =
      if c = '"' then ['\\', '"'] else if c = '\\' then ['\\', '\\'] else if c = '\n' then ['\\', 'n']
      else if c = '\r' then ['\\', 'r'] else if c = '\t' then ['\\', 't']
      else if isControl c = true then '\\' :: 'u' :: hex4 c.toNat else [c] := by
  unfold escapeChar escapeTable Gen.GoPrintTables.escapes
  simp only [List.lookup]
  by_cases h1 : c = '"'
  · subst h1; rfl
  by_cases h2 : c = '\\'
  · subst h2; rfl
  by_cases h3 : c = '\n'
  · subst h3; rfl
  by_cases h4 : c = '\r'
  · subst h4; rfl
  by_cases h5 : c = '\t'
  · subst h5; rfl
  have b1 : (c == '"') = false := by simpa using h1
  have b2 : (c == '\\') = false := by simpa using h2
  have b3 : (c == '\n') = false := by simpa using h3
  have b4 : (c == '\r') = false := by simpa using h4
  have b5 : (c == '\t') = false := by simpa using h5
  simp [b1, b2, b3, b4, b5, h1, h2, h3, h4, h5]

/-- one source character: its escape, read back by Go's lexer, is the character -/
theorem lexStr_escapeChar (c : Char) (tail : List Char) :
    lexStr .normal (escapeChar c ++ tail) = consRes c (lexStr .normal tail) := by
  rw [escapeChar_cases]
  by_cases h1 : c = '"'
  · subst h1; simp [lexStr, simpleEscape]
  by_cases h2 : c = '\\'
  · subst h2; simp [lexStr, simpleEscape]
  by_cases h3 : c = '\n'
  · subst h3; simp [lexStr, simpleEscape]
  by_cases h4 : c = '\r'
  · subst h4; simp [lexStr, simpleEscape]
  by_cases h5 : c = '\t'
  · subst h5; simp [lexStr, simpleEscape]
  simp only [h1, h2, h3, h4, h5, if_false]
  by_cases hc : isControl c = true
  · simp only [hc, if_true]
    have hn : c.toNat < 0xD800 := by
      simp only [isControl, Bool.or_eq_true, Bool.and_eq_true, decide_eq_true_eq] at hc
      omega
    simp only [List.cons_append, lexStr, if_true]
    simp only [show ('\\' : Char) = '"' ↔ False from by decide, show ('\\' : Char) = '\n' ↔ False from by decide, if_false]
    rw [lexStr_hex4 _ hn]
    have : Char.ofNat c.toNat = c := Char.ofNat_toNat c
    rw [this]
  · simp only [hc]
    simp [lexStr, h1, h2, h3]

/-- **`escape_go_string` is inverted by Go's string-literal lexing**, for every string: the text
    `escape_go_string(s)` followed by the closing quote (the printer puts the opening quote before it) is lexed as one
    interpreted string literal whose value is `s` — whatever characters `s` holds (quote, backslash, newline,
    carriage return, tab, the other control characters U+0000–U+001F / U+007F–U+009F, which become `\uXXXX`,
    and everything else, non-ASCII included, which is copied) — and lexing stops right after that quote. -/
theorem escape_go_string_decodes (s : List Char) (rest : List Char) :
    lexStr .normal (escapeChars s ++ '"' :: rest) = some (s, rest) := by
  induction s with
  | nil => simp [escapeChars, lexStr]
  | cons c cs ih =>
    rw [escapeChars, List.append_assoc, lexStr_escapeChar, ih]
    rfl

/-- the same on `String`s, as the printer builds the token: `"\"" ++ escape_go_string(value) ++ "\""` -/
theorem escape_go_string_decodes_string (v : String) :
    lexStr .normal ((escapeGoString v).toList ++ ['"']) = some (v.toList, []) := by
  have := escape_go_string_decodes v.toList []
  simpa [escapeGoString] using this

/-! ## `no_break_inserts_semicolon`

Go's lexer inserts a semicolon at a newline when the last token of the line is an identifier, a literal, one of
the keywords `break continue fallthrough return`, or one of `++ -- ) ] }` (spec "Semicolons").  The printer has
no optional break (`itemDoc_hard`), so the only breaks are its `hardline`s; the theorem is about those that fall
INSIDE an expression (in a struct literal): each follows `{` or `,`, after which nothing is inserted — the
expression is never cut by the semicolon rule, whatever precedes it.  (Between statements a semicolon is what Go's
grammar wants there; that the statement-level breaks sit only at statement boundaries is validated by the
parse-back oracle, not proved.) -/

def semiAfter : Tok → Bool
  | .ident _ | .num _ | .str _ => true
  | .kw s => s == "break" || s == "continue" || s == "fallthrough" || s == "return"
  | .sym s => s == "++" || s == "--" || s == ")" || s == "]" || s == "}"

/-- no newline of the stream follows a token that triggers semicolon insertion (`prev` = the last token seen);
    a newline before any token counts as unsafe -/
def breaksSafe : Option Tok → TS → Bool
  | _, [] => true
  | _, some t :: r => breaksSafe (some t) r
  | some t, none :: r => !semiAfter t && breaksSafe (some t) r
  | none, none :: _ => false

/-- "after these items the scan continues as if from `p'`" -/
def Thru (l : TS) : Prop := ∀ p, ∃ p', ∀ rest, breaksSafe p (l ++ rest) = breaksSafe p' rest

theorem thru_nil : Thru [] := fun p => ⟨p, fun _ => rfl⟩
theorem thru_tok (t : Tok) : Thru [some t] := fun _ => ⟨some t, fun _ => by simp [breaksSafe]⟩
theorem thru_append {a b : TS} (ha : Thru a) (hb : Thru b) : Thru (a ++ b) := by
  intro p
  obtain ⟨p1, h1⟩ := ha p
  obtain ⟨p2, h2⟩ := hb p1
  exact ⟨p2, fun rest => by rw [List.append_assoc, h1, h2]⟩
theorem thru_allTok : ∀ l : TS, (∀ x ∈ l, x ≠ none) → Thru l
  | [], _ => thru_nil
  | none :: _, h => absurd rfl (h none List.mem_cons_self)
  | some t :: l, h => by
      have := thru_append (thru_tok t) (thru_allTok l (fun x hx => h x (List.mem_cons_of_mem _ hx)))
      simpa using this

/-- a token after which no semicolon is inserted, then a newline -/
theorem thru_tok_nl (t : Tok) (ht : semiAfter t = false) : Thru [some t, none] :=
  fun _ => ⟨some t, fun _ => by simp [breaksSafe, ht]⟩

/-- documents without any newline -/
def Doc.NoNl : Doc → Prop
  | .hardline | .line => False
  | .cat a b => a.NoNl ∧ b.NoNl
  | .nest _ d | .group d => d.NoNl
  | _ => True

@[simp] theorem noNl_append (a b : Doc) : (a ++ b).NoNl ↔ a.NoNl ∧ b.NoNl := by
  show (Doc.append a b).NoNl ↔ _
  cases a <;> cases b <;> simp [Doc.append, Doc.NoNl]
@[simp] theorem noNl_tokD (t : Tok) : (tokD t).NoNl := by unfold tokD; split <;> simp [Doc.NoNl]
@[simp] theorem noNl_kw (s : String) : (kw s).NoNl := noNl_tokD _
@[simp] theorem noNl_sym (s : String) : (sym s).NoNl := noNl_tokD _
@[simp] theorem noNl_ident (s : String) : (ident s).NoNl := noNl_tokD _
@[simp] theorem noNl_sp : Doc.sp.NoNl := trivial
@[simp] theorem noNl_nil : Doc.nil.NoNl := trivial

theorem noNl_foldl (sep : Doc) (hs : sep.NoNl) : ∀ (ds : List Doc) (acc : Doc), acc.NoNl → (∀ d ∈ ds, d.NoNl) →
    (ds.foldl (fun acc x => acc ++ sep ++ x) acc).NoNl := by
  intro ds
  induction ds with
  | nil => intro acc h _; exact h
  | cons d ds ih =>
    intro acc h hd
    apply ih
    · simp [h, hs, hd d (List.mem_cons_self)]
    · intro x hx; exact hd x (List.mem_cons_of_mem _ hx)

theorem noNl_intersperse (sep : Doc) (hs : sep.NoNl) (ds : List Doc) (hd : ∀ d ∈ ds, d.NoNl) : (intersperse sep ds).NoNl := by
  cases ds with
  | nil => trivial
  | cons d ds => exact noNl_foldl sep hs ds d (hd d List.mem_cons_self) (fun x hx => hd x (List.mem_cons_of_mem _ hx))

@[simp] theorem noNl_toksDoc (ts : List Tok) : (toksDoc ts).NoNl := by
  induction ts with
  | nil => trivial
  | cons t ts ih =>
    cases ts with
    | nil => simp [toksDoc]
    | cons u us => simp [toksDoc, ih]

@[simp] theorem noNl_numDoc (s : String) : (numDoc s).NoNl := by
  unfold numDoc
  split
  · exact (noNl_append _ _).2 ⟨noNl_sym _, noNl_tokD _⟩
  · exact noNl_tokD _

theorem noNl_commaSep : (sym "," ++ Doc.sp).NoNl := by simp

mutual
theorem typeDoc_noNl : ∀ t : GTy, (typeDoc t).NoNl
  | .func ps r => by
      have h1 := noNl_intersperse _ noNl_commaSep _ (typeDocs_noNl ps)
      have h2 := typeDoc_noNl r
      cases r <;> simp_all [typeDoc]
  | .array _ e => by have := typeDoc_noNl e; simp [typeDoc, this]
  | .slice e => by have := typeDoc_noNl e; simp [typeDoc, this]
  | .ptr e => by have := typeDoc_noNl e; simp [typeDoc, this]
  | .void | .unit | .bool | .int _ _ | .float _ | .string | .struct _ _ | .name _ => by simp [typeDoc]
theorem typeDocs_noNl : ∀ ts : List GTy, ∀ d ∈ typeDocs ts, d.NoNl
  | [] => by simp [typeDocs]
  | t :: ts => by
      have h1 := typeDoc_noNl t
      have h2 := typeDocs_noNl ts
      simp [typeDocs]; exact ⟨h1, h2⟩
end

theorem items_noNl : ∀ d : Doc, d.NoNl → ∀ x ∈ d.items, x ≠ none
  | .nil, _ | .sp, _ => by simp [Doc.items]
  | .tok t, _ => by simp [Doc.items]
  | .hardline, h | .line, h => absurd h (by simp [Doc.NoNl])
  | .cat a b, h => by
      intro x hx
      simp only [Doc.items, List.mem_append] at hx
      rcases hx with hx | hx
      · exact items_noNl a h.1 x hx
      · exact items_noNl b h.2 x hx
  | .nest _ d, h => by simpa [Doc.items] using items_noNl d h
  | .group d, h => by simpa [Doc.items] using items_noNl d h

theorem thru_noNl (d : Doc) (h : d.NoNl) : Thru d.items := thru_allTok _ (items_noNl d h)

theorem semiAfter_lbrace : semiAfter (.sym "{") = false := by decide
theorem semiAfter_comma : semiAfter (.sym ",") = false := by decide

theorem items_nestD (n : Nat) (d : Doc) : (nestD n d).items = d.items := by cases d <;> rfl


theorem flatMap_lines (d : Doc) (ds : List Doc) :
    d.items ++ ds.flatMap (fun x => [none] ++ x.items) ++ [none] = (d :: ds).flatMap (fun x => x.items ++ [none]) := by
  induction ds generalizing d with
  | nil => simp
  | cons e es ih =>
    have := ih e
    simp only [List.flatMap_cons, List.append_assoc] at this ⊢
    rw [← this]

macro "thru_solve" : tactic =>
  `(tactic| repeat (first | assumption | exact thru_noNl _ (by simp [typeDoc_noNl, panicTok]) | apply thru_append))

mutual
theorem thru_expr : ∀ e : GExpr, exprParenFree e = true → Thru (exprDoc e).items
  | .nil _, _ | .unitv _, _ | .var _ _, _ | .bool _, _ | .int _ _, _ | .float _ _, _ | .str _, _ =>
      thru_noNl _ (by simp [exprDoc])
  | .voidv _, hp | .blocke _ _ _, hp => by simp [exprParenFree] at hp
  | .call _ f args, hp => by
      simp only [exprParenFree, Bool.and_eq_true, decide_eq_true_eq] at hp
      have h1 := thru_expr f hp.1.2
      have h2 := thru_args args hp.2
      simp only [exprDoc, items_append]
      thru_solve
  | .un _ _ e, hp => by
      simp only [exprParenFree, Bool.and_eq_true, decide_eq_true_eq] at hp
      have h1 := thru_expr e hp.2
      simp only [exprDoc, items_append]
      thru_solve
  | .bin _ _ l r, hp => by
      simp only [exprParenFree, Bool.and_eq_true, decide_eq_true_eq] at hp
      have h1 := thru_expr l hp.1.2
      have h2 := thru_expr r hp.2
      simp only [exprDoc, items_append]
      thru_solve
  | .field _ _ o, hp => by
      simp only [exprParenFree, Bool.and_eq_true, decide_eq_true_eq] at hp
      have h1 := thru_expr o hp.2
      simp only [exprDoc, items_append]
      thru_solve
  | .index _ a i, hp => by
      simp only [exprParenFree, Bool.and_eq_true, decide_eq_true_eq] at hp
      have h1 := thru_expr a hp.1.2
      have h2 := thru_expr i hp.2
      simp only [exprDoc, items_append]
      thru_solve
  | .cast ty e, hp => by
      simp only [exprParenFree, Bool.and_eq_true, decide_eq_true_eq] at hp
      have h1 := thru_expr e hp.2
      simp only [exprDoc, items_append]
      thru_solve
  | .slit ty [], _ => thru_noNl _ (by simp [exprDoc])
  | .slit ty (f :: fs), hp => by
      simp only [exprParenFree] at hp
      have h1 := thru_fields (f :: fs) hp
      simp only [exprDoc, items_append, items_nestD]
      rw [fieldDocs.eq_def] at h1 ⊢
      cases f with
      | mk n e =>
        simp only at h1 ⊢
        rw [items_intersperse_cons]
        -- `T {` newline, the lines, `}`
        have hre : ∀ (a b c x y : TS), a ++ b ++ (c ++ x ++ c) ++ y = a ++ (b ++ c) ++ (x ++ c) ++ y := by
          intro a b c x y; simp [List.append_assoc]
        show Thru ((toksDoc (typeNameToks ty)).items ++ (sym "{").items ++
          (Doc.hardline.items ++ (_ ++ (fieldDocs fs).flatMap (fun x => Doc.hardline.items ++ x.items)) ++ Doc.hardline.items) ++ (sym "}").items)
        rw [hre]
        have hl : (sym "{").items ++ Doc.hardline.items = [some (.sym "{"), none] := by decide
        rw [hl, show Doc.hardline.items = [none] from rfl, flatMap_lines]
        have h0 := thru_tok_nl _ semiAfter_lbrace
        thru_solve
  | .alit ty elems, hp => by
      simp only [exprParenFree, Bool.and_eq_true] at hp
      have h2 := thru_args elems hp.2
      cases ty with
      | array n t =>
        rw [exprDoc, items_append, items_append]
        exact thru_append (thru_append (thru_noNl _ (by simp [typeDoc_noNl])) h2) (thru_noNl _ (by simp))
      | slice t =>
        rw [exprDoc, items_append, items_append]
        exact thru_append (thru_append (thru_noNl _ (by simp [typeDoc_noNl])) h2) (thru_noNl _ (by simp))
      | _ => exact absurd hp.1 (by simp [isArrTy])
theorem thru_args : ∀ es : List GExpr, exprsParenFree es = true → Thru (intersperse (sym "," ++ Doc.sp) (exprDocs es)).items
  | [], _ => by simpa [exprDocs, intersperse, Doc.items] using thru_nil
  | e :: es, hp => by
      simp only [exprsParenFree, Bool.and_eq_true] at hp
      rw [exprDocs, items_intersperse_cons]
      exact thru_append (thru_expr e hp.1) (thru_more es hp.2)
theorem thru_more : ∀ es : List GExpr, exprsParenFree es = true →
    Thru ((exprDocs es).flatMap fun x => (sym "," ++ Doc.sp).items ++ x.items)
  | [], _ => by simpa [exprDocs] using thru_nil
  | e :: es, hp => by
      simp only [exprsParenFree, Bool.and_eq_true] at hp
      rw [exprDocs, List.flatMap_cons]
      have h1 := thru_expr e hp.1
      have h2 := thru_more es hp.2
      thru_solve
theorem thru_fields : ∀ fs : List GField, fieldsParenFree fs = true → Thru ((fieldDocs fs).flatMap fun x => x.items ++ [none])
  | [], _ => by simpa [fieldDocs] using thru_nil
  | .mk n e :: fs, hp => by
      simp only [fieldsParenFree, Bool.and_eq_true] at hp
      rw [fieldDocs, List.flatMap_cons]
      have h1 := thru_expr e hp.1
      have h2 := thru_fields fs hp.2
      have h3 : Thru ((sym ",").items ++ [none]) := by
        rw [show (sym ",").items ++ [none] = [some (.sym ","), none] from by decide]
        exact thru_tok_nl _ semiAfter_comma
      have hA : Thru ((ident n ++ sym ":" ++ Doc.sp).items ++ (exprDoc e).items) :=
        thru_append (thru_noNl _ (by simp)) h1
      have hsplit : (ident n ++ sym ":" ++ Doc.sp ++ exprDoc e ++ sym ",").items ++ [none] =
          ((ident n ++ sym ":" ++ Doc.sp).items ++ (exprDoc e).items) ++ ((sym ",").items ++ [none]) := by
        simp [items_append, List.append_assoc]
      rw [hsplit]
      exact thru_append (thru_append hA h3) h2
end

/-- **No line break the layout puts inside an expression inserts a semicolon**: scanning the tokens and newlines
    of a paren-free expression's document — after any preceding token `p` (`return`, `=`, `(`, …) — every newline
    follows `{` or `,`, tokens after which Go's automatic-semicolon rule inserts nothing. -/
theorem no_break_inserts_semicolon (e : GExpr) (hp : exprParenFree e = true) (p : Option Tok) :
    breaksSafe p (exprDoc e).items = true := by
  obtain ⟨p', h⟩ := thru_expr e hp p
  have := h []
  simpa [breaksSafe] using this

/-! ## `glue_free_expr`: tokens written without a space between them stay two tokens

The lexical half of the round trip.  `Doc.pieces` keeps the spaces; `glueFree` scans it with Go's operator list and
maximal munch in mind (`glued`): identifier / keyword / number runs, `5.` / `.5`, and two symbols forming a longer
operator (`--`, `&&`, `<-`, `//`, …).  For the subset of `print_expr_roundtrip` it never fires. -/

@[simp] theorem pieces_append (a b : Doc) : (a ++ b).pieces = a.pieces ++ b.pieces := by
  show (Doc.append a b).pieces = _
  cases a <;> cases b <;> simp [Doc.append, Doc.pieces]

theorem pieces_tokD {t : Tok} (h : t.text.isEmpty = false) : (tokD t).pieces = [.tok t] := by
  simp [tokD, h, Doc.pieces]

@[simp] theorem pieces_sp : Doc.sp.pieces = [.sp] := rfl

theorem pieces_sym_un (u : GUn) : (sym (unSym u)).pieces = [.tok (.sym (unSym u))] := by
  cases u <;> rfl
theorem pieces_sym_bin (b : GBin) : (sym (binSym b)).pieces = [.tok (.sym (binSym b))] := by
  cases b <;> rfl

def numFirst (text : String) : Tok :=
  match text.toList with
  | '-' :: _ => .sym "-"
  | _ => .num text
def numLast (text : String) : Tok :=
  match text.toList with
  | '-' :: rest => .num (String.ofList rest)
  | _ => .num text

def firstTok : GExpr → Tok
  | .nil _ => .ident "nil"
  | .var x _ => .ident x
  | .bool b => .ident (if b then "true" else "false")
  | .int text _ => numFirst text
  | .float bits _ => numFirst (goFloatLiteral bits.toNat)
  | .str v => .str ("\"" ++ escapeGoString v ++ "\"")
  | .call _ f _ => firstTok f
  | .un op _ _ => .sym (unSym op)
  | .bin _ _ l _ => firstTok l
  | .field _ _ o => firstTok o
  | .index _ a _ => firstTok a
  | _ => .sym "?"

def lastTok : GExpr → Tok
  | .nil _ => .ident "nil"
  | .var x _ => .ident x
  | .bool b => .ident (if b then "true" else "false")
  | .int text _ => numLast text
  | .float bits _ => numLast (goFloatLiteral bits.toNat)
  | .str v => .str ("\"" ++ escapeGoString v ++ "\"")
  | .call _ _ _ => .sym ")"
  | .un _ _ e => lastTok e
  | .bin _ _ _ r => lastTok r
  | .field f _ _ => .ident f
  | .index _ _ _ => .sym "]"
  | _ => .sym "?"

/-- what can start an expression of the subset -/
inductive FK : Tok → Prop where
  | ident (x) : FK (.ident x)
  | num (n) : FK (.num n)
  | str (s) : FK (.str s)
  | un (u : GUn) : FK (.sym (unSym u))

/-- what can end one -/
inductive LK : Tok → Prop where
  | ident (x) : LK (.ident x)
  | num (n) : LK (.num n)
  | str (s) : LK (.str s)
  | rparen : LK (.sym ")")
  | rbrack : LK (.sym "]")

theorem numFirst_fk (text : String) : FK (numFirst text) := by
  unfold numFirst; split
  · exact FK.un .neg
  · exact FK.num _
theorem numLast_lk (text : String) : LK (numLast text) := by
  unfold numLast; split <;> exact LK.num _

theorem firstTok_fk : ∀ e : GExpr, inSubset e = true → FK (firstTok e)
  | .nil _, _ => FK.ident _
  | .var _ _, _ => FK.ident _
  | .bool _, _ => FK.ident _
  | .int _ _, _ => numFirst_fk _
  | .float _ _, _ => numFirst_fk _
  | .str _, _ => FK.str _
  | .call _ f _, h => by simp only [inSubset, Bool.and_eq_true] at h; exact firstTok_fk f h.1
  | .un op _ _, _ => FK.un op
  | .bin _ _ l _, h => by simp only [inSubset, Bool.and_eq_true] at h; exact firstTok_fk l h.1
  | .field _ _ o, h => by simp only [inSubset, Bool.and_eq_true] at h; exact firstTok_fk o h.2
  | .index _ a _, h => by simp only [inSubset, Bool.and_eq_true] at h; exact firstTok_fk a h.1
  | .voidv _, h | .unitv _, h | .cast _ _, h | .slit _ _, h | .alit _ _, h | .blocke _ _ _, h => by simp [inSubset] at h

theorem lastTok_lk : ∀ e : GExpr, inSubset e = true → LK (lastTok e)
  | .nil _, _ => LK.ident _
  | .var _ _, _ => LK.ident _
  | .bool _, _ => LK.ident _
  | .int _ _, _ => numLast_lk _
  | .float _ _, _ => numLast_lk _
  | .str _, _ => LK.str _
  | .call _ _ _, _ => LK.rparen
  | .un _ _ e, h => by simp only [inSubset] at h; exact lastTok_lk e h
  | .bin _ _ _ r, h => by simp only [inSubset, Bool.and_eq_true] at h; exact lastTok_lk r h.2
  | .field _ _ _, _ => LK.ident _
  | .index _ _ _, _ => LK.rbrack
  | .voidv _, h | .unitv _, h | .cast _ _, h | .slit _ _, h | .alit _ _, h | .blocke _ _ _, h => by simp [inSubset] at h

/-! ### which adjacent pairs read as two tokens -/

theorem glued_sym_ident (s x : String) : glued (.sym s) (.ident x) = false := by simp [glued, isWordy]
theorem glued_sym_str (s x : String) : glued (.sym s) (.str x) = false := by simp [glued, isWordy]
theorem glued_ident_sym (x s : String) : glued (.ident x) (.sym s) = false := by simp [glued, isWordy]
theorem glued_str_sym (x s : String) : glued (.str x) (.sym s) = false := by simp [glued, isWordy]
theorem glued_num_sym (n s : String) : glued (.num n) (.sym s) = (s == ".") := rfl
theorem glued_sym_num (s n : String) : glued (.sym s) (.num n) = (s == ".") := rfl

theorem glued_un_un (u w : GUn) (h : unSym w ≠ unSym u) : glued (.sym (unSym u)) (.sym (unSym w)) = false := by
  cases u <;> cases w <;> first | (exact absurd rfl h) | decide

theorem glued_un_first (u : GUn) {t : Tok} (ht : FK t) (hne : ∀ w, t = .sym (unSym w) → unSym w ≠ unSym u) :
    glued (.sym (unSym u)) t = false := by
  cases ht with
  | ident x => exact glued_sym_ident _ _
  | num n => rw [glued_sym_num]; cases u <;> decide
  | str x => exact glued_sym_str _ _
  | un w => exact glued_un_un u w (hne w rfl)

theorem glued_open_first {o : String} (ho : o = "(" ∨ o = "[") {t : Tok} (ht : FK t) : glued (.sym o) t = false := by
  cases ht with
  | ident x => exact glued_sym_ident _ _
  | num n => rw [glued_sym_num]; rcases ho with rfl | rfl <;> decide
  | str x => exact glued_sym_str _ _
  | un w => rcases ho with rfl | rfl <;> cases w <;> decide

/-- after the end of an operand: `(`, `[`, `,`, `)`, `]` never glue; `.` glues only to a number -/
theorem glued_last_follow {t : Tok} (ht : LK t) {y : String} (hy : y = "(" ∨ y = "[" ∨ y = "," ∨ y = ")" ∨ y = "]") :
    glued t (.sym y) = false := by
  cases ht with
  | ident x => exact glued_ident_sym _ _
  | num n => rw [glued_num_sym]; rcases hy with rfl | rfl | rfl | rfl | rfl <;> decide
  | str x => exact glued_str_sym _ _
  | rparen => rcases hy with rfl | rfl | rfl | rfl | rfl <;> decide
  | rbrack => rcases hy with rfl | rfl | rfl | rfl | rfl <;> decide

theorem glued_last_dot {t : Tok} (ht : LK t) (hn : ∀ n, t ≠ .num n) : glued t (.sym ".") = false := by
  cases ht with
  | ident x => exact glued_ident_sym _ _
  | num n => exact absurd rfl (hn n)
  | str x => exact glued_str_sym _ _
  | rparen => decide
  | rbrack => decide

theorem numFirst_notsym {text : String} (h : isNegText text = false) : ∀ s, numFirst text ≠ .sym s := by
  intro s
  unfold numFirst
  unfold isNegText at h
  split
  · rename_i heq; rw [heq] at h; simp at h
  · intro h'; cases h'

/-- an operand at level 7 starts with an identifier or a literal, never with an operator -/
theorem firstTok_level7 : ∀ e : GExpr, level e = 7 → inSubset e = true → exprParenFree e = true → ∀ s, firstTok e ≠ .sym s
  | .nil _, _, _, _ => by intro s h; cases h
  | .var _ _, _, _, _ => by intro s h; cases h
  | .bool _, _, _, _ => by intro s h; cases h
  | .str _, _, _, _ => by intro s h; cases h
  | .int text _, hl, _, _ => by
      simp only [level] at hl
      exact numFirst_notsym (by cases h : isNegText text <;> simp_all)
  | .float bits _, hl, _, _ => by
      simp only [level] at hl
      exact numFirst_notsym (by cases h : isNegText (goFloatLiteral bits.toNat) <;> simp_all)
  | .call _ f _, _, hs, hp => by
      simp only [inSubset, Bool.and_eq_true] at hs
      simp only [exprParenFree, Bool.and_eq_true, decide_eq_true_eq] at hp
      exact firstTok_level7 f (by have := level_le f; omega) hs.1 hp.1.2
  | .field _ _ o, _, hs, hp => by
      simp only [inSubset, Bool.and_eq_true] at hs
      simp only [exprParenFree, Bool.and_eq_true, decide_eq_true_eq] at hp
      exact firstTok_level7 o (by have := level_le o; omega) hs.2 hp.2
  | .index _ a _, _, hs, hp => by
      simp only [inSubset, Bool.and_eq_true] at hs
      simp only [exprParenFree, Bool.and_eq_true, decide_eq_true_eq] at hp
      exact firstTok_level7 a (by have := level_le a; omega) hs.1 hp.1.2
  | .un _ _ _, hl, _, _ => by simp [level] at hl
  | .bin op _ _ _, hl, _, _ => by simp only [level] at hl; have := binPrec_le op; omega
  | .voidv _, _, h, _ | .unitv _, _, h, _ | .cast _ _, _, h, _ | .slit _ _, _, h, _ | .alit _ _, _, h, _
  | .blocke _ _ _, _, h, _ => by simp [inSubset] at h

theorem startsWithSym_numFirst {text s : String} (h : numFirst text = .sym s) : s = "-" ∧ isNegText text = true := by
  unfold numFirst at h
  unfold isNegText
  split at h
  · rename_i heq; rw [heq]; cases h; exact ⟨rfl, rfl⟩
  · cases h

/-- a unary operand (level ≥ 6) that starts with an operator token starts with the operator `startsWithSym` names -/
theorem firstTok_startsWith : ∀ e : GExpr, 6 ≤ level e → inSubset e = true → exprParenFree e = true →
    ∀ s, firstTok e = .sym s → startsWithSym s e = true
  | .un op _ _, _, _, _ => by intro s h; simp only [firstTok] at h; cases h; simp [startsWithSym]
  | .int text _, _, _, _ => by
      intro s h; simp only [firstTok] at h
      obtain ⟨rfl, hn⟩ := startsWithSym_numFirst h
      simp [startsWithSym, hn]
  | .float bits _, _, _, _ => by
      intro s h; simp only [firstTok] at h
      obtain ⟨rfl, hn⟩ := startsWithSym_numFirst h
      simp [startsWithSym, hn]
  | .bin op _ _ _, hl, _, _ => by simp only [level] at hl; have := binPrec_le op; omega
  | .nil t, _, hs, hp => fun s h => absurd h (firstTok_level7 (.nil t) rfl hs hp s)
  | .var x t, _, hs, hp => fun s h => absurd h (firstTok_level7 (.var x t) rfl hs hp s)
  | .bool b, _, hs, hp => fun s h => absurd h (firstTok_level7 (.bool b) rfl hs hp s)
  | .str v, _, hs, hp => fun s h => absurd h (firstTok_level7 (.str v) rfl hs hp s)
  | .call t f a, _, hs, hp => fun s h => absurd h (firstTok_level7 (.call t f a) rfl hs hp s)
  | .field f t o, _, hs, hp => fun s h => absurd h (firstTok_level7 (.field f t o) rfl hs hp s)
  | .index t a i, _, hs, hp => fun s h => absurd h (firstTok_level7 (.index t a i) rfl hs hp s)
  | .voidv _, _, h, _ | .unitv _, _, h, _ | .cast _ _, _, h, _ | .slit _ _, _, h, _ | .alit _ _, _, h, _
  | .blocke _ _ _, _, h, _ => by simp [inSubset] at h

/-- the base of a selector (level 7, not a numeric literal) does not end in a number -/
theorem lastTok_notnum : ∀ e : GExpr, level e = 7 → isNumLit e = false → inSubset e = true → ∀ n, lastTok e ≠ .num n
  | .nil _, _, _, _ => by intro n h; cases h
  | .var _ _, _, _, _ => by intro n h; cases h
  | .bool _, _, _, _ => by intro n h; cases h
  | .str _, _, _, _ => by intro n h; cases h
  | .call _ _ _, _, _, _ => by intro n h; cases h
  | .field _ _ _, _, _, _ => by intro n h; cases h
  | .index _ _ _, _, _, _ => by intro n h; cases h
  | .int _ _, _, hn, _ | .float _ _, _, hn, _ => by simp [isNumLit] at hn
  | .un _ _ _, hl, _, _ => by simp [level] at hl
  | .bin op _ _ _, hl, _, _ => by simp only [level] at hl; have := binPrec_le op; omega
  | .voidv _, _, _, h | .unitv _, _, _, h | .cast _ _, _, _, h | .slit _ _, _, _, h | .alit _ _, _, _, h
  | .blocke _ _ _, _, _, h => by simp [inSubset] at h

/-! ### threading the adjacency scan through an expression -/

def OKP (prev : Option Tok) (t : Tok) : Prop := ∀ p, prev = some p → glued p t = false

theorem okp_none (t : Tok) : OKP none t := by intro p h; cases h
theorem okp_some {p t : Tok} (h : glued p t = false) : OKP (some p) t := by intro q hq; cases hq; exact h

theorem gff_tok {prev : Option Tok} {t : Tok} (h : OKP prev t) (r : List Piece) :
    glueFreeFrom prev (.tok t :: r) = glueFreeFrom (some t) r := by
  cases prev with
  | none => simp [glueFreeFrom]
  | some p => simp [glueFreeFrom, h p rfl]

theorem gff_sp (prev : Option Tok) (r : List Piece) : glueFreeFrom prev (.sp :: r) = glueFreeFrom none r := by
  cases prev <;> rfl

/-- the statement proved by induction -/
def G (e : GExpr) : Prop :=
  ∀ prev rest, OKP prev (firstTok e) →
    glueFreeFrom prev ((exprDoc e).pieces ++ rest) = glueFreeFrom (some (lastTok e)) rest

theorem g_atom (e : GExpr) (t : Tok) (hp : (exprDoc e).pieces = [.tok t]) (hf : firstTok e = t) (hl : lastTok e = t) : G e := by
  intro prev rest h
  rw [hp, hl]; rw [hf] at h
  exact gff_tok h rest

theorem g_numlit (e : GExpr) (text : String) (hOK : numOK text = true) (hdoc : exprDoc e = numDoc text)
    (hf : firstTok e = numFirst text) (hl : lastTok e = numLast text) : G e := by
  cases htl : text.toList with
  | nil =>
    have hne : text.isEmpty = false := by simpa [numOK, htl] using hOK
    refine g_atom e (.num text) ?_ ?_ ?_
    · rw [hdoc]; unfold numDoc; rw [htl]; exact pieces_tokD hne
    · rw [hf]; unfold numFirst; rw [htl]
    · rw [hl]; unfold numLast; rw [htl]
  | cons c cs =>
    by_cases hc : c = '-'
    · subst hc
      have hne : (String.ofList cs).isEmpty = false := by simpa [numOK, htl] using hOK
      intro prev rest h
      have hp : (exprDoc e).pieces = [.tok (.sym "-"), .tok (.num (String.ofList cs))] := by
        rw [hdoc]; unfold numDoc; rw [htl]
        simp only [pieces_append]
        rw [pieces_tokD (t := .num (String.ofList cs)) hne]
        rfl
      have hf' : firstTok e = .sym "-" := by rw [hf]; simp [numFirst, htl]
      have hl' : lastTok e = .num (String.ofList cs) := by rw [hl]; simp [numLast, htl]
      rw [hp, hl']; rw [hf'] at h
      show glueFreeFrom prev (.tok (.sym "-") :: .tok (.num (String.ofList cs)) :: rest) = _
      rw [gff_tok h, gff_tok (okp_some (by rw [glued_sym_num]; decide))]
    · have hne : text.isEmpty = false := by
        unfold numOK at hOK; rw [htl] at hOK; split at hOK
        · rename_i heq; injection heq with h1 _; exact absurd h1 hc
        · simpa using hOK
      refine g_atom e (.num text) ?_ ?_ ?_
      · rw [hdoc]; unfold numDoc; rw [htl]; split
        · rename_i heq; injection heq with h1 _; exact absurd h1 hc
        · exact pieces_tokD hne
      · rw [hf]; unfold numFirst; rw [htl]; split
        · rename_i heq; injection heq with h1 _; exact absurd h1 hc
        · rfl
      · rw [hl]; unfold numLast; rw [htl]; split
        · rename_i heq; injection heq with h1 _; exact absurd h1 hc
        · rfl

theorem pieces_foldl (sep : Doc) : ∀ (ds : List Doc) (acc : Doc),
    (ds.foldl (fun acc x => acc ++ sep ++ x) acc).pieces = acc.pieces ++ ds.flatMap (fun x => sep.pieces ++ x.pieces) := by
  intro ds
  induction ds with
  | nil => intro acc; simp
  | cons d ds ih => intro acc; simp [List.foldl, ih, List.flatMap_cons]

theorem pieces_intersperse_cons (sep d : Doc) (ds : List Doc) :
    (intersperse sep (d :: ds)).pieces = d.pieces ++ ds.flatMap (fun x => sep.pieces ++ x.pieces) := by
  simp [intersperse, pieces_foldl]

def commaPieces : List Piece := (sym "," ++ Doc.sp).pieces
theorem commaPieces_eq : commaPieces = [.tok (.sym ","), .sp] := rfl

mutual
theorem g : ∀ e : GExpr, inSubset e = true → exprParenFree e = true → G e
  | .nil t, _, _ => g_atom _ (.ident "nil") (by rw [exprDoc]; rfl) rfl rfl
  | .bool b, _, _ => by
      cases b
      · exact g_atom _ (.ident "false") (by rw [exprDoc]; rfl) rfl rfl
      · exact g_atom _ (.ident "true") (by rw [exprDoc]; rfl) rfl rfl
  | .var x t, hs, _ => by
      have hx : x.isEmpty = false := by simpa [inSubset] using hs
      exact g_atom _ (.ident x) (by rw [exprDoc]; exact pieces_tokD hx) rfl rfl
  | .str v, _, _ => by
      have hne : ("\"" ++ escapeGoString v ++ "\"").isEmpty = false := by simp [String.isEmpty]
      exact g_atom _ (.str ("\"" ++ escapeGoString v ++ "\"")) (by rw [exprDoc]; exact pieces_tokD hne) rfl rfl
  | .int text t, hs, _ => g_numlit _ text (by simpa [inSubset] using hs) (by rw [exprDoc]) rfl rfl
  | .float bits t, hs, _ => g_numlit _ (goFloatLiteral bits.toNat) (by simpa [inSubset] using hs) (by rw [exprDoc]) rfl rfl
  | .un op t e, hs, hp => by
      simp only [inSubset] at hs
      simp only [exprParenFree, Bool.and_eq_true, decide_eq_true_eq, Bool.not_eq_true'] at hp
      obtain ⟨⟨h6, hsw⟩, hpe⟩ := hp
      intro prev rest h
      rw [exprDoc]
      simp only [pieces_append, pieces_sym_un, List.cons_append, List.nil_append]
      simp only [firstTok] at h
      rw [gff_tok h]
      have hglue : glued (.sym (unSym op)) (firstTok e) = false := by
        apply glued_un_first op (firstTok_fk e hs)
        intro w hw hEq
        have := firstTok_startsWith e h6 hs hpe _ hw
        rw [hEq] at this
        rw [this] at hsw; cases hsw
      exact g e hs hpe (some (.sym (unSym op))) rest (okp_some hglue)
  | .bin op t l r, hs, hp => by
      simp only [inSubset, Bool.and_eq_true] at hs
      simp only [exprParenFree, Bool.and_eq_true, decide_eq_true_eq] at hp
      intro prev rest h
      rw [exprDoc]
      simp only [pieces_append, pieces_sym_bin, pieces_sp, List.append_assoc, List.cons_append, List.nil_append]
      simp only [firstTok] at h
      rw [g l hs.1 hp.1.2 prev _ h, gff_sp, gff_tok (okp_none _), gff_sp]
      exact g r hs.2 hp.2 none rest (okp_none _)
  | .call t f args, hs, hp => by
      simp only [inSubset, Bool.and_eq_true] at hs
      simp only [exprParenFree, Bool.and_eq_true, decide_eq_true_eq] at hp
      intro prev rest h
      rw [exprDoc]
      simp only [pieces_append, List.append_assoc]
      rw [show (sym "(").pieces = [.tok (.sym "(")] from rfl, show (sym ")").pieces = [.tok (.sym ")")] from rfl]
      simp only [List.cons_append, List.nil_append]
      simp only [firstTok] at h
      rw [g f hs.1 hp.1.2 prev _ h]
      rw [gff_tok (okp_some (glued_last_follow (lastTok_lk f hs.1) (Or.inl rfl)))]
      exact gArgs args hs.2 hp.2 rest
  | .field fl t o, hs, hp => by
      simp only [inSubset, Bool.and_eq_true, Bool.not_eq_true'] at hs
      simp only [exprParenFree, Bool.and_eq_true, decide_eq_true_eq, Bool.not_eq_true'] at hp
      obtain ⟨⟨h7, hnum⟩, hpo⟩ := hp
      intro prev rest h
      rw [exprDoc]
      simp only [pieces_append, List.append_assoc]
      rw [show (sym ".").pieces = [.tok (.sym ".")] from rfl, show (ident fl).pieces = [.tok (.ident fl)] from pieces_tokD hs.1]
      simp only [List.cons_append, List.nil_append]
      simp only [firstTok] at h
      have ho7 : level o = 7 := by have := level_le o; omega
      rw [g o hs.2 hpo prev _ h]
      rw [gff_tok (okp_some (glued_last_dot (lastTok_lk o hs.2) (lastTok_notnum o ho7 hnum hs.2)))]
      rw [gff_tok (okp_some (glued_sym_ident _ _))]
      rfl
  | .index t a i, hs, hp => by
      simp only [inSubset, Bool.and_eq_true] at hs
      simp only [exprParenFree, Bool.and_eq_true, decide_eq_true_eq] at hp
      intro prev rest h
      rw [exprDoc]
      simp only [pieces_append, List.append_assoc]
      rw [show (sym "[").pieces = [.tok (.sym "[")] from rfl, show (sym "]").pieces = [.tok (.sym "]")] from rfl]
      simp only [List.cons_append, List.nil_append]
      simp only [firstTok] at h
      rw [g a hs.1 hp.1.2 prev _ h]
      rw [gff_tok (okp_some (glued_last_follow (lastTok_lk a hs.1) (Or.inr (Or.inl rfl))))]
      rw [g i hs.2 hp.2 (some (.sym "[")) _ (okp_some (glued_open_first (Or.inr rfl) (firstTok_fk i hs.2)))]
      rw [gff_tok (okp_some (glued_last_follow (lastTok_lk i hs.2) (Or.inr (Or.inr (Or.inr (Or.inr rfl))))))]
      rfl
  | .voidv _, h, _ | .unitv _, h, _ | .cast _ _, h, _ | .slit _ _, h, _ | .alit _ _, h, _ | .blocke _ _ _, h, _ => by
      simp [inSubset] at h
theorem gArgs : ∀ es : List GExpr, inSubsetList es = true → exprsParenFree es = true → ∀ rest : List Piece,
    glueFreeFrom (some (.sym "(")) ((intersperse (sym "," ++ Doc.sp) (exprDocs es)).pieces ++ .tok (.sym ")") :: rest) =
      glueFreeFrom (some (.sym ")")) rest
  | [], _, _ => by
      intro rest
      rw [exprDocs]
      show glueFreeFrom (some (.sym "(")) (.tok (.sym ")") :: rest) = _
      exact gff_tok (okp_some (by decide)) rest
  | e :: es, hs, hp => by
      intro rest
      simp only [inSubsetList, Bool.and_eq_true] at hs
      simp only [exprsParenFree, Bool.and_eq_true] at hp
      rw [exprDocs, pieces_intersperse_cons, List.append_assoc]
      rw [g e hs.1 hp.1 _ _ (okp_some (glued_open_first (Or.inl rfl) (firstTok_fk e hs.1)))]
      exact gMore es hs.2 hp.2 _ (lastTok_lk e hs.1) rest
theorem gMore : ∀ es : List GExpr, inSubsetList es = true → exprsParenFree es = true → ∀ t : Tok, LK t → ∀ rest : List Piece,
    glueFreeFrom (some t) ((exprDocs es).flatMap (fun x => (sym "," ++ Doc.sp).pieces ++ x.pieces) ++ .tok (.sym ")") :: rest) =
      glueFreeFrom (some (.sym ")")) rest
  | [], _, _ => by
      intro t ht rest
      rw [exprDocs]
      show glueFreeFrom (some t) (.tok (.sym ")") :: rest) = _
      exact gff_tok (okp_some (glued_last_follow ht (Or.inr (Or.inr (Or.inr (Or.inl rfl)))))) rest
  | e :: es, hs, hp => by
      intro t ht rest
      simp only [inSubsetList, Bool.and_eq_true] at hs
      simp only [exprsParenFree, Bool.and_eq_true] at hp
      rw [exprDocs, List.flatMap_cons]
      rw [show (sym "," ++ Doc.sp).pieces = [.tok (.sym ","), .sp] from rfl]
      simp only [List.cons_append, List.nil_append, List.append_assoc]
      rw [gff_tok (okp_some (glued_last_follow ht (Or.inr (Or.inr (Or.inl rfl))))), gff_sp]
      rw [g e hs.1 hp.1 none _ (okp_none _)]
      have := gMore es hs.2 hp.2 _ (lastTok_lk e hs.1) rest
      rw [show (sym "," ++ Doc.sp).pieces = [.tok (.sym ","), .sp] from rfl] at this
      exact this
end

/-- **Adjacent tokens stay apart**: in the text of a paren-free expression of the subset no two token texts the
    printer writes without a space between them read as one (or another) Go token — `--`, `&&`, `5.`, identifier
    runs — so lexing the text gives back exactly the tokens `Doc.items` lists (for the token classes as the
    printer spells them; the inside of an identifier / literal is not modelled). -/
theorem glue_free_expr (e : GExpr) (hs : inSubset e = true) (hp : exprParenFree e = true) :
    glueFree (exprDoc e).pieces = true := by
  have := g e hs hp none [] (okp_none _)
  simpa [glueFree, glueFreeFrom] using this


/-! ## from the per-item verdict of the tie to the hypotheses of the theorems

The tie evaluates `itemParenFree` on every item the compiler produced.  That verdict gives `exprParenFree` for every
expression a statement of the item holds (`itemRoots`), i.e. the hypothesis of `print_expr_roundtrip`,
`glue_free_expr` and `no_break_inserts_semicolon`. -/

mutual
theorem stmtRoots_parenFree : ∀ s : GStmt, stmtParenFree s = true → ∀ e ∈ stmtRoots s, exprParenFree e = true
  | .expr e, h => by simpa [stmtRoots, stmtParenFree] using h
  | .go c, h => by simpa [stmtRoots, stmtParenFree] using h
  | .varDecl _ _ (some v), h => by simpa [stmtRoots, stmtParenFree] using h
  | .varDecl _ _ none, _ => by simp [stmtRoots]
  | .assign _ v, h => by simpa [stmtRoots, stmtParenFree] using h
  | .fieldAssign t v, h => by
      simp only [stmtParenFree, Bool.and_eq_true] at h
      simp [stmtRoots, h.1, h.2]
  | .ptrAssign p v, h => by
      simp only [stmtParenFree, Bool.and_eq_true] at h
      simp [stmtRoots, h.1.2, h.2]
  | .indexAssign a i v, h => by
      simp only [stmtParenFree, Bool.and_eq_true] at h
      simp [stmtRoots, h.1.1.2, h.1.2, h.2]
  | .ret none, _ => by simp [stmtRoots]
  | .ret (some e), h => by
      cases e <;> first | (simp [stmtRoots]; done) | (simpa [stmtRoots, stmtParenFree] using h)
  | .loop body, h => by
      simp only [stmtParenFree] at h
      simpa [stmtRoots] using stmtsRoots_parenFree body h
  | .brk, _ => by simp [stmtRoots]
  | .ite c t none, h => by
      simp only [stmtParenFree, Bool.and_eq_true] at h
      have := stmtsRoots_parenFree t h.2
      intro e he; simp only [stmtRoots, List.mem_cons] at he
      rcases he with rfl | he
      · exact h.1.1
      · exact this e he
  | .ite c t (some eb), h => by
      simp only [stmtParenFree, Bool.and_eq_true] at h
      have h1 := stmtsRoots_parenFree t h.1.2
      have h2 := stmtsRoots_parenFree eb h.2
      intro e he; simp only [stmtRoots, List.mem_cons, List.mem_append] at he
      rcases he with rfl | he | he
      · exact h.1.1.1
      · exact h1 e he
      · exact h2 e he
  | .switch x cases none, h => by
      simp only [stmtParenFree, Bool.and_eq_true] at h
      have h1 := casesRoots_parenFree cases h.2
      intro e he; simp only [stmtRoots, List.mem_cons] at he
      rcases he with rfl | he
      · exact h.1.1
      · exact h1 e he
  | .switch x cases (some d), h => by
      simp only [stmtParenFree, Bool.and_eq_true] at h
      have h1 := casesRoots_parenFree cases h.1.2
      have h2 := stmtsRoots_parenFree d h.2
      intro e he; simp only [stmtRoots, List.mem_cons, List.mem_append] at he
      rcases he with rfl | he | he
      · exact h.1.1.1
      · exact h1 e he
      · exact h2 e he
  | .tswitch _ x cases none, h => by
      simp only [stmtParenFree, Bool.and_eq_true] at h
      have h1 := tcasesRoots_parenFree cases h.2
      intro e he; simp only [stmtRoots, List.mem_cons] at he
      rcases he with rfl | he
      · exact h.1.1.2
      · exact h1 e he
  | .tswitch _ x cases (some d), h => by
      simp only [stmtParenFree, Bool.and_eq_true] at h
      have h1 := tcasesRoots_parenFree cases h.1.2
      have h2 := stmtsRoots_parenFree d h.2
      intro e he; simp only [stmtRoots, List.mem_cons, List.mem_append] at he
      rcases he with rfl | he | he
      · exact h.1.1.1.2
      · exact h1 e he
      · exact h2 e he
theorem stmtsRoots_parenFree : ∀ ss : List GStmt, stmtsParenFree ss = true → ∀ e ∈ stmtsRoots ss, exprParenFree e = true
  | [], _ => by simp [stmtsRoots]
  | s :: ss, h => by
      simp only [stmtsParenFree, Bool.and_eq_true] at h
      have h1 := stmtRoots_parenFree s h.1
      have h2 := stmtsRoots_parenFree ss h.2
      intro e he; simp only [stmtsRoots, List.mem_append] at he
      rcases he with he | he
      · exact h1 e he
      · exact h2 e he
theorem casesRoots_parenFree : ∀ cs : List GCase, casesParenFree cs = true → ∀ e ∈ casesRoots cs, exprParenFree e = true
  | [], _ => by simp [casesRoots]
  | .mk v body :: cs, h => by
      simp only [casesParenFree, Bool.and_eq_true] at h
      have h1 := stmtsRoots_parenFree body h.1.2
      have h2 := casesRoots_parenFree cs h.2
      intro e he; simp only [casesRoots, List.mem_cons, List.mem_append] at he
      rcases he with rfl | he | he
      · exact h.1.1
      · exact h1 e he
      · exact h2 e he
theorem tcasesRoots_parenFree : ∀ cs : List GTCase, tcasesParenFree cs = true → ∀ e ∈ tcasesRoots cs, exprParenFree e = true
  | [], _ => by simp [tcasesRoots]
  | .mk _ body :: cs, h => by
      simp only [tcasesParenFree, Bool.and_eq_true] at h
      have h1 := stmtsRoots_parenFree body h.1
      have h2 := tcasesRoots_parenFree cs h.2
      intro e he; simp only [tcasesRoots, List.mem_append] at he
      rcases he with he | he
      · exact h1 e he
      · exact h2 e he
end

theorem itemRoots_parenFree (it : GItem) (h : itemParenFree it = true) : ∀ e ∈ itemRoots it, exprParenFree e = true := by
  cases it with
  | func f => exact stmtsRoots_parenFree f.body (by simpa [itemParenFree] using h)
  | structDef n fs ms =>
    intro e he
    simp only [itemRoots, List.mem_flatMap] at he
    obtain ⟨m, hm, he⟩ := he
    have : stmtsParenFree m.body = true := by
      simp only [itemParenFree, List.all_eq_true] at h
      exact h m hm
    exact stmtsRoots_parenFree m.body this e he
  | _ => simp [itemRoots]

/-- what the tie's per-item verdict buys: in an item it accepts, every expression a statement holds that lies in
    the operator subset parses back to itself, keeps its tokens apart, and is not cut by the semicolon rule -/
theorem item_expressions_roundtrip (it : GItem) (h : itemParenFree it = true) (e : GExpr) (he : e ∈ itemRoots it)
    (hs : inSubset e = true) :
    Parse (.bin 1) (exprDoc e).items (.e (erase e)) [] ∧ glueFree (exprDoc e).pieces = true ∧
      ∀ p, breaksSafe p (exprDoc e).items = true :=
  have hp := itemRoots_parenFree it h e he
  ⟨print_expr_roundtrip_whole e hs hp, glue_free_expr e hs hp, no_break_inserts_semicolon e hp⟩

/-! ## non-vacuity -/

section Examples
private def v (x : String) : GExpr := .var x (.int 32 true)
private def i32 : GTy := .int 32 true

/-- `a + b * f(c, -1)[i].x < !d` -/
private def ex1 : GExpr :=
  .bin .less .bool
    (.bin .add i32 (v "a") (.bin .mul i32 (v "b")
      (.field "x" i32 (.index i32 (.call i32 (v "f") [v "c", .int "-1" i32]) (v "i")))))
    (.un .not .bool (v "d"))

example : inSubset ex1 = true ∧ exprParenFree ex1 = true := by decide

example : (exprDoc ex1).items.length = 19 := by decide

/-- the hypotheses of `print_expr_roundtrip` hold on `ex1`; its 19 tokens parse back to it -/
example : Parse (.bin 1) (exprDoc ex1).items (.e (erase ex1)) [] :=
  print_expr_roundtrip_whole ex1 (by decide) (by decide)

/-- `(a + b) * c` is NOT paren-free, and indeed the printer gives it the tokens of `a + (b * c)`, another tree:
    the hypothesis of the theorem is necessary -/
private def bad : GExpr := .bin .mul i32 (.bin .add i32 (v "a") (v "b")) (v "c")
private def good : GExpr := .bin .add i32 (v "a") (.bin .mul i32 (v "b") (v "c"))
example : exprParenFree bad = false ∧ exprParenFree good = true ∧ (exprDoc bad).items = (exprDoc good).items := by decide
example : Parse (.bin 1) (exprDoc bad).items (.e (erase good)) [] := by
  rw [show (exprDoc bad).items = (exprDoc good).items from by decide]
  exact print_expr_roundtrip_whole good (by decide) (by decide)

/-- `- -x` would print `--x` (Go's decrement token): rejected by `exprParenFree` and seen by `glueFree` -/
example : exprParenFree (.un .neg i32 (.un .neg i32 (v "x"))) = false := by decide
example : glueFree (exprDoc (.un .neg i32 (.un .neg i32 (v "x")))).pieces = false := by decide
example : glueFree (exprDoc ex1).pieces = true := glue_free_expr ex1 (by decide) (by decide)

/-- a left-leaning chain `x + x + … + x` of `n + 1` operands -/
private def chain : Nat → GExpr
  | 0 => v "x"
  | n + 1 => .bin .add i32 (chain n) (v "x")

-- an expression well over 120 columns (41 operands, 40 operators, a space around each operator: 161 columns):
-- paren-free, parses back, and its text is the same at widths 40 and 120
set_option maxRecDepth 8000 in
example : (exprDoc (chain 40)).items.length = 81 ∧ inSubset (chain 40) = true ∧ exprParenFree (chain 40) = true := by
  decide +kernel
example : printExpr 40 (chain 40) = printExpr 120 (chain 40) := render_width_irrelevant_expr 40 120 _

/-- every class of character `escape_go_string` distinguishes -/
example : escapeChars ['a', '"', '\\', '\n', '\r', '\t', Char.ofNat 1, Char.ofNat 0x7f, Char.ofNat 0x9f, 'é', '世'] =
    "a\\\"\\\\\\n\\r\\t\\u0001\\u007f\\u009fé世".toList := by decide
example : lexStr .normal ("a\\\"\\\\\\n\\u0001é\" + x".toList) = some (['a', '"', '\\', '\n', Char.ofNat 1, 'é'], " + x".toList) := by
  decide

/-- a struct literal breaks its lines after `{` and `,` only -/
private def lit : GExpr := .slit (.name "Point") [.mk "x" (v "a"), .mk "y" (.bin .add i32 (v "b") (v "c"))]
example : (exprDoc lit).items =
    [some (.ident "Point"), some (.sym "{"), none, some (.ident "x"), some (.sym ":"), some (.ident "a"), some (.sym ","), none,
     some (.ident "y"), some (.sym ":"), some (.ident "b"), some (.sym "+"), some (.ident "c"), some (.sym ","), none,
     some (.sym "}")] := by decide
example : breaksSafe (some (.kw "return")) (exprDoc lit).items = true :=
  no_break_inserts_semicolon lit (by decide) _
/-- the seeded change `C02-printer-breaks-before-operator` in this vocabulary: a break after an operand is unsafe -/
example : breaksSafe none [some (.ident "a"), none, some (.sym "+"), some (.ident "b")] = false := by decide
/-- … and a document with a soft break is not `Hard`, so `render_width_irrelevant` would no longer apply -/
example : ¬ (Doc.group (ident "a" ++ Doc.line ++ sym "+" ++ Doc.sp ++ ident "b")).Hard := by simp [Doc.Hard]

end Examples

end Goml.GoPrint
