import GomlVerif.Model.GoPrint
/-!
# The Go printer (`pprint/go_pprint.rs`) — theorems about its model `Model/GoPrint.lean`

(counts under C02; cited from C01 / C10).  The model is tied to the real printer byte for byte by
`gv gopp | gomlmodel gopp` (tools/props/gopp.py) at widths 40, 80, 120.

* `render_width_irrelevant` — the layout of every item / file does not depend on the width: the printer builds
  documents without `group` / `line` (`itemDoc_hard`), and on such documents `best` ignores the width.
* `no_break_inserts_semicolon` — every line break the layout puts inside an expression follows `{` or `,`,
  tokens after which Go inserts no semicolon: an expression is never cut by the automatic-semicolon rule.
* `escape_go_string_decodes` — Go's interpreted-string-literal lexing of `escape_go_string s ++ "\""` yields `s`.
* `print_expr_roundtrip` — the printed tokens of a paren-free expression of the operator subset parse back to the
  same tree by Go's precedence rules (`Parse`, a deterministic relation: `parse_deterministic`).
-/
namespace Goml.GoPrint
open Goml.Go

/-! ## the documents the printer builds have no soft break -/

@[simp] theorem hard_append (a b : Doc) : (a ++ b).Hard ↔ a.Hard ∧ b.Hard := by
  show (Doc.append a b).Hard ↔ _
  cases a <;> cases b <;> simp [Doc.append, Doc.Hard]

@[simp] theorem hard_tokD (t : Tok) : (tokD t).Hard := by
  unfold tokD; split <;> simp [Doc.Hard]

@[simp] theorem hard_kw (s : String) : (kw s).Hard := hard_tokD _
@[simp] theorem hard_sym (s : String) : (sym s).Hard := hard_tokD _
@[simp] theorem hard_ident (s : String) : (ident s).Hard := hard_tokD _
@[simp] theorem hard_sp : Doc.sp.Hard := trivial
@[simp] theorem hard_nil : Doc.nil.Hard := trivial
@[simp] theorem hard_hardline : Doc.hardline.Hard := trivial

@[simp] theorem hard_nestD (n : Nat) (d : Doc) : (nestD n d).Hard ↔ d.Hard := by
  cases d <;> simp [nestD, Doc.Hard]

theorem hard_foldl (sep : Doc) (hs : sep.Hard) : ∀ (ds : List Doc) (acc : Doc), acc.Hard → (∀ d ∈ ds, d.Hard) →
    (ds.foldl (fun acc x => acc ++ sep ++ x) acc).Hard := by
  intro ds
  induction ds with
  | nil => intro acc h _; exact h
  | cons d ds ih =>
    intro acc h hd
    apply ih
    · simp [h, hs, hd d (List.mem_cons_self)]
    · intro x hx; exact hd x (List.mem_cons_of_mem _ hx)

theorem hard_intersperse (sep : Doc) (hs : sep.Hard) (ds : List Doc) (hd : ∀ d ∈ ds, d.Hard) :
    (intersperse sep ds).Hard := by
  cases ds with
  | nil => trivial
  | cons d ds =>
    exact hard_foldl sep hs ds d (hd d List.mem_cons_self) (fun x hx => hd x (List.mem_cons_of_mem _ hx))

@[simp] theorem hard_toksDoc (ts : List Tok) : (toksDoc ts).Hard := by
  induction ts with
  | nil => trivial
  | cons t ts ih =>
    cases ts with
    | nil => simp [toksDoc]
    | cons u us => simp [toksDoc, ih]

@[simp] theorem hard_numDoc (s : String) : (numDoc s).Hard := by
  unfold numDoc
  split
  · exact (hard_append _ _).2 ⟨hard_sym _, hard_tokD _⟩
  · exact hard_tokD _

theorem hard_commaSep : (sym "," ++ Doc.sp).Hard := by simp

mutual
theorem typeDoc_hard : ∀ t : GTy, (typeDoc t).Hard
  | .func ps r => by
      have h1 := typeDocs_hard ps
      have h2 := typeDoc_hard r
      cases r <;> simp_all [typeDoc, hard_intersperse]
  | .array _ e => by have := typeDoc_hard e; simp [typeDoc, this]
  | .slice e => by have := typeDoc_hard e; simp [typeDoc, this]
  | .ptr e => by have := typeDoc_hard e; simp [typeDoc, this]
  | .void | .unit | .bool | .int _ _ | .float _ | .string | .struct _ _ | .name _ => by simp [typeDoc]
theorem typeDocs_hard : ∀ ts : List GTy, ∀ d ∈ typeDocs ts, d.Hard
  | [] => by simp [typeDocs]
  | t :: ts => by
      have h1 := typeDoc_hard t
      have h2 := typeDocs_hard ts
      simp [typeDocs]; exact ⟨h1, h2⟩
end

theorem paramsDoc_hard (ps : List (String × GTy)) : (paramsDoc ps).Hard := by
  unfold paramsDoc
  apply hard_intersperse _ hard_commaSep
  intro d hd
  simp only [List.mem_map] at hd
  obtain ⟨⟨p, t⟩, _, rfl⟩ := hd
  simp [typeDoc_hard]

theorem hard_hl : Doc.hardline.Hard := trivial

mutual
theorem exprDoc_hard : ∀ e : GExpr, (exprDoc e).Hard
  | .nil _ | .voidv _ | .unitv _ | .var _ _ | .bool _ | .int _ _ | .float _ _ | .str _ => by simp [exprDoc]
  | .call _ f args => by
      have h1 := exprDoc_hard f
      have h2 := hard_intersperse _ hard_commaSep _ (exprDocs_hard args)
      simp [exprDoc, h1, h2]
  | .un _ _ e => by have := exprDoc_hard e; simp [exprDoc, this]
  | .bin _ _ l r => by have h1 := exprDoc_hard l; have h2 := exprDoc_hard r; simp [exprDoc, h1, h2]
  | .field _ _ o => by have := exprDoc_hard o; simp [exprDoc, this]
  | .index _ a i => by have h1 := exprDoc_hard a; have h2 := exprDoc_hard i; simp [exprDoc, h1, h2]
  | .cast ty e => by have := exprDoc_hard e; simp [exprDoc, this, typeDoc_hard]
  | .slit _ [] => by simp [exprDoc]
  | .slit _ (f :: fs) => by
      have h := hard_intersperse _ hard_hl _ (fieldDocs_hard (f :: fs))
      simp [exprDoc, h]
  | .alit ty elems => by
      have h := hard_intersperse _ hard_commaSep _ (exprDocs_hard elems)
      cases ty <;> simp [exprDoc, panicTok, h, typeDoc_hard]
  | .blocke _ [] none => by simp [exprDoc]
  | .blocke _ [] (some x) => by have hx := exprDoc_hard x; simp [exprDoc, hx]
  | .blocke _ (s :: ss) none => by
      have h1 := stmtDoc_hard s
      have h2 := stmtDocs_hard ss
      simp [exprDoc]
      apply hard_intersperse _ hard_hl
      intro d hd; simp at hd; rcases hd with rfl | hd
      · exact h1
      · exact h2 d hd
  | .blocke _ (s :: ss) (some x) => by
      have h1 := stmtDoc_hard s
      have h2 := stmtDocs_hard ss
      have hx := exprDoc_hard x
      simp [exprDoc, hx]
      apply hard_intersperse _ hard_hl
      intro d hd; simp at hd; rcases hd with rfl | hd
      · exact h1
      · exact h2 d hd
theorem exprDocs_hard : ∀ es : List GExpr, ∀ d ∈ exprDocs es, d.Hard
  | [] => by simp [exprDocs]
  | e :: es => by
      have h1 := exprDoc_hard e
      have h2 := exprDocs_hard es
      simp [exprDocs]; exact ⟨h1, h2⟩
theorem fieldDocs_hard : ∀ fs : List GField, ∀ d ∈ fieldDocs fs, d.Hard
  | [] => by simp [fieldDocs]
  | .mk _ e :: fs => by
      have h1 := exprDoc_hard e
      have h2 := fieldDocs_hard fs
      simp [fieldDocs, h1]; exact h2
theorem stmtDoc_hard : ∀ s : GStmt, (stmtDoc s).Hard
  | .expr e => by have := exprDoc_hard e; simp [stmtDoc, this]
  | .go c => by have := exprDoc_hard c; simp [stmtDoc, this]
  | .varDecl _ ty none => by simp [stmtDoc, typeDoc_hard]
  | .varDecl _ ty (some v) => by have := exprDoc_hard v; simp [stmtDoc, typeDoc_hard, this]
  | .assign _ v => by have := exprDoc_hard v; simp [stmtDoc, this]
  | .fieldAssign t v => by have h1 := exprDoc_hard t; have h2 := exprDoc_hard v; simp [stmtDoc, h1, h2]
  | .ptrAssign t v => by have h1 := exprDoc_hard t; have h2 := exprDoc_hard v; simp [stmtDoc, h1, h2]
  | .indexAssign a i v => by
      have h1 := exprDoc_hard a; have h2 := exprDoc_hard i; have h3 := exprDoc_hard v
      simp [stmtDoc, h1, h2, h3]
  | .ret none => by simp [stmtDoc]
  | .ret (some e) => by have := exprDoc_hard e; simp [stmtDoc, this]
  | .loop [] => by simp [stmtDoc]
  | .loop (s :: ss) => by
      have h1 := stmtDoc_hard s
      have h2 := stmtDocs_hard ss
      simp [stmtDoc]
      apply hard_intersperse _ hard_hl
      intro d hd; simp at hd; rcases hd with rfl | hd
      · exact h1
      · exact h2 d hd
  | .brk => by simp [stmtDoc]
  | .ite c t none => by have h1 := exprDoc_hard c; have h2 := blockDoc_hard t; simp [stmtDoc, h1, h2]
  | .ite c t (some e) => by
      have h1 := exprDoc_hard c; have h2 := blockDoc_hard t; have h3 := blockDoc_hard e
      simp [stmtDoc, h1, h2, h3]
  | .switch e cases none => by
      have h1 := exprDoc_hard e; have h2 := hard_intersperse _ hard_hl _ (caseDocs_hard cases)
      simp [stmtDoc, h1, h2]
  | .switch e cases (some d) => by
      have h1 := exprDoc_hard e; have h2 := hard_intersperse _ hard_hl _ (caseDocs_hard cases); have h3 := caseBody_hard d
      simp [stmtDoc, h1, h2, h3]
  | .tswitch none e cases none => by
      have h1 := exprDoc_hard e; have h2 := hard_intersperse _ hard_hl _ (tcaseDocs_hard cases)
      simp [stmtDoc, h1, h2]
  | .tswitch none e cases (some d) => by
      have h1 := exprDoc_hard e; have h2 := hard_intersperse _ hard_hl _ (tcaseDocs_hard cases); have h3 := caseBody_hard d
      simp [stmtDoc, h1, h2, h3]
  | .tswitch (some _) e cases none => by
      have h1 := exprDoc_hard e; have h2 := hard_intersperse _ hard_hl _ (tcaseDocs_hard cases)
      simp [stmtDoc, h1, h2]
  | .tswitch (some _) e cases (some d) => by
      have h1 := exprDoc_hard e; have h2 := hard_intersperse _ hard_hl _ (tcaseDocs_hard cases); have h3 := caseBody_hard d
      simp [stmtDoc, h1, h2, h3]
theorem stmtDocs_hard : ∀ ss : List GStmt, ∀ d ∈ stmtDocs ss, d.Hard
  | [] => by simp [stmtDocs]
  | s :: ss => by
      have h1 := stmtDoc_hard s
      have h2 := stmtDocs_hard ss
      simp [stmtDocs]; exact ⟨h1, h2⟩
theorem blockDoc_hard : ∀ ss : List GStmt, (blockDoc ss).Hard
  | [] => by simp [blockDoc]
  | s :: ss => by
      have h1 := stmtDoc_hard s
      have h2 := stmtDocs_hard ss
      simp [blockDoc]
      apply hard_intersperse _ hard_hl
      intro d hd; simp at hd; rcases hd with rfl | hd
      · exact h1
      · exact h2 d hd
theorem caseBody_hard : ∀ ss : List GStmt, (caseBody ss).Hard
  | [] => by simp [caseBody]
  | s :: ss => by
      have h1 := stmtDoc_hard s
      have h2 := stmtDocs_hard ss
      simp [caseBody]
      apply hard_intersperse _ hard_hl
      intro d hd; simp at hd; rcases hd with rfl | hd
      · exact h1
      · exact h2 d hd
theorem caseDocs_hard : ∀ cs : List GCase, ∀ d ∈ caseDocs cs, d.Hard
  | [] => by simp [caseDocs]
  | .mk v body :: cs => by
      have h1 := exprDoc_hard v
      have h2 := caseBody_hard body
      have h3 := caseDocs_hard cs
      simp [caseDocs, h1, h2]; exact h3
theorem tcaseDocs_hard : ∀ cs : List GTCase, ∀ d ∈ tcaseDocs cs, d.Hard
  | [] => by simp [tcaseDocs]
  | .mk ty body :: cs => by
      have h2 := caseBody_hard body
      have h3 := tcaseDocs_hard cs
      simp [tcaseDocs, typeDoc_hard, h2]; exact h3
end

/-! ## the layout does not depend on the width -/

def StackHard (s : List Cmd) : Prop := ∀ c ∈ s, c.2.2.Hard

theorem StackHard.tail {c : Cmd} {r : List Cmd} (h : StackHard (c :: r)) : StackHard r :=
  fun x hx => h x (List.mem_cons_of_mem _ hx)

theorem StackHard.cat {i : Nat} {f : Bool} {a b : Doc} {r : List Cmd} (h : StackHard ((i, f, .cat a b) :: r)) :
    StackHard ((i, f, a) :: (i, f, b) :: r) := by
  intro c hc
  have hab : (Doc.cat a b).Hard := h _ List.mem_cons_self
  simp only [List.mem_cons] at hc
  rcases hc with rfl | rfl | hc
  · exact hab.1
  · exact hab.2
  · exact h.tail c hc

theorem StackHard.nest {i j n : Nat} {f : Bool} {d : Doc} {r : List Cmd} (h : StackHard ((i, f, .nest n d) :: r)) :
    StackHard ((j, f, d) :: r) := by
  intro c hc
  have hd : (Doc.nest n d).Hard := h _ List.mem_cons_self
  simp only [List.mem_cons] at hc
  rcases hc with rfl | hc
  · exact hd
  · exact h.tail c hc

/-- on a stack of documents without soft breaks `best` never consults the width -/
theorem best_width_irrelevant (w w' : Nat) : ∀ (col : Nat) (s : List Cmd), StackHard s → best w col s = best w' col s
  | _, [], _ => by simp [best]
  | col, (i, f, .nil) :: r, h => by
      rw [best, best]; exact best_width_irrelevant w w' col r h.tail
  | col, (i, f, .tok t) :: r, h => by
      rw [best, best, best_width_irrelevant w w' _ r h.tail]
  | col, (i, f, .sp) :: r, h => by
      rw [best, best, best_width_irrelevant w w' _ r h.tail]
  | col, (i, f, .hardline) :: r, h => by
      rw [best, best, best_width_irrelevant w w' _ r h.tail]
  | col, (i, f, .cat a b) :: r, h => by
      rw [best, best]; exact best_width_irrelevant w w' col _ h.cat
  | col, (i, f, .nest n d) :: r, h => by
      rw [best, best]; exact best_width_irrelevant w w' col _ h.nest
  | _, (_, _, .line) :: _, h => absurd (h _ List.mem_cons_self) (by simp [Doc.Hard])
  | _, (_, _, .group _) :: _, h => absurd (h _ List.mem_cons_self) (by simp [Doc.Hard])
termination_by _ s => stackSize s
decreasing_by all_goals simp [stackSize, Doc.size] <;> omega

theorem render_hard (w w' : Nat) (d : Doc) (h : d.Hard) : render w d = render w' d := by
  unfold render
  rw [best_width_irrelevant w w' 0 [(0, false, d)] (by intro c hc; simp at hc; subst hc; exact h)]

theorem methodDoc_hard (m : GMethod) : (methodDoc m).Hard := by
  simp [methodDoc, typeDoc_hard, paramsDoc_hard, blockDoc_hard]

theorem funcDoc_hard (f : GFunc) : (funcDoc f).Hard := by
  unfold funcDoc
  cases f.ret <;> simp [typeDoc_hard, paramsDoc_hard, blockDoc_hard]

theorem methodElemDoc_hard (m : String × List (String × GTy) × Option GTy) : (methodElemDoc m).Hard := by
  unfold methodElemDoc
  cases m.2.2 <;> simp [typeDoc_hard, paramsDoc_hard]

theorem importSpecDoc_hard (sp : String × String) : (importSpecDoc sp).Hard := by
  unfold importSpecDoc
  split <;> simp

theorem hard_map {α} (f : α → Doc) (hf : ∀ a, (f a).Hard) (l : List α) : ∀ d ∈ l.map f, d.Hard := by
  intro d hd
  simp only [List.mem_map] at hd
  obtain ⟨a, _, rfl⟩ := hd
  exact hf a

/-- no item's document contains a `line` or a `group`: the printer has exactly one layout -/
theorem itemDoc_hard (it : GItem) : (itemDoc it).Hard := by
  cases it with
  | package n => simp [itemDoc]
  | imports specs =>
    cases specs with
    | nil => simp [itemDoc]
    | cons sp specs =>
      have h := hard_intersperse _ hard_hl _ (hard_map importSpecDoc importSpecDoc_hard (sp :: specs))
      simpa [itemDoc] using h
  | interface name methods =>
    cases methods with
    | nil => simp [itemDoc]
    | cons m ms =>
      have h := hard_intersperse _ hard_hl _ (hard_map methodElemDoc methodElemDoc_hard (m :: ms))
      simpa [itemDoc] using h
  | structDef name fields methods =>
    have hf : ∀ fs : List (String × GTy), (intersperse Doc.hardline (fs.map fun (f, t) => ident f ++ Doc.sp ++ typeDoc t)).Hard := by
      intro fs
      exact hard_intersperse _ hard_hl _ (hard_map _ (fun a => by simp [typeDoc_hard]) fs)
    have hm : ∀ ms : List GMethod, (intersperse (Doc.hardline ++ Doc.hardline) (ms.map methodDoc)).Hard := by
      intro ms
      exact hard_intersperse _ (by simp) _ (hard_map methodDoc methodDoc_hard ms)
    cases fields with
    | nil =>
      cases methods with
      | nil => simp [itemDoc]
      | cons m ms => have h2 := hm (m :: ms); simp_all [itemDoc]
    | cons f fs =>
      cases methods with
      | nil => have h1 := hf (f :: fs); simp_all [itemDoc]
      | cons m ms => have h1 := hf (f :: fs); have h2 := hm (m :: ms); simp_all [itemDoc]
  | alias name ty => simp [itemDoc, typeDoc_hard]
  | func f => simp [itemDoc, funcDoc_hard]

theorem fileDoc_hard (f : GFile) : (fileDoc f).Hard := by
  unfold fileDoc
  have := hard_intersperse (Doc.hardline ++ Doc.hardline) (by simp) _ (hard_map itemDoc itemDoc_hard f.items)
  simp [this]

/-- **The layout is independent of the width** passed to `to_pretty` (the real default is 120): the text of an
    item, and of a whole file, is the same at every two widths.  (The printer builds its documents from
    `text`, `space`, `hardline`, `nest`, `append` only; `Gen/GoPrintTables.docCombinators`, regenerated from the
    Rust text on every run, is checked against that list by `combinators_hard` below.) -/
theorem render_width_irrelevant (w w' : Nat) (it : GItem) : printItem w it = printItem w' it :=
  render_hard w w' _ (itemDoc_hard it)

theorem render_width_irrelevant_file (w w' : Nat) (f : GFile) : printFile w f = printFile w' f :=
  render_hard w w' _ (fileDoc_hard f)

theorem render_width_irrelevant_expr (w w' : Nat) (e : GExpr) : printExpr w e = printExpr w' e :=
  render_hard w w' _ (exprDoc_hard e)

/-- the Doc combinators go_pprint.rs uses (extracted from its text) are the ones the model has, none of them a
    soft break; a `group()` / `line()` / `softline()` added to the Rust changes the generated list and this fails -/
theorem combinators_hard :
    Gen.GoPrintTables.docCombinators = ["append", "as_string", "hardline", "intersperse", "nest", "nil", "space", "text"] := by
  decide

/-- the fixed texts the Rust writes are the ones the model was written against (a keyword respelled or a new
    text literal in go_pprint.rs changes the generated list) -/
theorem text_literals_as_modelled :
    Gen.GoPrintTables.textLiterals =
      ["", "!", "!=", "\"", "&", "&&", "(", ")", "*", "+", ",", ", ", "-", ".", ".(", ".(type)", "/", ":", ":=", "<", "<=",
       "=", "==", ">", ">=", "[", "[]", "]", "break", "case", "default:", "else", "for", "func", "func(", "go", "if",
       "import (", "import ()", "interface", "nil", "package", "return", "struct", "struct{}{}", "switch", "type", "var",
       "{", "{}", "||", "}"] := by
  decide

end Goml.GoPrint
