import GomlVerif.Lemmas.InferTotal
import GomlVerif.Model.InferSpec
import GomlVerif.Lemmas.InferCert
import GomlVerif.Lemmas.InferJustGo
/-!
Theorems about the model of the typer's constraint generation (`Model/Infer.lean`, the fragment of
`typer/check.rs` + `localenv.rs` + `toplevel.rs::typecheck_fn` listed there), composed with those about
`solve` (`Props/Solve.lean`) and `unify` (`Props/Unify.lean`).
-/
namespace Goml.Infer
open Goml Goml.Unify

/-- **Generation is total.**  For every expression of the fragment, expected type (or none), environment,
scope stack and state, `infer_expr` / `check_expr` RETURN: an elaborated tree, the scopes and the state.
The model has no fuel here (the recursion is structural in the expression), `Vec` indexing is
`List.get?`, and `none` stands for a Rust panic (`args_tast[0]` in the `array_set` arm of
`infer_call_expr`; reachable only under the guard `args_tast.len() == 3`) — so a call with any number of
arguments, a projection at any index, an unknown name or callee end in a diagnostic and an error node,
never in a stuck state.  (Dropping the guard — "index the arguments without checking their number" —
makes `callRet_total`, hence this theorem, unprovable.) -/
theorem infer_total (e : IExpr) (exp : Option Ty) (G : GEnv) (Γ : Scopes) (s : St) :
    ∃ t Γ' s', go e exp G Γ s = some (t, Γ', s') := by
  obtain ⟨t, Γ', s', h, _⟩ := go_le e exp G Γ s
  exact ⟨t, Γ', s', h⟩

/-- … and so is `typecheck_fn` up to `solve`: it never panics; with `solve_terminates` the whole function
ends (`stuck` / `noRounds` are impossible, `noFuel` is the fuel of `unify` / `norm`). -/
theorem inferFn_total (G : GEnv) (fuel : Nat) (params ret body σ0) :
    inferFn G fuel params ret body σ0 ≠ .stuck ∧ inferFn G fuel params ret body σ0 ≠ .noRounds := by
  unfold inferFn genFn
  obtain ⟨t, Γ', s', h⟩ := infer_total body (some ret) G (insertParams params (pushScope [[]]))
    { σ := σ0, cs := [], diags := [], recs := [] }
  simp only [h]
  have ht := solve_terminates G.env fuel (popScope Γ' s').2.σ (popScope Γ' s').2.cs
  constructor
  · cases hs : solve G.env fuel (popScope Γ' s').2.σ (popScope Γ' s').2.cs <;> simp
  · cases hs : solve G.env fuel (popScope Γ' s').2.σ (popScope Γ' s').2.cs <;> simp_all

/-- **Generation only extends the state.**  The union-find store keeps `find` and every value (only fresh
keys are created: `fresh_ty_var`, `inst_ty`), so it stays well-formed and acyclic and refines the old
one (`Ext`); constraints and diagnostics are appended at the end. -/
theorem infer_store_invariant {e exp G Γ s t Γ' s'} (h : go e exp G Γ s = some (t, Γ', s'))
    (hW : WF s.σ) (hA : Acyclic s.σ) :
    WF s'.σ ∧ Acyclic s'.σ ∧ Ext s.σ s'.σ ∧ (∃ new, s'.cs = s.cs ++ new) ∧ (∃ more, s'.diags = s.diags ++ more) := by
  obtain ⟨t1, Γ1, s1, h1, l⟩ := go_le e exp G Γ s
  rw [h] at h1
  injection h1 with h1; injection h1 with _ h1; injection h1 with _ h1; subst h1
  obtain ⟨w, e⟩ := ext_of_same l.rep l.val hW
  exact ⟨w, hA.of_ext e, e, l.cs, l.diags⟩

/-- … composed with `solve_acyclic`: whatever a function body is, after `typecheck_fn` the store is
well-formed, acyclic and refines the store before the function (so `norm` / `subst_ty` of every
recorded type terminate: `norm_total`). -/
theorem inferFn_store_invariant {G fuel params ret body σ0 r} (h : inferFn G fuel params ret body σ0 = .ok r)
    (hW : WF σ0) (hA : Acyclic σ0) : WF r.σ ∧ Acyclic r.σ ∧ Ext σ0 r.σ := by
  unfold inferFn genFn at h
  obtain ⟨t, Γ', s', hg, l⟩ := go_le body (some ret) G (insertParams params (pushScope [[]]))
    { σ := σ0, cs := [], diags := [], recs := [] }
  simp only [hg] at h
  have l2 := l.trans (le_popScope Γ' s')
  obtain ⟨w, e⟩ := ext_of_same l2.rep l2.val hW
  cases hs : solve G.env fuel (popScope Γ' s').2.σ (popScope Γ' s').2.cs with
  | noFuel => simp [hs] at h
  | noRounds => simp [hs] at h
  | done σ' sd rest =>
    simp only [hs] at h
    injection h with h; subst h
    obtain ⟨w2, e2⟩ := solveLoop_post _ _ _ _ _ _ _ w hs
    exact ⟨w2, (hA.of_ext e).of_ext e2, e.trans e2⟩

/-! ### soundness -/

/-- the two types are identical or have agreeing normal forms in `σ` (equal up to array lengths one of
which is the wildcard — `unify_sound`; plain equality when no wildcard length occurs: `unify_sound_eq`) -/
def AgreeIn (σ : Store) (l r : Ty) : Prop := l = r ∨ Eqv σ l r

/-- **Acceptance is type-sound (partial).**  If `typecheck_fn` ends WITHOUT ANY DIAGNOSTIC — none from
generation, none from `solve` — then the elaborated body is well typed in the declarative judgement `Wt`
with types compared in the FINAL store: every use of a local has the type of its binder, every reference
to a top-level function carries an instance of its signature, every callee has the function type made of
the types of the arguments and of the call, conditions are `bool`, branches / arms / operands / `let`
values / patterns agree, projections select a component — and the type of the body agrees with the
declared result.  "Agree" is `AgreeIn r.σ`: identical, or agreeing normal forms in the store `solve`
leaves (modulo the wildcard array length, which is what the real `unify` guarantees).

What is MISSING for full strength (hence `_partial`):
* the hypothesis `cert`: the decidable certificate that every obligation of the tree is discharged by an
  identity or by a constraint of the queue.  That generation ALWAYS produces such a tree is not proved; the
  driver evaluates `cert` on every function of the tie stream (model tree, model queue — which the tie
  shows equal to the real queue) and `./check C03` fails if it is ever false;
* field accesses (`StructFieldAccess` constraints): `cert` is false for a tree with a field node — what a
  solved field constraint means (struct table lookup + instantiation) is not stated;
* binders: `cert` looks binders up in `params ++ binders tree`, i.e. it assumes what name resolution
  provides (one `LocalId` per binder). -/
theorem infer_sound_partial {G fuel params ret body σ0 r}
    (h : inferFn G fuel params ret body σ0 = .ok r) (hd : r.diags = []) (hW : WF σ0)
    (cert : justB r.gen.cs (params ++ binders r.tree) G.funs (obls r.tree ++ [.rel r.tree.ty ret]) = true) :
    Wt (AgreeIn r.σ) (fun x => lookupScope x (params ++ binders r.tree)) G.funs r.tree ∧
    AgreeIn r.σ r.tree.ty ret := by
  unfold inferFn genFn at h
  obtain ⟨t, Γ', s', hg, l⟩ := go_le body (some ret) G (insertParams params (pushScope [[]]))
    { σ := σ0, cs := [], diags := [], recs := [] }
  simp only [hg] at h
  have l2 := l.trans (le_popScope Γ' s')
  obtain ⟨w, _⟩ := ext_of_same l2.rep l2.val hW
  cases hs : solve G.env fuel (popScope Γ' s').2.σ (popScope Γ' s').2.cs with
  | noFuel => simp [hs] at h
  | noRounds => simp [hs] at h
  | done σ' sd rest =>
    simp only [hs] at h
    injection h with h; subst h
    simp only [List.append_eq_nil_iff, List.map_eq_nil_iff] at hd
    have hs' := hs
    rw [hd.2] at hs'
    have hR : ∀ a b, Constraint.eq a b ∈ (popScope Γ' s').2.cs → AgreeIn σ' a b := by
      intro a b hm
      obtain ⟨x, y, ⟨f1, hx⟩, ⟨g1, hy⟩, ha⟩ := solve_eq_sound w hs' a b hm
      exact Or.inr ⟨f1, g1, x, y, hx, hy, ha⟩
    have hall := List.all_eq_true.1 cert
    constructor
    · intro o ho
      exact checkB_sound hR (fun _ => Or.inl rfl) (hall o (List.mem_append_left _ ho))
    · exact checkB_sound (o := .rel t.ty ret) hR (fun _ => Or.inl rfl) (hall _ (List.mem_append_right _ (by simp)))

/-- the binder table `B` gives every parameter and every binder of the tree its type — what name resolution
provides (one `LocalId` per binder); e.g. `fun x => lookupScope x (params ++ binders tree)` when the ids are distinct -/
def BinderTable (B : Nat → Option Ty) (params : List (Nat × Ty)) (t : TExpr) : Prop := BIn B (params ++ binders t)

/-- **Every tree generation returns is justified by the queue it returns** (no per-function certificate):
if `typecheck_fn` up to `solve` pushed no diagnostic, every obligation of the elaborated body — and "the body has
the declared result type" — is an identity, a queued `TypeEqual` (`rel`), a queued `StructFieldAccess` (`fld`), a
binder of the table, an instance made by `inst_ty`, a component of a syntactic tuple type.  By induction over the
mutual recursor of `IExpr` (`Lemmas/InferJustGo.lean::go_just`). -/
theorem genFn_justified {G params ret body σ0 t s} (h : genFn G params ret body σ0 = some (t, s)) (hd : s.diags = [])
    (hin : s.outside = false) {B} (hB : BinderTable B params t) :
    JL B G.funs s.cs (obls t ++ [.rel t.ty ret]) := by
  unfold genFn at h
  obtain ⟨t1, Γ1, s1, h1, l1⟩ := go_le body (some ret) G (insertParams params (pushScope [[]]))
    { σ := σ0, cs := [], diags := [], recs := [] }
  simp only [h1, Option.some.injEq, Prod.mk.injEq] at h
  obtain ⟨rfl, rfl⟩ := h
  have lp := le_popScope Γ1 s1
  have hE : EnvAll B (insertParams params (pushScope [[]])) := by
    apply envAll_params _ _ hB.left
    intro sc hm p hp
    simp only [pushScope, List.mem_cons, List.not_mem_nil, or_false] at hm
    rcases hm with e | e <;> subst e <;> cases hp
  obtain ⟨_, j, x⟩ := go_just body (some ret) G _ _ t1 Γ1 s1 h1 (lp.nodiag ⟨hd, hin⟩) B hB.right hE
  exact JL.append (j.mono lp) (JL.one (Or.inr (lp.mem _ (x ret rfl))))

/-- **Acceptance is type-sound** (fragment of `Model/Infer.lean`).  If `typecheck_fn` ends WITHOUT ANY DIAGNOSTIC — none
from generation, none from `solve` — then, for every binder table `B` (name resolution's: one `LocalId` per binder), the
elaborated body is well typed in the declarative judgement, with types compared in the FINAL store (`AgreeIn r.σ`:
identical, or agreeing normal forms — equal up to array lengths one of which is the wildcard, which is what the real
`unify` guarantees): every use of a local has the type of its binder, every reference to a top-level function carries an
instance of its signature, every callee has the function type made of the argument types and the type of the call,
conditions are `bool`, branches / arms / operands / `let` values / patterns agree, projections select a component; and the
body has the declared result type.  No certificate: `genFn_justified` + `solve_eq_sound`.
`hin` (`r.gen.outside = false`, a ghost flag of the run, decidable): generation did not go through a method-call form
(`x.m(a)`, `T::m(x, a)`) or an array literal — these are modelled and tied (round 11, third pass) but have no declarative
rule yet; for them only `infer_total` / `infer_store_invariant` hold.
A field access `e.f : r` is judged by `F`: here only "its `StructFieldAccess(e, f, r)` was queued and `solve` ended
without a diagnostic and with an empty queue"; what that MEANS (r is the instantiated field type) is
not stated yet (see DESIGN, Limits). -/
theorem infer_sound {G fuel params ret body σ0 r}
    (h : inferFn G fuel params ret body σ0 = .ok r) (hd : r.diags = []) (hin : r.gen.outside = false) (hW : WF σ0)
    {B} (hB : BinderTable B params r.tree) :
    WtF (AgreeIn r.σ) (fun e f res => Constraint.field e f res ∈ r.gen.cs) B G.funs r.tree ∧
    AgreeIn r.σ r.tree.ty ret := by
  unfold inferFn at h
  cases hg : genFn G params ret body σ0 with
  | none => simp [hg] at h
  | some p =>
    obtain ⟨t, s⟩ := p
    simp only [hg] at h
    have hσ : s.σ.rep = σ0.rep ∧ s.σ.val = σ0.val := by
      unfold genFn at hg
      obtain ⟨t1, Γ1, s1, h1, l1⟩ := go_le body (some ret) G (insertParams params (pushScope [[]]))
        { σ := σ0, cs := [], diags := [], recs := [] }
      simp only [h1, Option.some.injEq, Prod.mk.injEq] at hg
      obtain ⟨_, rfl⟩ := hg
      have l2 := l1.trans (le_popScope Γ1 s1)
      exact ⟨l2.rep, l2.val⟩
    obtain ⟨w, _⟩ := ext_of_same hσ.1 hσ.2 hW
    cases hs : solve G.env fuel s.σ s.cs with
    | noFuel => simp [hs] at h
    | noRounds => simp [hs] at h
    | done σ' sd rest =>
      simp only [hs] at h
      injection h with h; subst h
      simp only [List.append_eq_nil_iff, List.map_eq_nil_iff] at hd
      rw [hd.2] at hs
      have hR : ∀ a b, Constraint.eq a b ∈ s.cs → AgreeIn σ' a b := by
        intro a b hm
        obtain ⟨x, y, ⟨f1, hx⟩, ⟨g1, hy⟩, ha⟩ := solve_eq_sound w hs a b hm
        exact Or.inr ⟨f1, g1, x, y, hx, hy, ha⟩
      have hj := genFn_justified hg hd.1 hin hB
      have conv : ∀ o, J B G.funs s.cs o → HoldsF (AgreeIn σ') (fun e f res => Constraint.field e f res ∈ s.cs) B G.funs o := by
        intro o ho
        cases o with
        | rel a b => exact ho.elim Or.inl (hR a b)
        | same a b => exact ho
        | bound x ty => exact ho
        | inst n ty => exact ho
        | projOk a i ty => exact ho
        | fld e f res => exact ho
        | bad => exact ho
      constructor
      · intro o ho
        exact conv o (hj o (List.mem_append_left _ ho))
      · exact (hj (.rel t.ty ret) (List.mem_append_right _ (by simp))).elim Or.inl (hR _ _)

/-- for a body without field accesses this is `Wt` outright -/
theorem infer_sound_nofield {G fuel params ret body σ0 r}
    (h : inferFn G fuel params ret body σ0 = .ok r) (hd : r.diags = []) (hin : r.gen.outside = false) (hW : WF σ0)
    {B} (hB : BinderTable B params r.tree) (nf : ∀ e f res, Obl.fld e f res ∉ obls r.tree) :
    Wt (AgreeIn r.σ) B G.funs r.tree ∧ AgreeIn r.σ r.tree.ty ret := by
  obtain ⟨h1, h2⟩ := infer_sound h hd hin hW hB
  refine ⟨?_, h2⟩
  intro o ho
  have := h1 o ho
  cases o with
  | fld e f res => exact (nf e f res ho).elim
  | rel a b => exact this
  | same a b => exact this
  | bound x ty => exact this
  | inst n ty => exact this
  | projOk a i ty => exact this
  | bad => exact this

/-! ### non-vacuity -/
section Examples

def i32 : Ty := .int 32 true

def exG : GEnv :=
  { funs := [("id", .func [.param "T"] (.param "T")), ("inc", .func [i32] i32),
             ("fst", .func [.tuple [.param "A", .param "B"]] (.param "A"))],
    env := { structs := [], impls := [] } }

/-- `fn g(a: int32) -> int32 { let f = |z| id(z) + 1; f(fst((a, true))) }` : a generic call inside a
closure body, the closure called through a local, a second generic call -/
def exBody : IExpr :=
  .block 0 [
    .letE 1 (.var 10) none
      (.closure 2 [(11, none)] (.bin 3 .add (.call 4 (.name 5 (.defn "id")) [.name 6 (.loc 11)]) (.lit 7 i32))),
    .call 8 (.name 9 (.loc 10)) [.call 12 (.name 13 (.defn "fst")) [.tuple 14 [.name 15 (.loc 0), .lit 16 .bool]]]]

/-- what a run gives: diagnostic classes, number of keys, length of the queue, and the certificate -/
def summary (G : GEnv) (params : List (Nat × Ty)) (ret : Ty) (body : IExpr) : Option (List String × Nat × Nat × Bool) :=
  match inferFn G 40 params ret body Store.empty with
  | .ok r => some (r.diags.map FDiag.name, r.σ.n, r.gen.cs.length,
      justB r.gen.cs (params ++ binders r.tree) G.funs (obls r.tree ++ [.rel r.tree.ty ret]))
  | _ => none

/-- the hypotheses of `infer_sound_partial` are satisfiable on a non-trivial body: no diagnostic, 8 keys
(closure parameter, `T`, the results of the calls, `+`, `A`, `B`), 11 queued constraints, the certificate holds -/
example : summary exG [(0, i32)] i32 exBody = some ([], 8, 11, true) := by decide

/-- the hypothesis `BinderTable` of `infer_sound` is satisfiable for that body: its binder ids are distinct, so looking
a binder up in `params ++ binders tree` returns its own type (checked with the executable type equality) -/
example : (match inferFn exG 40 [(0, i32)] i32 exBody Store.empty with
    | .ok r => ([(0, i32)] ++ binders r.tree).all fun p =>
        match lookupScope p.1 ([(0, i32)] ++ binders r.tree) with
        | some ty => Match.tyEqB ty p.2
        | none => false
    | _ => false) = true := by decide

/-- … and its conclusion is not trivial: the same body at result type `bool` is rejected (by `unify`) -/
example : (summary exG [(0, i32)] .bool exBody).map (·.1) = some ["not-equal", "not-equal"] := by decide

/-- every diagnostic class of generation is produced by an ill-formed body, none is a stuck state -/
example : (summary exG [] .unit (.block 0 [
      .name 1 (.loc 99), .name 2 (.defn "nope"), .name 3 (.builtin "vec_push"), .name 4 (.unres (some "zz")),
      .call 5 (.name 6 (.unres (some "zz"))) [.lit 7 i32], .proj 8 (.tuple 9 [.lit 10 i32]) 5, .proj 11 (.lit 12 i32) 0,
      .call 13 (.name 14 (.defn "nope")) [], .lit 15 .unit])).map (·.1)
    = some ["var-not-found", "fn-not-found", "builtin-as-value", "unresolved-name", "unresolved-callee",
            "tuple-index", "proj-non-tuple", "fn-not-found"] := by decide

/-- `pop_scope` on the base scope (an empty scope stack) -/
example : (go (.block 0 [.lit 1 .unit]) none exG [] { σ := Store.empty, cs := [], diags := [], recs := [] }).map
    (fun r => r.2.2.diags.map IDiag.name) = some ["pop-base"] := by decide

/-- ill-typed bodies end in a diagnostic of `solve` / `unify`: wrong argument type, wrong number of
arguments, branches of different types, a condition that is not `bool`, a call of a non-function -/
example : (summary exG [(0, i32)] i32 (.call 1 (.name 2 (.defn "inc")) [.lit 3 .bool])).map (·.1) = some ["not-equal", "not-equal"] := by decide
example : (summary exG [(0, i32)] i32 (.call 1 (.name 2 (.defn "inc")) [.lit 3 i32, .lit 4 i32])).map (·.1) = some ["func-len"] := by decide
example : (summary exG [(0, i32)] i32 (.ite 1 (.lit 2 .bool) (.lit 3 i32) (.lit 4 .string))).map (·.1) = some ["not-equal"] := by decide
example : (summary exG [(0, i32)] .unit (.block 0 [.letE 1 .wild none (.ite 2 (.lit 3 i32) (.lit 4 i32) (.lit 5 i32)), .lit 6 .unit])).map (·.1)
    = some ["not-equal"] := by decide
example : (summary exG [(0, i32)] i32 (.call 1 (.name 2 (.loc 0)) [.lit 3 i32])).map (·.1) = some ["not-equal"] := by decide

end Examples

end Goml.Infer
