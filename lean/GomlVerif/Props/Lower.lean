import GomlVerif.Model.Lower
import GomlVerif.Model.Resolve
import GomlVerif.Lemmas.LowerStack
import GomlVerif.Lemmas.LowerOk
import GomlVerif.Lemmas.LowerOkFn
import GomlVerif.Lemmas.LowerOkFile
import GomlVerif.Lemmas.LowerFuelFile
import GomlVerif.Lemmas.LowerPrattOps
import GomlVerif.Lemmas.LowerPrattFull
import GomlVerif.Props.C11
/-!
# CST→AST lowering — properties of `Model/Lower.lean`

The model is tied to `crates/ast/src/lower.rs` by `gv lower` / `gomlmodel lower` (`tools/props/lowertie.py`):
the REAL rowan tree of every text is lowered by the model and must give the real `ast::File` dump or the real
diagnostics.  Proof machinery: `Lemmas/LowerBal.lean` (a Hoare logic for the lowering monad),
`Lemmas/LowerStack.lean` (`coreBal`: every function of the mutual block, by induction on the fuel).
-/
namespace Goml.Lower
open Goml.Src

/-- the classification test itself: a bare name (a one-segment path) is called a constructor exactly when
    its spelling is a constructor of the file and no local binder on the stack has that spelling -/
theorem isCtorPath_bare_iff (C locals : List String) (x : String) :
    isCtorPath C locals [x] x = true ↔ x ∈ C ∧ x ∉ locals := by
  simp [isCtorPath, isCtor]

/-- a qualified path (`Color::red`, `Lib::Color::Blue`) never consults the binder stack -/
theorem isCtorPath_qualified (C locals : List String) (a b : String) (rest : List String) (last : String) :
    isCtorPath C locals (a :: b :: rest) last = isCtor C last := by
  simp [isCtorPath]

/-- **The binder stack is balanced.** Whatever the tree, the pending postfix operations, the fuel and the state:
after lowering an expression (`lower_expr_with_args`), a branch / closure body, a struct-literal field, a call
argument, a match arm or a block, `LowerCtx::locals` is exactly what it was before — the names pushed for closure
parameters, pattern variables and `let`s never leak out of their closure, arm or block. -/
theorem lower_binder_stack_balanced (C : List String) (n : Nat) (node : Cst) (s : St) :
    (∀ tr, (lowerExprW C n node tr s).2.locals = s.locals) ∧
    (∀ msg, (lowerBranch C n node msg s).2.locals = s.locals) ∧
    (lowerFieldInit C n node s).2.locals = s.locals ∧
    (lowerArg C n node s).2.locals = s.locals ∧
    (lowerArm C n node s).2.locals = s.locals ∧
    (lowerBlock C n node s).2.locals = s.locals :=
  have h := coreBal C n
  ⟨fun tr => (h.exprW node tr s.locals s rfl).1, fun msg => (h.branch node msg s.locals s rfl).1,
   (h.fieldInit node s.locals s rfl).1, (h.arg node s.locals s rfl).1, (h.arm node s.locals s rfl).1,
   (h.block node s.locals s rfl).1⟩

/-- a statement only ever PUSHES (the names of a `let` pattern): the stack before it is a prefix of the stack
after it; the enclosing `lower_block` truncates (`lower_binder_stack_balanced`) -/
theorem lower_stmt_only_pushes (C : List String) (n : Nat) (st : Cst) (s : St) :
    ∃ ext, (lowerStmt C n st s).2.locals = s.locals ++ ext := by
  obtain ⟨ext, h, _⟩ := (coreBal C n).stmt st s.locals s rfl
  exact ⟨ext, h⟩

/-- types and patterns are lowered without touching the binder stack (`lower_pat` classifies a bare identifier
by the FILE's constructor set alone; `bind_pat` is the caller's business) -/
theorem lower_pat_ty_leave_stack (C : List String) (n : Nat) (node : Cst) (s : St) :
    (lowerPat C n node s).2.locals = s.locals ∧ (lowerTy n node s).2.locals = s.locals :=
  ⟨(bal_lowerPat C n node s.locals s rfl).1, (bal_lowerTy n node s.locals s rfl).1⟩

/-- **Totality, the panic side, function by function** (the whole-file statement with the fuel is `lower_total`). For EVERY tree (any kinds, any children missing or
repeated), any fuel and any state, the lowering model never reaches a Rust panic: the only candidate in
`lower.rs`, `last_ident().expect("paths must contain at least one segment")`, is unreachable because
`lower_path` answers a diagnostic instead of an empty path.  A missing child is a diagnostic or a silent `None`. -/
theorem lower_no_panic (C : List String) (n : Nat) (node : Cst) (s : St) :
    (∀ tr, (lowerExprW C n node tr s).2.stuck = s.stuck) ∧
    (lowerBlock C n node s).2.stuck = s.stuck ∧
    (lowerArm C n node s).2.stuck = s.stuck ∧
    (∃ ext, (lowerStmt C n node s).2.locals = s.locals ++ ext ∧ (lowerStmt C n node s).2.stuck = s.stuck) ∧
    (lowerPat C n node s).2.stuck = s.stuck ∧
    (lowerTy n node s).2.stuck = s.stuck := by
  have h := coreBal C n
  refine ⟨fun tr => (h.exprW node tr s.locals s rfl).2.1, (h.block node s.locals s rfl).2.1,
    (h.arm node s.locals s rfl).2.1, ?_, (bal_lowerPat C n node s.locals s rfl).2.1,
    (bal_lowerTy n node s.locals s rfl).2.1⟩
  obtain ⟨ext, h1, h2, _⟩ := h.stmt node s.locals s rfl
  exact ⟨ext, h1, h2⟩

end Goml.Lower

namespace Goml.Lower
open Goml.Src

/-- `patVars` (the model of `LowerCtx::bind_pat`) pushes exactly the names the C05 specification puts in scope for
a pattern (`Resolve.patNames` of its scope-tree image) -/
theorem patVars_scope (p : Pat) : Resolve.patNames (scopePat p) = patVars p := patNames_scopePat p

/-- **`lower_ctor_iff`.** For EVERY tree, fuel and state: if lowering an expression (with no pending postfix
operations) from the binder stack `Γ = s.locals` yields `e`, then `e` is classified exactly as the DECLARATIVE scope
rules of `Model/Resolve.lean` say, with `Γ` as the enclosing local binders and the scope extended only downwards
(`Γ ++ params` in a closure body, `Γ ++ patNames p` in an arm body and in the rest of a block after `let p`):
* every `EConstr [x] args` (scope tree: `con x`) has `x ∈ C` (a constructor of the file) and no enclosing local binder
  spelled `x`;
* vice versa every classified one-segment `EPath [x]` (scope tree: `var x`; also as the callee of a call) is NOT such
  a name: `x ∉ C` or a local binder `x` encloses it (`classOkExpr`, both directions in one Boolean);
* hence `Resolve.conOkExpr` — the hypothesis of `resolve_refines_spec` (Props/C05.lean) — holds of the lowered AST:
  it is a theorem about the lowering model, no longer a per-case check.
The invariant behind it (`Lemmas/LowerOk.lean`, `coreOk`): at every node the stack IS the list of binders the C05
specification has in scope there (`lower_binder_stack_balanced` + `patVars_scope` + `isCtorPath_bare_iff`). -/
theorem lower_ctor_iff (C D : List String) (n : Nat) (node : Cst) (s : St) (e : Expr)
    (h : (lowerExprW C n node [] s).1 = some e) :
    classOkExpr C s.locals (scopeOf e) = true ∧ Resolve.conOkExpr ⟨C, D⟩ s.locals (scopeOf e) = true := by
  have hk := ((coreOk C n).exprW node [] s.locals nil_okT s rfl).2.2 e h
  exact ⟨hk.1, conOk_expr D _ _ hk.1⟩

/-- the same for a block (a function body, a branch, a closure or arm body that is a block) and for a match arm -/
theorem lower_ctor_iff_block (C D : List String) (n : Nat) (node : Cst) (s : St) (e : Expr)
    (h : (lowerBlock C n node s).1 = some e) :
    classOkExpr C s.locals (scopeOf e) = true ∧ Resolve.conOkExpr ⟨C, D⟩ s.locals (scopeOf e) = true := by
  have hk := ((coreOk C n).block node s.locals s rfl).2.2 e h
  exact ⟨hk.1, conOk_expr D _ _ hk.1⟩

theorem lower_ctor_iff_arm (C D : List String) (n : Nat) (node : Cst) (s : St) (p : Pat) (b : Expr)
    (h : (lowerArm C n node s).1 = some (.mk p b)) :
    classOkExpr C (s.locals ++ patVars p) (scopeOf b) = true ∧
      Resolve.conOkExpr ⟨C, D⟩ (s.locals ++ Resolve.patNames (scopePat p)) (scopeOf b) = true := by
  have hk : OkArm C s.locals (.mk p b) := ((coreOk C n).arm node s.locals s rfl).2.2 _ h
  rw [patNames_scopePat]
  exact ⟨hk.1, conOk_expr D _ _ hk.1⟩

/-- … and for a whole function (`lower_fn`, also the methods of an `impl`): lowered at top level (empty stack), its body
is classified under exactly its parameter names — the scope `Resolve.specFn` / `resolveFn` start from. So `conOkExpr`,
the hypothesis of `resolve_refines_spec` / `resolveFn_refines_spec`, holds of every function the lowering model produces. -/
theorem lower_ctor_iff_fn (C D : List String) (n : Nat) (node : Cst) (s : St) (f : FnDef)
    (hs : s.locals = []) (h : (lowerFn C n node s).1 = some f) :
    classOkExpr C (f.params.map (·.1)) (scopeOf f.body) = true ∧
      Resolve.conOkExpr ⟨C, D⟩ (f.params.map (·.1)) (scopeOf f.body) = true ∧
      (lowerFn C n node s).2.locals = [] := by
  have hb := ok_lowerFn (C := C) n node [] s hs
  have hk := hb.2.2 f h
  simp only [List.nil_append] at hk
  exact ⟨hk.1, conOk_expr D _ _ hk.1, hb.1⟩

/-- **`lower_fuel_suffices`.** The fuel `lowerFile` hands out (`2·size + 10`) is never exhausted: every recursive call of
every function of the model goes to a strict sub-tree with one unit less (`Lemmas/LowerFuel*.lean`: `child` / `childrenK`
select strictly smaller trees; the statement loop of a block needs one unit per statement). -/
theorem lower_fuel_suffices (file : Cst) : (lowerFile file).st.starved = false := lowerFile_not_starved file

/-- the same for one expression / block with any fuel `≥ 2·size` -/
theorem lower_fuel_suffices_expr (C : List String) (n : Nat) (node : Cst) (tr : List Trailing) (s : St)
    (hn : 2 * node.size ≤ n) (hs : s.starved = false) :
    (lowerExprW C n node tr s).2.starved = false ∧ (lowerBlock C n node s).2.starved = false :=
  ⟨((coreNS C n).exprW node tr hn).run s hs, ((coreNS C n).block node hn).run s hs⟩

/-- **`lower_total`.** For EVERY tree the tree builder can hand to `lower` (any kinds, children missing, repeated or
misplaced): the model finishes within its fuel, never reaches a Rust panic, leaves the binder stack empty, and answers an
`ast::File` exactly when it pushed no diagnostic — a missing child is a diagnostic or a silent `None`, never a panic. -/
theorem lower_total (file : Cst) :
    (lowerFile file).st.starved = false ∧ (lowerFile file).st.stuck = false ∧ (lowerFile file).st.locals = [] ∧
    ((lowerFile file).ast.isSome ↔ (lowerFile file).st.diags = []) := by
  have h := ok_lowerFile file (fuelFor file)
  refine ⟨lowerFile_not_starved file, h.2.1, h.1, ?_⟩
  unfold lowerFile lowerFileWith
  dsimp only
  split <;> simp_all

/-- **`lower_ctor_iff_file`.** Every function body of a lowered file — top-level functions and the methods of every `impl`
block — is classified under exactly its parameter names against the FILE's constructor set: `Resolve.conOkExpr` holds of it.
The hypothesis of `resolve_refines_spec` / `resolveFn_refines_spec` is discharged for whole files. -/
theorem lower_ctor_iff_file (file : Cst) (D : List String) (f : FnDef)
    (hf : Item.fn f ∈ (lowerFile file).built.items ∨
          ∃ d, Item.impl d ∈ (lowerFile file).built.items ∧ f ∈ d.methods) :
    classOkExpr (collectConstructorNames file) (f.params.map (·.1)) (scopeOf f.body) = true ∧
    Resolve.conOkExpr ⟨collectConstructorNames file, D⟩ (f.params.map (·.1)) (scopeOf f.body) = true := by
  have h := (ok_lowerFile file (fuelFor file)).2.2
  have hk : FnOk (collectConstructorNames file) f := by
    rcases hf with hf | ⟨d, hd, hm⟩
    · exact h _ hf
    · exact h _ hd f hm
  exact ⟨hk, conOk_expr D _ _ hk⟩

/-- when lowering succeeds the `ast::File` it answers is the file that was built -/
theorem lower_ast_eq_built (file : Cst) (a : File) (h : (lowerFile file).ast = some a) : a = (lowerFile file).built := by
  unfold lowerFile lowerFileWith at h ⊢
  dsimp only at h ⊢
  split at h
  · cases h; rfl
  · cases h

/-- **`lower_parse_print_ops`** (the first group of `lower_parse_print`; restriction explicit and decidable). On the image
`embed : Pratt.Cst → Cst` of the Pratt model's concrete syntax trees in the rowan-shaped trees of `Model/Lower.lean` — the
lowering model that is tied to `ast::lower` on the REAL rowan tree — restricted to OPERATOR trees (`plain c`: identifiers, integer
literals, parentheses, both prefix operators, the twelve binary operators; no call, no `.`), the real lowering model computes
what `Pratt.lower` computes: if the token list parses to `c` and `Pratt.parse` reads it as `a`, lowering `embed c` yields
`toExpr a` — from ANY state (binder stack, diagnostics) and with fuel `depth c`.  Side condition `fits C a`: no variable of `a`
is spelled like a constructor of the file (it would be an `EConstr`, see `lower_ctor_iff`); tuple indices fit `usize` (vacuous
in this group).  `Lemmas/LowerPratt.lean` has the view lemmas (`view_ident/int/paren/prefix/binary`: what `lowerExprW` does on
each node kind of the image), `Lemmas/LowerPrattOps.lean` the induction (`lower_plain`). -/
theorem lower_parse_print_ops (C : List String) (ts : List Pratt.Tok) (c : Pratt.Cst) (a : Pratt.Ast)
    (hc : Pratt.parseCst ts = some c) (hp : plain c = true) (ha : Pratt.parse ts = some a) (hf : fits C a = true) (s : St) :
    (lowerExprW C (depth c) (embed c) [] s).1 = some (toExpr a) := by
  unfold Pratt.parse at ha
  rw [hc] at ha
  exact lower_plain C c a (depth c) s hp ha hf (Nat.le_refl _)

/-- … hence `parse_print` (Props/C11.lean) holds for the real lowering model on operator trees: printing a well-formed tree `t`
with only the necessary parentheses, parsing (Pratt model) and lowering with `Model/Lower.lean` gives `t` back -/
theorem lower_parse_print_ops_tree (C : List String) (t : Pratt.Ast) (hwf : Pratt.wf t = true) (hf : fits C t = true)
    (c : Pratt.Cst) (hc : Pratt.parseCst (Pratt.printMin t 0) = some c) (hp : plain c = true) (s : St) :
    (lowerExprW C (depth c) (embed c) [] s).1 = some (toExpr t) :=
  lower_parse_print_ops C _ c t hc hp (Goml.Props.C11.parse_print t hwf) hf s

/-- **`lower_parse_print`** — the whole image of `Pratt.Cst`: operators, parentheses, CALLS (identifier callee, postfix callee,
call handed down to the operand of a prefix operator or into parentheses), FIELD access and tuple PROJECTION (applied, or handed
down when the receiver chain starts at a prefix operator), with any pending list.  If the token list parses to `c` and
`Pratt.parse` reads it as `a`, the REAL lowering model `Model/Lower.lean` (tied to `ast::lower` on the real rowan tree) lowers
`embed c` to `toExpr a`, from any state, with fuel `dep c`.  Decidable side condition `okC C c`: no identifier in expression
position is spelled like a constructor of the file (it would be an `EConstr`: `lower_ctor_iff`), and every tuple index fits
`usize` (beyond it the real code reports "Invalid tuple index", see the `example` below).  This is the re-attachment of postfix
chains to the operand of a prefix operator — where two real defects and two seeded changes lived — proved for the lowering model
itself: `Lemmas/LowerPrattPost.lean` (`recvPrefix_embed = Pratt.prefixSpine`, `view_dot`, `view_call`, `postfix_embed`,
`dotAccess_embed`, `parseUsize_digits`), `Lemmas/LowerPrattFull.lean` (`lower_full` / `lower_fullL`, mutual induction). -/
theorem lower_parse_print (C : List String) (ts : List Pratt.Tok) (c : Pratt.Cst) (a : Pratt.Ast)
    (hc : Pratt.parseCst ts = some c) (hok : okC C c = true) (ha : Pratt.parse ts = some a) (s : St) :
    (lowerExprW C (dep c) (embed c) [] s).1 = some (toExpr a) := by
  unfold Pratt.parse at ha
  rw [hc] at ha
  exact lower_full C c [] a (dep c) s hok ha (Nat.le_refl _)

/-- … hence `parse_print` (Props/C11.lean) for the real lowering model, over identifiers and integers with all operators, calls,
fields and projections: print any well-formed tree with minimal parentheses, parse, lower with `Model/Lower.lean` — the tree -/
theorem lower_parse_print_tree (C : List String) (t : Pratt.Ast) (hwf : Pratt.wf t = true)
    (c : Pratt.Cst) (hc : Pratt.parseCst (Pratt.printMin t 0) = some c) (hok : okC C c = true) (s : St) :
    (lowerExprW C (dep c) (embed c) [] s).1 = some (toExpr t) :=
  lower_parse_print C _ c t hc hok (Goml.Props.C11.parse_print t hwf) s

/-- non-vacuity, the planted change of round 11: `- g ( x ) . h . k` arrives as `(((-g)(x)).h).k` and is lowered to
`-(g(x).h.k)` — the call and BOTH field accesses go down to the operand of the prefix operator -/
example : (lowerExprW ["Mk"] 5 (embed (.binary .Dot (.binary .Dot (.call (.prefix .Minus (.ident "g")) [.ident "x"]) (.ident "h")) (.ident "k"))) [] {}).1
    = some (.un .neg (.field (.field (.call (.path ["g"]) [.path ["x"]]) "h") "k")) :=
  lower_full ["Mk"] _ [] (.un .neg (.field (.field (.call (.var "g") [.var "x"]) "h") "k")) 5 {} (by decide) (by rfl) (by decide)

/-- beyond `usize` the real code (`text.parse::<usize>()` in the `.` case) reports "Invalid tuple index"; `Pratt.digitsNat`
has no such bound — which is why `fits` asks for indices below `2^64` -/
example : parseUsize "18446744073709551615" = some (2 ^ 64 - 1) ∧ parseUsize "18446744073709551616" = none ∧
    Pratt.digitsNat "18446744073709551616".toList = some (2 ^ 64) := by decide

/-- non-vacuity: `- a * ( b + 1 )` -/
example : (lowerExprW ["Mk"] 4 (embed (.binary .Star (.prefix .Minus (.ident "a")) (.paren (.binary .Plus (.ident "b") (.int ['1']))))) [] {}).1
    = some (.bin .mul (.un .neg (.path ["a"])) (.bin .add (.path ["b"]) (.lit (.int none "1")))) :=
  lower_plain ["Mk"] _ (.bin .mul (.un .neg (.var "a")) (.bin .add (.var "b") (.lit ['1']))) 4 {} (by decide) (by rfl) (by decide) (by decide)

/-! ## non-vacuity: concrete trees -/

def tk (k t : String) : Cst := .tok k t none
def identE (x : String) : Cst := .node "EXPR_IDENT" [.node "PATH" [tk "Ident" x]]
def callE (f : Cst) (args : List Cst) : Cst :=
  .node "EXPR_CALL" [f, .node "ARG_LIST" (tk "LParen" "(" :: args.map (fun a => .node "ARG" [a]) ++ [tk "RParen" ")"])]
/-- `|Mk| Mk(y)` -/
def closureMk : Cst :=
  .node "EXPR_CLOSURE" [.node "CLOSURE_PARAM_LIST" [tk "Pipe" "|", .node "CLOSURE_PARAM" [tk "Ident" "Mk"], tk "Pipe" "|"],
    .node "EXPR_CLOSURE_BODY" [callE (identE "Mk") [identE "y"]]]
/-- `y => |Mk| Mk(y)` followed, in the same `match`, by `z => Mk(z)` -/
def armsMk : Cst :=
  .node "MATCH_ARM_LIST" [
    .node "MATCH_ARM" [.node "PATTERN_VARIABLE" [tk "Ident" "y"], tk "FatArrow" "=>", closureMk],
    .node "MATCH_ARM" [.node "PATTERN_VARIABLE" [tk "Ident" "z"], tk "FatArrow" "=>", callE (identE "Mk") [identE "z"]]]
def matchMk : Cst := .node "EXPR_MATCH" [tk "MatchKeyword" "match", identE "x", armsMk]

def isClosureCallingParam : Expr → Bool
  | .matchE (.path ["x"]) [.mk (.var "y") (.closure [("Mk", none)] (.call (.path ["Mk"]) [.path ["y"]])),
                            .mk (.var "z") (.constr ["Mk"] [.path ["z"]])] => true
  | _ => false

/-- a closure parameter spelled like a variant, used in call position inside a match arm, is a CALL of the
    parameter; in the next arm (the parameter is out of scope again) the same spelling is the constructor -/
example : ((lowerExprW ["Mk"] 20 matchMk [] {}).1.map isClosureCallingParam) = some true := by decide

/-- `P { x, y: Mk, z: w }` with `Mk` a constructor of the file: shorthand field = binder, renamed field with a
    constructor spelling = nullary constructor pattern, renamed field otherwise = binder -/
def structPat : Cst :=
  .node "PATTERN_CONSTR" [.node "PATH" [tk "Ident" "P"], .node "STRUCT_PATTERN_FIELD_LIST" [tk "LBrace" "{",
    .node "STRUCT_PATTERN_FIELD" [tk "Ident" "x"], tk "Comma" ",",
    .node "STRUCT_PATTERN_FIELD" [tk "Ident" "y", tk "Colon" ":", .node "PATTERN_VARIABLE" [tk "Ident" "Mk"]], tk "Comma" ",",
    .node "STRUCT_PATTERN_FIELD" [tk "Ident" "z", tk "Colon" ":", .node "PATTERN_VARIABLE" [tk "Ident" "w"]], tk "RBrace" "}"]]

example : ((lowerPat ["Mk", "P"] 5 structPat {}).1.map patVars) = some ["x", "w"] := by decide

end Goml.Lower
