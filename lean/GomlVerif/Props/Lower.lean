import GomlVerif.Model.Lower
import GomlVerif.Model.Resolve
import GomlVerif.Lemmas.LowerStack
/-!
# CST→AST lowering — properties of `Model/Lower.lean`

The model is tied to `crates/ast/src/lower.rs` by `gv lower` / `gomlmodel lower` (`tools/props/lowertie.py`):
the REAL rowan tree of every text is lowered by the model and must give the real `ast::File` dump or the real
diagnostics.  Proof machinery: `Lemmas/LowerBal.lean` (a Hoare logic for the lowering monad),
`Lemmas/LowerStack.lean` (`coreBal`: every function of the mutual block, by induction on the fuel).
-/
namespace Goml.Lower
open Goml.Src

/-- the classification test itself: a bare name (a one-segment path) is called a constructor exactly when
    its spelling is a constructor of the file and no local binder on the stack has that spelling -/
theorem isCtorPath_bare_iff (C locals : List String) (x : String) :
    isCtorPath C locals [x] x = true ↔ x ∈ C ∧ x ∉ locals := by
  simp [isCtorPath, isCtor]

/-- a qualified path (`Color::red`, `Lib::Color::Blue`) never consults the binder stack -/
theorem isCtorPath_qualified (C locals : List String) (a b : String) (rest : List String) (last : String) :
    isCtorPath C locals (a :: b :: rest) last = isCtor C last := by
  simp [isCtorPath]

/-- **The binder stack is balanced.** Whatever the tree, the pending postfix operations, the fuel and the state:
after lowering an expression (`lower_expr_with_args`), a branch / closure body, a struct-literal field, a call
argument, a match arm or a block, `LowerCtx::locals` is exactly what it was before — the names pushed for closure
parameters, pattern variables and `let`s never leak out of their closure, arm or block. -/
theorem lower_binder_stack_balanced (C : List String) (n : Nat) (node : Cst) (s : St) :
    (∀ tr, (lowerExprW C n node tr s).2.locals = s.locals) ∧
    (∀ msg, (lowerBranch C n node msg s).2.locals = s.locals) ∧
    (lowerFieldInit C n node s).2.locals = s.locals ∧
    (lowerArg C n node s).2.locals = s.locals ∧
    (lowerArm C n node s).2.locals = s.locals ∧
    (lowerBlock C n node s).2.locals = s.locals :=
  have h := coreBal C n
  ⟨fun tr => (h.exprW node tr s.locals s rfl).1, fun msg => (h.branch node msg s.locals s rfl).1,
   (h.fieldInit node s.locals s rfl).1, (h.arg node s.locals s rfl).1, (h.arm node s.locals s rfl).1,
   (h.block node s.locals s rfl).1⟩

/-- a statement only ever PUSHES (the names of a `let` pattern): the stack before it is a prefix of the stack
after it; the enclosing `lower_block` truncates (`lower_binder_stack_balanced`) -/
theorem lower_stmt_only_pushes (C : List String) (n : Nat) (st : Cst) (s : St) :
    ∃ ext, (lowerStmt C n st s).2.locals = s.locals ++ ext := by
  obtain ⟨ext, h, _⟩ := (coreBal C n).stmt st s.locals s rfl
  exact ⟨ext, h⟩

/-- types and patterns are lowered without touching the binder stack (`lower_pat` classifies a bare identifier
by the FILE's constructor set alone; `bind_pat` is the caller's business) -/
theorem lower_pat_ty_leave_stack (C : List String) (n : Nat) (node : Cst) (s : St) :
    (lowerPat C n node s).2.locals = s.locals ∧ (lowerTy n node s).2.locals = s.locals :=
  ⟨(bal_lowerPat C n node s.locals s rfl).1, (bal_lowerTy n node s.locals s rfl).1⟩

/-- **Totality, the panic side** (`_partial`: what is missing is the proof that `fuelFor` always suffices — the
driver reports `starved` and the tie has never seen it). For EVERY tree (any kinds, any children missing or
repeated), any fuel and any state, the lowering model never reaches a Rust panic: the only candidate in
`lower.rs`, `last_ident().expect("paths must contain at least one segment")`, is unreachable because
`lower_path` answers a diagnostic instead of an empty path.  A missing child is a diagnostic or a silent `None`. -/
theorem lower_total_partial (C : List String) (n : Nat) (node : Cst) (s : St) :
    (∀ tr, (lowerExprW C n node tr s).2.stuck = s.stuck) ∧
    (lowerBlock C n node s).2.stuck = s.stuck ∧
    (lowerArm C n node s).2.stuck = s.stuck ∧
    (∃ ext, (lowerStmt C n node s).2.locals = s.locals ++ ext ∧ (lowerStmt C n node s).2.stuck = s.stuck) ∧
    (lowerPat C n node s).2.stuck = s.stuck ∧
    (lowerTy n node s).2.stuck = s.stuck := by
  have h := coreBal C n
  refine ⟨fun tr => (h.exprW node tr s.locals s rfl).2.1, (h.block node s.locals s rfl).2.1,
    (h.arm node s.locals s rfl).2.1, ?_, (bal_lowerPat C n node s.locals s rfl).2.1,
    (bal_lowerTy n node s.locals s rfl).2.1⟩
  obtain ⟨ext, h1, h2, _⟩ := h.stmt node s.locals s rfl
  exact ⟨ext, h1, h2⟩

/-- `patVars` (the model of `LowerCtx::bind_pat`) pushes exactly the names the C05 specification puts in scope for
a pattern: a variable binds its name, every other form binds what its sub-patterns bind, left to right -/
def scopePat : Pat → Resolve.Pat
  | .var x => .var x 0
  | .wild => .other []
  | .lit _ => .other []
  | .constr _ args => .other (scopePats args)
  | .struct _ fields => .other (scopeFields fields)
  | .tuple ps => .other (scopePats ps)
where
  scopePats : List Pat → List Resolve.Pat
    | [] => []
    | p :: ps => scopePat p :: scopePats ps
  scopeFields : List FieldPat → List Resolve.Pat
    | [] => []
    | .mk _ p :: fs => scopePat p :: scopeFields fs

end Goml.Lower

namespace Goml.Lower
open Goml.Src

mutual
theorem patVars_scope : ∀ p : Pat, Resolve.patNames (scopePat p) = patVars p
  | .var x => by simp [scopePat, Resolve.patNames, patVars]
  | .wild => by simp [scopePat, Resolve.patNames, Resolve.patsNames, patVars]
  | .lit _ => by simp [scopePat, Resolve.patNames, Resolve.patsNames, patVars]
  | .constr _ args => by simp [scopePat, Resolve.patNames, patVars, patVarsList_scope args]
  | .struct _ fields => by simp [scopePat, Resolve.patNames, patVars, patVarsFields_scope fields]
  | .tuple ps => by simp [scopePat, Resolve.patNames, patVars, patVarsList_scope ps]
theorem patVarsList_scope : ∀ ps : List Pat, Resolve.patsNames (scopePat.scopePats ps) = patVarsList ps
  | [] => by simp [scopePat.scopePats, Resolve.patsNames, patVarsList]
  | p :: ps => by simp [scopePat.scopePats, Resolve.patsNames, patVarsList, patVars_scope p, patVarsList_scope ps]
theorem patVarsFields_scope : ∀ fs : List FieldPat, Resolve.patsNames (scopePat.scopeFields fs) = patVarsFields fs
  | [] => by simp [scopePat.scopeFields, Resolve.patsNames, patVarsFields]
  | .mk _ p :: fs => by simp [scopePat.scopeFields, Resolve.patsNames, patVarsFields, patVars_scope p, patVarsFields_scope fs]
end

/-! ## non-vacuity: concrete trees -/

def tk (k t : String) : Cst := .tok k t none
def identE (x : String) : Cst := .node "EXPR_IDENT" [.node "PATH" [tk "Ident" x]]
def callE (f : Cst) (args : List Cst) : Cst :=
  .node "EXPR_CALL" [f, .node "ARG_LIST" (tk "LParen" "(" :: args.map (fun a => .node "ARG" [a]) ++ [tk "RParen" ")"])]
/-- `|Mk| Mk(y)` -/
def closureMk : Cst :=
  .node "EXPR_CLOSURE" [.node "CLOSURE_PARAM_LIST" [tk "Pipe" "|", .node "CLOSURE_PARAM" [tk "Ident" "Mk"], tk "Pipe" "|"],
    .node "EXPR_CLOSURE_BODY" [callE (identE "Mk") [identE "y"]]]
/-- `y => |Mk| Mk(y)` followed, in the same `match`, by `z => Mk(z)` -/
def armsMk : Cst :=
  .node "MATCH_ARM_LIST" [
    .node "MATCH_ARM" [.node "PATTERN_VARIABLE" [tk "Ident" "y"], tk "FatArrow" "=>", closureMk],
    .node "MATCH_ARM" [.node "PATTERN_VARIABLE" [tk "Ident" "z"], tk "FatArrow" "=>", callE (identE "Mk") [identE "z"]]]
def matchMk : Cst := .node "EXPR_MATCH" [tk "MatchKeyword" "match", identE "x", armsMk]

def isClosureCallingParam : Expr → Bool
  | .matchE (.path ["x"]) [.mk (.var "y") (.closure [("Mk", none)] (.call (.path ["Mk"]) [.path ["y"]])),
                            .mk (.var "z") (.constr ["Mk"] [.path ["z"]])] => true
  | _ => false

/-- a closure parameter spelled like a variant, used in call position inside a match arm, is a CALL of the
    parameter; in the next arm (the parameter is out of scope again) the same spelling is the constructor -/
example : ((lowerExprW ["Mk"] 20 matchMk [] {}).1.map isClosureCallingParam) = some true := by decide

/-- `P { x, y: Mk, z: w }` with `Mk` a constructor of the file: shorthand field = binder, renamed field with a
    constructor spelling = nullary constructor pattern, renamed field otherwise = binder -/
def structPat : Cst :=
  .node "PATTERN_CONSTR" [.node "PATH" [tk "Ident" "P"], .node "STRUCT_PATTERN_FIELD_LIST" [tk "LBrace" "{",
    .node "STRUCT_PATTERN_FIELD" [tk "Ident" "x"], tk "Comma" ",",
    .node "STRUCT_PATTERN_FIELD" [tk "Ident" "y", tk "Colon" ":", .node "PATTERN_VARIABLE" [tk "Ident" "Mk"]], tk "Comma" ",",
    .node "STRUCT_PATTERN_FIELD" [tk "Ident" "z", tk "Colon" ":", .node "PATTERN_VARIABLE" [tk "Ident" "w"]], tk "RBrace" "}"]]

example : ((lowerPat ["Mk", "P"] 5 structPat {}).1.map patVars) = some ["x", "w"] := by decide

end Goml.Lower
