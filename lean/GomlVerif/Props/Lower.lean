import GomlVerif.Model.Lower
import GomlVerif.Model.Resolve
/-!
# CST→AST lowering — properties of `Model/Lower.lean` (tied to `crates/ast/src/lower.rs` by `gv lower` / `gomlmodel lower`)
-/
namespace Goml.Lower
open Goml.Src

/-- the classification test itself: a bare name (a one-segment path) is called a constructor exactly when
    its spelling is a constructor of the file and no local binder on the stack has that spelling -/
theorem isCtorPath_bare_iff (C locals : List String) (x : String) :
    isCtorPath C locals [x] x = true ↔ x ∈ C ∧ x ∉ locals := by
  simp [isCtorPath, isCtor]

/-- a qualified path (`Color::red`, `Lib::Color::Blue`) never consults the binder stack -/
theorem isCtorPath_qualified (C locals : List String) (a b : String) (rest : List String) (last : String) :
    isCtorPath C locals (a :: b :: rest) last = isCtor C last := by
  simp [isCtorPath]

end Goml.Lower
