import GomlVerif.Props.Unify
import GomlVerif.Model.Solve
/-!
Theorems about the model of the constraint loop `Typer::solve` (`Model/Solve.lean`).
-/
namespace Goml.Unify
open Goml

/-- one diagnostic of the model per message of `instantiate_struct_field_ty` / `solve`, in source order
(regenerated from the source on every run) -/
theorem solve_messages_match_source : Gen.solveMessages = SDiag.own.map SDiag.message := by decide

/-! ### `inst_ty` only creates keys -/

mutual
theorem instTy_same : ∀ (σ : Store) sub t, (instTy σ sub t).1.rep = σ.rep ∧ (instTy σ sub t).1.val = σ.val
  | σ, sub, .param n => by
    simp only [instTy]
    cases lookupAssoc n sub <;> simp [Store.fresh]
  | σ, sub, .tuple ts => by
    have := instTyL_same σ sub ts
    simp only [instTy]; exact this
  | σ, sub, .app t args => by
    have h1 := instTy_same σ sub t
    have h2 := instTyL_same (instTy σ sub t).1 (instTy σ sub t).2.1 args
    simp only [instTy]
    exact ⟨h2.1.trans h1.1, h2.2.trans h1.2⟩
  | σ, sub, .array n e => by have := instTy_same σ sub e; simp only [instTy]; exact this
  | σ, sub, .vec e => by have := instTy_same σ sub e; simp only [instTy]; exact this
  | σ, sub, .ref e => by have := instTy_same σ sub e; simp only [instTy]; exact this
  | σ, sub, .func ps r => by
    have h1 := instTyL_same σ sub ps
    have h2 := instTy_same (instTyL σ sub ps).1 (instTyL σ sub ps).2.1 r
    simp only [instTy]
    exact ⟨h2.1.trans h1.1, h2.2.trans h1.2⟩
  | σ, sub, .tvar _ | σ, sub, .unit | σ, sub, .bool | σ, sub, .string | σ, sub, .int _ _ | σ, sub, .float _
  | σ, sub, .enum _ | σ, sub, .struct _ | σ, sub, .dyn _ => by simp [instTy]
theorem instTyL_same : ∀ (σ : Store) sub ts, (instTyL σ sub ts).1.rep = σ.rep ∧ (instTyL σ sub ts).1.val = σ.val
  | σ, sub, [] => by simp [instTyL]
  | σ, sub, t :: ts => by
    have h1 := instTy_same σ sub t
    have h2 := instTyL_same (instTy σ sub t).1 (instTy σ sub t).2.1 ts
    simp only [instTyL]
    exact ⟨h2.1.trans h1.1, h2.2.trans h1.2⟩
end

/-- a store with the same `find` and values is the same store for `norm` -/
theorem ext_of_same {σ σ' : Store} (h1 : σ'.rep = σ.rep) (h2 : σ'.val = σ.val) (hW : WF σ) : WF σ' ∧ Ext σ σ' := by
  have hW' : WF σ' := fun v => by rw [h1]; exact hW v
  refine ⟨hW', 0, fun f u u' h => ⟨u', ?_, ?_⟩⟩
  · rw [normF_congr h1 h2]; exact h
  · rw [normF_congr h1 h2]; exact normF_idem hW f u u' h

/-! ### one pass -/

/-- the potential that bounds the number of passes -/
def potential (s : PassState) : Nat := weightL s.pending + (if s.changed then 1 else 0)

theorem weightL_append (xs ys : List Constraint) : weightL (xs ++ ys) = weightL xs + weightL ys := by
  simp [weightL, List.map_append, List.sum_append]

theorem stepC_post {E f s c s'} (hW : WF s.σ) (h : stepC E f s c = some s') :
    WF s'.σ ∧ Ext s.σ s'.σ ∧ potential s' ≤ potential s + weight c := by
  cases c with
  | eq l r =>
    simp only [stepC] at h
    cases hu : unifyF f s.σ l r with
    | none => simp [hu] at h
    | some res =>
      obtain ⟨d, σ'⟩ := res
      simp [hu] at h; subst h
      have P := unifyF_post f s.σ l r _ hW hu
      refine ⟨P.wf, P.ext, ?_⟩
      simp only [potential, weight]
      cases s.changed <;> cases d <;> simp
  | ovl op tr t =>
    simp only [stepC] at h
    split at h
    · cases h
    · split at h
      · split at h
        · rename_i scheme _
          simp at h; subst h
          have hs := instTy_same s.σ [] scheme
          obtain ⟨w, e⟩ := ext_of_same hs.1 hs.2 hW
          refine ⟨w, e, ?_⟩
          simp only [potential, weightL_append, weight]
          cases s.changed <;> simp [weightL, weight] <;> omega
        · simp at h; subst h
          exact ⟨hW, Ext.refl hW, by simp only [potential, PassState.diag]; exact Nat.le_add_right _ _⟩
        · simp at h; subst h
          exact ⟨hW, Ext.refl hW, by simp only [potential, PassState.diag]; exact Nat.le_add_right _ _⟩
      · split at h
        · simp at h; subst h
          refine ⟨hW, Ext.refl hW, ?_⟩
          simp only [potential, weightL_append, weight]
          simp [weightL, weight]; omega
        · simp at h; subst h
          exact ⟨hW, Ext.refl hW, by simp only [potential, PassState.diag]; exact Nat.le_add_right _ _⟩
    · simp at h; subst h
      exact ⟨hW, Ext.refl hW, by simp only [potential, PassState.diag]; exact Nat.le_add_right _ _⟩
    · simp at h; subst h
      exact ⟨hW, Ext.refl hW, by simp only [potential, PassState.diag]; exact Nat.le_add_right _ _⟩
  | field e fld res =>
    simp only [stepC] at h
    split at h
    · cases h
    · split at h
      · split at h
        · simp at h; subst h
          exact ⟨hW, Ext.refl hW, by simp only [potential, PassState.diag]; exact Nat.le_add_right _ _⟩
        · split at h
          · simp at h; subst h
            exact ⟨hW, Ext.refl hW, by simp only [potential, PassState.diag]; exact Nat.le_add_right _ _⟩
          · rename_i fty _
            cases hu : unifyF f s.σ res fty with
            | none => simp [hu] at h
            | some r2 =>
              obtain ⟨d, σ'⟩ := r2
              simp [hu] at h; subst h
              have P := unifyF_post f s.σ res fty _ hW hu
              refine ⟨P.wf, P.ext, ?_⟩
              simp only [potential, weight]
              cases s.changed <;> cases d <;> simp
      · simp at h; subst h
        refine ⟨hW, Ext.refl hW, ?_⟩
        simp only [potential, weightL_append, weight]
        simp [weightL, weight]; omega

theorem passC_post {E f} : ∀ cs s s', WF s.σ → passC E f s cs = some s' →
    WF s'.σ ∧ Ext s.σ s'.σ ∧ potential s' ≤ potential s + weightL cs
  | [], s, s', hW, h => by
    simp [passC] at h; subst h
    exact ⟨hW, Ext.refl hW, by simp [weightL]⟩
  | c :: cs, s, s', hW, h => by
    simp only [passC] at h
    cases h1 : stepC E f s c with
    | none => simp [h1] at h
    | some s1 =>
      simp [h1] at h
      obtain ⟨w1, e1, p1⟩ := stepC_post hW h1
      obtain ⟨w2, e2, p2⟩ := passC_post cs s1 s' w1 h
      refine ⟨w2, e1.trans e2, ?_⟩
      simp only [weightL, List.map_cons, List.sum_cons] at p2 ⊢
      omega

/-! ### the loop -/

/-- **The `while changed` loop of `solve` ends**: with more rounds than the weight of the queue
(an equality or field constraint weighs 1, an overloaded-call constraint 2) the loop never runs out
of rounds — every pass that reports progress strictly decreases the weight of what it re-queues. -/
theorem solveLoop_rounds {E f} : ∀ R σ ds cs, weightL cs < R → solveLoop E f R σ ds cs ≠ .noRounds
  | 0, _, _, _, h => by omega
  | R+1, σ, ds, cs, h => by
    simp only [solveLoop]
    cases hp : passC E f { σ := σ, diags := ds, pending := [], changed := false } cs with
    | none => simp
    | some s =>
      simp only
      split
      · rename_i hc
        -- progress: the re-queued constraints weigh less
        apply solveLoop_rounds R
        have := potential_le hp
        simp [potential, hc] at this
        omega
      · split <;> simp
where
  potential_le {E f σ ds cs s} (hp : passC E f { σ := σ, diags := ds, pending := [], changed := false } cs = some s) :
      potential s ≤ weightL cs := by
    -- the potential bound does not need well-formedness: re-prove it without the store part
    have : ∀ cs s0 s', passC E f s0 cs = some s' → potential s' ≤ potential s0 + weightL cs := by
      intro cs
      induction cs with
      | nil => intro s0 s' h; simp [passC] at h; subst h; simp [weightL]
      | cons c cs ih =>
        intro s0 s' h
        simp only [passC] at h
        cases h1 : stepC E f s0 c with
        | none => simp [h1] at h
        | some s1 =>
          simp [h1] at h
          have p1 := stepC_potential h1
          have p2 := ih s1 s' h
          simp only [weightL, List.map_cons, List.sum_cons] at p2 ⊢
          omega
    have := this cs _ s hp
    simpa [potential, weightL] using this
  stepC_potential {E f s c s'} (h : stepC E f s c = some s') : potential s' ≤ potential s + weight c := by
    cases c with
    | eq l r =>
      simp only [stepC] at h
      cases hu : unifyF f s.σ l r with
      | none => simp [hu] at h
      | some res =>
        obtain ⟨d, σ'⟩ := res
        simp [hu] at h; subst h
        simp only [potential, weight]
        cases s.changed <;> cases d <;> simp
    | ovl op tr t =>
      simp only [stepC] at h
      split at h
      · cases h
      · split at h
        · split at h
          · simp at h; subst h
            simp only [potential, weightL_append, weight]
            cases s.changed <;> simp [weightL, weight] <;> omega
          · simp at h; subst h; simp only [potential, PassState.diag]; exact Nat.le_add_right _ _
          · simp at h; subst h; simp only [potential, PassState.diag]; exact Nat.le_add_right _ _
        · split at h
          · simp at h; subst h
            simp only [potential, weightL_append, weight]
            simp [weightL, weight]; omega
          · simp at h; subst h; simp only [potential, PassState.diag]; exact Nat.le_add_right _ _
      · simp at h; subst h; simp only [potential, PassState.diag]; exact Nat.le_add_right _ _
      · simp at h; subst h; simp only [potential, PassState.diag]; exact Nat.le_add_right _ _
    | field e fld res =>
      simp only [stepC] at h
      split at h
      · cases h
      · split at h
        · split at h
          · simp at h; subst h; simp only [potential, PassState.diag]; exact Nat.le_add_right _ _
          · split at h
            · simp at h; subst h; simp only [potential, PassState.diag]; exact Nat.le_add_right _ _
            · rename_i fty _
              cases hu : unifyF f s.σ res fty with
              | none => simp [hu] at h
              | some r2 =>
                obtain ⟨d, σ'⟩ := r2
                simp [hu] at h; subst h
                simp only [potential, weight]
                cases s.changed <;> cases d <;> simp
        · simp at h; subst h
          simp only [potential, weightL_append, weight]
          simp [weightL, weight]; omega

/-- `solve` (which gives the loop `weight + 1` rounds) never stops for lack of rounds -/
theorem solve_terminates (E f σ cs) : solve E f σ cs ≠ .noRounds :=
  solveLoop_rounds _ _ _ _ (Nat.lt_succ_self _)

theorem solveLoop_post {E f} : ∀ R σ ds cs σ' ds' rest, WF σ → solveLoop E f R σ ds cs = .done σ' ds' rest →
    WF σ' ∧ Ext σ σ'
  | 0, _, _, _, _, _, _, _, h => by simp [solveLoop] at h
  | R+1, σ, ds, cs, σ', ds', rest, hW, h => by
    simp only [solveLoop] at h
    cases hp : passC E f { σ := σ, diags := ds, pending := [], changed := false } cs with
    | none => simp [hp] at h
    | some s =>
      obtain ⟨w, e, _⟩ := passC_post cs _ s hW hp
      simp only [hp] at h
      split at h
      · obtain ⟨w2, e2⟩ := solveLoop_post R _ _ _ _ _ _ w h
        exact ⟨w2, e.trans e2⟩
      · split at h
        · cases h; exact ⟨w, e⟩
        · cases h; exact ⟨w, e⟩

/-- **`solve` keeps the store acyclic and only refines it** — whatever mixture of equality,
overloaded-call and field constraints is queued, whatever the environment says, and whether or not
diagnostics are pushed.  (So the types the later phases normalise — also of rejected programs — have
finite normal forms: `norm_total`.) -/
theorem solve_acyclic {E f σ cs σ' ds rest} (hW : WF σ) (hA : Acyclic σ) (h : solve E f σ cs = .done σ' ds rest) :
    Acyclic σ' ∧ WF σ' ∧ ∀ t t', NF σ t t' → ∃ y, NF σ' t y ∧ NF σ' t' y := by
  obtain ⟨w, e⟩ := solveLoop_post _ _ _ _ _ _ _ hW h
  refine ⟨hA.of_ext e, w, fun t t' ⟨_, ht⟩ => ?_⟩
  obtain ⟨K, H⟩ := e
  obtain ⟨y, h1, h2⟩ := H _ _ _ ht
  exact ⟨y, ⟨_, h1⟩, ⟨_, h2⟩⟩


/-! ### what a run without diagnostics guarantees -/

theorem addDiag_prefix (ds : List SDiag) (d : Option Diag) : ∃ more, addDiag ds d = ds ++ more := by
  cases d with
  | none => exact ⟨[], by simp [addDiag]⟩
  | some d => exact ⟨[.unify d], rfl⟩

/-- diagnostics are only ever appended -/
theorem stepC_diags {E f s c s'} (h : stepC E f s c = some s') : ∃ more, s'.diags = s.diags ++ more := by
  cases c with
  | eq l r =>
    simp only [stepC] at h
    cases hu : unifyF f s.σ l r with
    | none => simp [hu] at h
    | some res => obtain ⟨d, σ'⟩ := res; simp [hu] at h; subst h; exact addDiag_prefix _ _
  | ovl op tr t =>
    simp only [stepC] at h
    split at h
    · cases h
    · split at h
      · split at h
        · simp at h; subst h; exact ⟨[], by simp⟩
        · simp at h; subst h; exact ⟨_, rfl⟩
        · simp at h; subst h; exact ⟨_, rfl⟩
      · split at h
        · simp at h; subst h; exact ⟨[], by simp⟩
        · simp at h; subst h; exact ⟨_, rfl⟩
    · simp at h; subst h; exact ⟨_, rfl⟩
    · simp at h; subst h; exact ⟨_, rfl⟩
  | field e fld res =>
    simp only [stepC] at h
    split at h
    · cases h
    · split at h
      · split at h
        · simp at h; subst h; exact ⟨_, rfl⟩
        · split at h
          · simp at h; subst h; exact ⟨_, rfl⟩
          · rename_i fty _
            cases hu : unifyF f s.σ res fty with
            | none => simp [hu] at h
            | some r2 => obtain ⟨d, σ'⟩ := r2; simp [hu] at h; subst h; exact addDiag_prefix _ _
      · simp at h; subst h; exact ⟨[], by simp⟩

theorem passC_diags {E f} : ∀ cs s s', passC E f s cs = some s' → ∃ more, s'.diags = s.diags ++ more
  | [], s, s', h => by simp [passC] at h; subst h; exact ⟨[], by simp⟩
  | c :: cs, s, s', h => by
    simp only [passC] at h
    cases h1 : stepC E f s c with
    | none => simp [h1] at h
    | some s1 =>
      simp [h1] at h
      obtain ⟨m1, e1⟩ := stepC_diags h1
      obtain ⟨m2, e2⟩ := passC_diags cs s1 s' h
      exact ⟨m1 ++ m2, by rw [e2, e1, List.append_assoc]⟩

theorem solveLoop_diags {E f} : ∀ R σ ds cs σ' ds' rest, solveLoop E f R σ ds cs = .done σ' ds' rest →
    ∃ more, ds' = ds ++ more
  | 0, _, _, _, _, _, _, h => by simp [solveLoop] at h
  | R+1, σ, ds, cs, σ', ds', rest, h => by
    simp only [solveLoop] at h
    cases hp : passC E f { σ := σ, diags := ds, pending := [], changed := false } cs with
    | none => simp [hp] at h
    | some s =>
      obtain ⟨m1, e1⟩ := passC_diags cs _ s hp
      simp only [hp] at h
      split at h
      · obtain ⟨m2, e2⟩ := solveLoop_diags R _ _ _ _ _ _ h
        exact ⟨m1 ++ m2, by rw [e2, e1, List.append_assoc]⟩
      · split at h
        · cases h; exact ⟨m1, e1⟩
        · cases h; exact ⟨m1 ++ [.unsolved, .inferenceFailed], by rw [e1, List.append_assoc]⟩

/-- in a pass that ends without diagnostics every equality constraint of the queue holds afterwards -/
theorem passC_eqs {E f} : ∀ cs s s', WF s.σ → passC E f s cs = some s' → s'.diags = [] →
    ∀ l r, Constraint.eq l r ∈ cs → Eqv s'.σ l r
  | [], _, _, _, _, _, _, _, hm => by cases hm
  | c :: cs, s, s', hW, h, hd, l, r, hm => by
    simp only [passC] at h
    cases h1 : stepC E f s c with
    | none => simp [h1] at h
    | some s1 =>
      simp [h1] at h
      obtain ⟨w1, _, _⟩ := stepC_post hW h1
      obtain ⟨m2, e2⟩ := passC_diags cs s1 s' h
      have hd1 : s1.diags = [] := by
        rw [hd] at e2; exact (List.append_eq_nil_iff.1 e2.symm).1
      rcases List.mem_cons.1 hm with hc | hm
      · subst hc
        simp only [stepC] at h1
        cases hu : unifyF f s.σ l r with
        | none => simp [hu] at h1
        | some res =>
          obtain ⟨d, σ1⟩ := res
          simp [hu] at h1; subst h1
          have P := unifyF_post f s.σ l r _ hW hu
          have hdn : d = none := by
            cases d with
            | none => rfl
            | some d => simp [addDiag] at hd1
          obtain ⟨_, e, _⟩ := passC_post cs _ s' w1 h
          exact (P.eqv hdn).transport e
      · exact passC_eqs cs s1 s' w1 h hd l r hm

/-- **If `solve` returns without a diagnostic, every equality constraint that was queued holds in the
final store** (the two sides have agreeing normal forms).  The constraints `solve` generates itself
(the instantiated impl type of a resolved overloaded call) are equality constraints of a later pass
and hold for the same reason. -/
theorem solve_eq_sound {E f σ cs σ' rest} (hW : WF σ) (h : solve E f σ cs = .done σ' [] rest) :
    ∀ l r, Constraint.eq l r ∈ cs → ∃ x y, NF σ' l x ∧ NF σ' r y ∧ agree x y = true := by
  intro l r hm
  unfold solve at h
  simp only [solveLoop] at h
  cases hp : passC E f { σ := σ, diags := [], pending := [], changed := false } cs with
  | none => simp [hp] at h
  | some s =>
    obtain ⟨w, _, _⟩ := passC_post cs _ s hW hp
    simp only [hp] at h
    have fin : s.diags = [] ∧ Ext s.σ σ' := by
      split at h
      · obtain ⟨m, e⟩ := solveLoop_diags _ _ _ _ _ _ _ h
        exact ⟨(List.append_eq_nil_iff.1 e.symm).1, (solveLoop_post _ _ _ _ _ _ _ w h).2⟩
      · split at h
        · injection h with h1 h2 h3; subst h1; exact ⟨h2, Ext.refl w⟩
        · injection h with h1 h2 h3
          exact absurd h2 (by simp)
    obtain ⟨f1, g1, x, y, hx, hy, ha⟩ := (passC_eqs cs _ s hW hp fin.1 l r hm).transport fin.2
    exact ⟨x, y, ⟨f1, hx⟩, ⟨g1, hy⟩, ha⟩

/-! ### non-vacuity -/
section Examples

def envX : Env :=
  { structs := [{ name := "Bx", generics := ["T"], fields := [("v", .param "T"), ("n", .int 32 true)] }],
    impls := [("Show", .int 32 true, "show", .func [.int 32 true] .string),
              ("Gen", .string, "pick", .func [.string, .param "T"] (.tuple [.param "T", .param "U"]))] }

def diagsOf : SolveRes → Option (List String × Nat)
  | .done σ ds rest => some (ds.map SDiag.name, rest.length + 100 * σ.n)
  | _ => none

/-- three passes: the overloaded call on `?1` is deferred until the field constraint AFTER it in the
queue has given `?1 := int32`; its impl is then instantiated and the generated equation binds `?2` -/
example : diagsOf (solve envX 9 s3
    [.ovl "show" "Show" (.func [.tvar 1] (.tvar 2)), .field (.app (.struct "Bx") [.int 32 true]) "v" (.tvar 1)])
    = some ([], 300) := by decide

/-- `inst_ty` creates two keys for `T`, `U`; nothing unblocks the second constraint: both final diagnostics -/
example : diagsOf (solve envX 9 s3
    [.ovl "pick" "Gen" (.func [.string, .bool] (.tvar 0)), .ovl "show" "Show" (.func [.tvar 1] .string)])
    = some (["unsolved", "inference-failed"], 501) := by decide

/-- the diagnostics of the field arm -/
example : diagsOf (solve envX 9 s3
    [.field (.struct "Nope") "v" (.tvar 0), .field (.struct "Bx") "v" (.tvar 0),
     .field (.app (.struct "Bx") [.bool]) "w" (.tvar 0), .field (.app (.struct "Bx") [.bool]) "n" .bool])
    = some (["struct-not-found", "struct-arity", "no-field", "not-equal"], 300) := by decide

end Examples

end Goml.Unify
