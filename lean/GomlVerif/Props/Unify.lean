import GomlVerif.Model.Unify
import GomlVerif.Gen.UnifyShape
/-!
Theorems about the model of the typer's unifier (`Model/Unify.lean`; Rust: `typer/unify.rs`).
They count under C03 (soundness of the equations the typer solves) and C04 (`norm` cannot loop).
-/
namespace Goml.Unify
open Goml

/-! ### the model was written against the current shape of `unify.rs` (regenerated on every run) -/

/-- the arms of the Rust `match`, in order, are the ones the model mirrors -/
theorem arms_match_source : Gen.unifyArms = armOrder := by decide

/-- one diagnostic class per message of `occurs` / `unify`, in source order -/
theorem diag_messages_match_source : Gen.unifyMessages = Diag.all.map Diag.message := by decide

/-! ### `mapO` -/

theorem mapO_cons_some {α β} {g : α → Option β} {x xs zs} :
    mapO g (x :: xs) = some zs ↔ ∃ y ys, g x = some y ∧ mapO g xs = some ys ∧ zs = y :: ys := by
  simp only [mapO]
  cases hx : g x with
  | none => simp
  | some y =>
    cases hxs : mapO g xs with
    | none => simp
    | some ys => simp [eq_comm]

theorem mapO_nil_some {α β} {g : α → Option β} {zs} : mapO g [] = some zs ↔ zs = [] := by
  simp [mapO, eq_comm]

theorem mapO_length {α β} {g : α → Option β} : ∀ {xs ys}, mapO g xs = some ys → ys.length = xs.length
  | [], ys, h => by simp [mapO_nil_some.1 h]
  | x :: xs, zs, h => by
    obtain ⟨y, ys, _, h2, rfl⟩ := mapO_cons_some.1 h
    simp [mapO_length h2]

/-- pointwise transfer from `g` to `h` -/
theorem mapO_congr {α β} {g h : α → Option β} :
    ∀ {xs ys}, (∀ x y, x ∈ xs → g x = some y → h x = some y) → mapO g xs = some ys → mapO h xs = some ys
  | [], ys, _, e => by simpa [mapO] using e
  | x :: xs, zs, H, e => by
    obtain ⟨y, ys, h1, h2, rfl⟩ := mapO_cons_some.1 e
    exact mapO_cons_some.2 ⟨y, ys, H x y (by simp) h1,
      mapO_congr (fun a b ha => H a b (by simp [ha])) h2, rfl⟩

theorem mapO_rel2 {α} {g h : α → Option α} (H : ∀ x y, g x = some y → ∃ z, h x = some z ∧ h y = some z) :
    ∀ {xs ys}, mapO g xs = some ys → ∃ zs, mapO h xs = some zs ∧ mapO h ys = some zs
  | [], ys, e => by cases mapO_nil_some.1 e; exact ⟨[], rfl, rfl⟩
  | x :: xs, zs, e => by
    obtain ⟨y, ys, h1, h2, rfl⟩ := mapO_cons_some.1 e
    obtain ⟨z, hz1, hz2⟩ := H x y h1
    obtain ⟨zs, hzs1, hzs2⟩ := mapO_rel2 H h2
    exact ⟨z :: zs, mapO_cons_some.2 ⟨z, zs, hz1, hzs1, rfl⟩, mapO_cons_some.2 ⟨z, zs, hz2, hzs2, rfl⟩⟩

theorem mapO_fix {α} {g : α → Option α} (H : ∀ x y, g x = some y → g y = some y) :
    ∀ {xs ys}, mapO g xs = some ys → mapO g ys = some ys
  | [], ys, e => by cases mapO_nil_some.1 e; rfl
  | x :: xs, zs, e => by
    obtain ⟨y, ys, h1, h2, rfl⟩ := mapO_cons_some.1 e
    exact mapO_cons_some.2 ⟨y, ys, H x y h1, mapO_fix H h2, rfl⟩

theorem mapO_mem {α β} {g : α → Option β} :
    ∀ {xs ys y}, mapO g xs = some ys → y ∈ ys → ∃ x, x ∈ xs ∧ g x = some y
  | [], ys, y, e, hy => by cases mapO_nil_some.1 e; cases hy
  | x :: xs, zs, y, e, hy => by
    obtain ⟨y', ys, h1, h2, rfl⟩ := mapO_cons_some.1 e
    rcases List.mem_cons.1 hy with rfl | hy
    · exact ⟨x, by simp, h1⟩
    · obtain ⟨a, ha, hga⟩ := mapO_mem h2 hy
      exact ⟨a, by simp [ha], hga⟩

theorem mapO_fix_mem {α} {g : α → Option α} :
    ∀ {xs x}, mapO g xs = some xs → x ∈ xs → g x = some x
  | [], x, _, hx => by cases hx
  | a :: xs, x, e, hx => by
    obtain ⟨y, ys, h1, h2, h3⟩ := mapO_cons_some.1 e
    cases h3
    rcases List.mem_cons.1 hx with rfl | hx
    · exact h1
    · exact mapO_fix_mem h2 hx

/-! ### equations of `normF` -/

@[simp] theorem normF_zero (σ t) : normF 0 σ t = none := by simp [normF]
theorem normF_tvar (f σ v) : normF (f+1) σ (.tvar v) =
    match σ.val (σ.rep v) with | some u => normF f σ u | none => some (.tvar (σ.rep v)) := by
  cases h : σ.val (σ.rep v) <;> simp [normF, h]
theorem normF_tuple (f σ ts) : normF (f+1) σ (.tuple ts) = (mapO (normF f σ) ts).map Ty.tuple := by simp [normF]
theorem normF_app (f σ t args) : normF (f+1) σ (.app t args) =
    match normF f σ t with | none => none | some t' => (mapO (normF f σ) args).map (Ty.app t') := by
  cases h : normF f σ t <;> simp [normF, h]
theorem normF_array (f σ n e) : normF (f+1) σ (.array n e) = (normF f σ e).map (Ty.array n) := by simp [normF]
theorem normF_vec (f σ e) : normF (f+1) σ (.vec e) = (normF f σ e).map Ty.vec := by simp [normF]
theorem normF_ref (f σ e) : normF (f+1) σ (.ref e) = (normF f σ e).map Ty.ref := by simp [normF]
theorem normF_func (f σ ps r) : normF (f+1) σ (.func ps r) =
    match mapO (normF f σ) ps with | none => none | some ps' => (normF f σ r).map (Ty.func ps') := by
  cases h : mapO (normF f σ) ps <;> simp [normF, h]
@[simp] theorem normF_unit (f σ) : normF (f+1) σ .unit = some .unit := by simp [normF]
@[simp] theorem normF_bool (f σ) : normF (f+1) σ .bool = some .bool := by simp [normF]
@[simp] theorem normF_string (f σ) : normF (f+1) σ .string = some .string := by simp [normF]
@[simp] theorem normF_int (f σ b s) : normF (f+1) σ (.int b s) = some (.int b s) := by simp [normF]
@[simp] theorem normF_float (f σ b) : normF (f+1) σ (.float b) = some (.float b) := by simp [normF]
@[simp] theorem normF_enum (f σ n) : normF (f+1) σ (.enum n) = some (.enum n) := by simp [normF]
@[simp] theorem normF_struct (f σ n) : normF (f+1) σ (.struct n) = some (.struct n) := by simp [normF]
@[simp] theorem normF_dyn (f σ n) : normF (f+1) σ (.dyn n) = some (.dyn n) := by simp [normF]
@[simp] theorem normF_param (f σ n) : normF (f+1) σ (.param n) = some (.param n) := by simp [normF]


/-- the types `norm` copies -/
def isLeaf : Ty → Bool
  | .tvar _ | .tuple _ | .app _ _ | .array _ _ | .vec _ | .ref _ | .func _ _ => false
  | _ => true

theorem normF_leaf {t} (h : isLeaf t = true) (f σ) : normF (f+1) σ t = some t := by
  cases t <;> simp_all [isLeaf]

/-- inversion of one step of `norm` -/
theorem normF_succ_cases {f σ t t'} (h : normF (f+1) σ t = some t') :
    (∃ v u, t = .tvar v ∧ σ.val (σ.rep v) = some u ∧ normF f σ u = some t')
  ∨ (∃ v, t = .tvar v ∧ σ.val (σ.rep v) = none ∧ t' = .tvar (σ.rep v))
  ∨ (∃ ts ts', t = .tuple ts ∧ mapO (normF f σ) ts = some ts' ∧ t' = .tuple ts')
  ∨ (∃ u args u' args', t = .app u args ∧ normF f σ u = some u' ∧ mapO (normF f σ) args = some args' ∧ t' = .app u' args')
  ∨ (∃ n e e', t = .array n e ∧ normF f σ e = some e' ∧ t' = .array n e')
  ∨ (∃ e e', t = .vec e ∧ normF f σ e = some e' ∧ t' = .vec e')
  ∨ (∃ e e', t = .ref e ∧ normF f σ e = some e' ∧ t' = .ref e')
  ∨ (∃ ps r ps' r', t = .func ps r ∧ mapO (normF f σ) ps = some ps' ∧ normF f σ r = some r' ∧ t' = .func ps' r')
  ∨ (isLeaf t = true ∧ t' = t) := by
  cases t with
  | tvar v =>
    rw [normF_tvar] at h
    cases hv : σ.val (σ.rep v) with
    | some u => rw [hv] at h; exact .inl ⟨v, u, rfl, hv, h⟩
    | none => rw [hv] at h; exact .inr (.inl ⟨v, rfl, hv, by simpa [eq_comm] using h⟩)
  | tuple ts =>
    rw [normF_tuple] at h
    cases hm : mapO (normF f σ) ts with
    | none => simp [hm] at h
    | some ts' => simp [hm] at h; exact .inr (.inr (.inl ⟨ts, ts', rfl, hm, h.symm⟩))
  | app u args =>
    rw [normF_app] at h
    cases hu : normF f σ u with
    | none => simp [hu] at h
    | some u' =>
      cases hm : mapO (normF f σ) args with
      | none => simp [hu, hm] at h
      | some args' => simp [hu, hm] at h; exact .inr (.inr (.inr (.inl ⟨u, args, u', args', rfl, hu, hm, h.symm⟩)))
  | array n e =>
    rw [normF_array] at h
    cases he : normF f σ e with
    | none => simp [he] at h
    | some e' => simp [he] at h; exact .inr (.inr (.inr (.inr (.inl ⟨n, e, e', rfl, he, h.symm⟩))))
  | vec e =>
    rw [normF_vec] at h
    cases he : normF f σ e with
    | none => simp [he] at h
    | some e' => simp [he] at h; exact .inr (.inr (.inr (.inr (.inr (.inl ⟨e, e', rfl, he, h.symm⟩)))))
  | ref e =>
    rw [normF_ref] at h
    cases he : normF f σ e with
    | none => simp [he] at h
    | some e' => simp [he] at h; exact .inr (.inr (.inr (.inr (.inr (.inr (.inl ⟨e, e', rfl, he, h.symm⟩))))))
  | func ps r =>
    rw [normF_func] at h
    cases hm : mapO (normF f σ) ps with
    | none => simp [hm] at h
    | some ps' =>
      cases hr : normF f σ r with
      | none => simp [hm, hr] at h
      | some r' => simp [hm, hr] at h; exact .inr (.inr (.inr (.inr (.inr (.inr (.inr (.inl ⟨ps, r, ps', r', rfl, hm, hr, h.symm⟩)))))))
  | _ => simp at h; exact .inr (.inr (.inr (.inr (.inr (.inr (.inr (.inr ⟨rfl, h.symm⟩)))))))

/-- more fuel does not change an answer -/
theorem normF_mono1 : ∀ f σ t t', normF f σ t = some t' → normF (f+1) σ t = some t'
  | 0, _, _, _, h => by simp at h
  | f+1, σ, t, t', h => by
    have IH := normF_mono1 f σ
    have IHL : ∀ xs ys, mapO (normF f σ) xs = some ys → mapO (normF (f+1) σ) xs = some ys :=
      fun xs ys => mapO_congr (fun x y _ => IH x y)
    rcases normF_succ_cases h with ⟨v, u, rfl, hv, hu⟩ | ⟨v, rfl, hv, rfl⟩ | ⟨ts, ts', rfl, hm, rfl⟩ |
      ⟨u, args, u', args', rfl, hu, hm, rfl⟩ | ⟨n, e, e', rfl, he, rfl⟩ | ⟨e, e', rfl, he, rfl⟩ |
      ⟨e, e', rfl, he, rfl⟩ | ⟨ps, r, ps', r', rfl, hm, hr, rfl⟩ | ⟨hl, rfl⟩
    · rw [normF_tvar, hv]; exact IH _ _ hu
    · rw [normF_tvar, hv]
    · rw [normF_tuple, IHL _ _ hm]; rfl
    · rw [normF_app, IH _ _ hu]; simp [IHL _ _ hm]
    · rw [normF_array, IH _ _ he]; rfl
    · rw [normF_vec, IH _ _ he]; rfl
    · rw [normF_ref, IH _ _ he]; rfl
    · rw [normF_func, IHL _ _ hm]; simp [IH _ _ hr]
    · exact normF_leaf hl _ _

theorem normF_mono {f σ t t'} (h : normF f σ t = some t') : ∀ k, normF (f + k) σ t = some t'
  | 0 => h
  | k+1 => normF_mono1 _ _ _ _ (normF_mono h k)

theorem normF_le {f f' σ t t'} (h : normF f σ t = some t') (hle : f ≤ f') : normF f' σ t = some t' := by
  obtain ⟨k, rfl⟩ := Nat.exists_eq_add_of_le hle
  exact normF_mono h k

/-- `norm` is a function of the store and the type, whatever the fuel -/
theorem normF_functional {f g σ t a b} (h1 : normF f σ t = some a) (h2 : normF g σ t = some b) : a = b := by
  have := normF_le h1 (Nat.le_max_left f g)
  have := normF_le h2 (Nat.le_max_right f g)
  simp_all


/-! ### `occurs` -/

theorem occursOkL_all (a) : ∀ ts, occursOkL a ts = ts.all (occursOk a)
  | [] => by simp [occursOkL]
  | t :: ts => by simp [occursOkL, occursOkL_all a ts]

theorem occursOkL_false {a ts} (h : occursOkL a ts = false) : ∃ t, t ∈ ts ∧ occursOk a t = false := by
  rw [occursOkL_all] at h
  simpa using h

theorem occursOkL_true {a ts} (h : occursOkL a ts = true) : ∀ t, t ∈ ts → occursOk a t = true := by
  rw [occursOkL_all] at h
  simpa using h

theorem occursOk_leaf {a t} (h : isLeaf t = true) : occursOk a t = true := by
  cases t <;> simp_all [isLeaf, occursOk]

/-! ### store invariants -/

/-- `find` returns a root: what `ena` guarantees -/
def WF (σ : Store) : Prop := ∀ v, σ.rep (σ.rep v) = σ.rep v

/-- `v` is a root key without a value -/
def UnboundRoot (σ : Store) (v : Nat) : Prop := σ.rep v = v ∧ σ.val v = none

/-- The store is acyclic: every variable has a normal form (a finite unfolding).  On a store with a
cycle `v ↦ … v …` no fuel suffices (`cyclic_store_not_acyclic` below). -/
def Acyclic (σ : Store) : Prop := ∀ v, ∃ f t, normF f σ (.tvar v) = some t

/-- `norm` with the same fuel is idempotent -/
theorem normF_idem {σ} (hW : WF σ) : ∀ f t t', normF f σ t = some t' → normF f σ t' = some t'
  | 0, _, _, h => by simp at h
  | f+1, t, t', h => by
    have IH := normF_idem hW f
    rcases normF_succ_cases h with ⟨v, u, rfl, hv, hu⟩ | ⟨v, rfl, hv, rfl⟩ | ⟨ts, ts', rfl, hm, rfl⟩ |
      ⟨u, args, u', args', rfl, hu, hm, rfl⟩ | ⟨n, e, e', rfl, he, rfl⟩ | ⟨e, e', rfl, he, rfl⟩ |
      ⟨e, e', rfl, he, rfl⟩ | ⟨ps, r, ps', r', rfl, hm, hr, rfl⟩ | ⟨hl, rfl⟩
    · exact normF_mono1 _ _ _ _ (IH _ _ hu)
    · rw [normF_tvar, hW v, hv]
    · rw [normF_tuple, mapO_fix IH hm]; rfl
    · rw [normF_app, IH _ _ hu]; simp [mapO_fix IH hm]
    · rw [normF_array, IH _ _ he]; rfl
    · rw [normF_vec, IH _ _ he]; rfl
    · rw [normF_ref, IH _ _ he]; rfl
    · rw [normF_func, mapO_fix IH hm]; simp [IH _ _ hr]
    · exact normF_leaf hl _ _

/-- every variable left in a normal form is an unbound root -/
theorem normF_unbound {σ} (hW : WF σ) : ∀ f t t' v, normF f σ t = some t' → occursOk v t' = false → UnboundRoot σ v
  | 0, _, _, _, h, _ => by simp at h
  | f+1, t, t', w, h, ho => by
    have IH := normF_unbound hW f
    have IHL : ∀ xs ys, mapO (normF f σ) xs = some ys → occursOkL w ys = false → UnboundRoot σ w := by
      intro xs ys hm hf
      obtain ⟨y, hy, hyo⟩ := occursOkL_false hf
      obtain ⟨x, _, hx⟩ := mapO_mem hm hy
      exact IH _ _ _ hx hyo
    rcases normF_succ_cases h with ⟨v, u, rfl, hv, hu⟩ | ⟨v, rfl, hv, rfl⟩ | ⟨ts, ts', rfl, hm, rfl⟩ |
      ⟨u, args, u', args', rfl, hu, hm, rfl⟩ | ⟨n, e, e', rfl, he, rfl⟩ | ⟨e, e', rfl, he, rfl⟩ |
      ⟨e, e', rfl, he, rfl⟩ | ⟨ps, r, ps', r', rfl, hm, hr, rfl⟩ | ⟨hl, rfl⟩
    · exact IH _ _ _ hu ho
    · simp [occursOk] at ho; subst ho; exact ⟨hW v, hv⟩
    · simp only [occursOk] at ho; exact IHL _ _ hm ho
    · simp only [occursOk, Bool.and_eq_false_iff] at ho
      rcases ho with ho | ho
      · exact IH _ _ _ hu ho
      · exact IHL _ _ hm ho
    · simp only [occursOk] at ho; exact IH _ _ _ he ho
    · simp only [occursOk] at ho; exact IH _ _ _ he ho
    · simp only [occursOk] at ho; exact IH _ _ _ he ho
    · simp only [occursOk, Bool.and_eq_false_iff] at ho
      rcases ho with ho | ho
      · exact IHL _ _ hm ho
      · exact IH _ _ _ hr ho
    · rw [occursOk_leaf hl] at ho; cases ho

/-! ### store extension -/

/-- `σ'` refines `σ`: a type and its `σ`-normal form have the same `σ'`-normal form (with an explicit
fuel overhead `K`) -/
def Ext (σ σ' : Store) : Prop :=
  ∃ K, ∀ f u u', normF f σ u = some u' → ∃ x, normF (f+K) σ' u = some x ∧ normF (f+K) σ' u' = some x

theorem Ext.refl {σ} (hW : WF σ) : Ext σ σ :=
  ⟨0, fun f u u' h => ⟨u', h, normF_idem hW f u u' h⟩⟩

theorem Ext.trans {σ σ1 σ2} (h1 : Ext σ σ1) (h2 : Ext σ1 σ2) : Ext σ σ2 := by
  obtain ⟨K1, H1⟩ := h1
  obtain ⟨K2, H2⟩ := h2
  refine ⟨K1 + K2, fun f u u' h => ?_⟩
  obtain ⟨x, hx1, hx2⟩ := H1 f u u' h
  obtain ⟨y, hy1, hy2⟩ := H2 _ _ _ hx1
  obtain ⟨y', hy1', hy2'⟩ := H2 _ _ _ hx2
  have : y = y' := normF_functional hy2 hy2'
  subst this
  exact ⟨y, by rw [← Nat.add_assoc]; exact hy1, by rw [← Nat.add_assoc]; exact hy1'⟩

theorem Acyclic.of_ext {σ σ'} (hA : Acyclic σ) (hE : Ext σ σ') : Acyclic σ' := by
  intro v
  obtain ⟨f, t, h⟩ := hA v
  obtain ⟨K, H⟩ := hE
  obtain ⟨x, hx, _⟩ := H f _ _ h
  exact ⟨_, x, hx⟩

/-- one store step: bound roots keep their value; a variable whose root was unbound normalises like
that root does now -/
theorem ext_of_step {σ σ' : Store} (K : Nat)
    (S1 : ∀ v s, σ.val (σ.rep v) = some s → σ'.val (σ'.rep v) = some s)
    (S2 : ∀ v, σ.val (σ.rep v) = none → ∃ x, normF (K+1) σ' (.tvar v) = some x ∧ normF (K+1) σ' (.tvar (σ.rep v)) = some x) :
    ∀ f u u', normF f σ u = some u' → ∃ x, normF (f+(K+1)) σ' u = some x ∧ normF (f+(K+1)) σ' u' = some x
  | 0, _, _, h => by simp at h
  | f+1, t, t', h => by
    have IH := ext_of_step K S1 S2 f
    have e : f + 1 + (K+1) = (f + (K+1)) + 1 := by omega
    rw [e]
    rcases normF_succ_cases h with ⟨v, u, rfl, hv, hu⟩ | ⟨v, rfl, hv, rfl⟩ | ⟨ts, ts', rfl, hm, rfl⟩ |
      ⟨u, args, u', args', rfl, hu, hm, rfl⟩ | ⟨n, e, e', rfl, he, rfl⟩ | ⟨e, e', rfl, he, rfl⟩ |
      ⟨e, e', rfl, he, rfl⟩ | ⟨ps, r, ps', r', rfl, hm, hr, rfl⟩ | ⟨hl, rfl⟩
    · obtain ⟨x, hx1, hx2⟩ := IH _ _ hu
      exact ⟨x, by rw [normF_tvar, S1 v u hv]; exact hx1, normF_mono1 _ _ _ _ hx2⟩
    · obtain ⟨x, hx1, hx2⟩ := S2 v hv
      exact ⟨x, normF_le hx1 (by omega), normF_le hx2 (by omega)⟩
    · obtain ⟨zs, h1, h2⟩ := mapO_rel2 IH hm
      exact ⟨.tuple zs, by rw [normF_tuple, h1]; rfl, by rw [normF_tuple, h2]; rfl⟩
    · obtain ⟨zs, h1, h2⟩ := mapO_rel2 IH hm
      obtain ⟨x, hx1, hx2⟩ := IH _ _ hu
      exact ⟨.app x zs, by rw [normF_app, hx1]; simp [h1], by rw [normF_app, hx2]; simp [h2]⟩
    · obtain ⟨x, hx1, hx2⟩ := IH _ _ he
      exact ⟨.array n x, by rw [normF_array, hx1]; rfl, by rw [normF_array, hx2]; rfl⟩
    · obtain ⟨x, hx1, hx2⟩ := IH _ _ he
      exact ⟨.vec x, by rw [normF_vec, hx1]; rfl, by rw [normF_vec, hx2]; rfl⟩
    · obtain ⟨x, hx1, hx2⟩ := IH _ _ he
      exact ⟨.ref x, by rw [normF_ref, hx1]; rfl, by rw [normF_ref, hx2]; rfl⟩
    · obtain ⟨zs, h1, h2⟩ := mapO_rel2 IH hm
      obtain ⟨x, hx1, hx2⟩ := IH _ _ hr
      exact ⟨.func zs x, by rw [normF_func, h1]; simp [hx1], by rw [normF_func, h2]; simp [hx2]⟩
    · exact ⟨_, normF_leaf hl _ _, normF_leaf hl _ _⟩


/-! ### binding an unbound root to a normal type that passes the occurs check -/

def Store.bind (σ : Store) (a : Nat) (t : Ty) : Store := { σ with val := upd σ.val a (some t) }

theorem unifyVarValue_unbound {σ a t} (ha : UnboundRoot σ a) : σ.unifyVarValue a t = some (σ.bind a t) := by
  simp [Store.unifyVarValue, ha.1, ha.2, combine, Store.bind]

/-- a normal type without `a` is still its own normal form after binding `a` -/
theorem bind_fix {σ a t0} (hW : WF σ) :
    ∀ f u u', normF f σ u = some u' → u' = u → occursOk a u = true → normF f (σ.bind a t0) u = some u
  | 0, _, _, h, _, _ => by simp at h
  | f+1, t, t', h, heq, ho => by
    have IH := bind_fix (a := a) (t0 := t0) hW f
    have IHL : ∀ xs, mapO (normF f σ) xs = some xs → occursOkL a xs = true → mapO (normF f (σ.bind a t0)) xs = some xs := by
      intro xs hm hxs
      refine mapO_congr (fun x y hx hy => ?_) hm
      have hxx := mapO_fix_mem hm hx
      have : y = x := by rw [hxx] at hy; exact (Option.some.inj hy).symm
      subst this
      exact IH _ _ hxx rfl (occursOkL_true hxs _ hx)
    rcases normF_succ_cases h with ⟨v, u, rfl, hv, hu⟩ | ⟨v, rfl, hv, rfl⟩ | ⟨ts, ts', rfl, hm, rfl⟩ |
      ⟨u, args, u', args', rfl, hu, hm, rfl⟩ | ⟨n, e, e', rfl, he, rfl⟩ | ⟨e, e', rfl, he, rfl⟩ |
      ⟨e, e', rfl, he, rfl⟩ | ⟨ps, r, ps', r', rfl, hm, hr, rfl⟩ | ⟨hl, rfl⟩
    · subst heq
      have hub := normF_unbound hW f _ _ v hu (by simp [occursOk])
      rw [hub.1, hub.2] at hv; cases hv
    · injection heq with hr
      simp [occursOk] at ho
      have hav : ¬ v = a := fun e => ho e.symm
      rw [normF_tvar]
      rw [hr] at hv
      simp [Store.bind, upd, hr, hav, hv]
    · injection heq with e; subst e
      simp only [occursOk] at ho
      rw [normF_tuple, IHL _ hm ho]; rfl
    · injection heq with e1 e2; subst e1; subst e2
      simp only [occursOk, Bool.and_eq_true] at ho
      rw [normF_app, IH _ _ hu rfl ho.1]; simp [IHL _ hm ho.2]
    · injection heq with e1 e2; subst e2
      simp only [occursOk] at ho
      rw [normF_array, IH _ _ he rfl ho]; rfl
    · injection heq with e1; subst e1
      simp only [occursOk] at ho
      rw [normF_vec, IH _ _ he rfl ho]; rfl
    · injection heq with e1; subst e1
      simp only [occursOk] at ho
      rw [normF_ref, IH _ _ he rfl ho]; rfl
    · injection heq with e1 e2; subst e1; subst e2
      simp only [occursOk, Bool.and_eq_true] at ho
      rw [normF_func, IHL _ hm ho.1]; simp [IH _ _ hr rfl ho.2]
    · exact normF_leaf hl _ _

theorem bind_wf {σ a t} (hW : WF σ) : WF (σ.bind a t) := hW

theorem bind_ext {σ a t k} (hW : WF σ) (ha : UnboundRoot σ a) (ht : normF k σ t = some t)
    (ho : occursOk a t = true) : Ext σ (σ.bind a t) := by
  have hfix := bind_fix (a := a) (t0 := t) hW k t t ht rfl ho
  refine ⟨k+1, ext_of_step k ?_ ?_⟩
  · intro v s hv
    have : ¬ σ.rep v = a := by intro e; rw [e, ha.2] at hv; cases hv
    simp [Store.bind, upd, this, hv]
  · intro v hv
    by_cases e : σ.rep v = a
    · refine ⟨t, ?_, ?_⟩
      · rw [normF_tvar]; simp [Store.bind, upd, e]; exact hfix
      · rw [normF_tvar]; simp [Store.bind, upd, e, ha.1]; exact hfix
    · refine ⟨.tvar (σ.rep v), ?_, ?_⟩
      · rw [normF_tvar]; simp [Store.bind, upd, e, hv]
      · rw [normF_tvar]; simp [Store.bind, upd, e, hv, hW v]

/-- after the binding, `a` and `t` have the same normal form, namely `t` -/
theorem bind_eq {σ a t k} (hW : WF σ) (ha : UnboundRoot σ a) (ht : normF k σ t = some t)
    (ho : occursOk a t = true) :
    normF (k+1) (σ.bind a t) (.tvar a) = some t ∧ normF (k+1) (σ.bind a t) t = some t := by
  have hfix := bind_fix (a := a) (t0 := t) hW k t t ht rfl ho
  refine ⟨?_, normF_mono1 _ _ _ _ hfix⟩
  rw [normF_tvar]; simp [Store.bind, upd, ha.1]; exact hfix

/-! ### uniting two unbound roots -/

theorem redirect_wf {σ : Store} {nr old new v} (hW : WF σ) (hn : UnboundRoot σ new) (hne : old ≠ new) :
    WF (σ.redirect nr old new v) := by
  intro i
  simp only [Store.redirect]
  by_cases e : σ.rep i = old
  · simp [e, hn.1, Ne.symm hne]
  · simp [e, hW i]

theorem redirect_ext {σ : Store} {nr old new} (hW : WF σ) (ho : UnboundRoot σ old) (hn : UnboundRoot σ new) :
    Ext σ (σ.redirect nr old new none) := by
  refine ⟨1, ext_of_step 0 ?_ ?_⟩
  · intro v s hv
    have h1 : ¬ σ.rep v = old := by intro e; rw [e, ho.2] at hv; cases hv
    have h2 : ¬ σ.rep v = new := by intro e; rw [e, hn.2] at hv; cases hv
    simp [Store.redirect, upd, h1, h2, hv]
  · intro v hv
    by_cases e : σ.rep v = old
    · refine ⟨.tvar new, ?_, ?_⟩
      · rw [normF_tvar]; simp [Store.redirect, upd, e]
      · rw [normF_tvar]; simp [Store.redirect, upd, e, ho.1]
    · refine ⟨.tvar (σ.rep v), ?_, ?_⟩
      · rw [normF_tvar]; simp [Store.redirect, upd, e, hv]
      · rw [normF_tvar]; simp [Store.redirect, upd, e, hW v, hv]

/-- after the union both roots normalise to the surviving root -/
theorem redirect_eq {σ : Store} {nr old new} (ho : UnboundRoot σ old) (hn : UnboundRoot σ new) (hne : old ≠ new) :
    normF 1 (σ.redirect nr old new none) (.tvar old) = some (.tvar new) ∧
    normF 1 (σ.redirect nr old new none) (.tvar new) = some (.tvar new) := by
  constructor
  · rw [normF_tvar]; simp [Store.redirect, upd, ho.1]
  · rw [normF_tvar]; simp [Store.redirect, upd, hn.1, Ne.symm hne]


/-! ### agreement of two normal forms

`unify` lets an array type of the wildcard length (`tast::ARRAY_WILDCARD_LEN`, the length the
signatures of `array_get` / `array_set` are written with) stand for an array of any length, and does
NOT bind or rewrite anything when it does so.  So after a successful `unify l r` the two normal forms
are not always identical: they are identical up to array lengths one of which is the wildcard.
`agree` is that relation (it is reflexive and symmetric, not transitive); on types without the
wildcard length it is equality (`agree_eq_of_noWild`). -/
mutual
def agree : Ty → Ty → Bool
  | .tvar a, .tvar b => a == b
  | .unit, .unit => true
  | .bool, .bool => true
  | .string, .string => true
  | .int b s, .int b' s' => b == b' && s == s'
  | .float b, .float b' => b == b'
  | .tuple ts, .tuple us => agreeL ts us
  | .enum n, .enum m => n == m
  | .struct n, .struct m => n == m
  | .dyn n, .dyn m => n == m
  | .param n, .param m => n == m
  | .app t args, .app u brgs => agree t u && agreeL args brgs
  | .array n e, .array m e' => (n == m || n == Gen.arrayWildcardLen || m == Gen.arrayWildcardLen) && agree e e'
  | .vec e, .vec e' => agree e e'
  | .ref e, .ref e' => agree e e'
  | .func ps r, .func qs r' => agreeL ps qs && agree r r'
  | _, _ => false
def agreeL : List Ty → List Ty → Bool
  | [], [] => true
  | t :: ts, u :: us => agree t u && agreeL ts us
  | _, _ => false
end

mutual
def noWild : Ty → Bool
  | .tuple ts => noWildL ts
  | .app t args => noWild t && noWildL args
  | .array n e => n != Gen.arrayWildcardLen && noWild e
  | .vec e => noWild e
  | .ref e => noWild e
  | .func ps r => noWildL ps && noWild r
  | _ => true
def noWildL : List Ty → Bool
  | [] => true
  | t :: ts => noWild t && noWildL ts
end

mutual
theorem agree_refl : ∀ t, agree t t = true
  | .tvar _ | .unit | .bool | .string | .int _ _ | .float _ | .enum _ | .struct _ | .dyn _ | .param _ => by simp [agree]
  | .tuple ts => by simp [agree, agreeL_refl ts]
  | .app t args => by simp [agree, agree_refl t, agreeL_refl args]
  | .array n e => by simp [agree, agree_refl e]
  | .vec e => by simp [agree, agree_refl e]
  | .ref e => by simp [agree, agree_refl e]
  | .func ps r => by simp [agree, agreeL_refl ps, agree_refl r]
theorem agreeL_refl : ∀ ts, agreeL ts ts = true
  | [] => by simp [agreeL]
  | t :: ts => by simp [agreeL, agree_refl t, agreeL_refl ts]
end


mutual
theorem agree_eq_of_noWild : ∀ t u, agree t u = true → noWild t = true → noWild u = true → t = u
  | .tvar _, u | .unit, u | .bool, u | .string, u | .int _ _, u | .float _, u | .enum _, u | .struct _, u
  | .dyn _, u | .param _, u => by
    cases u <;> simp [agree] <;> intros <;> simp_all
  | .tuple ts, u => by
    cases u <;> simp [agree, noWild]
    exact fun h a b => agreeL_eq_of_noWild ts _ h a b
  | .app t args, u => by
    cases u <;> simp [agree, noWild]
    exact fun h1 h2 a1 a2 b1 b2 => ⟨agree_eq_of_noWild t _ h1 a1 b1, agreeL_eq_of_noWild args _ h2 a2 b2⟩
  | .array n e, u => by
    cases u <;> simp [agree, noWild]
    intro h1 h2 a1 a2 b1 b2
    refine ⟨?_, agree_eq_of_noWild e _ h2 a2 b2⟩
    rcases h1 with (h | h) | h
    · exact h
    · exact absurd h a1
    · exact absurd h b1
  | .vec e, u => by
    cases u <;> simp [agree, noWild]
    exact fun h a b => agree_eq_of_noWild e _ h a b
  | .ref e, u => by
    cases u <;> simp [agree, noWild]
    exact fun h a b => agree_eq_of_noWild e _ h a b
  | .func ps r, u => by
    cases u <;> simp [agree, noWild]
    exact fun h1 h2 a1 a2 b1 b2 => ⟨agreeL_eq_of_noWild ps _ h1 a1 b1, agree_eq_of_noWild r _ h2 a2 b2⟩
theorem agreeL_eq_of_noWild : ∀ ts us, agreeL ts us = true → noWildL ts = true → noWildL us = true → ts = us
  | [], us => by cases us <;> simp [agreeL]
  | t :: ts, us => by
    cases us <;> simp [agreeL, noWildL]
    exact fun h1 h2 a1 a2 b1 b2 => ⟨agree_eq_of_noWild t _ h1 a1 b1, agreeL_eq_of_noWild ts _ h2 a2 b2⟩
end

theorem normF_tuple_some {g σ us y} (h : normF (g+1) σ (.tuple us) = some y) :
    ∃ us', mapO (normF g σ) us = some us' ∧ y = .tuple us' := by
  rw [normF_tuple] at h
  cases hm : mapO (normF g σ) us <;> simp [hm] at h
  exact ⟨_, rfl, h.symm⟩

theorem normF_app_some {g σ u args y} (h : normF (g+1) σ (.app u args) = some y) :
    ∃ u' args', normF g σ u = some u' ∧ mapO (normF g σ) args = some args' ∧ y = .app u' args' := by
  rw [normF_app] at h
  cases hu : normF g σ u <;> simp [hu] at h
  cases hm : mapO (normF g σ) args <;> simp [hm] at h
  exact ⟨_, _, rfl, rfl, h.symm⟩

theorem normF_array_some {g σ n e y} (h : normF (g+1) σ (.array n e) = some y) :
    ∃ e', normF g σ e = some e' ∧ y = .array n e' := by
  rw [normF_array] at h
  cases he : normF g σ e <;> simp [he] at h
  exact ⟨_, rfl, h.symm⟩

theorem normF_vec_some {g σ e y} (h : normF (g+1) σ (.vec e) = some y) :
    ∃ e', normF g σ e = some e' ∧ y = .vec e' := by
  rw [normF_vec] at h
  cases he : normF g σ e <;> simp [he] at h
  exact ⟨_, rfl, h.symm⟩

theorem normF_ref_some {g σ e y} (h : normF (g+1) σ (.ref e) = some y) :
    ∃ e', normF g σ e = some e' ∧ y = .ref e' := by
  rw [normF_ref] at h
  cases he : normF g σ e <;> simp [he] at h
  exact ⟨_, rfl, h.symm⟩

theorem normF_func_some {g σ ps r y} (h : normF (g+1) σ (.func ps r) = some y) :
    ∃ ps' r', mapO (normF g σ) ps = some ps' ∧ normF g σ r = some r' ∧ y = .func ps' r' := by
  rw [normF_func] at h
  cases hm : mapO (normF g σ) ps <;> simp [hm] at h
  cases hr : normF g σ r <;> simp [hr] at h
  exact ⟨_, _, rfl, rfl, h.symm⟩

theorem agreeL_mapO {G H : Ty → Option Ty}
    (IH : ∀ x y x' y', agree x y = true → G x = some x' → H y = some y' → agree x' y' = true) :
    ∀ ts us ts' us', agreeL ts us = true → mapO G ts = some ts' → mapO H us = some us' → agreeL ts' us' = true
  | [], [], ts', us', _, h1, h2 => by
    cases mapO_nil_some.1 h1; cases mapO_nil_some.1 h2; simp [agreeL]
  | [], _ :: _, _, _, h, _, _ => by simp [agreeL] at h
  | _ :: _, [], _, _, h, _, _ => by simp [agreeL] at h
  | t :: ts, u :: us, ts', us', h, h1, h2 => by
    obtain ⟨x, xs, hx, hxs, rfl⟩ := mapO_cons_some.1 h1
    obtain ⟨y, ys, hy, hys, rfl⟩ := mapO_cons_some.1 h2
    simp only [agreeL, Bool.and_eq_true] at h ⊢
    exact ⟨IH _ _ _ _ h.1 hx hy, agreeL_mapO IH ts us xs ys h.2 hxs hys⟩

theorem agree_leaf {x y} (hl : isLeaf x = true) (h : agree x y = true) : isLeaf y = true := by
  cases x <;> cases y <;> simp_all [isLeaf, agree]

/-- normalising two agreeing types (in any store) gives agreeing types -/
theorem agree_norm {σ} : ∀ f g x y x' y', agree x y = true → normF f σ x = some x' → normF g σ y = some y' →
    agree x' y' = true
  | 0, _, _, _, _, _, _, h, _ => by simp at h
  | _, 0, _, _, _, _, _, _, h => by simp at h
  | f+1, g+1, x, y, x', y', ha, hx, hy => by
    have IH := fun x y x' y' => agree_norm (σ := σ) f g x y x' y'
    have IHL := agreeL_mapO IH
    rcases normF_succ_cases hx with ⟨v, u, rfl, hv, hu⟩ | ⟨v, rfl, hv, rfl⟩ | ⟨ts, ts', rfl, hm, rfl⟩ |
      ⟨u, args, u', args', rfl, hu, hm, rfl⟩ | ⟨n, e, e', rfl, he, rfl⟩ | ⟨e, e', rfl, he, rfl⟩ |
      ⟨e, e', rfl, he, rfl⟩ | ⟨ps, r, ps', r', rfl, hm, hr, rfl⟩ | ⟨hl, rfl⟩
    · cases y <;> simp [agree] at ha
      subst ha
      cases normF_functional hx hy; exact agree_refl _
    · cases y <;> simp [agree] at ha
      subst ha
      cases normF_functional hx hy; exact agree_refl _
    · cases y <;> simp [agree] at ha
      obtain ⟨us', h2, rfl⟩ := normF_tuple_some hy
      simp only [agree]; exact IHL _ _ _ _ ha hm h2
    · cases y <;> simp [agree] at ha
      obtain ⟨w', brgs', h1, h2, rfl⟩ := normF_app_some hy
      simp only [agree, Bool.and_eq_true]; exact ⟨IH _ _ _ _ ha.1 hu h1, IHL _ _ _ _ ha.2 hm h2⟩
    · cases y <;> simp [agree] at ha
      obtain ⟨w', h1, rfl⟩ := normF_array_some hy
      simp only [agree, Bool.and_eq_true]; exact ⟨by simpa using ha.1, IH _ _ _ _ ha.2 he h1⟩
    · cases y <;> simp [agree] at ha
      obtain ⟨w', h1, rfl⟩ := normF_vec_some hy
      simp only [agree]; exact IH _ _ _ _ ha he h1
    · cases y <;> simp [agree] at ha
      obtain ⟨w', h1, rfl⟩ := normF_ref_some hy
      simp only [agree]; exact IH _ _ _ _ ha he h1
    · cases y <;> simp [agree] at ha
      obtain ⟨qs', w', h1, h2, rfl⟩ := normF_func_some hy
      simp only [agree, Bool.and_eq_true]; exact ⟨IHL _ _ _ _ ha.1 hm h1, IH _ _ _ _ ha.2 hr h2⟩
    · have hl' := agree_leaf hl ha
      rw [normF_leaf hl'] at hy; cases hy; exact ha


/-! ### the post-condition of `unify` -/

/-- `l` and `r` have agreeing normal forms in `σ` -/
def Eqv (σ : Store) (l r : Ty) : Prop :=
  ∃ f g x y, normF f σ l = some x ∧ normF g σ r = some y ∧ agree x y = true

def EqvL (σ : Store) : List Ty → List Ty → Prop
  | [], [] => True
  | t :: ts, u :: us => Eqv σ t u ∧ EqvL σ ts us
  | _, _ => False

theorem Eqv.transport {σ σ' l r} (hE : Ext σ σ') (h : Eqv σ l r) : Eqv σ' l r := by
  obtain ⟨K, H⟩ := hE
  obtain ⟨f, g, x, y, hx, hy, ha⟩ := h
  obtain ⟨x2, hx1, hx2⟩ := H _ _ _ hx
  obtain ⟨y2, hy1, hy2⟩ := H _ _ _ hy
  exact ⟨_, _, x2, y2, hx1, hy1, agree_norm _ _ _ _ _ _ ha hx2 hy2⟩

theorem EqvL.transport {σ σ'} (hE : Ext σ σ') : ∀ {ts us}, EqvL σ ts us → EqvL σ' ts us
  | [], [], _ => trivial
  | [], _ :: _, h => h.elim
  | _ :: _, [], h => h.elim
  | _ :: _, _ :: _, h => ⟨h.1.transport hE, EqvL.transport hE h.2⟩

/-- replace both sides by types with the same `σ`-normal forms -/
theorem Eqv.of_norm {σ l r ln rn f g} (hl : normF f σ l = some ln) (hr : normF g σ r = some rn)
    (hW : WF σ) (h : Eqv σ ln rn) : Eqv σ l r := by
  obtain ⟨f', g', x, y, hx, hy, ha⟩ := h
  have e1 : x = ln := normF_functional hx (normF_idem hW _ _ _ hl)
  have e2 : y = rn := normF_functional hy (normF_idem hW _ _ _ hr)
  subst e1; subst e2
  exact ⟨_, _, _, _, hl, hr, ha⟩

theorem mapO_normF_le {f f' σ ts xs} (h : mapO (normF f σ) ts = some xs) (hle : f ≤ f') :
    mapO (normF f' σ) ts = some xs :=
  mapO_congr (fun _ _ _ hx => normF_le hx hle) h

theorem EqvL.lists {σ} : ∀ {ts us}, EqvL σ ts us →
    ∃ f xs ys, mapO (normF f σ) ts = some xs ∧ mapO (normF f σ) us = some ys ∧ agreeL xs ys = true
  | [], [], _ => ⟨0, [], [], rfl, rfl, by simp [agreeL]⟩
  | [], _ :: _, h => h.elim
  | _ :: _, [], h => h.elim
  | t :: ts, u :: us, h => by
    obtain ⟨f1, g1, x, y, hx, hy, ha⟩ := h.1
    obtain ⟨f2, xs, ys, hxs, hys, has⟩ := EqvL.lists h.2
    refine ⟨max (max f1 g1) f2, x :: xs, y :: ys, ?_, ?_, by simp [agreeL, ha, has]⟩
    · exact mapO_cons_some.2 ⟨x, xs, normF_le hx (by omega), mapO_normF_le hxs (by omega), rfl⟩
    · exact mapO_cons_some.2 ⟨y, ys, normF_le hy (by omega), mapO_normF_le hys (by omega), rfl⟩

/-- what every call of `unify` guarantees, whatever its outcome: the table is still well-formed, the
new store refines the old one, and if the call returned `true` the two sides now agree -/
structure Post (σ : Store) (l r : Ty) (res : Option Diag × Store) : Prop where
  wf : WF res.2
  ext : Ext σ res.2
  eqv : res.1 = none → Eqv res.2 l r

abbrev RecOk (rec : Store → Ty → Ty → Res) : Prop :=
  ∀ σ l r res, WF σ → rec σ l r = some res → Post σ l r res

theorem post_fail {σ l r d} (hW : WF σ) : Post σ l r (some d, σ) :=
  ⟨hW, Ext.refl hW, fun h => by cases h⟩

theorem unifyList_post {rec} (hrec : RecOk rec) :
    ∀ σ ts us res, WF σ → unifyList rec σ ts us = some res → ts.length = us.length →
      WF res.2 ∧ Ext σ res.2 ∧ (res.1 = none → EqvL res.2 ts us)
  | σ, [], [], res, hW, h, _ => by
    simp [unifyList, ok] at h; subst h
    exact ⟨hW, Ext.refl hW, fun _ => trivial⟩
  | σ, [], _ :: _, res, _, _, hlen => by simp at hlen
  | σ, _ :: _, [], res, _, _, hlen => by simp at hlen
  | σ, t :: ts, u :: us, res, hW, h, hlen => by
    simp only [unifyList] at h
    cases h1 : rec σ t u with
    | none => simp [h1] at h
    | some r1 =>
      obtain ⟨d1, σ1⟩ := r1
      have P1 := hrec σ t u _ hW h1
      cases d1 with
      | some d =>
        simp [h1] at h; subst h
        exact ⟨P1.wf, P1.ext, fun hn => by cases hn⟩
      | none =>
        simp [h1] at h
        obtain ⟨w2, e2, q2⟩ := unifyList_post hrec σ1 ts us res P1.wf h (by simpa using hlen)
        exact ⟨w2, P1.ext.trans e2, fun hn => ⟨(P1.eqv rfl).transport e2, q2 hn⟩⟩


theorem eqv_leaf_refl {σ t} (hl : isLeaf t = true) : Eqv σ t t :=
  ⟨1, 1, t, t, normF_leaf hl _ _, normF_leaf hl _ _, agree_refl t⟩

theorem post_ok_leaf {σ t} (hW : WF σ) (hl : isLeaf t = true) : Post σ t t (none, σ) :=
  ⟨hW, Ext.refl hW, fun _ => eqv_leaf_refl hl⟩

theorem eqv_tuple {σ ts us} (h : EqvL σ ts us) : Eqv σ (.tuple ts) (.tuple us) := by
  obtain ⟨f, xs, ys, hx, hy, ha⟩ := h.lists
  exact ⟨f+1, f+1, .tuple xs, .tuple ys, by rw [normF_tuple, hx]; rfl, by rw [normF_tuple, hy]; rfl, by simpa [agree] using ha⟩

theorem eqv_cong1 {σ e e'} (C : Ty → Ty) (hn : ∀ f σ e, normF (f+1) σ (C e) = (normF f σ e).map C)
    (hag : ∀ x y, agree (C x) (C y) = agree x y) (h : Eqv σ e e') : Eqv σ (C e) (C e') := by
  obtain ⟨f, g, x, y, hx, hy, ha⟩ := h
  exact ⟨f+1, g+1, C x, C y, by rw [hn, hx]; rfl, by rw [hn, hy]; rfl, by rw [hag]; exact ha⟩

theorem eqv_array {σ n m e e'} (hnm : ¬ (n ≠ m ∧ n ≠ Gen.arrayWildcardLen ∧ m ≠ Gen.arrayWildcardLen))
    (h : Eqv σ e e') : Eqv σ (.array n e) (.array m e') := by
  obtain ⟨f, g, x, y, hx, hy, ha⟩ := h
  refine ⟨f+1, g+1, .array n x, .array m y, by rw [normF_array, hx]; rfl, by rw [normF_array, hy]; rfl, ?_⟩
  simp only [agree, Bool.and_eq_true, ha, and_true, Bool.or_eq_true, beq_iff_eq]
  by_cases h1 : n = m
  · exact .inl (.inl h1)
  · by_cases h2 : n = Gen.arrayWildcardLen
    · exact .inl (.inr h2)
    · by_cases h3 : m = Gen.arrayWildcardLen
      · exact .inr h3
      · exact absurd ⟨h1, h2, h3⟩ hnm

theorem eqv_func {σ ps qs r r'} (h1 : EqvL σ ps qs) (h2 : Eqv σ r r') : Eqv σ (.func ps r) (.func qs r') := by
  obtain ⟨f, xs, ys, hx, hy, ha⟩ := h1.lists
  obtain ⟨f2, g2, x, y, hx2, hy2, ha2⟩ := h2
  refine ⟨max f (max f2 g2) + 1, max f (max f2 g2) + 1, .func xs x, .func ys y, ?_, ?_, by simp [agree, ha, ha2]⟩
  · rw [normF_func, mapO_normF_le hx (by omega)]; simp [normF_le hx2 (show f2 ≤ max f (max f2 g2) by omega)]
  · rw [normF_func, mapO_normF_le hy (by omega)]; simp [normF_le hy2 (show g2 ≤ max f (max f2 g2) by omega)]

theorem eqv_app {σ t u args brgs} (h2 : Eqv σ t u) (h1 : EqvL σ args brgs) : Eqv σ (.app t args) (.app u brgs) := by
  obtain ⟨f, xs, ys, hx, hy, ha⟩ := h1.lists
  obtain ⟨f2, g2, x, y, hx2, hy2, ha2⟩ := h2
  refine ⟨max f (max f2 g2) + 1, max f (max f2 g2) + 1, .app x xs, .app y ys, ?_, ?_, by simp [agree, ha, ha2]⟩
  · rw [normF_app, normF_le hx2 (show f2 ≤ max f (max f2 g2) by omega)]; simp [mapO_normF_le hx (show f ≤ max f (max f2 g2) by omega)]
  · rw [normF_app, normF_le hy2 (show g2 ≤ max f (max f2 g2) by omega)]; simp [mapO_normF_le hy (show f ≤ max f (max f2 g2) by omega)]

theorem unifyCtor_post {rec} (hrec : RecOk rec) {σ l r res} (hW : WF σ)
    (h : unifyCtor rec σ l r = some res) : Post σ l r res := by
  unfold unifyCtor at h
  split at h
  · cases h; exact post_ok_leaf hW rfl
  · cases h; exact post_ok_leaf hW rfl
  · cases h; exact post_ok_leaf hW rfl
  · split at h
    · rename_i hc; obtain ⟨rfl, rfl⟩ := hc; cases h; exact post_ok_leaf hW rfl
    · cases h; exact post_fail hW
  · split at h
    · rename_i hc; subst hc; cases h; exact post_ok_leaf hW rfl
    · cases h; exact post_fail hW
  · -- tuple
    split at h
    · cases h; exact post_fail hW
    · rename_i hlen
      obtain ⟨w, e, q⟩ := unifyList_post hrec _ _ _ _ hW h (by simpa using hlen)
      exact ⟨w, e, fun hn => eqv_tuple (q hn)⟩
  · -- array
    split at h
    · cases h; exact post_fail hW
    · rename_i hnm
      have P := hrec _ _ _ _ hW h
      exact ⟨P.wf, P.ext, fun hn => eqv_array hnm (P.eqv hn)⟩
  · have P := hrec _ _ _ _ hW h
    exact ⟨P.wf, P.ext, fun hn => eqv_cong1 Ty.ref normF_ref (fun _ _ => by simp [agree]) (P.eqv hn)⟩
  · have P := hrec _ _ _ _ hW h
    exact ⟨P.wf, P.ext, fun hn => eqv_cong1 Ty.vec normF_vec (fun _ _ => by simp [agree]) (P.eqv hn)⟩
  · -- func
    split at h
    · cases h; exact post_fail hW
    · rename_i hlen
      split at h
      · rename_i σ1 h1
        obtain ⟨w, e, q⟩ := unifyList_post hrec _ _ _ _ hW h1 (by simpa using hlen)
        have P := hrec _ _ _ _ w h
        exact ⟨P.wf, e.trans P.ext, fun hn => eqv_func ((q rfl).transport P.ext) (P.eqv hn)⟩
      · rename_i hx
        cases hres : unifyList rec σ _ _ with
        | none => rw [hres] at h; cases h
        | some r1 =>
          obtain ⟨d, σ1⟩ := r1
          rw [hres] at h; cases h
          obtain ⟨w, e, q⟩ := unifyList_post hrec _ _ _ _ hW hres (by simpa using hlen)
          refine ⟨w, e, fun hn => ?_⟩
          have hd : d = none := hn
          subst hd
          exact absurd hres (hx σ1)
  · split at h
    · cases h; exact post_fail hW
    · rename_i hc; simp at hc; subst hc; cases h; exact post_ok_leaf hW rfl
  · split at h
    · cases h; exact post_fail hW
    · rename_i hc; simp at hc; subst hc; cases h; exact post_ok_leaf hW rfl
  · split at h
    · cases h; exact post_fail hW
    · rename_i hc; simp at hc; subst hc; cases h; exact post_ok_leaf hW rfl
  · -- app
    split at h
    · cases h; exact post_fail hW
    · rename_i hlen
      split at h
      · rename_i σ1 h1
        have P := hrec _ _ _ _ hW h1
        obtain ⟨w, e, q⟩ := unifyList_post hrec _ _ _ _ P.wf h (by simpa using hlen)
        exact ⟨w, P.ext.trans e, fun hn => eqv_app ((P.eqv rfl).transport e) (q hn)⟩
      · rename_i hx
        cases hres : rec σ _ _ with
        | none => rw [hres] at h; cases h
        | some r1 =>
          obtain ⟨d, σ1⟩ := r1
          rw [hres] at h; cases h
          have P := hrec _ _ _ _ hW hres
          refine ⟨P.wf, P.ext, fun hn => ?_⟩
          have hd : d = none := hn
          subst hd
          exact absurd hres (hx σ1)
  · split at h
    · cases h; exact post_fail hW
    · rename_i hc; simp at hc; subst hc; cases h; exact post_ok_leaf hW rfl
  · split at h <;> (cases h; exact post_fail hW)


theorem eqv_var_of {σ a b x f g} (h1 : normF f σ (.tvar a) = some x) (h2 : normF g σ (.tvar b) = some x) :
    Eqv σ (.tvar a) (.tvar b) := ⟨f, g, x, x, h1, h2, agree_refl x⟩

theorem redirect_post {σ : Store} {nr old new} (hW : WF σ) (ho : UnboundRoot σ old) (hn : UnboundRoot σ new)
    (hne : old ≠ new) :
    Post σ (.tvar old) (.tvar new) (none, σ.redirect nr old new none) ∧
    Post σ (.tvar new) (.tvar old) (none, σ.redirect nr old new none) := by
  have e := redirect_eq (nr := nr) ho hn hne
  exact ⟨⟨redirect_wf hW hn hne, redirect_ext hW ho hn, fun _ => eqv_var_of e.1 e.2⟩,
         ⟨redirect_wf hW hn hne, redirect_ext hW ho hn, fun _ => eqv_var_of e.2 e.1⟩⟩

theorem varVarArm_post {σ a b res} (hW : WF σ) (ha : UnboundRoot σ a) (hb : UnboundRoot σ b)
    (h : varVarArm σ a b = some res) : Post σ (.tvar a) (.tvar b) res := by
  unfold varVarArm Store.unifyVarVar at h
  simp only [ha.1, hb.1] at h
  by_cases hab : a = b
  · subst hab
    simp [ok] at h; subst h
    have : normF 1 σ (.tvar a) = some (.tvar a) := by rw [normF_tvar]; simp [ha.1, ha.2]
    exact ⟨hW, Ext.refl hW, fun _ => eqv_var_of this this⟩
  · simp only [hab, if_false, ha.2, hb.2, combine] at h
    unfold Store.unifyRoots at h
    split at h
    · simp [ok] at h; subst h; exact (redirect_post hW hb ha (Ne.symm hab)).2
    · split at h
      · simp [ok] at h; subst h; exact (redirect_post hW ha hb hab).1
      · simp [ok] at h; subst h; exact (redirect_post hW ha hb hab).1

theorem bindArm_post {σ a t res k} (hW : WF σ) (ha : UnboundRoot σ a) (ht : normF k σ t = some t)
    (h : bindArm σ a t = some res) :
    WF res.2 ∧ Ext σ res.2 ∧ (res.1 = none → Eqv res.2 (.tvar a) t ∧ Eqv res.2 t (.tvar a)) := by
  unfold bindArm at h
  split at h
  · cases h; exact ⟨hW, Ext.refl hW, fun hn => by cases hn⟩
  · rename_i ho
    simp at ho
    rw [unifyVarValue_unbound ha] at h
    simp [ok] at h; subst h
    have e := bind_eq hW ha ht ho
    exact ⟨bind_wf hW, bind_ext hW ha ht ho,
      fun _ => ⟨⟨_, _, t, t, e.1, e.2, agree_refl t⟩, ⟨_, _, t, t, e.2, e.1, agree_refl t⟩⟩⟩

theorem unifyNorm_post {rec} (hrec : RecOk rec) {σ l r ln rn res f g} (hW : WF σ)
    (hl : normF f σ l = some ln) (hr : normF g σ r = some rn)
    (h : unifyNorm rec σ ln rn = some res) : Post σ ln rn res := by
  have fl := normF_idem hW _ _ _ hl
  have fr := normF_idem hW _ _ _ hr
  unfold unifyNorm at h
  split at h
  · rename_i a
    have ha : UnboundRoot σ a := normF_unbound hW _ _ _ a hl (by simp [occursOk])
    split at h
    · rename_i b
      have hb : UnboundRoot σ b := normF_unbound hW _ _ _ b hr (by simp [occursOk])
      exact varVarArm_post hW ha hb h
    · obtain ⟨w, e, q⟩ := bindArm_post hW ha fr h
      exact ⟨w, e, fun hn => (q hn).1⟩
  · split at h
    · rename_i b
      have hb : UnboundRoot σ b := normF_unbound hW _ _ _ b hr (by simp [occursOk])
      obtain ⟨w, e, q⟩ := bindArm_post hW hb fl h
      exact ⟨w, e, fun hn => (q hn).2⟩
    · exact unifyCtor_post hrec hW h

theorem Eqv.of_ext_norm {σ σ' l r ln rn f g} (hE : Ext σ σ') (hl : normF f σ l = some ln)
    (hr : normF g σ r = some rn) (h : Eqv σ' ln rn) : Eqv σ' l r := by
  obtain ⟨K, H⟩ := hE
  obtain ⟨x, hx1, hx2⟩ := H _ _ _ hl
  obtain ⟨y, hy1, hy2⟩ := H _ _ _ hr
  obtain ⟨f', g', x0, y0, hx0, hy0, ha⟩ := h
  cases normF_functional hx0 hx2
  cases normF_functional hy0 hy2
  exact ⟨_, _, _, _, hx1, hy1, ha⟩

/-- the invariant of every call of `unify` (any fuel, any outcome) -/
theorem unifyF_post : ∀ f, RecOk (unifyF f)
  | 0, _, _, _, _, _, h => by simp [unifyF] at h
  | f+1, σ, l, r, res, hW, h => by
    simp only [unifyF] at h
    cases hl : normF f σ l with
    | none => simp [hl] at h
    | some ln =>
      cases hr : normF f σ r with
      | none => simp [hl, hr] at h
      | some rn =>
        simp only [hl, hr] at h
        have P := unifyNorm_post (unifyF_post f) hW hl hr h
        exact ⟨P.wf, P.ext, fun hn => Eqv.of_ext_norm P.ext hl hr (P.eqv hn)⟩


/-! ## The theorems -/

/-- `t` has the normal form `x` in `σ` (with some fuel; the answer does not depend on it:
`normF_functional`) -/
def NF (σ : Store) (t x : Ty) : Prop := ∃ f, normF f σ t = some x

/-- **Soundness of `unify`.**  If `unify l r` returns `true`, leaving the store `σ'`, then `l` and `r`
have normal forms in `σ'` and these agree: they are equal up to array lengths one of which is
`ARRAY_WILDCARD_LEN`.  (Plain equality does not hold for the real code: `unify_sound_eq_fails`.) -/
theorem unify_sound {f σ l r σ'} (hW : WF σ) (h : unifyF f σ l r = some (none, σ')) :
    ∃ x y, NF σ' l x ∧ NF σ' r y ∧ agree x y = true := by
  obtain ⟨f1, g1, x, y, hx, hy, ha⟩ := (unifyF_post f σ l r _ hW h).eqv rfl
  exact ⟨x, y, ⟨f1, hx⟩, ⟨g1, hy⟩, ha⟩

/-- … and when neither normal form mentions the wildcard array length, `norm σ' l = norm σ' r`. -/
theorem unify_sound_eq {f σ l r σ' x y} (hW : WF σ) (h : unifyF f σ l r = some (none, σ'))
    (hx : NF σ' l x) (hy : NF σ' r y) (wx : noWild x = true) (wy : noWild y = true) : x = y := by
  obtain ⟨x', y', ⟨_, hx'⟩, ⟨_, hy'⟩, ha⟩ := unify_sound hW h
  obtain ⟨_, hx⟩ := hx
  obtain ⟨_, hy⟩ := hy
  cases normF_functional hx hx'
  cases normF_functional hy hy'
  exact agree_eq_of_noWild _ _ ha wx wy

/-- **`unify` only adds information**, whatever its outcome: an equation between normal forms that
held before the call still holds after it (also after a failing call, which keeps the bindings made
before the failure). -/
theorem unify_extends {f σ l r d σ'} (hW : WF σ) (h : unifyF f σ l r = some (d, σ')) :
    ∀ a b x, NF σ a x → NF σ b x → ∃ y, NF σ' a y ∧ NF σ' b y := by
  intro a b x ⟨_, ha⟩ ⟨_, hb⟩
  obtain ⟨K, H⟩ := (unifyF_post f σ l r _ hW h).ext
  obtain ⟨y, hy1, hy2⟩ := H _ _ _ ha
  obtain ⟨y', hy1', hy2'⟩ := H _ _ _ hb
  cases normF_functional hy2 hy2'
  exact ⟨y, ⟨_, hy1⟩, ⟨_, hy1'⟩⟩

/-- … in particular a type keeps being equal to its own earlier normal form -/
theorem unify_extends_norm {f σ l r d σ'} (hW : WF σ) (h : unifyF f σ l r = some (d, σ')) :
    ∀ t t', NF σ t t' → ∃ y, NF σ' t y ∧ NF σ' t' y := by
  intro t t' ⟨_, ht⟩
  obtain ⟨K, H⟩ := (unifyF_post f σ l r _ hW h).ext
  obtain ⟨y, hy1, hy2⟩ := H _ _ _ ht
  exact ⟨y, ⟨_, hy1⟩, ⟨_, hy2⟩⟩

/-- **The occurs check keeps the store acyclic**, for every outcome of `unify` (and the table stays a
valid union-find table). -/
theorem acyclic_invariant {f σ l r d σ'} (hW : WF σ) (hA : Acyclic σ) (h : unifyF f σ l r = some (d, σ')) :
    Acyclic σ' ∧ WF σ' :=
  have P := unifyF_post f σ l r _ hW h
  ⟨hA.of_ext P.ext, P.wf⟩

/-- `norm` is idempotent (same fuel suffices) -/
theorem norm_idempotent {f σ t t'} (hW : WF σ) (h : normF f σ t = some t') : normF f σ t' = some t' :=
  normF_idem hW f t t' h

/-- a normal form mentions only root keys that have no value -/
theorem norm_no_bound_var {f σ t t' v} (hW : WF σ) (h : normF f σ t = some t') (hv : occursOk v t' = false) :
    σ.rep v = v ∧ σ.val v = none :=
  normF_unbound hW f t t' v h hv

/-! ### `norm` terminates on an acyclic store -/

mutual
/-- **`norm` cannot loop on an acyclic store**: every type has a normal form. -/
theorem norm_total {σ} (hA : Acyclic σ) : ∀ t, ∃ x, NF σ t x
  | .tvar v => by obtain ⟨f, t, h⟩ := hA v; exact ⟨t, f, h⟩
  | .unit => ⟨_, 1, rfl⟩ | .bool => ⟨_, 1, rfl⟩ | .string => ⟨_, 1, rfl⟩
  | .int _ _ => ⟨_, 1, rfl⟩ | .float _ => ⟨_, 1, rfl⟩ | .enum _ => ⟨_, 1, rfl⟩ | .struct _ => ⟨_, 1, rfl⟩
  | .dyn _ => ⟨_, 1, rfl⟩ | .param _ => ⟨_, 1, rfl⟩
  | .tuple ts => by
    obtain ⟨f, xs, h⟩ := norm_totalL hA ts
    exact ⟨.tuple xs, f+1, by rw [normF_tuple, h]; rfl⟩
  | .app t args => by
    obtain ⟨x, f1, hx⟩ := norm_total hA t
    obtain ⟨f, xs, h⟩ := norm_totalL hA args
    exact ⟨.app x xs, max f f1 + 1, by
      rw [normF_app, normF_le hx (show f1 ≤ max f f1 by omega)]; simp [mapO_normF_le h (show f ≤ max f f1 by omega)]⟩
  | .array n e => by
    obtain ⟨x, f1, hx⟩ := norm_total hA e
    exact ⟨.array n x, f1+1, by rw [normF_array, hx]; rfl⟩
  | .vec e => by
    obtain ⟨x, f1, hx⟩ := norm_total hA e
    exact ⟨.vec x, f1+1, by rw [normF_vec, hx]; rfl⟩
  | .ref e => by
    obtain ⟨x, f1, hx⟩ := norm_total hA e
    exact ⟨.ref x, f1+1, by rw [normF_ref, hx]; rfl⟩
  | .func ps r => by
    obtain ⟨x, f1, hx⟩ := norm_total hA r
    obtain ⟨f, xs, h⟩ := norm_totalL hA ps
    exact ⟨.func xs x, max f f1 + 1, by
      rw [normF_func, mapO_normF_le h (show f ≤ max f f1 by omega)]; simp [normF_le hx (show f1 ≤ max f f1 by omega)]⟩
theorem norm_totalL {σ} (hA : Acyclic σ) : ∀ ts : List Ty, ∃ f xs, mapO (normF f σ) ts = some xs
  | [] => ⟨0, [], rfl⟩
  | t :: ts => by
    obtain ⟨x, f1, hx⟩ := norm_total hA t
    obtain ⟨f2, xs, hxs⟩ := norm_totalL hA ts
    exact ⟨max f1 f2, x :: xs, mapO_cons_some.2 ⟨x, xs, normF_le hx (by omega), mapO_normF_le hxs (by omega), rfl⟩⟩
end

/-! ### an explicit bound on the recursion depth of `norm` -/

mutual
/-- nesting depth of a type (leaves and variables have depth 0): `norm` on a type without bound
variables recurses exactly `depth t + 1` deep -/
def depth : Ty → Nat
  | .tuple ts => depthL ts + 1
  | .app t args => max (depth t) (depthL args) + 1
  | .array _ e => depth e + 1
  | .vec e => depth e + 1
  | .ref e => depth e + 1
  | .func ps r => max (depthL ps) (depth r) + 1
  | _ => 0
def depthL : List Ty → Nat
  | [] => 0
  | t :: ts => max (depth t) (depthL ts)
end

/-- `h` ranks the store: every variable inside the value of a root key has (through its root) a
smaller rank than that key.  A store has a ranking iff it is acyclic (`ranked_of_acyclic`,
`acyclic_of_ranked`). -/
def RankedBy (h : Nat → Nat) (σ : Store) : Prop :=
  ∀ r t, σ.rep r = r → σ.val r = some t → ∀ w, occursOk w t = false → h (σ.rep w) < h r

theorem occursOkL_cons_false {w t ts} : occursOkL w (t :: ts) = false ↔ occursOk w t = false ∨ occursOkL w ts = false := by
  cases h1 : occursOk w t <;> cases h2 : occursOkL w ts <;> simp [occursOkL, h1, h2]

mutual
theorem measT {σ : Store} {h : Nat → Nat} {K B : Nat}
    (Hvar : ∀ v, h (σ.rep v) < K → ∃ x, normF (B + 1) σ (.tvar v) = some x) :
    ∀ t, (∀ w, occursOk w t = false → h (σ.rep w) < K) → ∃ x, normF (depth t + B + 1) σ t = some x
  | .tvar v, H => by
    obtain ⟨x, hx⟩ := Hvar v (H v (by simp [occursOk]))
    exact ⟨x, normF_le hx (by simp [depth])⟩
  | .unit, _ => ⟨_, normF_leaf rfl _ _⟩ | .bool, _ => ⟨_, normF_leaf rfl _ _⟩ | .string, _ => ⟨_, normF_leaf rfl _ _⟩
  | .int _ _, _ => ⟨_, normF_leaf rfl _ _⟩ | .float _, _ => ⟨_, normF_leaf rfl _ _⟩ | .enum _, _ => ⟨_, normF_leaf rfl _ _⟩
  | .struct _, _ => ⟨_, normF_leaf rfl _ _⟩ | .dyn _, _ => ⟨_, normF_leaf rfl _ _⟩ | .param _, _ => ⟨_, normF_leaf rfl _ _⟩
  | .tuple ts, H => by
    obtain ⟨xs, hxs⟩ := measL Hvar ts (fun w hw => H w (by simpa [occursOk] using hw))
    refine ⟨.tuple xs, ?_⟩
    have e : depth (.tuple ts) + B + 1 = (depthL ts + B + 1) + 1 := by simp [depth]; omega
    rw [e, normF_tuple, hxs]; rfl
  | .app t args, H => by
    obtain ⟨x, hx⟩ := measT Hvar t (fun w hw => H w (by simp [occursOk, hw]))
    obtain ⟨xs, hxs⟩ := measL Hvar args (fun w hw => H w (by simp [occursOk, hw]))
    refine ⟨.app x xs, ?_⟩
    have e : depth (.app t args) + B + 1 = (max (depth t) (depthL args) + B + 1) + 1 := by simp [depth]; omega
    rw [e, normF_app, normF_le hx (by omega)]
    simp [mapO_normF_le hxs (show depthL args + B + 1 ≤ max (depth t) (depthL args) + B + 1 by omega)]
  | .array n e, H => by
    obtain ⟨x, hx⟩ := measT Hvar e (fun w hw => H w (by simpa [occursOk] using hw))
    refine ⟨.array n x, ?_⟩
    have e' : depth (.array n e) + B + 1 = (depth e + B + 1) + 1 := by simp [depth]; omega
    rw [e', normF_array, hx]; rfl
  | .vec e, H => by
    obtain ⟨x, hx⟩ := measT Hvar e (fun w hw => H w (by simpa [occursOk] using hw))
    refine ⟨.vec x, ?_⟩
    have e' : depth (.vec e) + B + 1 = (depth e + B + 1) + 1 := by simp [depth]; omega
    rw [e', normF_vec, hx]; rfl
  | .ref e, H => by
    obtain ⟨x, hx⟩ := measT Hvar e (fun w hw => H w (by simpa [occursOk] using hw))
    refine ⟨.ref x, ?_⟩
    have e' : depth (.ref e) + B + 1 = (depth e + B + 1) + 1 := by simp [depth]; omega
    rw [e', normF_ref, hx]; rfl
  | .func ps r, H => by
    obtain ⟨x, hx⟩ := measT Hvar r (fun w hw => H w (by simp [occursOk, hw]))
    obtain ⟨xs, hxs⟩ := measL Hvar ps (fun w hw => H w (by simp [occursOk, hw]))
    refine ⟨.func xs x, ?_⟩
    have e : depth (.func ps r) + B + 1 = (max (depthL ps) (depth r) + B + 1) + 1 := by simp [depth]; omega
    rw [e, normF_func, mapO_normF_le hxs (show depthL ps + B + 1 ≤ max (depthL ps) (depth r) + B + 1 by omega)]
    simp [normF_le hx (show depth r + B + 1 ≤ max (depthL ps) (depth r) + B + 1 by omega)]
theorem measL {σ : Store} {h : Nat → Nat} {K B : Nat}
    (Hvar : ∀ v, h (σ.rep v) < K → ∃ x, normF (B + 1) σ (.tvar v) = some x) :
    ∀ ts, (∀ w, occursOkL w ts = false → h (σ.rep w) < K) → ∃ xs, mapO (normF (depthL ts + B + 1) σ) ts = some xs
  | [], _ => ⟨[], rfl⟩
  | t :: ts, H => by
    obtain ⟨x, hx⟩ := measT Hvar t (fun w hw => H w (occursOkL_cons_false.2 (.inl hw)))
    obtain ⟨xs, hxs⟩ := measL Hvar ts (fun w hw => H w (occursOkL_cons_false.2 (.inr hw)))
    exact ⟨x :: xs, mapO_cons_some.2 ⟨x, xs, normF_le hx (by simp [depthL]; omega),
      mapO_normF_le hxs (by simp [depthL]; omega), rfl⟩⟩
end

/-- a variable of rank below `K` normalises within `K * (D+1) + 1` steps, `D` bounding the depth of
every stored value -/
theorem ranked_var {σ : Store} {h : Nat → Nat} {D : Nat} (hW : WF σ) (hR : RankedBy h σ)
    (hD : ∀ r t, σ.val r = some t → depth t ≤ D) :
    ∀ K v, h (σ.rep v) < K → ∃ x, normF (K * (D+1) + 1) σ (.tvar v) = some x
  | 0, _, hv => by cases hv
  | K+1, v, hv => by
    have IH := ranked_var hW hR hD K
    cases hs : σ.val (σ.rep v) with
    | none => exact ⟨_, by rw [normF_tvar, hs]⟩
    | some s =>
      have hvars : ∀ w, occursOk w s = false → h (σ.rep w) < K := fun w hw => by
        have := hR _ _ (hW v) hs w hw; omega
      obtain ⟨x, hx⟩ := measT (B := K * (D+1)) IH s hvars
      have hd := hD _ _ hs
      refine ⟨x, ?_⟩
      rw [normF_tvar, hs]
      exact normF_le hx (by rw [Nat.succ_mul]; omega)

/-- **`norm` terminates within an explicit number of nested calls.**  On a store ranked by `h` with
ranks below `H` and stored values of depth at most `D`, `norm t` returns using at most
`depth t + H * (D+1) + 1` nested calls — so the real `norm` cannot overflow the stack on such a store. -/
theorem norm_terminates {σ : Store} {h : Nat → Nat} {H D : Nat} (hW : WF σ) (hR : RankedBy h σ)
    (hH : ∀ v, h v < H) (hD : ∀ r t, σ.val r = some t → depth t ≤ D) :
    ∀ t, ∃ x, normF (depth t + H * (D+1) + 1) σ t = some x :=
  fun t => measT (K := H) (ranked_var hW hR hD H) t (fun _ _ => hH _)

theorem acyclic_of_ranked {σ : Store} {h : Nat → Nat} {D : Nat} (hW : WF σ) (hR : RankedBy h σ)
    (hD : ∀ r t, σ.val r = some t → depth t ≤ D) : Acyclic σ :=
  fun v => let ⟨x, hx⟩ := ranked_var hW hR hD (h (σ.rep v) + 1) v (Nat.lt_succ_self _); ⟨_, x, hx⟩

/-- a variable inside a type that normalises with fuel `f` normalises with fuel `f` itself -/
theorem normF_var_inside {σ} : ∀ f t x w, normF f σ t = some x → occursOk w t = false → ∃ y, normF f σ (.tvar w) = some y
  | 0, _, _, _, h, _ => by simp at h
  | f+1, t, x, w, h, ho => by
    have IH := normF_var_inside (σ := σ) f
    have IHL : ∀ xs ys, mapO (normF f σ) xs = some ys → occursOkL w xs = false → ∃ y, normF (f+1) σ (.tvar w) = some y := by
      intro xs ys hm hf
      obtain ⟨t, ht, hto⟩ := occursOkL_false hf
      have : ∃ z, normF f σ t = some z := by
        clear hf hto
        induction xs generalizing ys with
        | nil => cases ht
        | cons a as ih =>
          obtain ⟨y, ys', h1, h2, _⟩ := mapO_cons_some.1 hm
          rcases List.mem_cons.1 ht with rfl | ht
          · exact ⟨y, h1⟩
          · exact ih _ h2 ht
      obtain ⟨z, hz⟩ := this
      obtain ⟨y, hy⟩ := IH _ _ _ hz hto
      exact ⟨y, normF_mono1 _ _ _ _ hy⟩
    have up : ∀ u z, normF f σ u = some z → occursOk w u = false → ∃ y, normF (f+1) σ (.tvar w) = some y :=
      fun u z hz hu => let ⟨y, hy⟩ := IH _ _ _ hz hu; ⟨y, normF_mono1 _ _ _ _ hy⟩
    rcases normF_succ_cases h with ⟨v, u, rfl, hv, hu⟩ | ⟨v, rfl, hv, rfl⟩ | ⟨ts, ts', rfl, hm, rfl⟩ |
      ⟨u, args, u', args', rfl, hu, hm, rfl⟩ | ⟨n, e, e', rfl, he, rfl⟩ | ⟨e, e', rfl, he, rfl⟩ |
      ⟨e, e', rfl, he, rfl⟩ | ⟨ps, r, ps', r', rfl, hm, hr, rfl⟩ | ⟨hl, rfl⟩
    · simp [occursOk] at ho; subst ho; exact ⟨_, h⟩
    · simp [occursOk] at ho; subst ho; exact ⟨_, h⟩
    · simp only [occursOk] at ho; exact IHL _ _ hm ho
    · simp only [occursOk, Bool.and_eq_false_iff] at ho
      rcases ho with ho | ho
      · exact up _ _ hu ho
      · exact IHL _ _ hm ho
    · simp only [occursOk] at ho; exact up _ _ he ho
    · simp only [occursOk] at ho; exact up _ _ he ho
    · simp only [occursOk] at ho; exact up _ _ he ho
    · simp only [occursOk, Bool.and_eq_false_iff] at ho
      rcases ho with ho | ho
      · exact IHL _ _ hm ho
      · exact up _ _ hr ho
    · rw [occursOk_leaf hl] at ho; cases ho

theorem exists_least {p : Nat → Prop} (h : ∃ n, p n) : ∃ n, p n ∧ ∀ m, m < n → ¬ p m := by
  obtain ⟨n, hn⟩ := h
  induction n using Nat.strongRecOn with
  | _ n ih =>
    by_cases hex : ∃ m, m < n ∧ p m
    · obtain ⟨m, hm, hpm⟩ := hex
      exact ih m hm hpm
    · exact ⟨n, hn, fun m hm hpm => hex ⟨m, hm, hpm⟩⟩

/-- `norm ?v` and `norm ?(find v)` take the same number of calls -/
theorem normF_tvar_rep {σ} (hW : WF σ) (f v) : normF f σ (.tvar (σ.rep v)) = normF f σ (.tvar v) := by
  cases f with
  | zero => simp
  | succ f => rw [normF_tvar, normF_tvar, hW v]

/-- an acyclic store has a ranking: the number of nested calls `norm ?v` takes -/
theorem ranked_of_acyclic {σ} (hW : WF σ) (hA : Acyclic σ) : ∃ h, RankedBy h σ := by
  have L : ∀ v, ∃ n, (∃ x, normF n σ (.tvar v) = some x) ∧ ∀ m, m < n → ¬ ∃ x, normF m σ (.tvar v) = some x :=
    fun v => exists_least (let ⟨f, t, h⟩ := hA v; ⟨f, t, h⟩)
  refine ⟨fun v => Classical.choose (L v), fun r t hr hv w hw => ?_⟩
  show Classical.choose (L (σ.rep w)) < Classical.choose (L r)
  obtain ⟨⟨x, hx⟩, _⟩ := Classical.choose_spec (L r)
  obtain ⟨_, hmin⟩ := Classical.choose_spec (L (σ.rep w))
  generalize Classical.choose (L r) = n at hx ⊢
  generalize Classical.choose (L (σ.rep w)) = k at hmin ⊢
  cases n with
  | zero => simp at hx
  | succ n =>
    rw [normF_tvar, hr, hv] at hx
    obtain ⟨y, hy⟩ := normF_var_inside n t x w hx hw
    rw [← normF_tvar_rep hW] at hy
    by_cases hk : k < n + 1
    · exact hk
    · exact absurd ⟨y, hy⟩ (hmin n (by omega))

/-- **`norm` on an acyclic store**: a ranking exists, and any bounds `H` on the ranks and `D` on the
depth of stored values give the explicit bound `depth t + H * (D+1) + 1` on the nesting of calls. -/
theorem norm_terminates_acyclic {σ} (hW : WF σ) (hA : Acyclic σ) :
    ∃ h, RankedBy h σ ∧ ∀ H D, (∀ v, h v < H) → (∀ r t, σ.val r = some t → depth t ≤ D) →
      ∀ t, ∃ x, normF (depth t + H * (D+1) + 1) σ t = some x := by
  obtain ⟨h, hR⟩ := ranked_of_acyclic hW hA
  exact ⟨h, hR, fun _ _ hH hD => norm_terminates hW hR hH hD⟩

/-! ### the stores the typer can reach -/

theorem empty_wf : WF Store.empty := fun _ => rfl
theorem empty_acyclic : Acyclic Store.empty := fun v => ⟨1, .tvar v, by rw [normF_tvar]; rfl⟩
theorem fresh_wf {σ} (h : WF σ) : WF σ.fresh := h
/-- `norm` reads `rep` and `val` only -/
theorem normF_congr {σ τ : Store} (h1 : σ.rep = τ.rep) (h2 : σ.val = τ.val) : ∀ f, normF f σ = normF f τ
  | 0 => by funext t; simp
  | f+1 => by
    have IH := normF_congr h1 h2 f
    funext t
    cases t with
    | tvar v => rw [normF_tvar, normF_tvar, IH, h1, h2]
    | tuple ts => rw [normF_tuple, normF_tuple, IH]
    | app t args => rw [normF_app, normF_app, IH]
    | array n e => rw [normF_array, normF_array, IH]
    | vec e => rw [normF_vec, normF_vec, IH]
    | ref e => rw [normF_ref, normF_ref, IH]
    | func ps r => rw [normF_func, normF_func, IH]
    | _ => simp
theorem fresh_acyclic {σ} (h : Acyclic σ) : Acyclic σ.fresh := fun v => by
  obtain ⟨f, t, ht⟩ := h v
  exact ⟨f, t, by rw [normF_congr (σ := σ.fresh) (τ := σ) rfl rfl]; exact ht⟩

/-- a store built from the empty table by `new_key` and (returning) calls of `unify` -/
inductive Reachable : Store → Prop
  | empty : Reachable Store.empty
  | fresh {σ} : Reachable σ → Reachable σ.fresh
  | unify {σ f l r d σ'} : Reachable σ → unifyF f σ l r = some (d, σ') → Reachable σ'

/-- **Every reachable store is acyclic** (so `norm`, `subst_ty`, … terminate on it: `norm_total`). -/
theorem reachable_acyclic {σ} (h : Reachable σ) : WF σ ∧ Acyclic σ := by
  induction h with
  | empty => exact ⟨empty_wf, empty_acyclic⟩
  | fresh _ ih => exact ⟨fresh_wf ih.1, fresh_acyclic ih.2⟩
  | unify _ hu ih => exact (acyclic_invariant ih.1 ih.2 hu).symm


/-! ### completeness, as far as it holds -/

theorem unifyList_refl {rec : Store → Ty → Ty → Res} {σ} :
    ∀ ts : List Ty, (∀ t, t ∈ ts → rec σ t t = some (none, σ)) → unifyList rec σ ts ts = some (none, σ)
  | [], _ => rfl
  | t :: ts, H => by
    simp only [unifyList, H t (by simp)]
    exact unifyList_refl ts (fun u hu => H u (by simp [hu]))

/-- a normal form unifies with itself, with the fuel that normalises it plus one, and the store is
left as it was -/
theorem unifyF_refl {σ} (hW : WF σ) : ∀ f x, normF f σ x = some x → unifyF (f+1) σ x x = some (none, σ)
  | 0, _, h => by simp at h
  | f+1, x, h => by
    have IH := unifyF_refl hW f
    have IHL : ∀ ts, mapO (normF f σ) ts = some ts → unifyList (unifyF (f+1)) σ ts ts = some (none, σ) :=
      fun ts hm => unifyList_refl ts (fun t ht => IH t (mapO_fix_mem hm ht))
    have hu : unifyF (f+2) σ x x = unifyNorm (unifyF (f+1)) σ x x := by simp [unifyF, h]
    rw [hu]
    rcases normF_succ_cases h with ⟨v, u, rfl, hv, hu⟩ | ⟨v, rfl, hv, e⟩ | ⟨ts, ts', rfl, hm, e⟩ |
      ⟨u, args, u', args', rfl, hu, hm, e⟩ | ⟨n, e1, e', rfl, he, e⟩ | ⟨e1, e', rfl, he, e⟩ |
      ⟨e1, e', rfl, he, e⟩ | ⟨ps, r, ps', r', rfl, hm, hr, e⟩ | ⟨hl, _⟩
    · have hub := normF_unbound hW f _ _ v hu (by simp [occursOk])
      rw [hub.1, hub.2] at hv; cases hv
    · simp [unifyNorm, varVarArm, Store.unifyVarVar, ok]
    · injection e with e; subst e
      simp only [unifyNorm, unifyCtor]; simp [IHL _ hm]
    · injection e with e1 e2; subst e1; subst e2
      simp only [unifyNorm, unifyCtor]; simp [IH _ hu, IHL _ hm]
    · injection e with e1 e2; subst e2
      simp only [unifyNorm, unifyCtor]; simp [IH _ he]
    · injection e with e1; subst e1
      simp only [unifyNorm, unifyCtor]; simp [IH _ he]
    · injection e with e1; subst e1
      simp only [unifyNorm, unifyCtor]; simp [IH _ he]
    · injection e with e1 e2; subst e1; subst e2
      simp only [unifyNorm, unifyCtor]; simp [IHL _ hm, IH _ hr]
    · cases x <;> simp_all [isLeaf, unifyNorm, unifyCtor, ok]

/-- **Completeness, partial.**  Two types that already have the same normal form unify (given fuel),
and the call leaves the store exactly as it was.  What is missing for full completeness — "if some
substitution extending `σ` unifies `l` and `r` then `unify` does not fail" — is false for the real
code as it stands (`incomplete_nullary_app`, rigid `TParam`s) and is not proved for the remaining
fragment. -/
theorem unify_complete_partial {σ l r x} (hW : WF σ) (hl : NF σ l x) (hr : NF σ r x) :
    ∃ f, unifyF f σ l r = some (none, σ) := by
  obtain ⟨f1, h1⟩ := hl
  obtain ⟨f2, h2⟩ := hr
  have a1 := normF_le h1 (Nat.le_max_left f1 f2)
  have a2 := normF_le h2 (Nat.le_max_right f1 f2)
  have fx := normF_idem hW _ _ _ a1
  refine ⟨max f1 f2 + 1, ?_⟩
  have := unifyF_refl hW _ _ fx
  simp only [unifyF, fx] at this
  simp only [unifyF, a1, a2]
  exact this

/-! ### the constraint loop on `TypeEqual` constraints -/

/-- the invariant of the pass: well-formedness, refinement, and every constraint whose `unify`
returned `true` holds in the FINAL store -/
theorem solveEqs_post {f} : ∀ σ cs ds σ', WF σ → solveEqs f σ cs = some (ds, σ') →
    WF σ' ∧ Ext σ σ' ∧ (ds = [] → ∀ c, c ∈ cs → Eqv σ' c.1 c.2)
  | σ, [], ds, σ', hW, h => by
    simp [solveEqs] at h
    obtain ⟨rfl, rfl⟩ := h
    exact ⟨hW, Ext.refl hW, fun _ c hc => by cases hc⟩
  | σ, (l, r) :: cs, ds, σ', hW, h => by
    simp only [solveEqs] at h
    cases hu : unifyF f σ l r with
    | none => simp [hu] at h
    | some res =>
      obtain ⟨d, σ1⟩ := res
      have P := unifyF_post f σ l r _ hW hu
      cases hs : solveEqs f σ1 cs with
      | none => simp [hu, hs] at h
      | some res2 =>
        obtain ⟨ds2, σ2⟩ := res2
        simp [hu, hs] at h
        obtain ⟨hds, rfl⟩ := h
        obtain ⟨w2, e2, q2⟩ := solveEqs_post σ1 cs ds2 σ2 P.wf hs
        refine ⟨w2, P.ext.trans e2, fun hnil c hc => ?_⟩
        cases d with
        | some d => simp [← hds] at hnil
        | none =>
          have hds2 : ds2 = [] := by simpa [← hds] using hnil
          rcases List.mem_cons.1 hc with rfl | hc
          · exact (P.eqv rfl).transport e2
          · exact q2 hds2 c hc

/-- **If solving the equality constraints pushes no diagnostic, the final store satisfies every one
of them** (normal forms agree), it refines the initial store, and it is acyclic if the initial one was. -/
theorem solve_type_equal_sound {f σ cs σ'} (hW : WF σ) (hA : Acyclic σ) (h : solveEqs f σ cs = some ([], σ')) :
    (∀ c, c ∈ cs → ∃ x y, NF σ' c.1 x ∧ NF σ' c.2 y ∧ agree x y = true) ∧ Acyclic σ' ∧ WF σ' := by
  obtain ⟨w, e, q⟩ := solveEqs_post σ cs [] σ' hW h
  refine ⟨fun c hc => ?_, hA.of_ext e, w⟩
  obtain ⟨f1, g1, x, y, hx, hy, ha⟩ := q rfl c hc
  exact ⟨x, y, ⟨f1, hx⟩, ⟨g1, hy⟩, ha⟩

/-- … and with diagnostics the store is still acyclic (later phases normalise types of rejected
programs too) -/
theorem solve_type_equal_acyclic {f σ cs ds σ'} (hW : WF σ) (hA : Acyclic σ) (h : solveEqs f σ cs = some (ds, σ')) :
    Acyclic σ' ∧ WF σ' :=
  let ⟨w, e, _⟩ := solveEqs_post σ cs ds σ' hW h
  ⟨hA.of_ext e, w⟩

/-! ## Non-vacuity, and what the real code does NOT guarantee -/

section Examples

def s3 : Store := Store.empty.fresh.fresh.fresh
def W : Nat := Gen.arrayWildcardLen

/-- an alias chain followed by knot-tying: `?0 ~ ?1`, then `?1 ~ Vec[?0]` is refused by the occurs
check THROUGH the alias (the seeded change `C04-occurs-check-alias` made `norm` return the variable
instead of its root: the check then passed and the store became cyclic) -/
example : (do let (_, σ1) ← unifyF 9 s3 (.tvar 0) (.tvar 1)
              let (d, _) ← unifyF 9 σ1 (.tvar 1) (.vec (.tvar 0))
              pure d) = some (some Diag.occurs) := by decide

/-- a successful deep unification that binds two variables; hypotheses of `unify_sound` hold -/
example : ∃ σ', unifyF 9 s3 (.tuple [.tvar 0, .func [.tvar 1] (.int 32 true)])
                            (.tuple [.vec (.tvar 1), .func [.string] (.int 32 true)]) = some (none, σ') ∧
    normF 9 σ' (.tvar 0) = some (.vec .string) := ⟨_, rfl, rfl⟩

example : WF s3 ∧ Acyclic s3 := reachable_acyclic (.fresh (.fresh (.fresh .empty)))

/-- a failing call keeps the bindings made before the failure (`unify_extends` and
`acyclic_invariant` are stated for every outcome for that reason) -/
example : ∃ σ', unifyF 9 s3 (.tuple [.tvar 0, .bool]) (.tuple [.string, .unit]) = some (some .notEqual, σ') ∧
    normF 9 σ' (.tvar 0) = some .string := ⟨_, rfl, rfl⟩

/-- a store with a cycle: `?0 ↦ Vec[?0]` -/
def knot : Store := { Store.empty with n := 1, val := upd (fun _ => none) 0 (some (.vec (.tvar 0))) }

theorem knot_loops : ∀ f, normF f knot (.tvar 0) = none ∧ normF f knot (.vec (.tvar 0)) = none
  | 0 => by simp
  | f+1 => by
    obtain ⟨h1, h2⟩ := knot_loops f
    constructor
    · rw [normF_tvar]; simpa [knot, upd, Store.empty] using h2
    · rw [normF_vec, h1]; rfl

/-- `Acyclic` is not vacuous: on the knot no fuel suffices, i.e. the real `norm` would not return -/
theorem cyclic_store_not_acyclic : ¬ Acyclic knot := by
  intro h
  obtain ⟨f, t, ht⟩ := h 0
  rw [(knot_loops f).1] at ht
  cases ht

/-- … hence the knot is not reachable by `new_key` and `unify` -/
example : ¬ Reachable knot := fun h => cyclic_store_not_acyclic (reachable_acyclic h).2

/-- **Plain equality of the normal forms is NOT what the real `unify` establishes**: an array of the
wildcard length unifies with an array of length 3 and nothing is bound; the two normal forms differ.
(Replayed on the real code by the tie: the scripts of `gv unify` contain wildcard lengths.) -/
theorem unify_sound_eq_fails :
    ∃ σ', unifyF 9 s3 (.array W .bool) (.array 3 .bool) = some (none, σ') ∧
      normF 9 σ' (.array W .bool) = some (.array W .bool) ∧ normF 9 σ' (.array 3 .bool) = some (.array 3 .bool) ∧
      W ≠ 3 := ⟨_, rfl, rfl, rfl, by decide⟩

/-- … and because agreement is not transitive the outcome depends on the ORDER of the constraints:
with `?0 := [bool; W]` first, both `?0 ~ [bool; 3]` and `?0 ~ [bool; 4]` succeed; with
`?0 := [bool; 3]` first, `?0 ~ [bool; 4]` fails. -/
theorem wildcard_order_dependence :
    (do let (_, σ1) ← unifyF 9 s3 (.tvar 0) (.array W .bool)
        let (d2, σ2) ← unifyF 9 σ1 (.tvar 0) (.array 3 .bool)
        let (d3, _) ← unifyF 9 σ2 (.tvar 0) (.array 4 .bool)
        pure (d2, d3)) = some (none, none) ∧
    (do let (_, σ1) ← unifyF 9 s3 (.tvar 0) (.array 3 .bool)
        let (d2, σ2) ← unifyF 9 σ1 (.tvar 0) (.array W .bool)
        let (d3, _) ← unifyF 9 σ2 (.tvar 0) (.array 4 .bool)
        pure (d2, d3)) = some (none, some .arrayLen) := by decide

/-- **Incompleteness of the real `unify`** (it fails although the two sides denote the same type):
a nullary application `E[]` against the bare constructor `E` falls to the `_` arm. -/
theorem incomplete_nullary_app :
    (unifyF 9 s3 (.app (.enum "E") []) (.enum "E")).map (·.1) = some (some .notEqual) := by decide

/-- rigid type parameters: `T` against a variable binds the variable; against anything else fails -/
example : (unifyF 9 s3 (.param "T") (.int 32 true)).map (·.1) = some (some .paramConcrete) ∧
          (unifyF 9 s3 (.param "T") (.param "U")).map (·.1) = some (some .paramName) ∧
          (unifyF 9 s3 (.param "T") (.tvar 0)).map (·.1) = some none := by decide

/-- `dyn` types are nominal: equal trait names or `dyn-name` -/
example : (unifyF 9 s3 (.dyn "A") (.dyn "B")).map (·.1) = some (some .dynName) ∧
          (unifyF 9 s3 (.dyn "A") (.dyn "A")).map (·.1) = some none := by decide

/-- the pass goes on after a failing constraint and reports the failures in order -/
example : (solveEqs 9 s3 [(.tvar 0, .bool), (.tvar 0, .string), (.tvar 1, .vec (.tvar 0)), (.tvar 1, .vec .unit)]).map (·.1)
    = some [.notEqual, .notEqual] := by decide

/-- the hypotheses of `norm_terminates` on a concrete store: `?0 ↦ Vec[?1]`, ranks 1 and 0 -/
example : RankedBy (fun v => if v = 0 then 1 else 0) (s3.bind 0 (.vec (.tvar 1))) ∧
    (∀ v, (fun v => if v = 0 then 1 else 0) v < 2) ∧
    (∀ r t, (s3.bind 0 (.vec (.tvar 1))).val r = some t → depth t ≤ 1) := by
  refine ⟨?_, ?_, ?_⟩
  · intro r t _ hv w hw
    simp only [Store.bind, upd, s3, Store.fresh, Store.empty] at hv
    split at hv
    · rename_i hr0; subst hr0
      cases hv
      simp [occursOk] at hw; subst hw
      simp [Store.bind, s3, Store.fresh, Store.empty]
    · cases hv
  · intro v; simp only; split <;> omega
  · intro r t hv
    simp only [Store.bind, upd, s3, Store.fresh, Store.empty] at hv
    split at hv
    · cases hv; simp [depth]
    · cases hv

end Examples

end Goml.Unify
