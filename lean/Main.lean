import GomlVerif.Driver.C05
import GomlVerif.Driver.C13
import GomlVerif.Driver.C15
import GomlVerif.Driver.C16

def main (args : List String) : IO UInt32 := do
  match args with
  | ["c05"] => Goml.Driver.C05.main; return 0
  | ["c13"] => Goml.Driver.C13.main; return 0
  | ["c15"] => Goml.Driver.C15.main; return 0
  | ["c16"] => Goml.Driver.C16.main; return 0
  | _ => IO.eprintln "usage: gomlmodel <c05|…> < lines"; return 2
