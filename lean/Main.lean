import GomlVerif.Driver.C04
import GomlVerif.Driver.C05
import GomlVerif.Driver.C15
import GomlVerif.Driver.C20

def main (args : List String) : IO UInt32 := do
  match args with
  | ["c04"] => Goml.Driver.C04.main; return 0
  | ["c05"] => Goml.Driver.C05.main; return 0
  | ["c15"] => Goml.Driver.C15.main; return 0
  | ["c20"] => Goml.Driver.C20.main; return 0
  | _ => IO.eprintln "usage: gomlmodel <c05|…> < lines"; return 2
