import GomlVerif.Driver.C04
import GomlVerif.Driver.C05
import GomlVerif.Driver.C08
import GomlVerif.Driver.C06
import GomlVerif.Driver.C10
import GomlVerif.Driver.C12
import GomlVerif.Driver.C15
import GomlVerif.Driver.C20
import GomlVerif.Driver.SemRun
import GomlVerif.Driver.GoCheckRun
import GomlVerif.Driver.C11
import GomlVerif.Driver.C19
import GomlVerif.Driver.C13
import GomlVerif.Driver.C16
import GomlVerif.Driver.SrcRun
import GomlVerif.Driver.C18
import GomlVerif.Driver.C14
import GomlVerif.Driver.C07
import GomlVerif.Driver.C03
import GomlVerif.Driver.C03pres
import GomlVerif.Driver.Dce
import GomlVerif.Driver.C09
import GomlVerif.Driver.GoComp
import GomlVerif.Driver.C01pipe
import GomlVerif.Driver.TSound
import GomlVerif.Driver.Unify
import GomlVerif.Driver.Solve
import GomlVerif.Driver.Infer
import GomlVerif.Driver.GoPP
import GomlVerif.Driver.GoLex
import GomlVerif.Driver.Grammar
import GomlVerif.Driver.Lower

def main (args : List String) : IO UInt32 := do
  match args with
  | ["c04"] => Goml.Driver.C04.main; return 0
  | ["c05"] => Goml.Driver.C05.main; return 0
  | ["c08"] => Goml.Driver.C08.main; return 0
  | ["c08sim"] => Goml.Driver.C08.mainSim; return 0
  | ["c06"] => Goml.Driver.C06.main; return 0
  | ["c10"] => Goml.Driver.C10.main; return 0
  | ["c12"] => Goml.Driver.C12.main; return 0
  | ["grammar"] => Goml.Driver.Grammar.main; return 0
  | ["c15"] => Goml.Driver.C15.main; return 0
  | ["c20"] => Goml.Driver.C20.main; return 0
  | ["sem"] => Goml.Driver.SemRun.main; return 0
  | ["gocheck"] => Goml.Driver.GoCheckRun.main; return 0
  | ["c11"] => Goml.Driver.C11.main; return 0
  | ["c17"] => Goml.Driver.C19.main; return 0
  | ["c19"] => Goml.Driver.C19.main; return 0
  | ["c13"] => Goml.Driver.C13.main; return 0
  | ["c16"] => Goml.Driver.C16.main; return 0
  | ["srcsem"] => Goml.Driver.SrcRun.main; return 0
  | ["c18"] => Goml.Driver.C18.main; return 0
  | ["c14"] => Goml.Driver.C14.main; return 0
  | ["c07"] => Goml.Driver.C07.main; return 0
  | ["c03"] => Goml.Driver.C03.main; return 0
  | ["c03pres"] => Goml.Driver.C03pres.main; return 0
  | ["c03presmatch"] => Goml.Driver.C03pres.mainMatch; return 0
  | ["dce"] => Goml.Driver.Dce.main; return 0
  | ["c09"] => Goml.Driver.C09.main; return 0
  | ["gocomp"] => Goml.Driver.GoComp.main; return 0
  | ["c01pipe"] => Goml.Driver.C01pipe.main; return 0
  | ["tsound"] => Goml.Driver.TSound.main; return 0
  | ["unify"] => Goml.Driver.Unify.main; return 0
  | ["solve"] => Goml.Driver.Solve.main; return 0
  | ["infer"] => Goml.Driver.Infer.main; return 0
  | ["gopp"] => Goml.Driver.GoPP.main; return 0
  | ["golex"] => Goml.Driver.GoLexD.main; return 0
  | ["lower"] => Goml.Driver.Lower.main; return 0
  | _ => IO.eprintln "usage: gomlmodel <c05|…> < lines"; return 2
