#!/usr/bin/env python3
"""One-off helper for the non-vacuity examples of Props/C01pipe.lean: converts the REAL Core dump (+ genv type
definitions) of the witness programs under corpus/C01pipe, as written by `gv c01` into
.cache/run/C01/c01.cases.tsv, into Lean terms (lean/GomlVerif/Lemmas/PipeExamples.lean).  The Gensym start is
the one `gomlmodel c01pipe` recovers (given on the command line: name=N).
Usage: tools/c01pipe_examples.py closure-generic-match=3 closure-ref-loop-panic=4 generic-struct-closure-tuple=6 e2e-closure-generic-struct-panic=2"""
import os, sys
sys.path.insert(0, os.path.dirname(os.path.abspath(__file__)))
from c08_examples import parse, a, lstr, ty, params, expr as expr08, exprs
import c08_examples as E
VERIF = os.path.dirname(os.path.dirname(os.path.abspath(__file__)))

def expr(e):
    if e[0] == "traitcall":
        return f"(.traitCall {lstr(a(e[1]))} {lstr(a(e[2]))} {ty(e[3])} {expr(e[4])} {exprs(e[5:])})"
    return expr08(e)
E.expr = expr   # the converter recurses through the module-level name

def strs(xs):
    return "[" + ", ".join(lstr(a(x)) for x in xs) + "]"

def fn(f):
    return (f"{{ name := {lstr(a(f[1]))}, generics := {strs(f[2])}, params := {params(f[3])}, ret := {ty(f[4])},\n"
            f"    body := {E.expr(f[5])} }}")

def main():
    want = [w.split("=") for w in sys.argv[1:]]
    rows = [l.rstrip("\n").split("\t") for l in open(os.path.join(VERIF, ".cache/run/C01/c01.cases.tsv"), encoding="utf-8", errors="replace")]
    out = ["import GomlVerif.Model.Pipeline",
           "/-! REAL Core dumps (input of `mono::mono`) and `genv` type definitions of the witness programs under",
           "    corpus/C01pipe, converted by tools/c01pipe_examples.py -/",
           "namespace Goml.Pipeline.Examples", "open Goml", ""]
    for k, (w, g) in enumerate(want):
        pid = f"corpus:C01pipe/{w}.gom"
        core = next(r[3] for r in rows if r[0] == pid and r[1] == "STAGE" and r[2] == "core")
        genv = next(r[2] for r in rows if r[0] == pid and r[1] == "GENV")
        sx, gx = parse(core), parse(genv)
        file, impls = sx[1], sx[2]
        enums, structs = gx[1], gx[2]
        ed = "[" + ", ".join(f"{{ name := {lstr(a(e[1]))}, generics := {strs(e[2])}, variants := [" +
                             ", ".join(f"({lstr(a(v[0]))}, [" + ", ".join(ty(t) for t in v[1:]) + "])" for v in e[3:]) + "] }" for e in enums[1:]) + "]"
        sd = "[" + ", ".join(f"{{ name := {lstr(a(s[1]))}, generics := {strs(s[2])}, fields := {params(s[3:])} }}" for s in structs[1:]) + "]"
        im = "[" + ", ".join("(" + ", ".join(lstr(a(x)) for x in r) + ")" for r in impls[1:]) + "]"
        out.append(f"/-- corpus/C01pipe/{w}.gom: Core after match compilation -/")
        out.append(f"def core{k + 1} : Prog := {{ impls := {im}, fns := [\n  " + ",\n  ".join(fn(f) for f in file[1:]) + "] }")
        out.append(f"def ex{k + 1} : PipeIn :=\n  {{ gensym := {g}, enums := {ed}, structs := {sd}, prog := core{k + 1} }}")
        # what go/compile.rs reads of GlobalGoEnv (for the end-to-end examples)
        ge = next((r[2] for r in rows if r[0] == pid and r[1] == "GOENV"), None)
        if ge is not None:
            ex = parse(ge)
            sdef = lambda s_: f"{{ name := {lstr(a(s_[1]))}, generics := {strs(s_[2])}, fields := {params(s_[3])} }}"
            edef = lambda e_: (f"{{ name := {lstr(a(e_[1]))}, generics := {strs(e_[2])}, variants := [" +
                               ", ".join(f"({lstr(a(v[0]))}, [" + ", ".join(ty(t) for t in v[1]) + "])" for v in e_[3]) + "] }")
            trait = lambda t_: f"({lstr(a(t_[0]))}, [" + ", ".join(f"({lstr(a(m[0]))}, {ty(m[1])})" for m in t_[1:]) + "])"
            xfn = lambda x: "(" + ", ".join(lstr(a(y)) for y in x) + ")"
            xty = lambda x: f"({lstr(a(x[0]))}, {lstr(a(x[1]))}, " + ("none" if x[2] == "none" else f"some {lstr(a(x[2][0]))}") + ")"
            ap = lambda x: f"({lstr(a(x[0]))}, " + ("none" if x[1] == "none" else f"some {ty(x[1][0])}") + ")"
            lst = lambda f, xs: "[" + ", ".join(f(x) for x in xs) + "]"
            out.append(f"def goenv{k + 1} : GoCompile.Env :=\n  {{ structs := {lst(sdef, ex[1][1:])}, structsLookup := {lst(sdef, ex[2][1:])}, enums := {lst(edef, ex[3][1:])}, "
                       f"traits := {lst(trait, ex[4][1:])}, externFns := {lst(xfn, ex[5][1:])}, externTys := {lst(xty, ex[6][1:])}, applyTys := {lst(ap, ex[7][1:])} }}")
            out.append(f"def e2e{k + 1} : E2EIn := {{ pipe := ex{k + 1}, goenv := goenv{k + 1} }}")
        out.append("")
    out.append("end Goml.Pipeline.Examples")
    open(os.path.join(VERIF, "lean/GomlVerif/Lemmas/PipeExamples.lean"), "w").write("\n".join(out) + "\n")

if __name__ == "__main__":
    main()
