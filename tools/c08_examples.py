#!/usr/bin/env python3
"""One-off helper for C08's non-vacuity examples: converts the REAL Mono dump (and pre-lift environment) of corpus
programs, as written by `gv c08` into .cache/run/C08/c08.cases.tsv, into Lean terms
(lean/GomlVerif/Lemmas/LiftExamples.lean).  Usage: tools/c08_examples.py 037_deep_nested_closure 038_counter_closure"""
import os, sys
VERIF = os.path.dirname(os.path.dirname(os.path.abspath(__file__)))

def parse(s):
    pos = 0
    def go():
        nonlocal pos
        while s[pos] in " \t\n":
            pos += 1
        if s[pos] == "(":
            pos += 1
            xs = []
            while True:
                while s[pos] in " \t\n":
                    pos += 1
                if s[pos] == ")":
                    pos += 1
                    return xs
                xs.append(go())
        if s[pos] == '"':
            pos += 1
            buf = []
            while s[pos] != '"':
                if s[pos] == "\\":
                    pos += 1
                    buf.append({"n": "\n", "t": "\t", "r": "\r"}.get(s[pos], s[pos]))
                else:
                    buf.append(s[pos])
                pos += 1
            pos += 1
            return ("str", "".join(buf))
        st = pos
        while s[pos] not in " \t\n()":
            pos += 1
        return s[st:pos]
    return go()

def a(x):
    return x[1] if isinstance(x, tuple) else x

def lstr(s):
    return '"' + s.replace("\\", "\\\\").replace('"', '\\"').replace("\n", "\\n") + '"'

INT = {"i8": (8, "true"), "i16": (16, "true"), "i32": (32, "true"), "i64": (64, "true"),
       "u8": (8, "false"), "u16": (16, "false"), "u32": (32, "false"), "u64": (64, "false")}

def ty(t):
    if isinstance(t, str):
        if t in INT:
            return f"(.int {INT[t][0]} {INT[t][1]})"
        return {"unit": ".unit", "bool": ".bool", "string": ".string", "f32": "(.float 32)", "f64": "(.float 64)"}[t]
    h = t[0]
    if h == "tuple": return "(.tuple [" + ", ".join(ty(x) for x in t[1:]) + "])"
    if h in ("enum", "struct", "dyn", "param"): return f"(.{h} {lstr(a(t[1]))})"
    if h == "app": return f"(.app {ty(t[1])} [" + ", ".join(ty(x) for x in t[2:]) + "])"
    if h == "array": return f"(.array {t[1]} {ty(t[2])})"
    if h in ("vec", "ref"): return f"(.{h} {ty(t[1])})"
    if h == "fn": return "(.func [" + ", ".join(ty(x) for x in t[1]) + f"] {ty(t[2])})"
    if h == "tvar": return f"(.tvar {t[1]})"
    raise Exception(t)

def prim(p):
    h = p[0]
    if h == "unit": return ".unit"
    if h == "bool": return f"(.bool {p[1]})"
    if h == "int":
        b, s = INT[p[1]]
        v = int(p[2])
        return f"(.int {b} {s} ({v}))"
    if h == "float": return f"(.float {32 if p[1] == 'f32' else 64} {p[2]})"
    if h == "str": return f"(.str {lstr(a(p[1]))})"
    raise Exception(p)

def ctor(c):
    if c[0] == "ce": return f"(.enum {lstr(a(c[1]))} {lstr(a(c[2]))} {c[3]})"
    return f"(.struct {lstr(a(c[1]))})"

UN = {"neg": ".neg", "not": ".not"}
BIN = {"add": ".add", "sub": ".sub", "mul": ".mul", "div": ".div", "and": ".and", "or": ".or", "less": ".less",
       "greater": ".greater", "less_eq": ".lessEq", "greater_eq": ".greaterEq", "eq": ".eq", "not_eq": ".notEq"}

def params(ps):
    return "[" + ", ".join(f"({lstr(a(p[0]))}, {ty(p[1])})" for p in ps) + "]"

def exprs(es):
    return "[" + ", ".join(expr(e) for e in es) + "]"

def expr(e):
    h = e[0]
    if h == "var": return f"(.var {lstr(a(e[1]))} {ty(e[2])})"
    if h == "prim": return f"(.prim {prim(e[1])})"
    if h == "constr": return f"(.constr {ctor(e[1])} {ty(e[2])} {exprs(e[3:])})"
    if h == "tuple": return f"(.tuple {ty(e[1])} {exprs(e[2:])})"
    if h == "array": return f"(.array {ty(e[1])} {exprs(e[2:])})"
    if h == "closure": return f"(.closure {ty(e[1])} {params(e[2])}\n    {expr(e[3])})"
    if h == "let": return f"(.letE {lstr(a(e[1]))} {expr(e[2])}\n    {expr(e[3])})"
    if h == "match":
        arms = "[" + ", ".join(f".mk {expr(x[1])} {expr(x[2])}" for x in e[3][1:]) + "]"
        d = "none" if e[4] == "none" else f"(some {expr(e[4])})"
        return f"(.matchE {ty(e[1])} {expr(e[2])} {arms} {d})"
    if h == "if": return f"(.ite {expr(e[1])} {expr(e[2])} {expr(e[3])})"
    if h == "while": return f"(.while {expr(e[1])} {expr(e[2])})"
    if h == "go": return f"(.go {expr(e[1])})"
    if h == "cget": return f"(.cget {ctor(e[1])} {e[2]} {ty(e[3])} {expr(e[4])})"
    if h == "un": return f"(.un {UN[e[1]]} {ty(e[2])} {expr(e[3])})"
    if h == "bin": return f"(.bin {BIN[e[1]]} {ty(e[2])} {expr(e[3])} {expr(e[4])})"
    if h == "call": return f"(.call {ty(e[1])} {expr(e[2])} {exprs(e[3:])})"
    if h == "todyn": return f"(.toDyn {lstr(a(e[1]))} {ty(e[2])} {ty(e[3])} {expr(e[4])})"
    if h == "dyncall": return f"(.dynCall {lstr(a(e[1]))} {lstr(a(e[2]))} {ty(e[3])} {expr(e[4])} {exprs(e[5:])})"
    if h == "proj": return f"(.proj {e[1]} {ty(e[2])} {expr(e[3])})"
    raise Exception(h)

def fn(f):
    return (f"{{ name := {lstr(a(f[1]))}, generics := [], params := {params(f[3])}, ret := {ty(f[4])},\n"
            f"    body := {expr(f[5])} }}")

def main():
    want = sys.argv[1:]
    rows = [l.rstrip("\n").split("\t") for l in open(os.path.join(VERIF, ".cache/run/C08/c08.cases.tsv"), encoding="utf-8")]
    out = ["import GomlVerif.Model.Lift",
           "/-! REAL Mono dumps (input of `lift::lambda_lift`) of corpus programs, converted by tools/c08_examples.py -/",
           "namespace Goml.Lift.Examples", "open Goml", ""]
    for w in want:
        r = next(r for r in rows if len(r) > 3 and r[1] == "CASE" and r[0] == "repo:" + w)
        sx = parse(r[2])
        gens, file, funcs, structs, enums = sx[1], sx[2], sx[3], sx[4], sx[5]
        ident = "p" + w.split("_")[0]
        out.append(f"/-- corpus program {w} after monomorphisation -/")
        out.append(f"def {ident} : Prog := {{ fns := [\n  " + ",\n  ".join(fn(f) for f in file[1:]) + "] }")
        sd = "[" + ", ".join(f"{{ name := {lstr(a(s[1]))}, generics := [], fields := {params(s[3])} }}" for s in structs[1:]) + "]"
        ed = "[" + ", ".join(f"{{ name := {lstr(a(e[1]))}, generics := [], variants := [" +
                             ", ".join(f"({lstr(a(v[0]))}, [" + ", ".join(ty(t) for t in v[1]) + "])" for v in e[3]) + "] }" for e in enums[1:]) + "]"
        out.append(f"def env{ident[1:]} : Env := {{ gensym := {gens[1]}, funcs := {params(funcs[1:])}, structs := {sd}, enums := {ed} }}")
        out.append("")
    out.append("end Goml.Lift.Examples")
    open(os.path.join(VERIF, "lean/GomlVerif/Lemmas/LiftExamples.lean"), "w").write("\n".join(out) + "\n")

if __name__ == "__main__":
    main()
