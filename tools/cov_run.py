#!/usr/bin/env python3
"""tools/cov_run.py FILE.gom …   — run ONE program through every oracle C01/C02 apply to it:
real pipeline (`gv probe --dump`), SrcSem on the surface AST, Sem on the Core/Mono/Lift/ANF dumps, Go.Sem and Go.Check
on the emitted Go AST, the printer tie; compares with FILE.gom.out when it exists.  Prints one line per stage.
Used while writing corpus witnesses (docs/COVERAGE.md); reads nothing but the built harness and model."""
import os, subprocess, sys
sys.path.insert(0, os.path.dirname(os.path.abspath(__file__)))
import vlib


def model(sub, lines, env=None):
    p = subprocess.run(["bash", "-c", f"ulimit -s unlimited; exec {vlib.MODEL} {sub}"], input="\n".join(lines) + "\n",
                       stdout=subprocess.PIPE, stderr=subprocess.PIPE, text=True, timeout=600, env=dict(os.environ, **(env or {})))
    return [l.split("\t") for l in p.stdout.split("\n") if l], p.stderr


def main():
    bad = 0
    quiet = "-q" in sys.argv
    for path in [a for a in sys.argv[1:] if not a.startswith("-")]:
        here = ["--here"] if os.path.basename(path) == "main.gom" else []
        env = dict(os.environ, GV_VERIF=vlib.VERIF, GV_REPO=os.environ.get("GV_REPO", "/repo"),
                   GV_SCRATCH=os.path.join(vlib.CACHE, f"scratch-covrun-{os.getpid()}"))
        p = subprocess.run([vlib.GV, "probe", path, "--dump"] + here, env=env, stdout=subprocess.PIPE, stderr=subprocess.STDOUT, text=True)
        rows = [l.split("\t") for l in p.stdout.split("\n") if l]
        if not rows or rows[0][0] != "OK":
            print(f"{path}: NOT ACCEPTED: {p.stdout[:400]}")
            bad += 1
            continue
        stages = {r[2]: r[3] for r in rows if len(r) > 3 and r[1] == "STAGE"}
        pprint = next((r[2:] for r in rows if len(r) > 2 and r[1] == "PPRINT"), ["?"])
        out = {}
        res, err = model("sem", [f"p|{st}\t{sx}" for st, sx in stages.items() if st != "src"])
        for f in res:
            if len(f) >= 3:
                out[f[0].split("|")[1]] = (f[1], vlib.unesc(f[2]))
        if "src" in stages:
            res, err = model("srcsem", [f"p|src\t{stages['src']}"])
            for f in res:
                if len(f) >= 3:
                    out["src"] = (f[1], vlib.unesc(f[2]))
        gc, err = model("gocheck", [f"p\t{stages['go']}"])
        gcv = next((f[1:] for f in gc if f and f[0] == "p"), ["?"])
        exp = open(path + ".out").read() if os.path.exists(path + ".out") else None
        ref = out.get("src") or out.get("core")
        ok = all(out.get(st) == ref for st in ["core", "mono", "lift", "anf", "go"] if not (st == "core" and out.get("core", ("",))[0].startswith("stuck")))
        ok = ok and gcv[0] == "ok" and pprint[0] == "ok" and ref is not None and ref[0] == "ok" and (exp is None or exp == ref[1])
        bad += 0 if ok else 1
        print(f"{path}: {'AGREE' if ok else 'DIFFER'}  gocheck={' '.join(gcv)[:200]}  pprint={pprint[0]}  expected={'none' if exp is None else ('matches' if ref and exp == ref[1] else 'DIFFERS')}")
        if not ok or not quiet:
            for st in ["src", "core", "mono", "lift", "anf", "go"]:
                o = out.get(st)
                print(f"   {st:5} {o[0] if o else 'missing'}: {o[1]!r}" if o else f"   {st:5} missing")
            if exp is not None and ref and exp != ref[1]:
                print(f"   .out  {exp!r}")
    sys.exit(1 if bad else 0)


if __name__ == "__main__":
    main()
