#!/usr/bin/env python3
"""Coverage audit of the program generators: which match arms / branches of goml's semantic passes
does no generated or corpus program ever execute?

    tools/coverage_audit.py [--work DIR] [--seeds 1,2,3] [--thorough-seeds 1] [--reuse]
                            [--report docs/coverage_report.txt] [--streams c01,c09,…] [--list-unclassified]

Builds the harness with `-C instrument-coverage` into DIR/target (never .cache/target), runs the
program-producing streams (`gv c01`, `gv c09`, …) with LLVM_PROFILE_FILE under DIR/prof, merges the
profiles (llvm-profdata / llvm-cov of the toolchain that has the `llvm-tools` component: its LLVM must
match rustc's), and prints for the semantic passes

  * covered / total regions per file, for the ACCEPT streams (programs the compiler accepts and the
    oracles interpret) and for ALL streams (accept + the diagnostic streams C04/C13/C16/C10/C11/C12/C15),
  * every UNCOVERED arm: an outermost code region with execution count 0 inside an executed or
    non-executed function, with file:line, the enclosing `fn`, the first source line, and its class from
    tools/coverage_classes/*.tsv:
        a   reachable from an ACCEPTED program            -> a generator gap
        b   only reachable from rejected programs         -> diagnostic path (C03/C04/C13/C16)
        c   unreachable / dead (reason in the table)
        ?   not classified yet
Nothing registered in MANIFEST.json depends on this tool; DIR may be deleted afterwards.
"""
import argparse, collections, glob, json, os, re, subprocess, sys, time

VERIF = os.path.dirname(os.path.dirname(os.path.abspath(__file__)))
REPO = os.environ.get("GV_REPO", "/repo")

FILES = [
    "crates/ast/src/lower.rs",
    "crates/compiler/src/compile_match.rs",
    "crates/compiler/src/mono.rs",
    "crates/compiler/src/lift.rs",
    "crates/compiler/src/anf.rs",
    "crates/compiler/src/derive.rs",
    "crates/compiler/src/typer/check.rs",
    "crates/compiler/src/typer/unify.rs",
    "crates/compiler/src/typer/name_resolution.rs",
    "crates/compiler/src/typer/toplevel.rs",
    "crates/compiler/src/go/compile.rs",
    "crates/compiler/src/go/dce.rs",
    "crates/compiler/src/go/runtime.rs",
    "crates/compiler/src/go/mangle.rs",
    "crates/compiler/src/pprint/go_pprint.rs",
]

# (subcommand, extra args): streams whose programs are (mostly) ACCEPTED and run under Sem / Go.Sem / Go.Check
ACCEPT = [("c01", []), ("c09", []), ("c06", []), ("c07", []), ("c08", []), ("c03", []), ("gocomp", []), ("dce", []),
          ("c17sem", []), ("c17", ["--relied", "any"]), ("c18", []), ("c14", []), ("c05", []),
          ("c19", ["--relied", "any"]), ("c19inst", ["--relied", "any"])]
# streams that exist for the diagnostic side (rejected / malformed inputs, editor queries)
# (c20 is left out: it runs the same front end from many threads and the instrumented counters make it ~50x slower)
REJECT = [("c04", []), ("c13", []), ("c16", []), ("c10", []), ("c11", ["gen"]), ("c11", ["lits"]), ("c12", []), ("c15", [])]


def sh(cmd, **kw):
    return subprocess.run(cmd, stdout=subprocess.PIPE, stderr=subprocess.STDOUT, text=True, **kw)


def llvm_tools():
    cands = glob.glob(os.path.expanduser("~/.rustup/toolchains/*/lib/rustlib/*/bin/llvm-cov"))
    if not cands:
        sys.exit("no llvm-cov in any rustup toolchain (rustup component add llvm-tools)")
    rustc_llvm = re.search(r"LLVM version: (\d+)", sh(["rustc", "-vV"]).stdout)
    for c in cands:
        v = re.search(r"LLVM version (\d+)", sh([c, "--version"]).stdout)
        if v and rustc_llvm and v.group(1) == rustc_llvm.group(1):
            return os.path.dirname(c)
    return os.path.dirname(cands[0])


def build(work):
    # (build scripts and proc macros are instrumented too: keep their profiles out of the source tree)
    os.makedirs(os.path.join(work, "prof", "build"), exist_ok=True)
    env = dict(os.environ, CARGO_TARGET_DIR=os.path.join(work, "target"), RUSTFLAGS="-C instrument-coverage --cfg goml_verif", CARGO_NET_OFFLINE="true",
               LLVM_PROFILE_FILE=os.path.join(work, "prof", "build", "build-%p-%m.profraw"))
    p = sh(["cargo", "build", "--release", "--offline"], cwd=os.path.join(VERIF, "harness"), env=env)
    if p.returncode != 0:
        sys.exit("instrumented build failed:\n" + p.stdout[-3000:])
    return os.path.join(work, "target", "release", "gv")


def run_streams(gv, work, group, streams, seeds, tier, only, no_corpus=False):
    for sub, extra in streams:
        tag = sub + ("-" + extra[0].strip("-") if extra and not extra[0].startswith("--") else "")
        if only and sub not in only:
            continue
        for seed in seeds:
            out = os.path.join(work, "out", f"{tag}-{tier}-{seed}")
            os.makedirs(out, exist_ok=True)
            prof = os.path.join(work, "prof", group)
            os.makedirs(prof, exist_ok=True)
            env = dict(os.environ, GV_SCRATCH=os.path.join(work, "scratch"), GV_VERIF=VERIF, GV_REPO=REPO,
                       LLVM_PROFILE_FILE=os.path.join(prof, f"{tag}-{tier}-{seed}-%p-%m.profraw"))
            if no_corpus:
                # the harness reads the repository's test programs under GV_REPO and the witnesses under GV_VERIF at run
                # time only: pointed at an empty directory, every stream runs its GENERATED programs alone
                empty = os.path.join(work, "empty")
                os.makedirs(empty, exist_ok=True)
                env.update(GV_VERIF=empty, GV_REPO=empty)
            t0 = time.time()
            try:
                p = sh([gv, sub, "--seed", str(seed), "--tier", tier, "--out", out] + extra, env=env, timeout=7200)
                rc = p.returncode
            except subprocess.TimeoutExpired:
                rc = "timeout"
            print(f"  ran gv {sub} {' '.join(extra)} seed={seed} tier={tier} rc={rc} {time.time() - t0:.0f}s", flush=True)
            # the case files are large and not needed
            for f in glob.glob(os.path.join(out, "*")):
                if os.path.isfile(f):
                    os.remove(f)


def merge_and_export(tools, gv, work, name, groups):
    raws = []
    for g in groups:
        raws += glob.glob(os.path.join(work, "prof", g, "*.profraw"))
    if not raws:
        sys.exit(f"no profiles for {groups}")
    lst = os.path.join(work, f"{name}.list")
    open(lst, "w").write("\n".join(raws) + "\n")
    pd = os.path.join(work, f"{name}.profdata")
    p = sh([os.path.join(tools, "llvm-profdata"), "merge", "-sparse", "-f", lst, "-o", pd])
    if p.returncode != 0:
        sys.exit("llvm-profdata: " + p.stdout[-2000:])
    srcs = [os.path.join(REPO, f) for f in FILES]
    p = subprocess.run([os.path.join(tools, "llvm-cov"), "export", "-format=text", gv, f"-instr-profile={pd}"] + srcs,
                       stdout=subprocess.PIPE, stderr=subprocess.PIPE, text=True)
    if p.returncode != 0:
        sys.exit("llvm-cov export: " + p.stderr[-2000:])
    return json.loads(p.stdout)


def region_counts(export):
    """{file: {(ls, cs, le, ce): max execution count over all instantiations}} for code regions,
    and {file: segments} (llvm-cov's file-level segments, summed over instantiations)"""
    res = collections.defaultdict(dict)
    for fn in export["data"][0]["functions"]:
        fnames = fn["filenames"]
        for r in fn["regions"]:
            ls, cs, le, ce, cnt, fid, _efid, kind = r[:8]
            if kind != 0:
                continue
            f = fnames[fid]
            if not f.startswith(REPO):
                continue
            rel = os.path.relpath(f, REPO)
            if rel not in FILES:
                continue
            k = (ls, cs, le, ce)
            res[rel][k] = max(res[rel].get(k, 0), cnt)
    segs = {}
    for fe in export["data"][0]["files"]:
        rel = os.path.relpath(fe["filename"], REPO)
        if rel in FILES:
            segs[rel] = fe["segments"]
    return res, segs


def line_counts(segments, nlines):
    """llvm-cov's LineCoverageStats: {line: execution count} for the mapped lines"""
    by_line = collections.defaultdict(list)
    for s in segments:
        by_line[s[0]].append(s)
    counts = {}
    wrapped = None
    for ln in range(1, nlines + 1):
        ls = by_line.get(ln, [])
        starts = [s for s in ls if s[4] and s[3] and not s[5]]
        skipped_start = bool(ls) and (not ls[0][3]) and ls[0][4]
        mapped = (not skipped_start) and ((wrapped is not None and wrapped[3]) or bool(starts))
        if mapped:
            c = wrapped[2] if wrapped is not None and wrapped[3] else 0
            for s in starts:
                c = max(c, s[2])
            counts[ln] = c
        if ls:
            wrapped = ls[-1]
    return counts


def inside(a, b):
    """region a lies inside region b"""
    return (b[0], b[1]) <= (a[0], a[1]) and (a[2], a[3]) <= (b[2], b[3]) and a != b


def uncovered_entries(regs, segments, lines):
    """(kind, first line, last line, enclosing fn, text):
    'fn'      a function no stream ever calls,
    'block'   a maximal run of executable lines with count 0 inside a function that is called (a match arm, a branch),
    'part'    a zero-count sub-expression on an executed line (`?`, the right operand of `||`, a closure argument)"""
    lc = line_counts(segments, len(lines))
    fn_of = {}
    cur = "?"
    fn_start = {}
    for i, l in enumerate(lines, 1):
        m = FN_RE.match(l)
        if m:
            cur = m.group(1) + "@" + str(i)
            fn_start[cur] = i
        fn_of[i] = cur
    fn_lines = collections.defaultdict(list)
    for ln, c in lc.items():
        fn_lines[fn_of[ln]].append((ln, c))
    out = []
    dead_fns = set()
    for fn, lcs in fn_lines.items():
        if all(c == 0 for _, c in lcs):
            dead_fns.add(fn)
            first = fn_start.get(fn, lcs[0][0])
            out.append(("fn", first, max(l for l, _ in lcs), fn.split("@")[0], norm(lines[first - 1])[:110]))
    in_block = set()
    run = []
    def flush():
        if run:
            out.append(("block", run[0], run[-1], fn_of[run[0]].split("@")[0], norm(lines[run[0] - 1])[:110]))
            in_block.update(range(run[0], run[-1] + 1))
            run.clear()
    for ln in range(1, len(lines) + 1):
        if fn_of[ln] in dead_fns:
            flush()
            continue
        if ln in lc:
            if lc[ln] == 0 and (not run or fn_of[run[0]] == fn_of[ln]):
                run.append(ln)
            else:
                flush()
                if lc[ln] == 0:
                    run.append(ln)
    flush()
    zeros = sorted((k for k, c in regs.items() if c == 0), key=lambda k: (k[0], k[1], -k[2], -k[3]))
    kept = []
    for z in zeros:
        if fn_of.get(z[0]) in dead_fns or z[0] in in_block:
            continue
        if any(inside(z, o) or z == o for o in kept[-6:]):
            continue
        kept.append(z)
    per_line = collections.OrderedDict()
    for z in kept:
        if z[0] == z[2]:
            frag = lines[z[0] - 1][z[1] - 1:z[3] - 1]
        else:
            frag = lines[z[0] - 1][z[1] - 1:] + " …"
        per_line.setdefault(z[0], []).append(norm(frag)[:60])
    for ln, frags in per_line.items():
        out.append(("part", ln, ln, fn_of[ln].split("@")[0], norm(lines[ln - 1])[:80] + "   <<" + " | ".join(f for f in frags if f)[:90] + ">>"))
    out.sort(key=lambda e: (e[1], e[0]))
    return out


FN_RE = re.compile(r"^\s*(?:pub(?:\([^)]*\))?\s+)?(?:const\s+)?fn\s+(\w+)")


def norm(s):
    return re.sub(r"\s+", " ", s.strip())


def load_classes():
    """tools/coverage_classes/*.tsv: file, enclosing fn, kind, first source line (normalised), class, note, line hint.
    Several entries of one function can share their text (`return None;`): the one whose line hint is nearest wins.
    A line `file <TAB> fn <TAB> * <TAB> * <TAB> class <TAB> note` classifies every uncovered entry of that function."""
    table, wild = collections.defaultdict(list), {}
    for p in sorted(glob.glob(os.path.join(VERIF, "tools", "coverage_classes", "*.tsv"))):
        for l in open(p, encoding="utf-8"):
            if not l.strip() or l.startswith("#"):
                continue
            f = l.rstrip("\n").split("\t")
            if len(f) < 5:
                continue
            note = f[5] if len(f) > 5 else ""
            hint = int(f[6]) if len(f) > 6 and f[6].isdigit() else 0
            if f[3] == "*":
                wild[(f[0], f[1])] = (f[4], note)
            else:
                table[(f[0], f[1], f[2], f[3])].append((hint, f[4], note))
    return table, wild


def classify(table, wild, short, fn, kind, text, line):
    for k in ((short, fn, kind, text), (short, fn, "*", text)):
        if k in table:
            hint, cls, note = min(table[k], key=lambda e: abs(e[0] - line))
            return (cls, note)
    if (short, fn) in wild:
        return wild[(short, fn)]
    return ("?", "")


def short_name(f):
    return f.replace("crates/", "").replace("compiler/src/", "").replace("ast/src/", "")


def probe(tools, gv, work, files, verbose):
    """which entries of the last full report does each given .gom program execute?"""
    base = json.load(open(os.path.join(work, "uncovered.json")))
    zero = {f: set(tuple(k) for k in v) for f, v in json.load(open(os.path.join(work, "zero_regions.json"))).items()}
    for path in files:
        tag = f"probe-{os.getpid()}"
        pdir = os.path.join(work, "prof", tag)
        os.makedirs(pdir, exist_ok=True)
        for old in glob.glob(os.path.join(pdir, "*.profraw")):
            os.remove(old)
        env = dict(os.environ, GV_SCRATCH=os.path.join(work, "scratch-" + tag), GV_VERIF=VERIF, GV_REPO=REPO,
                   LLVM_PROFILE_FILE=os.path.join(pdir, "probe-%p.profraw"))
        # a witness that is a project (a directory with main.gom and package sub-directories) is compiled where it lives
        if os.path.isdir(path):
            path = os.path.join(path, "main.gom")
        here = ["--here"] if os.path.basename(path) == "main.gom" else []
        p = sh([gv, "probe", path, "--go", "--dump"] + here, env=env)
        verdict = p.stdout.split("\n", 1)[0]
        if verdict != "OK":
            verdict = " / ".join(p.stdout.strip().split("\n")[:3])
        regs, segs = region_counts(merge_and_export(tools, gv, work, tag, [tag]))
        import shutil
        shutil.rmtree(pdir, ignore_errors=True)
        shutil.rmtree(os.path.join(work, "scratch-" + tag), ignore_errors=True)
        for ext in (".list", ".profdata"):
            try:
                os.remove(os.path.join(work, tag + ext))
            except OSError:
                pass
        hits = []
        for e in base:
            f = next(x for x in FILES if short_name(x) == e["file"])
            if e["kind"] == "part":
                hit = any(c > 0 for k, c in regs.get(f, {}).items() if k[0] == e["l0"] and k in zero[f])
            else:
                nl = 1 + max((s[0] for s in segs.get(f, [])), default=0)
                lc = line_counts(segs.get(f, []), nl)
                hit = any(lc.get(l, 0) > 0 for l in range(e["l0"], e["l1"] + 1))
            if hit:
                hits.append(e)
        print(f"{path}: {verdict[:300]}   newly covered entries: {len(hits)}")
        for e in hits:
            print(f"    {e['file']}:{e['l0']}\t{e['kind']}\t{e['fn']}\t[{e['cls']}]\t{e['text'][:100]}")


def main():
    ap = argparse.ArgumentParser()
    ap.add_argument("--work", default=os.environ.get("COV_WORK", "/tmp/goml-coverage"))
    ap.add_argument("--seeds", default="1,2,3")
    ap.add_argument("--thorough-seeds", default="")
    ap.add_argument("--reuse", action="store_true", help="do not rebuild / rerun, only merge what DIR/prof holds")
    ap.add_argument("--streams", default="", help="comma list: only these subcommands")
    ap.add_argument("--report", default="")
    ap.add_argument("--list-unclassified", action="store_true")
    ap.add_argument("--probe", nargs="+", help="compile these .gom files with the instrumented pipeline; print which uncovered entries of the last report they execute")
    ap.add_argument("--gen-only", action="store_true", help="also run the accept streams WITHOUT the fixed corpus programs and list what only the corpus reaches")
    ap.add_argument("--source-root", default="", help="read the source text from this checkout (when GV_REPO has moved on since the profiles were taken)")
    ap.add_argument("--tsv", default="", help="also write the uncovered arms as TSV (for editing coverage_classes.tsv)")
    a = ap.parse_args()
    work = os.path.abspath(a.work)
    if os.path.commonpath([work, VERIF]) == VERIF:
        sys.exit("--work must lie outside the verification tree")
    os.makedirs(work, exist_ok=True)
    tools = llvm_tools()
    gv = os.path.join(work, "target", "release", "gv")
    only = set(x for x in a.streams.split(",") if x)
    if a.probe:
        return probe(tools, gv, work, a.probe, True)
    if not a.reuse:
        gv = build(work)
        seeds = [int(s) for s in a.seeds.split(",") if s]
        tseeds = [int(s) for s in a.thorough_seeds.split(",") if s]
        run_streams(gv, work, "accept", ACCEPT, seeds, "quick", only)
        run_streams(gv, work, "reject", REJECT, seeds[:1], "quick", only)
        if tseeds:
            run_streams(gv, work, "accept", ACCEPT, tseeds, "thorough", only)
        if a.gen_only:
            run_streams(gv, work, "genonly", ACCEPT, seeds, "quick", only, no_corpus=True)
    acc, acc_segs = region_counts(merge_and_export(tools, gv, work, "accept", ["accept"]))
    have_reject = bool(glob.glob(os.path.join(work, "prof", "reject", "*.profraw")))
    allr, all_segs = region_counts(merge_and_export(tools, gv, work, "all", ["accept", "reject"])) if have_reject else (acc, acc_segs)
    table, wild = load_classes()
    out = []
    P = out.append
    nprof = len(glob.glob(os.path.join(work, "prof", "accept", "*.profraw")))
    P("# goml semantic passes: what the verification framework's program streams execute")
    P(f"# accept streams: {' '.join(s for s, _ in ACCEPT)}  ({nprof} profiles);  reject streams: {' '.join(sorted(set(s for s, _ in REJECT)))}")
    P(f"# goml tree: {sh(['git', '-C', REPO, 'rev-parse', '--short', 'HEAD']).stdout.strip()}")
    P("# entry kinds: fn = function never called; block = run of executable lines never executed inside a called function")
    P("#              (a match arm, a branch); part = a sub-expression never evaluated on an executed line (<<…>>)")
    P("")
    P(f"{'file':30} {'regions':>8} {'accept':>7} {'%':>6} {'all':>7} {'%':>6} {'lines':>6} {'accept':>7} {'%':>6} | {'fn':>4} {'block':>5} {'part':>5}")
    arms = []
    tot = [0] * 8
    for f in FILES:
        regs, regs_all = acc.get(f, {}), allr.get(f, {})
        n = len(regs)
        c = sum(1 for v in regs.values() if v > 0)
        ca = sum(1 for k in regs if regs_all.get(k, 0) > 0)
        lines = open(os.path.join(a.source_root or REPO, f), encoding="utf-8").read().split("\n")
        short = f.replace("crates/", "").replace("compiler/src/", "").replace("ast/src/", "")
        lc = line_counts(acc_segs.get(f, []), len(lines))
        lc_all = line_counts(all_segs.get(f, []), len(lines))
        ents = uncovered_entries(regs, acc_segs.get(f, []), lines)
        kinds = collections.Counter(e[0] for e in ents)
        for kind, l0, l1, fn, text in ents:
            key_text = text.split("   <<")[0]
            cls, note = classify(table, wild, short, fn, kind, key_text, l0)
            if kind == "part":
                seen = any(regs_all.get(k, 0) > 0 for k, v in regs.items() if v == 0 and k[0] == l0)
            else:
                seen = any(lc_all.get(l, 0) > 0 for l in range(l0, l1 + 1))
            arms.append((short, kind, l0, l1, fn, text, cls, note, seen))
        nl, cl = len(lc), sum(1 for v in lc.values() if v > 0)
        row = [n, c, ca, nl, cl, kinds["fn"], kinds["block"], kinds["part"]]
        tot = [x + y for x, y in zip(tot, row)]
        P(f"{short:30} {n:8} {c:7} {100.0 * c / max(n, 1):6.1f} {ca:7} {100.0 * ca / max(n, 1):6.1f} {nl:6} {cl:7} {100.0 * cl / max(nl, 1):6.1f} | {kinds['fn']:4} {kinds['block']:5} {kinds['part']:5}")
    json.dump([{"file": x[0], "kind": x[1], "l0": x[2], "l1": x[3], "fn": x[4], "text": x[5], "cls": x[6]} for x in arms],
              open(os.path.join(work, "uncovered.json"), "w"))
    json.dump({f: [list(k) for k, v in acc.get(f, {}).items() if v == 0] for f in FILES}, open(os.path.join(work, "zero_regions.json"), "w"))
    n, c, ca, nl, cl, kf, kb, kp = tot
    P(f"{'TOTAL':30} {n:8} {c:7} {100.0 * c / max(n, 1):6.1f} {ca:7} {100.0 * ca / max(n, 1):6.1f} {nl:6} {cl:7} {100.0 * cl / max(nl, 1):6.1f} | {kf:4} {kb:5} {kp:5}")
    P("")
    by_cls = collections.Counter(x[6][:1] for x in arms)
    P("uncovered entries by class: " + "  ".join(f"{k}={v}" for k, v in sorted(by_cls.items())))
    titles = {"a": "(a) reachable from an ACCEPTED program - generator gaps",
              "b": "(b) only reachable from rejected programs - diagnostic paths ('+R' = executed by a reject stream)",
              "c": "(c) unreachable / dead / not a property of compiled programs",
              "?": "(?) not classified"}
    for cls in ["a", "b", "c", "?"]:
        sel = [x for x in arms if x[6][:1] == cls]
        P("")
        P(f"## {titles[cls]}: {len(sel)}")
        for short, kind, l0, l1, fn, text, c, note, seen in sel:
            span = f"{l0}" if l0 == l1 else f"{l0}-{l1}"
            P(f"{short}:{span}\t{kind}\t{fn}\t{'+R' if seen else '  '}\t{text}" + (f"\t# {note}" if note else ""))
    if glob.glob(os.path.join(work, "prof", "genonly", "*.profraw")):
        gen, gen_segs = region_counts(merge_and_export(tools, gv, work, "genonly", ["genonly"]))
        P("")
        P("## executed by the fixed corpus programs only (repository test programs, corpus/ witnesses): no GENERATED program of")
        P("## any accept stream reaches these lines, so each is exercised in the one context its corpus program happens to have")
        tot_only = 0
        for f in FILES:
            lines = open(os.path.join(a.source_root or REPO, f), encoding="utf-8").read().split("\n")
            lc = line_counts(acc_segs.get(f, []), len(lines))
            lg = line_counts(gen_segs.get(f, []), len(lines))
            only_corpus = [l for l, c in sorted(lc.items()) if c > 0 and lg.get(l, 0) == 0]
            tot_only += len(only_corpus)
            short = short_name(f)
            fn_of, cur = {}, "?"
            for i, l in enumerate(lines, 1):
                m = FN_RE.match(l)
                if m:
                    cur = m.group(1)
                fn_of[i] = cur
            # maximal runs of consecutive corpus-only lines
            runs, run = [], []
            for l in only_corpus:
                if run and (l - run[-1] > 2 or fn_of[l] != fn_of[run[0]]):
                    runs.append(run); run = []
                run.append(l)
            if run:
                runs.append(run)
            P(f"# {short}: {len(only_corpus)} of {sum(1 for c in lc.values() if c > 0)} executed lines, {len(runs)} runs")
            for r in runs:
                span = f"{r[0]}" if r[0] == r[-1] else f"{r[0]}-{r[-1]}"
                P(f"{short}:{span}\tcorpus-only\t{fn_of[r[0]]}\t{norm(lines[r[0] - 1])[:110]}")
        P(f"# total: {tot_only} executed lines are reached by corpus programs only")
    text = "\n".join(out) + "\n"
    if a.report:
        open(a.report, "w").write(text)
    if a.tsv:
        with open(a.tsv, "w") as f:
            for short, kind, l0, l1, fn, t, c, note, seen in arms:
                f.write(f"{short}\t{fn}\t{kind}\t{t.split('   <<')[0]}\t{c}\t{note}\t{l0}\t{'R' if seen else ''}\n")
    if a.list_unclassified:
        for x in arms:
            if x[6] == "?":
                print(f"{x[0]}:{x[2]}\t{x[1]}\t{x[4]}\t{x[5]}")
    else:
        sys.stdout.write(text if not a.report else "\n".join(out[:26]) + f"\n… full report: {a.report}\n")


if __name__ == "__main__":
    main()
