#!/usr/bin/env python3
"""Translator: regenerates lean/GomlVerif/Gen/*.lean from /repo sources (tables only)."""
import os, re, sys
VERIF = os.path.dirname(os.path.dirname(os.path.abspath(__file__)))
GEN = os.path.join(VERIF, "lean", "GomlVerif", "Gen")
REPO = os.environ.get("GV_REPO", "/repo")

def write_if_changed(name, text):
    os.makedirs(GEN, exist_ok=True)
    p = os.path.join(GEN, name)
    if not os.path.exists(p) or open(p).read() != text:
        open(p, "w").write(text)

def main():
    errors = []
    # extractors are registered below as they are added
    for fn in EXTRACTORS:
        try:
            fn()
        except Exception as e:  # an extractor that lost its anchor is a broken tie
            errors.append(f"{fn.__name__}: {e}")
    if errors:
        print("\n".join(errors))
        sys.exit(1)

EXTRACTORS = []

if __name__ == "__main__":
    main()
