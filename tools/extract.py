#!/usr/bin/env python3
"""Translator: regenerates lean/GomlVerif/Gen/*.lean from /repo sources (tables only)."""
import os, re, sys
VERIF = os.path.dirname(os.path.dirname(os.path.abspath(__file__)))
GEN = os.path.join(VERIF, "lean", "GomlVerif", "Gen")
REPO = os.environ.get("GV_REPO", "/repo")

def write_if_changed(name, text):
    os.makedirs(GEN, exist_ok=True)
    p = os.path.join(GEN, name)
    if not os.path.exists(p) or open(p).read() != text:
        open(p, "w").write(text)

def main():
    errors = []
    # extractors are registered below as they are added
    for fn in EXTRACTORS:
        try:
            fn()
        except Exception as e:  # an extractor that lost its anchor is a broken tie
            errors.append(f"{fn.__name__}: {e}")
    if errors:
        print("\n".join(errors))
        sys.exit(1)


# ---------------------------------------------------------------------------
# C12: lexer rules (crates/lexer/src/lib.rs) and syntax kinds (crates/parser/src/syntax.rs)

def _rust_str_lit(text, i):
    """parse a Rust string literal starting at text[i]; returns (value, next index)"""
    m = re.compile(r'r(#*)"').match(text, i)
    if m:
        close = '"' + m.group(1)
        j = text.index(close, m.end())
        return text[m.end():j], j + len(close)
    if text[i] != '"':
        raise ValueError(f"expected a string literal at: {text[i:i+30]!r}")
    out, j = [], i + 1
    esc = {"n": "\n", "t": "\t", "r": "\r", "\\": "\\", '"': '"', "0": "\0", "'": "'"}
    while text[j] != '"':
        if text[j] == "\\":
            if text[j + 1] not in esc:
                raise ValueError(f"unsupported escape in Rust literal: {text[j:j+4]!r}")
            out.append(esc[text[j + 1]]); j += 2
        else:
            out.append(text[j]); j += 1
    return "".join(out), j + 1


class _Rx:
    """parser for the regex subset used by the lexer; lowers the way logos' Mir does
    (x+ = x x*, x{n} = n copies, '.' = [^\\n]); anything else raises"""
    def __init__(self, src):
        self.s, self.i = src, 0
    def peek(self):
        return self.s[self.i] if self.i < len(self.s) else None
    def parse(self):
        r = self.alt()
        if self.i != len(self.s):
            raise ValueError(f"regex: unexpected {self.s[self.i:]!r} in {self.s!r}")
        return r
    def alt(self):
        items = [self.concat()]
        while self.peek() == "|":
            self.i += 1
            items.append(self.concat())
        r = items[-1]
        for it in reversed(items[:-1]):
            r = ("alt", it, r)
        return r
    def concat(self):
        items = []
        while self.peek() is not None and self.peek() not in "|)":
            items.append(self.repeat())
        if not items:
            return ("eps",)
        r = items[-1]
        for it in reversed(items[:-1]):
            r = ("seq", it, r)
        return r
    def repeat(self):
        a = self.atom()
        while self.peek() is not None and self.peek() in "*+{?":
            c = self.peek()
            if c == "*":
                self.i += 1; a = ("star", a)
            elif c == "+":
                self.i += 1; a = ("seq", a, ("star", a))
            elif c == "{":
                m = re.compile(r"\{(\d+)\}").match(self.s, self.i)
                if not m or int(m.group(1)) < 1:
                    raise ValueError(f"regex: unsupported repetition in {self.s!r}")
                self.i = m.end()
                n, one = int(m.group(1)), a
                for _ in range(n - 1):
                    a = ("seq", one, a)
            else:
                raise ValueError(f"regex: unsupported operator {c!r} in {self.s!r}")
            if self.peek() == "?":
                raise ValueError("regex: non-greedy repetition unsupported")
        return a
    def escape(self, in_class):
        # self.s[self.i] == '\\'
        c = self.s[self.i + 1]
        if c == "x":
            v = int(self.s[self.i + 2:self.i + 4], 16); self.i += 4; return v
        table = {"n": 10, "t": 9, "r": 13, "\\": 92, ".": 46, '"': 34, "/": 47, "-": 45, "[": 91, "]": 93,
                 "(": 40, ")": 41, "{": 123, "}": 125, "*": 42, "+": 43, "?": 63, "|": 124, "^": 94, "$": 36}
        if c not in table:
            raise ValueError(f"regex: unsupported escape \\{c} in {self.s!r}")
        self.i += 2
        return table[c]
    def atom(self):
        c = self.peek()
        if c == "(":
            if self.s[self.i + 1] == "?":
                raise ValueError("regex: group flags unsupported")
            self.i += 1
            r = self.alt()
            if self.peek() != ")":
                raise ValueError(f"regex: unbalanced group in {self.s!r}")
            self.i += 1
            return r
        if c == "[":
            return self.klass()
        if c == ".":
            self.i += 1
            return ("cls", True, [(10, 10)])
        if c == "\\":
            return ("chr", self.escape(False))
        if c in "^$":
            raise ValueError("regex: anchors unsupported")
        self.i += 1
        return ("chr", ord(c))
    def klass(self):
        self.i += 1
        neg = False
        if self.peek() == "^":
            neg = True; self.i += 1
        rs = []
        def one():
            if self.peek() == "\\":
                return self.escape(True)
            if self.peek() == "[":
                raise ValueError("regex: nested classes unsupported")
            v = ord(self.peek()); self.i += 1; return v
        while self.peek() != "]":
            if self.peek() is None:
                raise ValueError(f"regex: unterminated class in {self.s!r}")
            lo = one()
            if self.peek() == "-" and self.s[self.i + 1] != "]":
                self.i += 1
                hi = one()
                if hi < lo:
                    raise ValueError("regex: bad range")
                rs.append((lo, hi))
            else:
                rs.append((lo, lo))
        self.i += 1
        return ("cls", neg, rs)


def _re_lean(r):
    t = r[0]
    if t == "eps":
        return ".eps"
    if t == "chr":
        return f"(.chr {r[1]})"
    if t == "cls":
        return "(.cls %s [%s])" % ("true" if r[1] else "false", ", ".join(f"({a}, {b})" for a, b in r[2]))
    if t == "star":
        return f"(.star {_re_lean(r[1])})"
    return f"(.{t} {_re_lean(r[1])} {_re_lean(r[2])})"


def _lean_str(s):
    out = []
    for ch in s:
        if ch == "\\":
            out.append("\\\\")
        elif ch == '"':
            out.append('\\"')
        elif ch == "\n":
            out.append("\\n")
        elif ch == "\t":
            out.append("\\t")
        elif ch == "\r":
            out.append("\\r")
        elif ord(ch) < 32 or ord(ch) == 127:
            out.append("\\x%02x" % ord(ch))
        else:
            out.append(ch)
    return '"' + "".join(out) + '"'


def _enum_variants_with_attrs(body):
    """[(variant, [attribute text…])] of a fieldless enum body"""
    out, attrs, i = [], [], 0
    while i < len(body):
        if body[i].isspace() or body[i] == ",":
            i += 1; continue
        if body.startswith("//", i):          # comment between variants
            j = body.find("\n", i)
            i = len(body) if j < 0 else j; continue
        if body.startswith("#[", i):
            # attribute: scan to the matching ']' skipping string literals
            j, depth = i + 2, 1
            while depth:
                if body[j] == '"' or re.compile(r'r#*"').match(body, j):
                    _, j = _rust_str_lit(body, j); continue
                if body[j] == "[":
                    depth += 1
                elif body[j] == "]":
                    depth -= 1
                j += 1
            attrs.append(body[i + 2:j - 1]); i = j; continue
        m = re.compile(r"[A-Za-z_][A-Za-z_0-9]*").match(body, i)
        if not m:
            raise ValueError(f"enum body: cannot parse at {body[i:i+40]!r}")
        out.append((m.group(0), attrs)); attrs = []; i = m.end()
    return out


def extract_tokens():
    lex = open(os.path.join(REPO, "crates/lexer/src/lib.rs")).read()
    syn = open(os.path.join(REPO, "crates/parser/src/syntax.rs")).read()
    m = re.search(r"#\[derive\(([^)]*)\)\]\s*pub enum TokenKind \{(.*?)\n\}", lex, re.S)
    if not m or "Logos" not in m.group(1):
        raise ValueError("lexer/src/lib.rs: `#[derive(.. Logos)] pub enum TokenKind` not found")
    if re.search(r"#\[logos\(", lex):
        raise ValueError("lexer/src/lib.rs: an enum-level #[logos(..)] attribute (skip/subpattern/…) appeared; the model does not know it")
    variants = _enum_variants_with_attrs(m.group(2))
    names = [v for v, _ in variants]
    if len(set(names)) != len(names) or names[-2:] != ["Error", "Eof"]:
        raise ValueError("TokenKind: expected distinct variants ending in Error, Eof")
    literals, regexes = [], []
    for idx, (v, attrs) in enumerate(variants):
        if v in ("Error", "Eof"):
            if attrs:
                raise ValueError(f"TokenKind::{v} now has a lexer rule")
            continue
        if len(attrs) != 1:
            raise ValueError(f"TokenKind::{v}: expected exactly one #[token]/#[regex] attribute, found {attrs}")
        a = attrs[0].strip()
        mm = re.match(r"(token|regex)\(\s*", a)
        if not mm or not a.endswith(")"):
            raise ValueError(f"TokenKind::{v}: unknown attribute {a!r}")
        lit, j = _rust_str_lit(a, mm.end())
        rest = [x.strip() for x in a[j:-1].split(",") if x.strip()]
        prio, cb = None, None
        for x in rest:
            pm = re.fullmatch(r"priority\s*=\s*(\d+)", x)
            if pm:
                prio = int(pm.group(1))
            elif re.fullmatch(r"[A-Za-z_][A-Za-z_0-9]*", x):
                cb = x
            else:
                raise ValueError(f"TokenKind::{v}: unknown rule option {x!r}")
        if mm.group(1) == "token":
            if cb or prio is not None or not lit:
                raise ValueError(f"TokenKind::{v}: #[token] with options/empty literal is not modelled")
            literals.append((idx, v, lit))
        else:
            regexes.append((idx, v, lit, _Rx(lit).parse(), prio, cb))
    cbs = sorted({r[5] for r in regexes if r[5]})
    if cbs != ["lex_multiline_str"]:
        raise ValueError(f"lexer callbacks changed: {cbs} (the model transcribes lex_multiline_str only)")
    if not re.search(r"fn lex_multiline_str\(lex: &mut logos::Lexer<TokenKind>\) -> Option<\(\)>", lex):
        raise ValueError("lex_multiline_str: signature changed")
    if "kind: TokenKind::Error," not in lex or "if let Ok(kind) = kind" not in lex:
        raise ValueError("Lexer::next no longer maps a logos error to TokenKind::Error")
    tm = re.search(r"pub fn is_trivia\(self\) -> bool \{\s*matches!\(self,([^)]*)\)\s*\}", lex)
    if not tm:
        raise ValueError("TokenKind::is_trivia: shape changed")
    trivia = [x.strip().replace("Self::", "") for x in tm.group(1).split("|")]
    for t in trivia:
        if t not in names:
            raise ValueError(f"is_trivia mentions unknown kind {t}")
    sm = re.search(r"#\[repr\(u16\)\]\s*pub enum MySyntaxKind \{(.*?)\n\}", syn, re.S)
    if not sm:
        raise ValueError("parser/src/syntax.rs: `#[repr(u16)] pub enum MySyntaxKind` not found")
    skinds = [v for v, a in _enum_variants_with_attrs(sm.group(1))]
    if "rowan::SyntaxKind(self as u16)" not in syn or "Self(kind as u16)" not in syn:
        raise ValueError("syntax.rs: kinds are no longer converted by `as u16`")
    bm = re.search(r"assert!\(raw\.0 <= MySyntaxKind::(\w+) as u16\)", syn)
    if not bm:
        raise ValueError("syntax.rs: kind_from_raw bound not found")
    L = ["-- GENERATED by tools/extract.py from crates/lexer/src/lib.rs and crates/parser/src/syntax.rs; do not edit",
         "import GomlVerif.Model.Regex",
         "namespace Goml.Gen.Tokens",
         "open Goml.Lex",
         "",
         "/-- `TokenKind` variants in declaration order; the discriminant (`kind as u16`) is the index -/",
         "def kindNames : List String := [" + ", ".join(_lean_str(n) for n in names) + "]",
         "",
         "/-- `MySyntaxKind` variants in declaration order (`#[repr(u16)]`) -/",
         "def syntaxKindNames : List String := [" + ", ".join(_lean_str(n) for n in skinds) + "]",
         "",
         f"/-- the variant `kind_from_raw` uses as its upper bound -/",
         f"def kindFromRawBound : String := {_lean_str(bm.group(1))}",
         "",
         f"def errorKind : Nat := {names.index('Error')}",
         f"def eofKind : Nat := {names.index('Eof')}",
         "/-- `MySyntaxKind::TombStone as u16` (an `Open` event that was never completed) -/",
         f"def tombStoneKind : Nat := {skinds.index('TombStone')}",
         "/-- `TokenKind::is_trivia` -/",
         "def triviaKinds : List Nat := [" + ", ".join(str(names.index(t)) for t in trivia) + "]",
         "",
         "/-- `#[token(\"…\")]` rules: (kind, literal) in declaration order -/",
         "def literals : List (Nat × String) := ["]
    L += ["  " + ",\n  ".join(f"({i}, {_lean_str(lit)})" for i, _, lit in literals) + "]", "",
          "/-- `#[regex(…)]` rules in declaration order -/",
          "def regexes : List RegexRule := ["]
    rl = []
    for i, v, srcs, r, prio, cb in regexes:
        rl.append("  { kind := %d, name := %s, src := %s,\n    re := %s,\n    prio := %s, callback := %s }" % (
            i, _lean_str(v), _lean_str(srcs), _re_lean(r),
            "none" if prio is None else f"some {prio}", "none" if cb is None else "some " + _lean_str(cb)))
    L += [",\n".join(rl) + "]", "", "end Goml.Gen.Tokens", ""]
    write_if_changed("Tokens.lean", "\n".join(L))

EXTRACTORS = [extract_tokens]

if __name__ == "__main__":
    main()
