#!/usr/bin/env python3
"""Translator: regenerates lean/GomlVerif/Gen/*.lean from /repo sources (tables only)."""
import os, re, sys
VERIF = os.path.dirname(os.path.dirname(os.path.abspath(__file__)))
GEN = os.path.join(VERIF, "lean", "GomlVerif", "Gen")
REPO = os.environ.get("GV_REPO", "/repo")

def write_if_changed(name, text):
    os.makedirs(GEN, exist_ok=True)
    p = os.path.join(GEN, name)
    if not os.path.exists(p) or open(p).read() != text:
        open(p, "w").write(text)


def read(rel):
    return open(os.path.join(REPO, rel), encoding="utf-8").read()

def fn_body(src, name):
    """text of `fn name(...) ... { body }` (brace matching; good enough for rustfmt-formatted code without braces in strings)"""
    m = re.search(r"\bfn\s+" + re.escape(name) + r"\s*[(<]", src)
    if not m:
        return None
    i = src.index("{", m.end())
    # skip a where/return type: the first `{` after the parameter list closes is the body
    depth, j = 0, m.end() - 1
    while j < len(src):
        if src[j] == "(":
            depth += 1
        elif src[j] == ")":
            depth -= 1
            if depth == 0:
                break
        j += 1
    i = src.index("{", j)
    depth, k = 0, i
    while k < len(src):
        c = src[k]
        if c == "'" and k + 2 < len(src) and src[k + 2] == "'":      # char literal such as '{' or '}'
            k += 3
            continue
        if c == '"':                                                  # string literal
            k += 1
            while k < len(src) and src[k] != '"':
                k += 2 if src[k] == "\\" else 1
            k += 1
            continue
        if c == "/" and src.startswith("//", k):                      # line comment
            k = src.index("\n", k)
            continue
        if c == "{":
            depth += 1
        elif c == "}":
            depth -= 1
            if depth == 0:
                return src[m.start():k + 1]
        k += 1
    return None

def lean_bool(b):
    return "true" if b else "false"

def extract_query_glue():
    """C20: what query.rs does between (line, col) and the first use of the offset, the completion
    placeholder, and the three TokenAtOffset::Between tie-break rules (asserted, not modelled twice)"""
    src = read("crates/compiler/src/query.rs")
    m = re.search(r'const COMPLETION_PLACEHOLDER: &str = "([A-Za-z0-9_]+)";', src)
    if not m:
        raise Exception("query.rs: COMPLETION_PLACEHOLDER constant not found (or not a plain identifier)")
    placeholder = m.group(1)
    bodies = {}
    for f in ("hover_type", "dot_completions", "colon_colon_completions"):
        b = fn_body(src, f)
        if not b:
            raise Exception(f"query.rs: fn {f} not found")
        bodies[f] = b
    direct = [f for f, b in bodies.items() if re.search(r"\.offset\(\s*line_index::LineCol\s*\{\s*line,\s*col\s*\}\s*\)", b)]
    helper = [f for f, b in bodies.items() if re.search(r"\boffset_at\(src,\s*line,\s*col\)", b)]
    if len(direct) == 3 and not helper:
        checked_add = bounds = boundary = False
        how = "line_index.offset(LineCol { line, col }) used directly in all three queries"
    elif len(helper) == 3 and not direct:
        h = fn_body(src, "offset_at")
        if not h:
            raise Exception("query.rs: fn offset_at not found although the queries call it")
        if not re.search(r"LineIndex::new\(src\)", h) or not re.search(r"\.offset\(\s*line_index::LineCol\s*\{\s*line,\s*col:\s*0\s*\}\s*\)\?", h):
            raise Exception("query.rs: offset_at no longer starts from LineIndex::new(src).offset(LineCol { line, col: 0 })?")
        checked_add = bool(re.search(r"u32::from\(start\)\.checked_add\(col\)\?", h))
        bounds = bool(re.search(r"offset as usize > src\.len\(\)", h))
        boundary = bool(re.search(r"!src\.is_char_boundary\(offset as usize\)", h))
        if not checked_add and not re.search(r"start\s*\+\s*TextSize::from\(col\)|u32::from\(start\)\s*\+\s*col|wrapping_add\(col\)", h):
            raise Exception("query.rs: offset_at adds the column in a way the extractor does not know")
        how = "all three queries go through offset_at"
    else:
        raise Exception(f"query.rs: mixed position mapping (direct: {direct}, via offset_at: {helper})")
    rules = {
        "hover_type": r"TokenAtOffset::Between\(x, y\) => \{\s*if x\.kind\(\) == MySyntaxKind::Ident \{\s*Some\(x\)\s*\} else \{\s*Some\(y\)",
        "dot_completions": r"TokenAtOffset::Between\(left, right\) => \{\s*if right\.kind\(\) == MySyntaxKind::Dot \{\s*right\s*\} else if left\.kind\(\) == MySyntaxKind::Dot \{\s*left\s*\} else \{\s*return None;",
        "colon_colon_completions": r"TokenAtOffset::Between\(x, y\) => \{\s*if y\.kind\(\) == MySyntaxKind::Ident \{\s*Some\(y\)\s*\} else \{\s*Some\(x\)",
    }
    for f, rx in rules.items():
        if not re.search(rx, bodies[f]):
            raise Exception(f"query.rs: the TokenAtOffset::Between rule of {f} is not the modelled one")
    if not re.search(r"fixed_src\.insert_str\(insert_index, COMPLETION_PLACEHOLDER\)", bodies["dot_completions"]) or \
       not re.search(r"fixed_src\.insert_str\(insert_index, COMPLETION_PLACEHOLDER\)", bodies["colon_colon_completions"]):
        raise Exception("query.rs: placeholder insertion is not `fixed_src.insert_str(insert_index, COMPLETION_PLACEHOLDER)`")
    text = f"""/- GENERATED by tools/extract.py from crates/compiler/src/query.rs — do not edit.
   {how} -/
import GomlVerif.Model.Query
namespace Goml.Gen
open Goml.Query

/-- the checks query.rs performs on the offset computed from (line, col) -/
def queryGlue : Glue := {{ checkedAdd := {lean_bool(checked_add)}, boundsCheck := {lean_bool(bounds)}, boundaryCheck := {lean_bool(boundary)} }}

/-- `COMPLETION_PLACEHOLDER` -/
def completionPlaceholder : String := "{placeholder}"

end Goml.Gen
"""
    write_if_changed("QueryGlue.lean", text)


def t_names(text):
    """`T![fn] | T!['}'] | …` -> ["fn", "}", …]"""
    return [m.group(1) or m.group(2) for m in re.finditer(r"T!\[(?:'([^']+)'|([^\]]+))\]", text)]

def lean_str_list(xs):
    return "[" + ", ".join('"' + x.replace("\\", "\\\\").replace('"', '\\"') + '"' for x in xs) + "]"

def extract_parser_consts():
    """C04: the parser's fuel constant and the shape of peek/nth/advance it is used in"""
    src = read("crates/parser/src/parser.rs")
    new = fn_body(src, "new")
    m = re.search(r"fuel:\s*Cell::new\((\d+)\)", src)
    if not m:
        raise Exception("parser.rs: `fuel: Cell::new(N)` not found in Parser::new")
    fuel = int(m.group(1))
    adv = fn_body(src, "advance")
    m2 = re.search(r"self\.fuel\.set\((\d+)\);", adv or "")
    if not adv or not m2 or int(m2.group(1)) != fuel:
        raise Exception("parser.rs: advance() no longer resets the fuel to the initial value")
    if not re.search(r"self\.input\.skip\(\);\s*self\.stuck_reported\.set\(false\);\s*self\.events\.push\(Event::Advance\);", adv):
        raise Exception("parser.rs: advance() is not `fuel.set; input.skip; stuck_reported.set(false); push(Advance)`")
    for f in ("peek", "nth"):
        b = fn_body(src, f)
        if not b or not re.search(r"if self\.fuel\.get\(\) == 0 \{", b) or not re.search(r"return T!\[eof\];", b) \
                or not re.search(r"self\.fuel\.set\(self\.fuel\.get\(\) - 1\);", b) or not re.search(r"if !self\.stuck_reported\.get\(\)", b):
            raise Exception(f"parser.rs: {f}() is not the modelled fuel check (fuel == 0 -> report once, return eof; else fuel -= 1)")
    eof = fn_body(src, "eof")
    if not eof or "self.input.eof()" not in eof or "fuel" in eof:
        raise Exception("parser.rs: eof() is not the plain input.eof() any more")
    text = f"""/- GENERATED by tools/extract.py from crates/parser/src/parser.rs — do not edit. -/
namespace Goml.Gen

/-- `Parser::new`: `fuel: Cell::new({fuel})`, and `advance()` resets to the same value -/
def parserFuel : Nat := {fuel}

end Goml.Gen
"""
    write_if_changed("Consts.lean", text)

def extract_recovery():
    """C04: should_consume_on_expect_failure (tokens `expect` never eats) and EXPR_FIRST"""
    src = read("crates/parser/src/parser.rs")
    b = fn_body(src, "should_consume_on_expect_failure")
    if not b or not re.search(r"!matches!\(\s*kind,", b):
        raise Exception("parser.rs: should_consume_on_expect_failure is not `!matches!(kind, …)`")
    keep = t_names(b)
    if len(keep) < 5 or "fn" not in keep or "}" not in keep:
        raise Exception(f"parser.rs: unexpected recovery set {keep}")
    ex = fn_body(src, "expect")
    if not ex or not re.search(r"if cur_kind == T!\[eof\] \|\| !should_consume_on_expect_failure\(cur_kind\) \{\s*self\.events\.push\(Event::Error\(err_msg\)\);\s*return;\s*\}\s*self\.advance_with_error\(&err_msg\);", ex):
        raise Exception("parser.rs: expect() is not the modelled recovery (error only on eof / recovery token, else advance_with_error)")
    awe = fn_body(src, "advance_with_error")
    if not awe or not re.search(r"self\.events\.push\(Event::Error\(error\.to_string\(\)\)\);\s*self\.advance\(\);", awe):
        raise Exception("parser.rs: advance_with_error() no longer advances unconditionally")
    esrc = read("crates/parser/src/expr.rs")
    m = re.search(r"pub const EXPR_FIRST: &\[TokenKind\] = &\[(.*?)\];", esrc, flags=re.S)
    if not m:
        raise Exception("expr.rs: EXPR_FIRST not found")
    first = t_names(m.group(1))
    fsrc = read("crates/parser/src/file.rs")
    fb = fn_body(fsrc, "file")
    if not fb or not re.search(r"while !p\.eof\(\) \{", fb) or not re.search(r"\} else \{\s*p\.advance_with_error\(\"expected a function\"\)\s*\}", fb):
        raise Exception("file.rs: the top-level loop is not `while !p.eof() { if p.at(..) … else { p.advance_with_error(..) } }`")
    guards = t_names(" ".join(re.findall(r"if p\.at\((T!\[[^\]]+\])\)", fb)))
    text = f"""/- GENERATED by tools/extract.py from crates/parser/src/parser.rs, expr.rs, file.rs — do not edit. -/
namespace Goml.Gen

/-- tokens `Parser::expect` reports but never consumes (`should_consume_on_expect_failure` is false) -/
def recoveryTokens : List String := {lean_str_list(keep)}

/-- `EXPR_FIRST` -/
def exprFirst : List String := {lean_str_list(first)}

/-- the `p.at(..)` guards of the top-level loop of `file()` in order -/
def fileGuards : List String := {lean_str_list(guards)}

end Goml.Gen
"""
    write_if_changed("Recovery.lean", text)

def main():
    errors = []
    # extractors are registered below as they are added
    for fn in EXTRACTORS:
        try:
            fn()
        except Exception as e:  # an extractor that lost its anchor is a broken tie
            errors.append(f"{fn.__name__}: {e}")
    if errors:
        print("\n".join(errors))
        sys.exit(1)

EXTRACTORS = [extract_query_glue, extract_parser_consts, extract_recovery]

if __name__ == "__main__":
    main()
