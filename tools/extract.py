#!/usr/bin/env python3
"""Translator: regenerates lean/GomlVerif/Gen/*.lean from /repo sources (tables only)."""
import os, re, sys
VERIF = os.path.dirname(os.path.dirname(os.path.abspath(__file__)))
GEN = os.path.join(VERIF, "lean", "GomlVerif", "Gen")
REPO = os.environ.get("GV_REPO", "/repo")

def write_if_changed(name, text):
    os.makedirs(GEN, exist_ok=True)
    p = os.path.join(GEN, name)
    if not os.path.exists(p) or open(p).read() != text:
        open(p, "w").write(text)


def c20_read(rel):
    return open(os.path.join(REPO, rel), encoding="utf-8").read()

def c20_fn_body(src, name):
    """text of `fn name(...) ... { body }` (brace matching; good enough for rustfmt-formatted code without braces in strings)"""
    m = re.search(r"\bfn\s+" + re.escape(name) + r"\s*[(<]", src)
    if not m:
        return None
    i = src.index("{", m.end())
    # skip a where/return type: the first `{` after the parameter list closes is the body
    depth, j = 0, m.end() - 1
    while j < len(src):
        if src[j] == "(":
            depth += 1
        elif src[j] == ")":
            depth -= 1
            if depth == 0:
                break
        j += 1
    i = src.index("{", j)
    depth, k = 0, i
    while k < len(src):
        c = src[k]
        if c == "'" and k + 2 < len(src) and src[k + 2] == "'":      # char literal such as '{' or '}'
            k += 3
            continue
        if c == '"':                                                  # string literal
            k += 1
            while k < len(src) and src[k] != '"':
                k += 2 if src[k] == "\\" else 1
            k += 1
            continue
        if c == "/" and src.startswith("//", k):                      # line comment
            k = src.index("\n", k)
            continue
        if c == "{":
            depth += 1
        elif c == "}":
            depth -= 1
            if depth == 0:
                return src[m.start():k + 1]
        k += 1
    return None

def c20_lean_bool(b):
    return "true" if b else "false"

def extract_query_glue():
    """C20: what query.rs does between (line, col) and the first use of the offset, the completion
    placeholder, and the three TokenAtOffset::Between tie-break rules (asserted, not modelled twice)"""
    src = c20_read("crates/compiler/src/query.rs")
    m = re.search(r'const COMPLETION_PLACEHOLDER: &str = "([A-Za-z0-9_]+)";', src)
    if not m:
        raise Exception("query.rs: COMPLETION_PLACEHOLDER constant not found (or not a plain identifier)")
    placeholder = m.group(1)
    bodies = {}
    for f in ("hover_type", "dot_completions", "colon_colon_completions"):
        b = c20_fn_body(src, f)
        if not b:
            raise Exception(f"query.rs: fn {f} not found")
        bodies[f] = b
    direct = [f for f, b in bodies.items() if re.search(r"\.offset\(\s*line_index::LineCol\s*\{\s*line,\s*col\s*\}\s*\)", b)]
    helper = [f for f, b in bodies.items() if re.search(r"\boffset_at\(src,\s*line,\s*col\)", b)]
    if len(direct) == 3 and not helper:
        checked_add = bounds = boundary = False
        how = "line_index.offset(LineCol { line, col }) used directly in all three queries"
    elif len(helper) == 3 and not direct:
        h = c20_fn_body(src, "offset_at")
        if not h:
            raise Exception("query.rs: fn offset_at not found although the queries call it")
        if not re.search(r"LineIndex::new\(src\)", h) or not re.search(r"\.offset\(\s*line_index::LineCol\s*\{\s*line,\s*col:\s*0\s*\}\s*\)\?", h):
            raise Exception("query.rs: offset_at no longer starts from LineIndex::new(src).offset(LineCol { line, col: 0 })?")
        checked_add = bool(re.search(r"u32::from\(start\)\.checked_add\(col\)\?", h))
        bounds = bool(re.search(r"offset as usize > src\.len\(\)", h))
        boundary = bool(re.search(r"!src\.is_char_boundary\(offset as usize\)", h))
        if not checked_add and not re.search(r"start\s*\+\s*TextSize::from\(col\)|u32::from\(start\)\s*\+\s*col|wrapping_add\(col\)", h):
            raise Exception("query.rs: offset_at adds the column in a way the extractor does not know")
        how = "all three queries go through offset_at"
    else:
        raise Exception(f"query.rs: mixed position mapping (direct: {direct}, via offset_at: {helper})")
    rules = {
        "hover_type": r"TokenAtOffset::Between\(x, y\) => \{\s*if x\.kind\(\) == MySyntaxKind::Ident \{\s*Some\(x\)\s*\} else \{\s*Some\(y\)",
        "dot_completions": r"TokenAtOffset::Between\(left, right\) => \{\s*if right\.kind\(\) == MySyntaxKind::Dot \{\s*right\s*\} else if left\.kind\(\) == MySyntaxKind::Dot \{\s*left\s*\} else \{\s*return None;",
        "colon_colon_completions": r"TokenAtOffset::Between\(x, y\) => \{\s*if y\.kind\(\) == MySyntaxKind::Ident \{\s*Some\(y\)\s*\} else \{\s*Some\(x\)",
    }
    for f, rx in rules.items():
        if not re.search(rx, bodies[f]):
            raise Exception(f"query.rs: the TokenAtOffset::Between rule of {f} is not the modelled one")
    if not re.search(r"fixed_src\.insert_str\(insert_index, COMPLETION_PLACEHOLDER\)", bodies["dot_completions"]) or \
       not re.search(r"fixed_src\.insert_str\(insert_index, COMPLETION_PLACEHOLDER\)", bodies["colon_colon_completions"]):
        raise Exception("query.rs: placeholder insertion is not `fixed_src.insert_str(insert_index, COMPLETION_PLACEHOLDER)`")
    text = f"""/- GENERATED by tools/extract.py from crates/compiler/src/query.rs — do not edit.
   {how} -/
import GomlVerif.Model.Query
namespace Goml.Gen
open Goml.Query

/-- the checks query.rs performs on the offset computed from (line, col) -/
def queryGlue : Glue := {{ checkedAdd := {c20_lean_bool(checked_add)}, boundsCheck := {c20_lean_bool(bounds)}, boundaryCheck := {c20_lean_bool(boundary)} }}

/-- `COMPLETION_PLACEHOLDER` -/
def completionPlaceholder : String := "{placeholder}"

end Goml.Gen
"""
    write_if_changed("QueryGlue.lean", text)


def c04_t_names(text):
    """`T![fn] | T!['}'] | …` -> ["fn", "}", …]"""
    return [m.group(1) or m.group(2) for m in re.finditer(r"T!\[(?:'([^']+)'|([^\]]+))\]", text)]

def c04_lean_str_list(xs):
    return "[" + ", ".join('"' + x.replace("\\", "\\\\").replace('"', '\\"') + '"' for x in xs) + "]"

def extract_parser_consts():
    """C04: the parser's fuel constant and the shape of peek/nth/advance it is used in"""
    src = c20_read("crates/parser/src/parser.rs")
    new = c20_fn_body(src, "new")
    m = re.search(r"fuel:\s*Cell::new\((\d+)\)", src)
    if not m:
        raise Exception("parser.rs: `fuel: Cell::new(N)` not found in Parser::new")
    fuel = int(m.group(1))
    adv = c20_fn_body(src, "advance")
    m2 = re.search(r"self\.fuel\.set\((\d+)\);", adv or "")
    if not adv or not m2 or int(m2.group(1)) != fuel:
        raise Exception("parser.rs: advance() no longer resets the fuel to the initial value")
    if not re.search(r"self\.input\.skip\(\);\s*self\.stuck_reported\.set\(false\);\s*self\.events\.push\(Event::Advance\);", adv):
        raise Exception("parser.rs: advance() is not `fuel.set; input.skip; stuck_reported.set(false); push(Advance)`")
    for f in ("peek", "nth"):
        b = c20_fn_body(src, f)
        if not b or not re.search(r"if self\.fuel\.get\(\) == 0 \{", b) or not re.search(r"return T!\[eof\];", b) \
                or not re.search(r"self\.fuel\.set\(self\.fuel\.get\(\) - 1\);", b) or not re.search(r"if !self\.stuck_reported\.get\(\)", b):
            raise Exception(f"parser.rs: {f}() is not the modelled fuel check (fuel == 0 -> report once, return eof; else fuel -= 1)")
    eof = c20_fn_body(src, "eof")
    if not eof or "self.input.eof()" not in eof or "fuel" in eof:
        raise Exception("parser.rs: eof() is not the plain input.eof() any more")
    text = f"""/- GENERATED by tools/extract.py from crates/parser/src/parser.rs — do not edit. -/
namespace Goml.Gen

/-- `Parser::new`: `fuel: Cell::new({fuel})`, and `advance()` resets to the same value -/
def parserFuel : Nat := {fuel}

end Goml.Gen
"""
    write_if_changed("Consts.lean", text)

def extract_recovery():
    """C04: should_consume_on_expect_failure (tokens `expect` never eats) and EXPR_FIRST"""
    src = c20_read("crates/parser/src/parser.rs")
    b = c20_fn_body(src, "should_consume_on_expect_failure")
    if not b or not re.search(r"!matches!\(\s*kind,", b):
        raise Exception("parser.rs: should_consume_on_expect_failure is not `!matches!(kind, …)`")
    keep = c04_t_names(b)
    if len(keep) < 5 or "fn" not in keep or "}" not in keep:
        raise Exception(f"parser.rs: unexpected recovery set {keep}")
    ex = c20_fn_body(src, "expect")
    if not ex or not re.search(r"if cur_kind == T!\[eof\] \|\| !should_consume_on_expect_failure\(cur_kind\) \{\s*self\.events\.push\(Event::Error\(err_msg\)\);\s*return;\s*\}\s*self\.advance_with_error\(&err_msg\);", ex):
        raise Exception("parser.rs: expect() is not the modelled recovery (error only on eof / recovery token, else advance_with_error)")
    awe = c20_fn_body(src, "advance_with_error")
    if not awe or not re.search(r"self\.events\.push\(Event::Error\(error\.to_string\(\)\)\);\s*self\.advance\(\);", awe):
        raise Exception("parser.rs: advance_with_error() no longer advances unconditionally")
    esrc = c20_read("crates/parser/src/expr.rs")
    m = re.search(r"pub const EXPR_FIRST: &\[TokenKind\] = &\[(.*?)\];", esrc, flags=re.S)
    if not m:
        raise Exception("expr.rs: EXPR_FIRST not found")
    first = c04_t_names(m.group(1))
    fsrc = c20_read("crates/parser/src/file.rs")
    fb = c20_fn_body(fsrc, "file")
    if not fb or not re.search(r"while !p\.eof\(\) \{", fb) or not re.search(r"\} else \{\s*p\.advance_with_error\(\"expected a function\"\)\s*\}", fb):
        raise Exception("file.rs: the top-level loop is not `while !p.eof() { if p.at(..) … else { p.advance_with_error(..) } }`")
    guards = c04_t_names(" ".join(re.findall(r"if p\.at\((T!\[[^\]]+\])\)", fb)))
    text = f"""/- GENERATED by tools/extract.py from crates/parser/src/parser.rs, expr.rs, file.rs — do not edit. -/
namespace Goml.Gen

/-- tokens `Parser::expect` reports but never consumes (`should_consume_on_expect_failure` is false) -/
def recoveryTokens : List String := {c04_lean_str_list(keep)}

/-- `EXPR_FIRST` -/
def exprFirst : List String := {c04_lean_str_list(first)}

/-- the `p.at(..)` guards of the top-level loop of `file()` in order -/
def fileGuards : List String := {c04_lean_str_list(guards)}

end Goml.Gen
"""
    write_if_changed("Recovery.lean", text)
EXTRACTORS = []


def main():
    errors = []
    # extractors are registered below as they are added
    for fn in EXTRACTORS:
        try:
            fn()
        except Exception as e:  # an extractor that lost its anchor is a broken tie
            errors.append(f"{fn.__name__}: {e}")
    if errors:
        print("\n".join(errors))
        sys.exit(1)

EXTRACTORS += [extract_query_glue, extract_parser_consts, extract_recovery]

# ---------------------------------------------------------------- helpers
def src(rel):
    p = os.path.join(REPO, rel)
    if not os.path.exists(p):
        raise Exception(f"source file missing: {rel}")
    return open(p, encoding="utf-8").read()

def block_after(text, header_re, what):
    """text of the `{ … }` block that follows the first match of header_re (brace matched)"""
    m = re.search(header_re, text)
    if not m:
        raise Exception(f"anchor lost: {what} (/{header_re}/)")
    i = text.index("{", m.end() - 1) if text[m.end() - 1] != "{" else m.end() - 1
    depth, j = 0, i
    while j < len(text):
        c = text[j]
        if c == "{":
            depth += 1
        elif c == "}":
            depth -= 1
            if depth == 0:
                return text[i + 1:j]
        j += 1
    raise Exception(f"unbalanced block: {what}")

def lstr(s):
    return '"' + s.replace("\\", "\\\\").replace('"', '\\"') + '"'

def lpairs(name, rows, doc):
    body = ",\n".join("  (" + ", ".join(lstr(x) for x in r) + ")" for r in rows)
    ty = " × ".join(["String"] * len(rows[0]))
    return f"/-- {doc} -/\ndef {name} : List ({ty}) := [\n{body}]\n"

HEADER = "/- GENERATED by tools/extract.py from the goml sources on every ./check run — do not edit -/\n"

# ---------------------------------------------------------------- C10: operator map
def extract_opmap():
    """goml operator -> Go operator (go/compile.rs) -> printed symbol (go_pprint.rs); source symbols (common-defs)"""
    cd = src("crates/common-defs/src/lib.rs")
    comp = src("crates/compiler/src/go/compile.rs")
    pp = src("crates/compiler/src/pprint/go_pprint.rs")
    goast = src("crates/compiler/src/go/goast.rs")
    def enum_variants(text, name):
        b = block_after(text, r"pub enum " + name + r"\s*\{", f"enum {name}")
        return [v for v in re.findall(r"^\s*([A-Z][A-Za-z0-9]*)\s*,", b, flags=re.M)]
    def symbols(text, impl, what):
        b = block_after(text, r"impl " + impl + r"\s*\{", f"impl {impl}")
        f = block_after(b, r"pub fn symbol\(self\) -> &'static str\s*\{", f"{impl}::symbol")
        return re.findall(r"Self::(\w+)\s*=>\s*\"([^\"]*)\"", f)
    bin_vars, un_vars = enum_variants(cd, "BinaryOp"), enum_variants(cd, "UnaryOp")
    bin_sym, un_sym = symbols(cd, "BinaryOp", "bin"), symbols(cd, "UnaryOp", "un")
    if [v for v, _ in bin_sym] != bin_vars or [v for v, _ in un_sym] != un_vars:
        raise Exception("common-defs: symbol() arms do not cover the operator enums in order")
    if len(bin_vars) != 12 or len(un_vars) != 2:
        raise Exception(f"common-defs: expected 12 binary and 2 unary operators, found {len(bin_vars)}/{len(un_vars)}")
    # go/compile.rs: the two `let go_op = match op { … }` tables
    ub = block_after(comp, r"anf::CExpr::EUnary \{ op, expr, ty \} => \{\s*let go_op = match op \{", "compile.rs unary operator table")
    bb = block_after(comp, r"anf::CExpr::EBinary \{ op, lhs, rhs, ty \} => \{\s*let go_op = match op \{", "compile.rs binary operator table")
    un_map = re.findall(r"common_defs::UnaryOp::(\w+)\s*=>\s*goast::GoUnaryOp::(\w+)", ub)
    bin_map = re.findall(r"common_defs::BinaryOp::(\w+)\s*=>\s*goast::GoBinaryOp::(\w+)", bb)
    if sorted(v for v, _ in bin_map) != sorted(bin_vars) or len(bin_map) != len(bin_vars):
        raise Exception("compile.rs: binary operator table does not have exactly one arm per BinaryOp")
    if sorted(v for v, _ in un_map) != sorted(un_vars) or len(un_map) != len(un_vars):
        raise Exception("compile.rs: unary operator table does not have exactly one arm per UnaryOp")
    if ub.count("=>") != len(un_map) or bb.count("=>") != len(bin_map):
        raise Exception("compile.rs: operator table has arms of an unexpected shape")
    go_bin_vars, go_un_vars = enum_variants(goast, "GoBinaryOp"), enum_variants(goast, "GoUnaryOp")
    def docs(impl):
        b = block_after(pp, r"impl " + impl + r"\s*\{", f"go_pprint impl {impl}")
        f = block_after(b, r"fn doc\(&self\) -> RcDoc<'_, \(\)>\s*\{", f"{impl}::doc")
        rows = re.findall(impl + r"::(\w+)\s*=>\s*RcDoc::text\(\"([^\"]*)\"\)", f)
        if f.count("=>") != len(rows):
            raise Exception(f"go_pprint.rs: {impl}::doc has arms of an unexpected shape")
        return rows
    go_bin_sym, go_un_sym = docs("GoBinaryOp"), docs("GoUnaryOp")
    if sorted(v for v, _ in go_bin_sym) != sorted(go_bin_vars) or sorted(v for v, _ in go_un_sym) != sorted(go_un_vars):
        raise Exception("go_pprint.rs: doc() arms do not cover the Go operator enums")
    # how a binary / unary expression is laid out by the printer (operand order!)
    e = block_after(pp, r"impl Expr \{\s*pub fn to_doc", "go_pprint Expr::to_doc")
    if not re.search(r"Expr::UnaryOp \{ op, expr, ty: _ \} => op\.doc\(\)\.append\(expr\.to_doc\(goenv\)\)", e):
        raise Exception("go_pprint.rs: UnaryOp is no longer printed as <op><expr>")
    m = re.search(r"Expr::BinaryOp \{\s*op,\s*lhs,\s*rhs,\s*ty: _,\s*\} => lhs\s*\.to_doc\(goenv\)\s*\.append\(RcDoc::space\(\)\)\s*"
                  r"\.append\(op\.doc\(\)\)\s*\.append\(RcDoc::space\(\)\)\s*\.append\(rhs\.to_doc\(goenv\)\)", e)
    if not m:
        raise Exception("go_pprint.rs: BinaryOp is no longer printed as <lhs> <op> <rhs>")
    out = HEADER + "namespace Goml.Gen.OpMap\n\n"
    out += lpairs("srcBin", bin_sym, "common-defs BinaryOp: (variant, source symbol), in declaration order")
    out += lpairs("srcUn", un_sym, "common-defs UnaryOp: (variant, source symbol)")
    out += lpairs("binMap", bin_map, "go/compile.rs `anf::CExpr::EBinary`: (goml BinaryOp, goast::GoBinaryOp)")
    out += lpairs("unMap", un_map, "go/compile.rs `anf::CExpr::EUnary`: (goml UnaryOp, goast::GoUnaryOp)")
    out += lpairs("goBinSym", go_bin_sym, "go_pprint.rs GoBinaryOp::doc: (variant, printed Go operator); printed as `lhs op rhs`")
    out += lpairs("goUnSym", go_un_sym, "go_pprint.rs GoUnaryOp::doc: (variant, printed Go operator); printed as `op expr`")
    out += "\nend Goml.Gen.OpMap\n"
    write_if_changed("OpMap.lean", out)

# ---------------------------------------------------------------- C10: *_to_string helpers
def extract_tostring():
    """for every numeric `*_to_string` runtime helper: parameter Go type and Sprintf verb (go/runtime.rs)"""
    rt = src("crates/compiler/src/go/runtime.rs")
    m = re.search(r"fn to_string_fn\(([^)]*)\) -> goast::Fn", rt)
    if not m:
        raise Exception("runtime.rs: to_string_fn is gone")
    params = [p.strip().split(":")[0].strip() for p in m.group(1).split(",") if p.strip()]
    body = block_after(rt, r"fn to_string_fn\([^)]*\) -> goast::Fn\s*\{", "to_string_fn body")
    if "fmt.Sprintf" not in body:
        raise Exception("runtime.rs: to_string_fn no longer calls fmt.Sprintf")
    args = re.search(r"args:\s*vec!\[\s*goast::Expr::String\s*\{\s*value:\s*([^,]+?)\.to_string\(\),", body)
    if not args:
        raise Exception("runtime.rs: to_string_fn: first Sprintf argument is not a string literal node")
    fmt_expr = args.group(1).strip()
    if params[:2] != ["name", "ty"]:
        raise Exception(f"runtime.rs: to_string_fn parameters changed: {params}")
    rows = []
    for fn, call in re.findall(r"fn (\w+_to_string)\(\) -> goast::Fn \{\s*to_string_fn\(([^;{}]*?)\)\s*\}", rt):
        a = [x.strip() for x in call.split(",") if x.strip()]
        name = a[0].strip('"')
        if name != fn:
            raise Exception(f"runtime.rs: {fn} builds a helper named {name}")
        gt = re.fullmatch(r"goty::GoType::(\w+)", a[1])
        if not gt:
            raise Exception(f"runtime.rs: {fn}: unexpected type argument {a[1]}")
        if fmt_expr.startswith('"'):
            verb = fmt_expr.strip('"')
        else:
            if fmt_expr not in params:
                raise Exception(f"runtime.rs: to_string_fn format `{fmt_expr}` is neither a literal nor a parameter")
            k = params.index(fmt_expr)
            if k >= len(a) or not re.fullmatch(r'"[^"]*"', a[k]):
                raise Exception(f"runtime.rs: {fn}: format argument is not a string literal")
            verb = a[k].strip('"')
        rows.append((fn, gt.group(1), verb))
    if len(rows) != 10:
        raise Exception(f"runtime.rs: expected 10 numeric *_to_string helpers built by to_string_fn, found {len(rows)}")
    reg = block_after(rt, r"pub fn make_runtime\(\) -> Vec<goast::Item>\s*\{", "make_runtime")
    for fn, _, _ in rows:
        if f"Item::Fn({fn}())" not in reg:
            raise Exception(f"runtime.rs: {fn} is not registered in make_runtime")
    out = HEADER + "namespace Goml.Gen.ToString\n\n"
    out += lpairs("helpers", rows, "go/runtime.rs: (helper name, goty::GoType of its parameter, fmt.Sprintf verb)")
    out += "\nend Goml.Gen.ToString\n"
    write_if_changed("ToString.lean", out)

# ---------------------------------------------------------------- C10: numeric type tables
def extract_numtypes():
    """per numeric type: literal parser + Prim variant (check.rs), Rust carrier type (common.rs), Go type and its spelling,
    literal suffix forms (lexer, lower.rs, check.rs)"""
    chk = src("crates/compiler/src/typer/check.rs")
    com = src("crates/compiler/src/common.rs")
    goast = src("crates/compiler/src/go/goast.rs")
    pp = src("crates/compiler/src/pprint/go_pprint.rs")
    lex = src("crates/lexer/src/lib.rs")
    low = src("crates/ast/src/lower.rs")
    tb = src("crates/compiler/src/typer/tast_builder.rs")
    b = block_after(chk, r"fn parse_integer_literal_with_ty\([^)]*\) -> Option<Prim>\s*\{", "parse_integer_literal_with_ty")
    int_rows = re.findall(r"tast::Ty::(\w+)\s*=>\s*self\s*\.parse_(signed|unsigned)_integer\(diagnostics, literal, \"(\w+)\"\)\s*"
                          r"\.map\(\|value\| Prim::(\w+) \{ value \}\)", b)
    if len(int_rows) != 8 or b.count("=>") != 9:
        raise Exception(f"check.rs: parse_integer_literal_with_ty: expected 8 integer arms + default, found {len(int_rows)}")
    # the two parsers: str::parse::<T>, the unsigned one first refuses a leading '-'
    ps = block_after(chk, r"fn parse_signed_integer<T>\([^)]*\) -> Option<T>\s*where[^{]*\{", "parse_signed_integer")
    pu = block_after(chk, r"fn parse_unsigned_integer<T>\([^)]*\) -> Option<T>\s*where[^{]*\{", "parse_unsigned_integer")
    norm = lambda t: re.sub(r"\s+", " ", t).strip()
    if "literal.parse::<T>()" not in ps or "starts_with" in ps:
        raise Exception("check.rs: parse_signed_integer is no longer a plain literal.parse::<T>()")
    if not norm(pu).startswith("if literal.starts_with('-') {") or "literal.parse::<T>()" not in pu:
        raise Exception("check.rs: parse_unsigned_integer no longer is `refuse leading '-'; literal.parse::<T>()`")
    for nm, t in (("signed", ps), ("unsigned", pu)):
        if norm(t).count("IntErrorKind::Empty | IntErrorKind::InvalidDigit => { self.report_invalid_integer_literal(diagnostics, literal); }") != 1:
            raise Exception(f"check.rs: parse_{nm}_integer: error classification changed")
    # tast_builder re-parses the text (this is the value that reaches Core)
    tb_rows = re.findall(r"hir::Expr::E(\w+) \{ value \} => tast::Expr::EPrim \{\s*value: Prim::(\w+) \{\s*value: parse_(signed|unsigned)\(&value\)\.unwrap_or\(0\),\s*\},\s*ty: tast::Ty::(\w+),", tb)
    if len(tb_rows) != 9:
        raise Exception(f"tast_builder.rs: expected 9 integer literal arms (EInt + 8 suffixed), found {len(tb_rows)}")
    tbs = norm(block_after(tb, r"fn parse_signed<T>\(s: &str\) -> Option<T>\s*where[^{]*\{", "tast_builder parse_signed"))
    tbu = norm(block_after(tb, r"fn parse_unsigned<T>\(s: &str\) -> Option<T>\s*where[^{]*\{", "tast_builder parse_unsigned"))
    if tbs != "s.parse().ok()" or tbu != "if s.starts_with('-') { return None; } s.parse().ok()":
        raise Exception("tast_builder.rs: parse_signed/parse_unsigned changed")
    prim = block_after(com, r"pub enum Prim\s*\{", "enum Prim")
    prim_rows = re.findall(r"(\w+) \{ value: ([\w()]+) \}", prim)
    prim_map = dict(prim_rows)
    gomap = block_after(goast, r"pub fn tast_ty_to_go_type\(ty: &tast::Ty\) -> goty::GoType\s*\{", "tast_ty_to_go_type")
    go_rows = re.findall(r"tast::Ty::(\w+)\s*=>\s*goty::GoType::(\w+),", gomap)
    gn = block_after(pp, r"fn go_type_name\(ty: &GoType\) -> String\s*\{", "go_type_name")
    gn_rows = re.findall(r"GoType::(\w+)\s*=>\s*\"([^\"]+)\"\.to_string\(\)", gn)
    # literal forms: lexer regex -> token; lower.rs: cst node, stripped suffix, ast node; check.rs: hir node -> type
    lex_rows = re.findall(r"#\[regex\(r?\"([^\"]+)\"(?:, priority = (\d+))?\)\]\s*(\w*(?:Lit|Float|Int))\s*,", lex)
    lex_rows = [(tok, rx, pr or "1") for rx, pr, tok in lex_rows if tok in
                ("Int", "Float", "Int8Lit", "Int16Lit", "Int32Lit", "Int64Lit", "UInt8Lit", "UInt16Lit", "UInt32Lit", "UInt64Lit", "Float32Lit", "Float64Lit")]
    if len(lex_rows) != 12:
        raise Exception(f"lexer: expected 12 numeric literal token rules, found {len(lex_rows)}")
    low_rows = re.findall(r"cst::Expr::(\w+)\(it\) => \{(?:(?!cst::Expr::).)*?strip_suffix\(\"(\w+)\"\)(?:(?!cst::Expr::).)*?Some\(ast::Expr::(\w+) \{ value, astptr \}\)", low, flags=re.S)
    if len(low_rows) != 10:
        raise Exception(f"lower.rs: expected 10 suffixed literal expression forms, found {len(low_rows)}")
    inf = block_after(chk, r"pub fn infer_expr\(", "infer_expr")
    ty_rows = re.findall(r"hir::Expr::(E(?:U?Int\d*|Float\d*)) \{ value \} => \{\s*(?:self\.ensure_float_literal_fits\([^;]*;\s*)?let ty = tast::Ty::(\w+);", inf)
    if len(ty_rows) != 12:
        raise Exception(f"check.rs: infer_expr: expected 12 numeric literal arms, found {len(ty_rows)}")
    # ---- literal patterns: lower.rs (suffix -> ast node), check.rs check_pat (node -> literal type; unsuffixed takes the
    # scrutinee's integer type), tast_builder.rs (value rebuilt: suffixed arms, `int_prim_for_ty` for the unsuffixed one)
    pat_low = re.findall(r"cst::Pattern::(\w+)\(it\) => \{(?:(?!cst::Pattern::).)*?strip_suffix\(\"(\w+)\"\)(?:(?!cst::Pattern::).)*?Some\(ast::Pat::(\w+) \{ value, astptr \}\)", low, flags=re.S)
    if len(pat_low) != 8 or not re.search(r"cst::Pattern::IntPat\(it\) => Some\(ast::Pat::PInt \{\s*value: it\.value\(\)\?\.to_string\(\),", low):
        raise Exception(f"lower.rs: expected IntPat + 8 suffixed integer pattern forms, found {len(pat_low)}")
    cp = block_after(chk, r"fn check_pat\(", "check_pat")
    pat_ty = re.findall(r"hir::Pat::(PU?Int\d+) \{ value \} => \{?\s*self\.check_pat_typed_int\(diagnostics, &value, &tast::Ty::(\w+), ty\)", cp)
    if len(pat_ty) != 8 or "hir::Pat::PInt { value } => self.check_pat_int(diagnostics, &value, ty)," not in cp:
        raise Exception(f"check.rs: check_pat: expected PInt + 8 typed integer pattern arms, found {len(pat_ty)}")
    cpi = norm(block_after(chk, r"fn check_pat_int\([^)]*\) -> tast::Pat\s*\{", "check_pat_int"))
    if not cpi.startswith("let target_ty = integer_literal_target(ty).unwrap_or(tast::Ty::TInt32); let prim = self .parse_integer_literal_with_ty(diagnostics, value, &target_ty)"):
        raise Exception("check.rs: check_pat_int no longer parses the literal at the scrutinee's integer type")
    # the model (Num.patUnsufAccept) relies on the constraint `validated type = scrutinee type` being pushed unconditionally
    want_tail = (".unwrap_or_else(|| Prim::zero_for_int_ty(&target_ty)); self.push_constraint(Constraint::TypeEqual(target_ty.clone(), ty.clone())); "
                 "tast::Pat::PPrim { value: prim, ty: ty.clone(), }")
    if not cpi.endswith(want_tail):
        raise Exception("check.rs: check_pat_int no longer pushes TypeEqual(target_ty, ty) unconditionally right after validating the literal "
                        "(an unsuffixed pattern could then be validated at one type and rebuilt by tast_builder.rs at another)")
    itt = norm(block_after(chk, r"fn integer_literal_target\(expected: &tast::Ty\) -> Option<tast::Ty>\s*\{", "integer_literal_target"))
    if itt != "if is_integer_ty(expected) { Some(expected.clone()) } else { None }":
        raise Exception("check.rs: integer_literal_target changed")
    cpt = norm(block_after(chk, r"fn check_pat_typed_int\([^)]*\) -> tast::Pat\s*\{", "check_pat_typed_int"))
    if not cpt.startswith("let prim = self .parse_integer_literal_with_ty(diagnostics, value, literal_ty)"):
        raise Exception("check.rs: check_pat_typed_int no longer parses the literal at the suffix type")
    tb_pat = re.findall(r"hir::Pat::(PU?Int\d+) \{ value \} => tast::Pat::PPrim \{\s*value: Prim::(\w+) \{\s*value: parse_(signed|unsigned)\(&value\)\.unwrap_or\(0\),\s*\},\s*"
                        r"ty: results\.pat_ty\(pat_id\)\.cloned\(\)\.unwrap_or\(tast::Ty::(\w+)\),", tb)
    if len(tb_pat) != 8:
        raise Exception(f"tast_builder.rs: expected 8 suffixed integer pattern arms, found {len(tb_pat)}")
    m = re.search(r"hir::Pat::PInt \{ value \} => (.*?)\n        hir::Pat::PInt8", tb, flags=re.S)
    if not m:
        raise Exception("tast_builder.rs: PInt pattern arm not found")
    pint = norm(m.group(1))
    if "int_prim_for_ty(&value, &ty)" in pint and "let ty = results.pat_ty(pat_id).cloned().unwrap_or(tast::Ty::TInt32);" in pint:
        ip = block_after(tb, r"fn int_prim_for_ty\(literal: &str, ty: &tast::Ty\) -> Prim\s*\{", "int_prim_for_ty")
        unsuf = re.findall(r"(tast::Ty::\w+|_) => Prim::(\w+) \{\s*value: parse_(signed|unsigned)\(literal\)\.unwrap_or\(0\),\s*\},", ip)
        unsuf = [(t.replace("tast::Ty::", ""), pv, k) for t, pv, k in unsuf]
        if len(unsuf) != 8 or ip.count("=>") != 8 or unsuf[-1][0] != "_":
            raise Exception(f"tast_builder.rs: int_prim_for_ty: expected 7 typed arms + default, found {len(unsuf)}")
    elif re.fullmatch(r"tast::Pat::PPrim \{ value: Prim::Int32 \{ value: parse_signed\(&value\)\.unwrap_or\(0\), \}, ty: results\.pat_ty\(pat_id\)\.cloned\(\)\.unwrap_or\(tast::Ty::TInt32\), \},", pint):
        unsuf = [("_", "Int32", "signed")]   # always an int32 Prim, whatever the pattern's type
    else:
        raise Exception("tast_builder.rs: PInt pattern arm has an unknown shape")
    pat_forms = []
    for _cst, suf, node in pat_low:
        if node not in dict(pat_ty):
            raise Exception(f"check.rs: no check_pat arm for {node}")
        pat_forms.append((suf, node, dict(pat_ty)[node]))
    rows = []
    for ty, kind, diag, pv in int_rows:
        if pv not in prim_map:
            raise Exception(f"common.rs: Prim::{pv} missing")
        go = dict(go_rows).get(ty)
        goname = dict(gn_rows).get(go)
        if not go or not goname:
            raise Exception(f"no Go type for {ty}")
        rows.append((ty, kind, diag, pv, prim_map[pv], go, goname))
    frows = []
    for ty, pv in (("TFloat32", "Float32"), ("TFloat64", "Float64")):
        go = dict(go_rows).get(ty); goname = dict(gn_rows).get(go)
        if pv not in prim_map or not go or not goname:
            raise Exception(f"float type {ty}: table entry missing")
        frows.append((ty, pv, prim_map[pv], go, goname))
    forms = [("", "EInt", dict(ty_rows).get("EInt", "?")), ("", "EFloat", dict(ty_rows).get("EFloat", "?"))]
    for _cst, suf, astn in low_rows:
        if astn not in dict(ty_rows):
            raise Exception(f"check.rs: no infer_expr arm for {astn}")
        forms.append((suf, astn, dict(ty_rows)[astn]))
    out = HEADER + "namespace Goml.Gen.NumTypes\n\n"
    out += lpairs("intTypes", rows, "(tast::Ty, literal parser kind in check.rs, name in diagnostics, Prim variant, Rust carrier type of that Prim, goty::GoType, Go spelling)")
    out += lpairs("floatTypes", frows, "(tast::Ty, Prim variant, Rust carrier type, goty::GoType, Go spelling)")
    out += lpairs("builderInt", tb_rows, "tast_builder.rs: (hir literal node, Prim variant built, parser kind, tast::Ty) — the value that reaches Core")
    out += lpairs("litForms", forms, "(literal suffix, ast/hir node, tast::Ty given by infer_expr); empty suffix = unsuffixed")
    out += lpairs("lexRules", lex_rows, "lexer: (token, regex, priority)")
    out += lpairs("patForms", pat_forms, "suffixed integer literal patterns: (suffix, ast/hir node, literal tast::Ty in check_pat); an unsuffixed one takes the scrutinee type")
    out += lpairs("builderPat", tb_pat, "tast_builder.rs suffixed patterns: (hir node, Prim variant built, parser kind, default tast::Ty)")
    out += lpairs("builderPatUnsuffixed", unsuf, "tast_builder.rs unsuffixed pattern: (pattern tast::Ty or _ for any other, Prim variant built, parser kind)")
    out += "\nend Goml.Gen.NumTypes\n"
    write_if_changed("NumTypes.lean", out)

# ---------------------------------------------------------------- C10: how float literals are spelled in the Go text
def extract_floatprint():
    """go_pprint.rs `go_float_literal`: which Rust formatting produces the text of a float32 / float64 literal
    (Go evaluates an all-literal operator on the printed TEXTS, exactly), and go/compile.rs: the f32 is widened to f64"""
    pp = src("crates/compiler/src/pprint/go_pprint.rs")
    comp = src("crates/compiler/src/go/compile.rs")
    norm = lambda t: re.sub(r"\s+", " ", t).strip()
    m = re.search(r"fn go_float_literal\(([^)]*)\) -> String\s*\{", pp)
    if not m:
        raise Exception("go_pprint.rs: go_float_literal is gone")
    params = [x.strip().split(":")[0].strip() for x in m.group(1).split(",") if x.strip()]
    body = norm(block_after(pp, r"fn go_float_literal\([^)]*\) -> String\s*\{", "go_float_literal"))
    tail = "if !value.is_finite() || text.contains(['.', 'e', 'E']) { text } else { format!(\"{}.0\", text) }"
    if not body.endswith(tail):
        raise Exception("go_pprint.rs: go_float_literal no longer appends `.0` to an integral spelling (the Go constant would be of integer kind)")
    head = body[:-len(tail)].strip()
    hm = re.fullmatch(r"let text = (.*);", head)
    if not hm:
        raise Exception(f"go_pprint.rs: go_float_literal: text is computed in an unknown way: {head[:120]}")
    known = {"value.to_string()": "f64-display", "format!(\"{}\", value)": "f64-display",
             "(value as f32).to_string()": "f32-display", "format!(\"{}\", value as f32)": "f32-display"}
    expr = hm.group(1).strip()
    rows = {}
    if expr in known:
        rows = {"TFloat32": known[expr], "TFloat64": known[expr]}
    else:
        mm = re.fullmatch(r"match (\w+) \{ (.*) \}", expr)
        if not mm or mm.group(1) not in params:
            raise Exception(f"go_pprint.rs: go_float_literal: unknown formatting `{expr[:120]}`")
        default = None
        for pat, e in re.findall(r"(GoType::\w+|_) => ([^,]+(?:\([^)]*\)[^,]*)*),", mm.group(2) + ","):
            e = e.strip()
            if e not in known:
                raise Exception(f"go_pprint.rs: go_float_literal: unknown formatting `{e}` for {pat}")
            if pat == "_":
                default = known[e]
            else:
                rows[pat.replace("GoType::", "")] = known[e]
        for t in ("TFloat32", "TFloat64"):
            if t not in rows:
                if default is None:
                    raise Exception(f"go_pprint.rs: go_float_literal: no formatting for {t}")
                rows[t] = default
    # the call site passes the node's f64 (and, when the helper takes it, its Go type)
    if not re.search(r"Expr::Float \{ value, ty(?:: _)? \} => RcDoc::text\(go_float_literal\(\*value(?:, ty)?\)\)", pp):
        raise Exception("go_pprint.rs: Expr::Float is no longer printed through go_float_literal(*value…)")
    g = norm(block_after(comp, r"fn go_literal_from_primitive\(value: &Prim, ty: &tast::Ty\) -> goast::Expr\s*\{", "go_literal_from_primitive"))
    if "if let Some(v) = value.as_float32() { return goast::Expr::Float { value: v as f64, ty: tast_ty_to_go_type(ty), }; }" not in g or \
       "if let Some(v) = value.as_float64() { return goast::Expr::Float { value: v, ty: tast_ty_to_go_type(ty), }; }" not in g:
        raise Exception("compile.rs: go_literal_from_primitive no longer carries a float literal as its exact f64 value")
    out = HEADER + "namespace Goml.Gen.FloatPrint\n\n"
    out += lpairs("literalText", [(t, rows[t]) for t in ("TFloat32", "TFloat64")],
                  "go_pprint.rs go_float_literal: (goty::GoType of the literal, Rust formatting that yields its Go text); "
                  "f64-display = `{}` of the f64 (an f32 is widened exactly first), f32-display = `{}` of the value cast to f32")
    out += "/-- appended when the spelling has no `.`/exponent, so that Go reads a floating-point (not integer) constant -/\n"
    out += "def integralSuffix : String := \".0\"\n"
    out += "\nend Goml.Gen.FloatPrint\n"
    write_if_changed("FloatPrint.lean", out)

EXTRACTORS += [extract_opmap, extract_tostring, extract_numtypes, extract_floatprint]
# ---------------------------------------------------------------- C11: Pratt binding powers
def _bp_fn_body(src, name):
    m = re.search(r"fn " + name + r"\(op: TokenKind\) -> ([^\{]+)\{\s*match op \{(.*?)\n    \}\n\}", src, flags=re.S)
    if not m:
        raise RuntimeError(f"anchor lost: fn {name}(op: TokenKind) {{ match op {{ … }} }} in crates/parser/src/expr.rs")
    return m.group(1).strip(), m.group(2)

def _t_macro(lexsrc):
    """T![spelling] -> TokenKind variant name, read from the macro in crates/lexer/src/lib.rs"""
    out = {}
    for sp, name in re.findall(r"^\s*\[(.+?)\] => \{ \$crate::TokenKind::(\w+) \};", lexsrc, flags=re.M):
        out[sp.strip()] = name
    if len(out) < 60:
        raise RuntimeError("anchor lost: macro_rules! T in crates/lexer/src/lib.rs")
    return out

def _arms(body, tmac, value_re, fname):
    rows = []
    lines = [l.strip() for l in body.strip().splitlines() if l.strip()]
    if not lines or lines[-1] != "_ => None,":
        raise RuntimeError(f"{fname}: last arm is not `_ => None,`")
    for l in lines[:-1]:
        m = re.fullmatch(r"((?:T!\[[^\]]+\](?:\s*\|\s*)?)+)\s*=>\s*Some\(" + value_re + r"\),", l)
        if not m:
            raise RuntimeError(f"{fname}: unexpected arm shape: {l}")
        toks = re.findall(r"T!\[([^\]]+)\]", m.group(1))
        for t in toks:
            if t not in tmac:
                raise RuntimeError(f"{fname}: T![{t}] not in the T! macro")
            rows.append((tmac[t], t.strip("'"), tuple(int(x) for x in m.groups()[1:])))
    return rows

def extract_binding_power():
    src = open(os.path.join(REPO, "crates/parser/src/expr.rs")).read()
    lexsrc = open(os.path.join(REPO, "crates/lexer/src/lib.rs")).read()
    tmac = _t_macro(lexsrc)
    rt, body = _bp_fn_body(src, "postfix_binding_power")
    if rt != "Option<(u8, ())>":
        raise RuntimeError("postfix_binding_power: return type changed: " + rt)
    post = _arms(body, tmac, r"\((\d+), \(\)\)", "postfix_binding_power")
    rt, body = _bp_fn_body(src, "prefix_binding_power")
    if rt != "Option<u8>":
        raise RuntimeError("prefix_binding_power: return type changed: " + rt)
    pre = _arms(body, tmac, r"(\d+)", "prefix_binding_power")
    rt, body = _bp_fn_body(src, "infix_binding_power")
    if rt != "Option<(u8, u8)>":
        raise RuntimeError("infix_binding_power: return type changed: " + rt)
    inf = _arms(body, tmac, r"\((\d+), (\d+)\)", "infix_binding_power")
    # the Pratt loop itself must still consult the three tables in the modelled order
    loop = re.search(r"fn expr_bp\(p: &mut Parser, min_bp: u8\).*?\n\}\n", src, flags=re.S)
    if not loop:
        raise RuntimeError("anchor lost: fn expr_bp")
    lp = loop.group(0)
    order = [lp.find("prefix_binding_power(p.peek())"), lp.find("postfix_binding_power(op)"), lp.find("infix_binding_power(op)")]
    if -1 in order or order != sorted(order) or lp.count("if l_bp < min_bp") != 2:
        raise RuntimeError("expr_bp: the loop no longer has the shape prefix / postfix(l_bp < min_bp) / infix(l_bp < min_bp)")
    names = []
    for n, _, _ in inf + pre + post:
        if n not in names:
            names.append(n)
    expected = ["OrOr", "AndAnd", "EqEq", "NotEq", "Less", "Greater", "LessEq", "GreaterEq", "Plus", "Minus",
                "Star", "Slash", "Dot", "Bang", "LParen"]
    if sorted(names) != sorted(expected):
        raise RuntimeError(f"binding-power tables mention tokens {names}, the model (Model/Pratt.lean) was written for {expected}: extend the model")
    names = expected  # canonical constructor order, independent of the order of the match arms
    spell = {}
    for n, sp, _ in inf + pre + post:
        spell[n] = sp
    def fn(name, ty, rows, fmt):
        out = [f"def {name} : TK → {ty}"]
        for n, _, v in sorted(rows, key=lambda r: names.index(r[0])):
            out.append(f"  | .{n} => some {fmt(v)}")
        if len(rows) < len(names):
            out.append("  | _ => none")
        return "\n".join(out)
    text = "\n".join([
        "/- GENERATED by tools/extract.py from crates/parser/src/expr.rs",
        "   (postfix_binding_power, prefix_binding_power, infix_binding_power) — do not edit. -/",
        "namespace Goml.Gen.BindingPower",
        "",
        "/-- the token kinds mentioned by the three binding-power functions, in source order -/",
        "inductive TK where",
        "  " + " ".join("| " + n for n in names),
        "  deriving DecidableEq, Repr, Inhabited",
        "",
        "def TK.all : List TK := [" + ", ".join("." + n for n in names) + "]",
        "",
        "def TK.spelling : TK → String",
        "\n".join(f"  | .{n} => \"{spell[n]}\"" for n in names),
        "",
        fn("infixBp", "Option (Nat × Nat)", inf, lambda v: f"({v[0]}, {v[1]})"),
        "",
        fn("prefixBp", "Option Nat", pre, lambda v: f"{v[0]}"),
        "",
        fn("postfixBp", "Option Nat", post, lambda v: f"{v[0]}"),
        "",
        "end Goml.Gen.BindingPower",
        ""])
    write_if_changed("BindingPower.lean", text)

EXTRACTORS += [extract_binding_power]

# ---------------------------------------------------------------- C11: string escapes (crates/ast/src/lower.rs: unescape_string)
def _rust_char(lit):
    """code point of a Rust char literal body (between the single quotes)"""
    simple = {"\\n": 10, "\\r": 13, "\\t": 9, "\\\\": 92, "\\'": 39, '\\"': 34, "\\0": 0}
    if lit in simple:
        return simple[lit]
    m = re.fullmatch(r"\\u\{([0-9a-fA-F]+)\}", lit)
    if m:
        return int(m.group(1), 16)
    m = re.fullmatch(r"\\x([0-9a-fA-F]{2})", lit)
    if m:
        return int(m.group(1), 16)
    if len(lit) == 1:
        return ord(lit)
    raise RuntimeError(f"unescape_string: cannot read the char literal '{lit}'")

def _rust_arith_to_lean(text, vars_):
    """translate a Rust u32 expression over `vars_` (integer literals, + - * << >> & | ^, parentheses)
    into a fully parenthesised Lean Nat expression (Rust precedences; Lean's differ for << and &)"""
    toks = re.findall(r"0x[0-9A-Fa-f_]+|\d[\d_]*|[A-Za-z_]\w*|<<|>>|[-+*&|^()]", text)
    if "".join(toks) != re.sub(r"\s+", "", text):
        raise RuntimeError(f"unescape_string: unexpected token in `{text}`")
    prec = {"*": 6, "+": 5, "-": 5, "<<": 4, ">>": 4, "&": 3, "^": 2, "|": 1}
    lean = {"*": "*", "+": "+", "-": "-", "<<": "<<<", ">>": ">>>", "&": "&&&", "^": "^^^", "|": "|||"}
    pos = [0]
    def peek():
        return toks[pos[0]] if pos[0] < len(toks) else None
    def atom():
        t = peek()
        pos[0] += 1
        if t == "(":
            e = expr(0)
            if peek() != ")":
                raise RuntimeError(f"unescape_string: unbalanced parentheses in `{text}`")
            pos[0] += 1
            return e
        if t is None:
            raise RuntimeError(f"unescape_string: truncated expression `{text}`")
        if re.fullmatch(r"0x[0-9A-Fa-f_]+|\d[\d_]*", t):
            return str(int(t.replace("_", ""), 0))
        if t in vars_:
            return t
        raise RuntimeError(f"unescape_string: unknown name `{t}` in `{text}`")
    def expr(minp):
        lhs = atom()
        while peek() in prec and prec[peek()] > minp:
            op = peek()
            pos[0] += 1
            rhs = expr(prec[op])
            lhs = f"({lhs} {lean[op]} {rhs})"
        return lhs
    e = expr(0)
    if pos[0] != len(toks):
        raise RuntimeError(f"unescape_string: trailing tokens in `{text}`")
    return e

def extract_str_escapes():
    src = open(os.path.join(REPO, "crates/ast/src/lower.rs")).read()
    m = re.search(r"fn unescape_string\(raw: &str\) -> Option<String> \{(.*?)\n\}\n", src, flags=re.S)
    if not m:
        raise RuntimeError("anchor lost: fn unescape_string(raw: &str) -> Option<String> in crates/ast/src/lower.rs")
    body = m.group(1)
    if len(re.findall(r"\bunescape_string\(", src)) < 3:
        raise RuntimeError("unescape_string is no longer used by both the string literal and the string pattern lowering")
    mm = re.search(r"match chars\.next\(\)\? \{\n(.*?)\n\s*'u' => \{\n(.*?)\n            \}\n\s*_ => return None,\n\s*\}", body, flags=re.S)
    if not mm:
        raise RuntimeError("unescape_string: the `match chars.next()? { …simple arms… 'u' => { … } _ => return None, }` shape is gone")
    table = []
    for line in mm.group(1).splitlines():
        line = line.strip()
        if not line:
            continue
        a = re.fullmatch(r"'((?:\\.|[^'\\])(?:[^']*)?)' => out\.push\('((?:\\.|[^'\\])(?:[^']*)?)'\),", line)
        if not a:
            raise RuntimeError(f"unescape_string: unexpected arm `{line}`")
        table.append((_rust_char(a.group(1)), _rust_char(a.group(2))))
    ublock = mm.group(2)
    u = re.search(
        r"let hi = hex4\(&mut chars\)\?;\s*"
        r"let code = if \((0x[0-9A-Fa-f]+)\.\.(0x[0-9A-Fa-f]+)\)\.contains\(&hi\) \{\s*"
        r"if chars\.next\(\)\? != '\\\\' \|\| chars\.next\(\)\? != 'u' \{\s*return None;\s*\}\s*"
        r"let lo = hex4\(&mut chars\)\?;\s*"
        r"if !\((0x[0-9A-Fa-f]+)\.\.(0x[0-9A-Fa-f]+)\)\.contains\(&lo\) \{\s*return None;\s*\}\s*"
        r"([^;{}]+?)\s*\} else \{\s*hi\s*\};\s*"
        r"out\.push\(char::from_u32\(code\)\?\);", ublock, flags=re.S)
    if not u:
        raise RuntimeError("unescape_string: the `'u'` arm no longer has the shape hex4 / high range / `\\u` / hex4 / low range / "
                           "combination / `char::from_u32(code)?`")
    h = re.search(r"fn hex4\(chars: &mut std::str::Chars<'_>\) -> Option<u32> \{\s*let mut value = 0u32;\s*for _ in 0\.\.4 \{\s*"
                  r"value = value \* 16 \+ chars\.next\(\)\?\.to_digit\(16\)\?;\s*\}\s*Some\(value\)\s*\}", body)
    if not h:
        raise RuntimeError("unescape_string: fn hex4 no longer reads exactly four base-16 digits")
    if not re.search(r"while let Some\(ch\) = chars\.next\(\) \{\s*if ch != '\\\\' \{\s*out\.push\(ch\);\s*continue;\s*\}", body):
        raise RuntimeError("unescape_string: characters other than a backslash are no longer copied unchanged")
    combine = _rust_arith_to_lean(u.group(5), {"hi", "lo"})
    lexsrc = open(os.path.join(REPO, "crates/lexer/src/lib.rs")).read()
    lx = re.search(r'#\[regex\(r#""\(\[\^"\\\\\\x00-\\x1F\]\|\\\\\(\[([^\]]+)\]\|u\[a-fA-F0-9\]\{4\}\)\)\*""#\)\]\s*Str,', lexsrc)
    if not lx:
        raise RuntimeError("anchor lost: the Str token regex in crates/lexer/src/lib.rs")
    cls, lex_escapes, i = lx.group(1), [], 0
    while i < len(cls):
        if cls[i] == "\\":
            lex_escapes.append(ord(cls[i + 1])); i += 2
        else:
            lex_escapes.append(ord(cls[i])); i += 1
    text = "\n".join([
        "/- GENERATED by tools/extract.py from crates/ast/src/lower.rs (fn unescape_string) and the `Str` token",
        "   regex of crates/lexer/src/lib.rs — do not edit. -/",
        "namespace Goml.Gen.StrEscapes",
        "",
        "/-- arms `'e' => out.push('c')` of `match chars.next()?`: escape letter ↦ character (code points) -/",
        "def simpleTable : List (Nat × Nat) := [" + ", ".join(f"({a}, {b})" for a, b in table) + "]",
        "",
        "/-- escape letters of the lexer's `Str` regex, `\\\\([" + "…" + "]|u…)` -/",
        "def lexerEscapes : List Nat := [" + ", ".join(str(x) for x in lex_escapes) + "]",
        "",
        "/-- `(lo..hi).contains(&hi)` / `(lo..hi).contains(&lo)` of the `'u'` arm -/",
        f"def highLo : Nat := {int(u.group(1), 16)}",
        f"def highHi : Nat := {int(u.group(2), 16)}",
        f"def lowLo : Nat := {int(u.group(3), 16)}",
        f"def lowHi : Nat := {int(u.group(4), 16)}",
        "",
        "/-- the recombination of a surrogate pair, translated from `" + re.sub(r"\s+", " ", u.group(5)) + "` -/",
        f"def combine (hi lo : Nat) : Nat := {combine}",
        "",
        "end Goml.Gen.StrEscapes",
        ""])
    write_if_changed("StrEscapes.lean", text)

EXTRACTORS += [extract_str_escapes]
# ---------------------------------------------------------------------------
# C12: lexer rules (crates/lexer/src/lib.rs) and syntax kinds (crates/parser/src/syntax.rs)

def _rust_str_lit(text, i):
    """parse a Rust string literal starting at text[i]; returns (value, next index)"""
    m = re.compile(r'r(#*)"').match(text, i)
    if m:
        close = '"' + m.group(1)
        j = text.index(close, m.end())
        return text[m.end():j], j + len(close)
    if text[i] != '"':
        raise ValueError(f"expected a string literal at: {text[i:i+30]!r}")
    out, j = [], i + 1
    esc = {"n": "\n", "t": "\t", "r": "\r", "\\": "\\", '"': '"', "0": "\0", "'": "'"}
    while text[j] != '"':
        if text[j] == "\\":
            if text[j + 1] not in esc:
                raise ValueError(f"unsupported escape in Rust literal: {text[j:j+4]!r}")
            out.append(esc[text[j + 1]]); j += 2
        else:
            out.append(text[j]); j += 1
    return "".join(out), j + 1


class _Rx:
    """parser for the regex subset used by the lexer; lowers the way logos' Mir does
    (x+ = x x*, x{n} = n copies, '.' = [^\\n]); anything else raises"""
    def __init__(self, src):
        self.s, self.i = src, 0
    def peek(self):
        return self.s[self.i] if self.i < len(self.s) else None
    def parse(self):
        r = self.alt()
        if self.i != len(self.s):
            raise ValueError(f"regex: unexpected {self.s[self.i:]!r} in {self.s!r}")
        return r
    def alt(self):
        items = [self.concat()]
        while self.peek() == "|":
            self.i += 1
            items.append(self.concat())
        r = items[-1]
        for it in reversed(items[:-1]):
            r = ("alt", it, r)
        return r
    def concat(self):
        items = []
        while self.peek() is not None and self.peek() not in "|)":
            items.append(self.repeat())
        if not items:
            return ("eps",)
        r = items[-1]
        for it in reversed(items[:-1]):
            r = ("seq", it, r)
        return r
    def repeat(self):
        a = self.atom()
        while self.peek() is not None and self.peek() in "*+{?":
            c = self.peek()
            if c == "*":
                self.i += 1; a = ("star", a)
            elif c == "+":
                self.i += 1; a = ("seq", a, ("star", a))
            elif c == "{":
                m = re.compile(r"\{(\d+)\}").match(self.s, self.i)
                if not m or int(m.group(1)) < 1:
                    raise ValueError(f"regex: unsupported repetition in {self.s!r}")
                self.i = m.end()
                n, one = int(m.group(1)), a
                for _ in range(n - 1):
                    a = ("seq", one, a)
            else:
                raise ValueError(f"regex: unsupported operator {c!r} in {self.s!r}")
            if self.peek() == "?":
                raise ValueError("regex: non-greedy repetition unsupported")
        return a
    def escape(self, in_class):
        # self.s[self.i] == '\\'
        c = self.s[self.i + 1]
        if c == "x":
            v = int(self.s[self.i + 2:self.i + 4], 16); self.i += 4; return v
        table = {"n": 10, "t": 9, "r": 13, "\\": 92, ".": 46, '"': 34, "/": 47, "-": 45, "[": 91, "]": 93,
                 "(": 40, ")": 41, "{": 123, "}": 125, "*": 42, "+": 43, "?": 63, "|": 124, "^": 94, "$": 36}
        if c not in table:
            raise ValueError(f"regex: unsupported escape \\{c} in {self.s!r}")
        self.i += 2
        return table[c]
    def atom(self):
        c = self.peek()
        if c == "(":
            if self.s[self.i + 1] == "?":
                raise ValueError("regex: group flags unsupported")
            self.i += 1
            r = self.alt()
            if self.peek() != ")":
                raise ValueError(f"regex: unbalanced group in {self.s!r}")
            self.i += 1
            return r
        if c == "[":
            return self.klass()
        if c == ".":
            self.i += 1
            return ("cls", True, [(10, 10)])
        if c == "\\":
            return ("chr", self.escape(False))
        if c in "^$":
            raise ValueError("regex: anchors unsupported")
        self.i += 1
        return ("chr", ord(c))
    def klass(self):
        self.i += 1
        neg = False
        if self.peek() == "^":
            neg = True; self.i += 1
        rs = []
        def one():
            if self.peek() == "\\":
                return self.escape(True)
            if self.peek() == "[":
                raise ValueError("regex: nested classes unsupported")
            v = ord(self.peek()); self.i += 1; return v
        while self.peek() != "]":
            if self.peek() is None:
                raise ValueError(f"regex: unterminated class in {self.s!r}")
            lo = one()
            if self.peek() == "-" and self.s[self.i + 1] != "]":
                self.i += 1
                hi = one()
                if hi < lo:
                    raise ValueError("regex: bad range")
                rs.append((lo, hi))
            else:
                rs.append((lo, lo))
        self.i += 1
        return ("cls", neg, rs)


def _re_lean(r):
    t = r[0]
    if t == "eps":
        return ".eps"
    if t == "chr":
        return f"(.chr {r[1]})"
    if t == "cls":
        return "(.cls %s [%s])" % ("true" if r[1] else "false", ", ".join(f"({a}, {b})" for a, b in r[2]))
    if t == "star":
        return f"(.star {_re_lean(r[1])})"
    return f"(.{t} {_re_lean(r[1])} {_re_lean(r[2])})"


def _tok_lean_str(s):
    out = []
    for ch in s:
        if ch == "\\":
            out.append("\\\\")
        elif ch == '"':
            out.append('\\"')
        elif ch == "\n":
            out.append("\\n")
        elif ch == "\t":
            out.append("\\t")
        elif ch == "\r":
            out.append("\\r")
        elif ord(ch) < 32 or ord(ch) == 127:
            out.append("\\x%02x" % ord(ch))
        else:
            out.append(ch)
    return '"' + "".join(out) + '"'


def _enum_variants_with_attrs(body):
    """[(variant, [attribute text…])] of a fieldless enum body"""
    out, attrs, i = [], [], 0
    while i < len(body):
        if body[i].isspace() or body[i] == ",":
            i += 1; continue
        if body.startswith("//", i):          # comment between variants
            j = body.find("\n", i)
            i = len(body) if j < 0 else j; continue
        if body.startswith("#[", i):
            # attribute: scan to the matching ']' skipping string literals
            j, depth = i + 2, 1
            while depth:
                if body[j] == '"' or re.compile(r'r#*"').match(body, j):
                    _, j = _rust_str_lit(body, j); continue
                if body[j] == "[":
                    depth += 1
                elif body[j] == "]":
                    depth -= 1
                j += 1
            attrs.append(body[i + 2:j - 1]); i = j; continue
        m = re.compile(r"[A-Za-z_][A-Za-z_0-9]*").match(body, i)
        if not m:
            raise ValueError(f"enum body: cannot parse at {body[i:i+40]!r}")
        out.append((m.group(0), attrs)); attrs = []; i = m.end()
    return out


def extract_tokens():
    lex = open(os.path.join(REPO, "crates/lexer/src/lib.rs")).read()
    syn = open(os.path.join(REPO, "crates/parser/src/syntax.rs")).read()
    m = re.search(r"#\[derive\(([^)]*)\)\]\s*pub enum TokenKind \{(.*?)\n\}", lex, re.S)
    if not m or "Logos" not in m.group(1):
        raise ValueError("lexer/src/lib.rs: `#[derive(.. Logos)] pub enum TokenKind` not found")
    if re.search(r"#\[logos\(", lex):
        raise ValueError("lexer/src/lib.rs: an enum-level #[logos(..)] attribute (skip/subpattern/…) appeared; the model does not know it")
    variants = _enum_variants_with_attrs(m.group(2))
    names = [v for v, _ in variants]
    if len(set(names)) != len(names) or names[-2:] != ["Error", "Eof"]:
        raise ValueError("TokenKind: expected distinct variants ending in Error, Eof")
    literals, regexes = [], []
    for idx, (v, attrs) in enumerate(variants):
        if v in ("Error", "Eof"):
            if attrs:
                raise ValueError(f"TokenKind::{v} now has a lexer rule")
            continue
        if len(attrs) != 1:
            raise ValueError(f"TokenKind::{v}: expected exactly one #[token]/#[regex] attribute, found {attrs}")
        a = attrs[0].strip()
        mm = re.match(r"(token|regex)\(\s*", a)
        if not mm or not a.endswith(")"):
            raise ValueError(f"TokenKind::{v}: unknown attribute {a!r}")
        lit, j = _rust_str_lit(a, mm.end())
        rest = [x.strip() for x in a[j:-1].split(",") if x.strip()]
        prio, cb = None, None
        for x in rest:
            pm = re.fullmatch(r"priority\s*=\s*(\d+)", x)
            if pm:
                prio = int(pm.group(1))
            elif re.fullmatch(r"[A-Za-z_][A-Za-z_0-9]*", x):
                cb = x
            else:
                raise ValueError(f"TokenKind::{v}: unknown rule option {x!r}")
        if mm.group(1) == "token":
            if cb or prio is not None or not lit:
                raise ValueError(f"TokenKind::{v}: #[token] with options/empty literal is not modelled")
            literals.append((idx, v, lit))
        else:
            regexes.append((idx, v, lit, _Rx(lit).parse(), prio, cb))
    cbs = sorted({r[5] for r in regexes if r[5]})
    if cbs != ["lex_multiline_str"]:
        raise ValueError(f"lexer callbacks changed: {cbs} (the model transcribes lex_multiline_str only)")
    if not re.search(r"fn lex_multiline_str\(lex: &mut logos::Lexer<TokenKind>\) -> Option<\(\)>", lex):
        raise ValueError("lex_multiline_str: signature changed")
    # the text logos sees IS the caller's text, and spans are reported unshifted: the model's `lexAll`
    # starts at offset 0 of the given text and every range is relative to it
    def _norm(t):
        return re.sub(r"\s+", " ", t).strip()
    def _body(sig_re, what):
        m = re.search(sig_re, lex)
        if not m:
            raise ValueError(f"{what}: signature not found")
        i = lex.index("{", m.end() - 1)
        depth, j = 0, i
        while True:
            if lex[j] == "{":
                depth += 1
            elif lex[j] == "}":
                depth -= 1
                if depth == 0:
                    break
            j += 1
        return _norm(lex[i + 1:j])
    want = {
        "Lexer::new": (r"pub fn new\(input: &'a str\) -> Self \{", "Self { inner: TokenKind::lexer(input), }"),
        "lexer::lex": (r"pub fn lex\(input: &str\) -> Vec<Token<'_>> \{",
                       "let lexer = Lexer::new(input); let toks: Vec<Token> = lexer.collect(); toks"),
        "range_from_span": (r"fn range_from_span\(span: Span\) -> TextRange \{",
                            "let std::ops::Range { start, end } = span; let start = TextSize::try_from(start).unwrap(); "
                            "let end = TextSize::try_from(end).unwrap(); TextRange::new(start, end)"),
    }
    for what, (sig, body) in want.items():
        got = _body(sig, what)
        if got != body:
            raise ValueError(f"{what}: body changed — the lexer may no longer see the caller's text unmodified / report unshifted "
                             f"spans (the model lexes the given text from offset 0). now: {got!r}")
    nb = _body(r"fn next\(&mut self\) -> Option<Self::Item> \{", "Lexer::next")
    if nb.count("let text = self.inner.slice();") != 2 or nb.count("range: range_from_span(self.inner.span()),") != 2 \
            or not nb.startswith("let kind = self.inner.next()?;"):
        raise ValueError(f"Lexer::next: token text/range are no longer logos' slice()/span(): {nb!r}")
    if "kind: TokenKind::Error," not in lex or "if let Ok(kind) = kind" not in lex:
        raise ValueError("Lexer::next no longer maps a logos error to TokenKind::Error")
    tm = re.search(r"pub fn is_trivia\(self\) -> bool \{\s*matches!\(self,([^)]*)\)\s*\}", lex)
    if not tm:
        raise ValueError("TokenKind::is_trivia: shape changed")
    trivia = [x.strip().replace("Self::", "") for x in tm.group(1).split("|")]
    for t in trivia:
        if t not in names:
            raise ValueError(f"is_trivia mentions unknown kind {t}")
    sm = re.search(r"#\[repr\(u16\)\]\s*pub enum MySyntaxKind \{(.*?)\n\}", syn, re.S)
    if not sm:
        raise ValueError("parser/src/syntax.rs: `#[repr(u16)] pub enum MySyntaxKind` not found")
    skinds = [v for v, a in _enum_variants_with_attrs(sm.group(1))]
    if "rowan::SyntaxKind(self as u16)" not in syn or "Self(kind as u16)" not in syn:
        raise ValueError("syntax.rs: kinds are no longer converted by `as u16`")
    bm = re.search(r"assert!\(raw\.0 <= MySyntaxKind::(\w+) as u16\)", syn)
    if not bm:
        raise ValueError("syntax.rs: kind_from_raw bound not found")
    L = ["-- GENERATED by tools/extract.py from crates/lexer/src/lib.rs and crates/parser/src/syntax.rs; do not edit",
         "import GomlVerif.Model.Regex",
         "namespace Goml.Gen.Tokens",
         "open Goml.Lex",
         "",
         "/-- `TokenKind` variants in declaration order; the discriminant (`kind as u16`) is the index -/",
         "def kindNames : List String := [" + ", ".join(_tok_lean_str(n) for n in names) + "]",
         "",
         "/-- `MySyntaxKind` variants in declaration order (`#[repr(u16)]`) -/",
         "def syntaxKindNames : List String := [" + ", ".join(_tok_lean_str(n) for n in skinds) + "]",
         "",
         f"/-- the variant `kind_from_raw` uses as its upper bound -/",
         f"def kindFromRawBound : String := {_tok_lean_str(bm.group(1))}",
         "",
         "/-- asserted by the extractor: `lexer::lex`/`Lexer::new` hand the caller's text to logos unmodified and",
         "`range_from_span` reports logos' spans unshifted, so token 0 starts at this byte offset of the caller's text -/",
         "def lexStartOffset : Nat := 0",
         "",
         f"def errorKind : Nat := {names.index('Error')}",
         f"def eofKind : Nat := {names.index('Eof')}",
         "/-- `MySyntaxKind::TombStone as u16` (an `Open` event that was never completed) -/",
         f"def tombStoneKind : Nat := {skinds.index('TombStone')}",
         "/-- `TokenKind::is_trivia` -/",
         "def triviaKinds : List Nat := [" + ", ".join(str(names.index(t)) for t in trivia) + "]",
         "",
         "/-- `#[token(\"…\")]` rules: (kind, literal) in declaration order -/",
         "def literals : List (Nat × String) := ["]
    L += ["  " + ",\n  ".join(f"({i}, {_tok_lean_str(lit)})" for i, _, lit in literals) + "]", "",
          "/-- `#[regex(…)]` rules in declaration order -/",
          "def regexes : List RegexRule := ["]
    rl = []
    for i, v, srcs, r, prio, cb in regexes:
        rl.append("  { kind := %d, name := %s, src := %s,\n    re := %s,\n    prio := %s, callback := %s }" % (
            i, _tok_lean_str(v), _tok_lean_str(srcs), _re_lean(r),
            "none" if prio is None else f"some {prio}", "none" if cb is None else "some " + _tok_lean_str(cb)))
    L += [",\n".join(rl) + "]", "", "end Goml.Gen.Tokens", ""]
    write_if_changed("Tokens.lean", "\n".join(L))

EXTRACTORS += [extract_tokens]
# ---------------------------------------------------------------- C19/C17: name encoders
def _src(rel):
    return open(os.path.join(REPO, rel)).read()

def _fn_body(text, header_re, what):
    """text of the brace-balanced body following the first match of header_re"""
    m = re.search(header_re, text)
    if not m:
        raise Exception(f"anchor gone: {what}")
    i = text.index("{", m.end() - 1)
    depth, j = 0, i
    while j < len(text):
        if text[j] == "{":
            depth += 1
        elif text[j] == "}":
            depth -= 1
            if depth == 0:
                return text[i:j + 1]
        j += 1
    raise Exception(f"unbalanced body: {what}")

def _lean_str(s):
    out = []
    for c in s:
        if c in '"\\':
            out.append("\\" + c)
        elif ord(c) < 32 or ord(c) > 126:
            raise Exception(f"unexpected character {c!r} in extracted literal")
        else:
            out.append(c)
    return '"' + "".join(out) + '"'

def _lean_chars(s):
    """a Rust string literal as a Lean `List Char` literal (the elaborator cannot reduce `String.toList` cheaply)"""
    out = []
    for c in s:
        if ord(c) < 32 or ord(c) > 126:
            raise Exception(f"unexpected character {c!r} in extracted literal")
        out.append("'\\''" if c == "'" else ("'\\\\'" if c == "\\" else f"'{c}'"))
    return "[" + ", ".join(out) + "]"

def _lean_chars_list(xs):
    return "[" + ", ".join(_lean_chars(x) for x in xs) + "]"

def _lean_list(xs):
    return "[" + ", ".join(_lean_str(x) for x in xs) + "]"

GEN_HEADER = "/- GENERATED by tools/extract.py from {src} — do not edit; regenerated on every ./check run -/\n"

def go_ident_tables():
    """keyword list and escape cases of go/mangle.rs::go_ident"""
    t = _src("crates/compiler/src/go/mangle.rs")
    kw_body = _fn_body(t, r"fn is_go_keyword\(s: &str\) -> bool \{", "mangle.rs::is_go_keyword")
    m = re.search(r"matches!\(\s*s,(.*?)\)\s*\}", kw_body, flags=re.S)
    if not m:
        raise Exception("is_go_keyword is no longer a single matches!(s, …)")
    arms = [a.strip() for a in m.group(1).split("|")]
    kws = []
    for a in arms:
        mm = re.fullmatch(r'"([a-z]+)"', a)
        if not mm:
            raise Exception(f"is_go_keyword: unexpected arm {a!r}")
        kws.append(mm.group(1))
    if len(kws) < 10 or len(set(kws)) != len(kws):
        raise Exception(f"is_go_keyword: suspicious keyword list ({len(kws)} entries)")
    gi = _fn_body(t, r"pub fn go_ident\(name: &str\) -> String \{", "mangle.rs::go_ident")
    norm = re.sub(r"\s+", " ", gi)
    if "if is_valid_go_ident(name) && !is_go_keyword(name) { return name.to_string(); }" not in norm:
        raise Exception("go_ident: the identity guard changed")
    m = re.search(r'let mut out = String::from\("([^"]*)"\);', norm)
    if not m:
        raise Exception("go_ident: escape prefix not found")
    prefix = m.group(1)
    if "if ch.is_ascii_alphanumeric() { out.push(ch); continue; }" not in norm:
        raise Exception("go_ident: alphanumeric pass-through changed")
    to_us = re.findall(r"if ch == '(.)' \{ out\.push\('(.)'\); continue; \}", norm)
    if not to_us or any(b != "_" for _, b in to_us):
        raise Exception(f"go_ident: single-character escape cases changed: {to_us}")
    m = re.search(r'out\.push_str\("([^"]*)"\); let mut buf = \[0u8; 4\]; for b in ch\.encode_utf8\(&mut buf\)\.as_bytes\(\) \{ '
                  r'use std::fmt::Write; write!\(&mut out, "\{:02x\}", b\)\.unwrap\(\); \} out\.push\(\'(.)\'\); \} out \}', norm)
    if not m:
        raise Exception("go_ident: hex escape tail changed")
    hex_open, hex_close = m.group(1), m.group(2)
    # every branch accounted for: guard, alnum, the single-char cases, hex tail
    if norm.count("if ") != 2 + len(to_us) or norm.count("continue;") != 1 + len(to_us):
        raise Exception("go_ident: unexpected extra branch")
    vi = re.sub(r"\s+", " ", _fn_body(t, r"fn is_valid_go_ident\(s: &str\) -> bool \{", "mangle.rs::is_valid_go_ident"))
    want = ("{ let bytes = s.as_bytes(); let Some((&first, rest)) = bytes.split_first() else { return false; }; "
            "if !(first.is_ascii_alphabetic() || first == b'_') { return false; } "
            "rest.iter().all(|b| b.is_ascii_alphanumeric() || *b == b'_') }")
    if vi != want:
        raise Exception("is_valid_go_ident: body changed; the Lean transcription isValidGoIdent must be re-read")
    return {"keywords": kws, "prefix": prefix, "to_underscore": [a for a, _ in to_us],
            "hex_open": hex_open, "hex_close": hex_close}

def lexer_ident_classes():
    """the identifier rule of the goml lexer as two character classes (first character, following characters)"""
    t = _src("crates/lexer/src/lib.rs")
    m = re.search(r'#\[regex\("\[([^\]]+)\]\[([^\]]+)\]\*"\)\]\s*(\w+),', t)
    if not m or m.group(3) not in ("Ident", "Identifier", "LowerIdent"):
        m2 = re.search(r'#\[regex\("\[([^\]]+)\]\[([^\]]+)\]\*"\)\]\s*(\w*Ident\w*)', t)
        if not m2:
            raise Exception("lexer: the identifier rule is no longer `[first][rest]*`")
        m = m2
    def ranges(cls):
        out, i = [], 0
        while i < len(cls):
            if i + 2 < len(cls) and cls[i + 1] == "-":
                out.append((ord(cls[i]), ord(cls[i + 2]))); i += 3
            else:
                if cls[i] in "\\^":
                    raise Exception(f"lexer identifier class not understood: [{cls}]")
                out.append((ord(cls[i]), ord(cls[i]))); i += 1
        return out
    return ranges(m.group(1)), ranges(m.group(2)), m.group(3)

def gen_go_keywords():
    d = go_ident_tables()
    first, rest, tok = lexer_ident_classes()
    d["lex_first"], d["lex_rest"], d["lex_tok"] = first, rest, tok
    chars = ", ".join("'" + c + "'" for c in d["to_underscore"])
    text = GEN_HEADER.format(src="crates/compiler/src/go/mangle.rs (go_ident, is_go_keyword)") + f"""namespace Goml.Gen

/-- the strings `is_go_keyword` matches, in source order -/
def goKeywords : List (List Char) := {_lean_chars_list(d["keywords"])}

/-- `String::from(…)` that starts every escaped identifier -/
def escPrefix : List Char := {_lean_chars(d["prefix"])}

/-- characters `go_ident` rewrites to a single `_` (besides passing ASCII alphanumerics through) -/
def escToUnderscore : List Char := [{chars}]

/-- every other character becomes `escHexOpen ++ hex(utf8 bytes) ++ escHexClose` -/
def escHexOpen : List Char := {_lean_chars(d["hex_open"])}
def escHexClose : Char := '{d["hex_close"]}'

/-- the identifier rule of the goml lexer (crates/lexer/src/lib.rs, token `{d["lex_tok"]}`): code-point ranges of the
first character and of every following character -/
def lexerIdentFirst : List (Nat × Nat) := [{", ".join(f"({a}, {b})" for a, b in d["lex_first"])}]
def lexerIdentRest : List (Nat × Nat) := [{", ".join(f"({a}, {b})" for a, b in d["lex_rest"])}]

end Goml.Gen
"""
    write_if_changed("GoKeywords.lean", text)

PRIMS = ["Unit", "Bool", "Int8", "Int16", "Int32", "Int64", "Uint8", "Uint16", "Uint32", "Uint64", "Float32", "Float64", "String"]

def _prim_arms(body, what):
    arms = dict(re.findall(r'(?:tast::Ty|Self|Ty)::T(\w+)\s*=>\s*(?:RcDoc::text\()?"(\w+)"', body))
    got = {k: v for k, v in arms.items() if k in PRIMS}
    if sorted(got) != sorted(PRIMS):
        raise Exception(f"{what}: primitive arms changed: {sorted(got)}")
    return [got[p] for p in PRIMS]

def _literals(body):
    """string literals of a function body in source order (comments stripped)"""
    body = re.sub(r"//.*", "", body)
    return re.findall(r'"((?:[^"\\]|\\.)*)"', body)

def ty_name_tables():
    t_m = _src("crates/compiler/src/go/mangle.rs")
    t_g = _src("crates/compiler/src/go/goast.rs")
    t_n = _src("crates/compiler/src/names.rs")
    t_p = _src("crates/compiler/src/pprint/tast_pprint.rs")
    t_t = _src("crates/compiler/src/tast.rs")
    # tast::Ty constructors (shape of the Lean `Ty`)
    enum_body = _fn_body(t_t, r"pub enum Ty \{", "tast.rs::Ty")
    ctors = re.findall(r"^\s*(T\w+)", enum_body, flags=re.M)
    want_ctors = ["TVar"] + ["T" + p for p in PRIMS] + ["TTuple", "TEnum", "TStruct", "TDyn", "TApp", "TArray", "TVec", "TRef", "TParam", "TFunc"]
    if ctors != want_ctors:
        raise Exception(f"tast::Ty constructors changed: {ctors}")
    enc = _fn_body(t_m, r"pub fn encode_ty\(ty: &tast::Ty\) -> String \{", "mangle.rs::encode_ty")
    gtn = _fn_body(t_g, r"pub fn go_type_name_for\(ty: &tast::Ty\) -> String \{", "goast.rs::go_type_name_for")
    inh = _fn_body(t_n, r"fn inherent_base\(receiver_ty: &tast::Ty\) -> String \{", "names.rs::inherent_base")
    doc = _fn_body(t_p[t_p.index("impl Ty {"):], r"pub fn to_doc\(&self\) -> RcDoc<'_, \(\)> \{", "tast_pprint.rs::Ty::to_doc")
    tables = {"encode_ty": _prim_arms(enc, "encode_ty"), "go_type_name_for": _prim_arms(gtn, "go_type_name_for"),
              "inherent_base": _prim_arms(inh, "inherent_base"), "to_doc": _prim_arms(doc, "Ty::to_doc")}
    # composite pieces: the literals after the primitive arms, in source order
    def tail(body, what, expect, lead=0):
        lits = [x for x in _literals(body)]
        lits = lits[:lead] + lits[lead + len(PRIMS):]
        if lits != expect:
            raise Exception(f"{what}: composite arms changed: {lits}")
        return lits
    tail(enc, "encode_ty", ["Var", "TParam_{}", "_", "Tuple_{}", "Dyn_{}", "_", "{}_{}", "Array_{}_{}", "Vec_{}", "Ref_{}", "_", "Fn_{}_to_{}"])
    tail(gtn, "go_type_name_for", ["Tuple{}", "_", "Array{}_{}", "_", "Vec_{}", "_", "Ptr_{}", "_", "TFunc", "_unit", "{:?}"])
    reps = re.findall(r"\.replace\(\[((?:'.',?\s*)+)\], \"_\"\)", gtn)
    if len(reps) != 4:
        raise Exception(f"go_type_name_for: expected four .replace([...], \"_\") calls, found {len(reps)}")
    rep_sets = [re.findall(r"'(.)'", r) for r in reps]
    if rep_sets[0] != rep_sets[1] or rep_sets[1] != rep_sets[2] or rep_sets[3] != rep_sets[0] + ["*"]:
        raise Exception(f"go_type_name_for: replace sets changed: {rep_sets}")
    tail(doc, "Ty::to_doc", ["{:?}", "(", ", ", ")", "dyn ", "[", ", ", "]", "[", "; ", "]", "Vec[", "]", "Ref[", "]", "(", ", ", ") -> "], lead=1)
    g2 = re.sub(r"\s+", " ", t_g)
    if 'fn dyn_struct_name(trait_name: &str) -> String { go_ident(&format!("dyn__{}", trait_name)) }' not in g2:
        raise Exception("goast.rs::dyn_struct_name changed")
    if 'pub fn ref_struct_name(elem: &tast::Ty) -> String { format!("ref_{}_x", go_ident(&encode_ty(elem)).to_lowercase()) }' not in g2:
        raise Exception("goast.rs::ref_struct_name changed")
    n2 = re.sub(r"\s+", " ", t_n)
    for frag in ['format!( "trait_impl#{}#{}#{}", trait_name.0, ty_compact(for_ty), method_name )',
                 'if is_primitive(receiver_ty) { return format!("{}_{}", inherent_base(receiver_ty), method_name); }',
                 'format!( "inherent#{}#{}#{}", base, ty_compact(receiver_ty), method_name )',
                 'ty.to_pretty(10000) .chars() .filter(|c| !c.is_whitespace()) .collect()',
                 '| tast::Ty::TRef { .. } => receiver_ty.get_constr_name_unsafe(), other => ty_compact(other),']:
        if frag not in n2:
            raise Exception(f"names.rs changed near: {frag}")
    prim_body = _fn_body(t_n, r"fn is_primitive\(ty: &tast::Ty\) -> bool \{", "names.rs::is_primitive")
    if re.findall(r"tast::Ty::T(\w+)", prim_body) != PRIMS:
        raise Exception("names.rs::is_primitive changed")
    cn = re.sub(r"\s+", " ", _fn_body(t_t, r"pub fn get_constr_name_unsafe\(&self\) -> String \{", "tast.rs::get_constr_name_unsafe"))
    for frag in ['Self::TEnum { name } | Self::TStruct { name } => name.clone(),', 'Self::TApp { ty, .. } => ty.get_constr_name_unsafe(),',
                 'Self::TVec { .. } => "Vec".to_string(),', 'Self::TRef { .. } => "Ref".to_string(),']:
        if frag not in cn:
            raise Exception(f"get_constr_name_unsafe changed near: {frag}")
    return tables, rep_sets[0], rep_sets[3]

def gen_ty_names():
    tables, rep, rep_ref = ty_name_tables()
    ctor = [p[0].lower() + p[1:] for p in PRIMS]
    out = [GEN_HEADER.format(src="go/mangle.rs (encode_ty), go/goast.rs (go_type_name_for), names.rs (inherent_base), pprint/tast_pprint.rs (Ty::to_doc), tast.rs (Ty)"),
           "namespace Goml.Gen\n",
           "/-- the payload-free constructors of `tast::Ty` other than `TVar` -/",
           "inductive Prim where", *[f"  | {c}" for c in ctor], "  deriving DecidableEq, Repr, Inhabited\n",
           "def Prim.all : List Prim := [" + ", ".join("." + c for c in ctor) + "]\n"]
    for fn, lean in [("encode_ty", "encodeTyPrim"), ("go_type_name_for", "goTypeNamePrim"), ("inherent_base", "inherentBasePrim"), ("to_doc", "toDocPrim")]:
        out.append(f"/-- spelling of each primitive in `{fn}` -/")
        out.append(f"def {lean} : Prim → List Char")
        for c, s in zip(ctor, tables[fn]):
            out.append(f"  | .{c} => {_lean_chars(s)}")
        out.append("")
    out.append("/-- rust constructor tag of each primitive (used by the line protocol) -/")
    out.append("def primTag : Prim → String")
    for c, p in zip(ctor, PRIMS):
        out.append(f"  | .{c} => {_lean_str('T' + p)}")
    out.append("")
    out.append("/-- characters `go_type_name_for` replaces by `_` in component names (tuple, array, vec) -/")
    out.append("def typeNameReplaced : List Char := [" + ", ".join("'" + c + "'" for c in rep) + "]")
    out.append("/-- … and in the `Ptr_` case -/")
    out.append("def typeNameReplacedRef : List Char := [" + ", ".join("'" + c + "'" for c in rep_ref) + "]")
    out.append("\nend Goml.Gen\n")
    write_if_changed("TyNames.lean", "\n".join(out))

GO_PREDECLARED = ["any", "bool", "byte", "comparable", "complex64", "complex128", "error", "float32", "float64", "int", "int8", "int16",
                  "int32", "int64", "rune", "string", "uint", "uint8", "uint16", "uint32", "uint64", "uintptr", "true", "false", "iota",
                  "nil", "append", "cap", "clear", "close", "complex", "copy", "delete", "imag", "len", "make", "max", "min", "new",
                  "panic", "print", "println", "real", "recover"]

def runtime_tables():
    t_r = _src("crates/compiler/src/go/runtime.rs")
    t_c = _src("crates/compiler/src/go/compile.rs")
    mk = _fn_body(t_r, r"pub fn make_runtime\(\) -> Vec<goast::Item> \{", "runtime.rs::make_runtime")
    ctor_fns = re.findall(r"Item::Fn\((\w+)\(\)\)", mk)
    if len(ctor_fns) < 10:
        raise Exception("make_runtime: helper list not found")
    helpers = []
    for f in ctor_fns:
        body = _fn_body(t_r, r"fn " + f + r"\(\) -> goast::Fn \{", f"runtime.rs::{f}")
        m = re.search(r'to_string_fn\("(\w+)"', body) or re.search(r'goast::Fn \{\s*name: "(\w+)"\.to_string\(\)', body)
        if not m:
            raise Exception(f"runtime.rs::{f}: helper name not found")
        if m.group(1) != f:
            raise Exception(f"runtime.rs::{f}: Go name {m.group(1)} differs from the Rust function name")
        helpers.append(m.group(1))
    imports = re.findall(r'path: "(\w+)"\.to_string\(\)', mk)
    r2 = re.sub(r"\s+", " ", t_r)
    for frag in ['pub fn array_helper_fn_name(prefix: &str, ty: &tast::Ty) -> String { format!("{}__{}", prefix, go_ident(&encode_ty(ty))) }',
                 'pub fn ref_helper_fn_name(prefix: &str, ty: &tast::Ty) -> String { format!("{}__{}", prefix, go_ident(&encode_ty(ty))) }']:
        if frag not in r2:
            raise Exception(f"runtime.rs changed near: {frag[:60]}")
    arr = sorted(set(re.findall(r'array_helper_fn_name\("(\w+)"', t_r + t_c)))
    ref = sorted(set(re.findall(r'ref_helper_fn_name\("(\w+)"', t_r + t_c)))
    if arr != ["array_get", "array_set"] or ref != ["ref", "ref_get", "ref_set"]:
        raise Exception(f"array/ref helper prefixes changed: {arr} {ref}")
    # gensym prefixes: every call of `.gensym("…")` in the compiler crate
    prefixes = []
    root = os.path.join(REPO, "crates/compiler/src")
    for dp, dn, fns in sorted(os.walk(root)):
        dn.sort()
        if os.path.basename(dp) == "tests":
            dn[:] = []
            continue
        for fn in sorted(fns):
            if fn.endswith(".rs"):
                txt = open(os.path.join(dp, fn)).read()
                for m in re.finditer(r'\bgensym\(\s*("?)([^)"]*)\1\s*\)', txt):
                    if "fn gensym" in txt[max(0, m.start() - 10):m.start() + 6]:
                        continue
                    if m.group(1) != '"':
                        raise Exception(f"{fn}: gensym called with a non-literal prefix: {m.group(0)}")
                    if m.group(2) not in prefixes:
                        prefixes.append(m.group(2))
    if len(prefixes) < 3:
        raise Exception("gensym call sites not found")
    env = _src("crates/compiler/src/env.rs")
    if 'format!("{}{}", prefix, current)' not in env:
        raise Exception("env.rs::Gensym::gensym changed")
    hir = _src("crates/compiler/src/hir.rs")
    if 'format!("{}/{}", self.local_hint(id), id.idx)' not in hir:
        raise Exception("hir.rs::local_ident_name changed")
    anf = _src("crates/compiler/src/anf.rs")
    if anf.count('.replace("/", "__")') != 3:
        raise Exception("anf.rs::anf_renamer changed (expected three .replace(\"/\", \"__\"))")
    c2 = re.sub(r"\s+", " ", t_c)
    m = re.search(r'let is_entry = f\.name == "(\w+)" \|\| f\.name\.ends_with\("::(\w+)"\); let patched_name = if is_entry \{ "(\w+)"\.to_string\(\) \} else \{ go_ident\(&f\.name\) \};', c2)
    if not m or m.group(1) != m.group(2):
        raise Exception("compile.rs::compile_fn entry renaming changed")
    entry_src, entry_go = m.group(1), m.group(3)
    for frag in ['fn dyn_struct_go_name(trait_name: &str) -> String { go_ident(&format!("dyn__{}", trait_name)) }',
                 'fn dyn_vtable_struct_go_name(trait_name: &str) -> String { go_ident(&format!("dyn__{}_vtable", trait_name)) }',
                 'go_ident(&format!( "dyn__{}__vtable__{}", trait_name, encode_ty(for_ty) ))',
                 'go_ident(&format!( "dyn__{}__wrap__{}__{}", trait_name, encode_ty(for_ty), method_name ))',
                 'let clashes_with_type = goenv.enums().any(|(name, _)| name.0 == variant_name) || goenv.structs().any(|(name, _)| name.0 == variant_name); '
                 'if count > 1 || clashes_with_type { format!("{}_{}", go_ident(enum_name), go_ident(variant_name)) } else { go_ident(variant_name) }',
                 'let type_identifier_method = format!("is{}", go_ident(&name.0));']:
        if frag not in c2:
            raise Exception(f"compile.rs changed near: {frag[:70]}")
    lift = _src("crates/compiler/src/lift.rs")
    m1 = re.search(r'const CLOSURE_ENV_PREFIX: &str = "(\w+)";', lift)
    m2 = re.search(r'const CLOSURE_APPLY_METHOD: &str = "(\w+)";', lift)
    if not m1 or not m2 or 'format!("{}{}_{}", CLOSURE_ENV_PREFIX, hint, self.next_id)' not in lift or 'format!("{}{}", CLOSURE_ENV_PREFIX, self.next_id)' not in lift:
        raise Exception("lift.rs closure naming changed")
    mono = re.sub(r"\s+", " ", _src("crates/compiler/src/mono.rs"))
    for frag in ['let func_name = trait_impl_fn_name(&trait_name, &receiver_ty, &method_name.0);']:
        if frag not in mono:
            raise Exception(f"mono.rs changed near: {frag[:70]}")
    # predeclared Go identifiers the emitted code relies on: literals used as Go names in runtime.rs / compile.rs
    relied = []
    for txt in (t_r, t_c):
        for lit in re.findall(r'name: "([A-Za-z_][\w.]*)"\.to_string\(\)', txt):
            if lit in GO_PREDECLARED and lit not in relied:
                relied.append(lit)
    qualified = sorted(set(l for l in re.findall(r'name: "(\w+\.\w+)"\.to_string\(\)', t_r + t_c)))
    fixed_locals = sorted(set(l for l in re.findall(r'\("(\w+)"\.to_string\(\), ', t_r + t_c)))
    return {"helpers": helpers, "imports": imports, "array_prefixes": arr, "ref_prefixes": ref, "gensym": prefixes,
            "entry_src": entry_src, "entry_go": entry_go, "closure_prefix": m1.group(1), "closure_apply": m2.group(1),
            "relied": relied, "qualified": qualified, "fixed_params": fixed_locals}

def instance_spelling():
    """which function spells the type arguments in instance names (mono.rs)"""
    mono = re.sub(r"\s+", " ", _src("crates/compiler/src/mono.rs"))
    m1 = re.search(r'fn ensure_instance\(&mut self, name: &str, args: &\[Ty\]\) -> TastIdent \{.*?format!\( "__\{\}", args\.iter\(\)\.map\((\w+)\)\.collect::<Vec<_>>\(\)\.join\("__"\) \)', mono)
    m2 = re.search(r'fn spec_name_for\(orig: &str, s: &Subst\) -> String \{.*?\.map\(\|\(k, v\)\| format!\("\{\}_\{\}", k, (\w+)\(v\)\)\) \.collect::<Vec<_>>\(\) \.join\("__"\); format!\("\{\}__\{\}", orig, suffix\)', mono)
    if not m1 or not m2:
        raise Exception("mono.rs: ensure_instance / spec_name_for no longer build `Base__args` / `orig__K_ty` names this way")
    return m1.group(1), m2.group(1)

def gen_runtime():
    d = runtime_tables()
    d["inst_spelling"], d["spec_spelling"] = instance_spelling()
    text = GEN_HEADER.format(src="go/runtime.rs, go/compile.rs, lift.rs, env.rs (Gensym), compile_match.rs/anf.rs (gensym call sites)") + f"""namespace Goml.Gen

/-- Go functions `make_runtime` always declares (before dead-code elimination) -/
def runtimeHelpers : List (List Char) := {_lean_chars_list(d["helpers"])}

/-- packages the runtime imports (their names are package-scope identifiers of the file) -/
def runtimeImports : List (List Char) := {_lean_chars_list(d["imports"])}

/-- per-type helper families `prefix ++ "__" ++ go_ident(encode_ty ty)` -/
def arrayHelperPrefixes : List (List Char) := {_lean_chars_list(d["array_prefixes"])}
def refHelperPrefixes : List (List Char) := {_lean_chars_list(d["ref_prefixes"])}

/-- every literal prefix passed to `Gensym::gensym` anywhere in the compiler crate -/
def gensymPrefixes : List (List Char) := {_lean_chars_list(d["gensym"])}

/-- `compile_fn` renames the function called `entrySrc` (or `…::entrySrc`) to `entryGo` -/
def entrySrc : List Char := {_lean_chars(d["entry_src"])}
def entryGo : List Char := {_lean_chars(d["entry_go"])}

def closureEnvPrefix : List Char := {_lean_chars(d["closure_prefix"])}
def closureApplyMethod : List Char := {_lean_chars(d["closure_apply"])}

/-- predeclared Go identifiers that runtime.rs / compile.rs emit by name -/
def reliedPredeclared : List (List Char) := {_lean_chars_list(d["relied"])}

/-- the Rust function `TypeMono::ensure_instance` maps over the type arguments of `Base__a__b` -/
def instanceArgSpelling : String := {_lean_str(d["inst_spelling"])}
/-- … and the one `spec_name_for` applies to each substituted type -/
def specArgSpelling : String := {_lean_str(d["spec_spelling"])}

/-- parameter names hard-wired in generated helper functions -/
def fixedParamNames : List (List Char) := {_lean_chars_list(d["fixed_params"])}

end Goml.Gen
"""
    write_if_changed("Runtime.lean", text)

def gen_dispatch():
    """C17: the four naming sites of a method and the dyn coercion guard — shape assertions only;
    the transcription lives in Model/Mangle.lean (dispatch section)"""
    cm = re.sub(r"\s+", " ", _src("crates/compiler/src/compile_match.rs"))
    mono = re.sub(r"\s+", " ", _src("crates/compiler/src/mono.rs"))
    comp = re.sub(r"\s+", " ", _src("crates/compiler/src/go/compile.rs"))
    chk = re.sub(r"\s+", " ", _src("crates/compiler/src/typer/check.rs"))
    nm = re.sub(r"\s+", " ", _src("crates/compiler/src/names.rs"))
    want = [
        (cm, "definition site", 'let func_name = if let Some(trait_name) = &impl_block.trait_name { trait_impl_fn_name(trait_name, for_ty, method_name) } else { inherent_method_fn_name(for_ty, method_name) };'),
        (cm, "static site guard", 'let for_ty = receiver.get_ty(); if has_tparam(&for_ty) { return core::Expr::ETraitCall {'),
        (cm, "static site", 'let for_ty = args[0].get_ty(); core::Expr::EVar { name: trait_impl_fn_name(trait_name, &for_ty, &method_name.0), ty: method_ty.clone(), }'),
        (cm, "inherent site", 'core::Expr::EVar { name: inherent_method_fn_name(receiver_ty, &method_name.0), ty: method_ty.clone(), }'),
        (mono, "bounded site", 'let receiver = mono_expr(ctx, &receiver, s);'),
        (mono, "bounded site", 'let receiver_ty = all_args[0].get_ty(); let func_name = trait_impl_fn_name(&trait_name, &receiver_ty, &method_name.0);'),
        (mono, "phase 2 on EToDyn", 'MonoExpr::EToDyn { trait_name, for_ty: m.collapse_type_apps(&for_ty),'),
        (mono, "collapse_type_apps", 'Ty::TApp { ty: base, args } if !args.is_empty() => { let base_name = base.get_constr_name_unsafe(); let ident = TastIdent::new(&base_name); if self.enum_base.contains_key(&ident) { let new_u = self.ensure_instance(&base_name, args); Ty::TEnum {'),
        (mono, "generic inherent index", 'parse_inherent_method_fn_name(func_name).and_then(|(base_type, method_name)| { ctx.inherent_method_index .get(&(base_type.to_string(), method_name.to_string()))'),
        (comp, "dyn wrapper site", 'let trait_ident = TastIdent(trait_name.to_string()); let impl_name = trait_impl_fn_name(&trait_ident, for_ty, method_name); let impl_go_name = go_ident(&impl_name);'),
        (comp, "dyn requirement", 'req.vtables.insert((trait_name.0.clone(), for_ty.clone()));'),
        (chk, "coerce: expected must be dyn", 'let tast::Ty::TDyn { trait_name } = expected else { return expr; }; if matches!(expr.get_ty(), tast::Ty::TDyn { .. }) { return expr; }'),
        (chk, "coerce: guards", 'let for_ty = expr.get_ty(); if !is_concrete_dyn_target(&for_ty) {'),
        (chk, "coerce: impl guard", 'if !has_visible_trait_impl(genv, &resolved_trait, &for_ty) { diagnostics.push(Diagnostic::new( Stage::Typer, Severity::Error, format!( "Type {:?} does not implement trait {}", for_ty, resolved_trait ), )); return expr; }'),
        (chk, "has_visible_trait_impl", 'let key = (trait_name.to_string(), for_ty.clone()); if genv.current().trait_env.trait_impls.contains_key(&key) { return true; } genv.deps .values() .any(|env| env.trait_env.trait_impls.contains_key(&key))'),
        (chk, "UFCS on a trait object: dynamic path only for the named trait",
         'if let tast::Ty::TDyn { trait_name: recv_trait, } = receiver_tast.get_ty() && recv_trait == type_ident.0 {'),
        (comp, "calls compiled for effect emit a statement",
         '| anf::CExpr::EToDyn { .. } | anf::CExpr::EProj { .. } => Vec::new(), anf::CExpr::ECall { .. } | anf::CExpr::EDynCall { .. } => { vec![goast::Stmt::Expr(compile_cexpr(goenv, expr))] }'),
        (re.sub(r"\s+", " ", _src("crates/compiler/src/env.rs")), "lookup_inherent_method: exact impl first, generic impl as fallback",
         'if let Some(scheme) = self .inherent_impls .get(&InherentImplKey::Exact(receiver_ty.clone())) .and_then(|impl_def| impl_def.methods.get(&method.0)) { return Some(scheme.ty.clone()); }'),
        (re.sub(r"\s+", " ", _src("crates/compiler/src/env.rs")), "instantiation_impl_defines",
         'matches!( key, InherentImplKey::Exact(tast::Ty::TApp { ty, .. }) if ty.constr_name().as_deref() == Some(constr) ) && impl_def.methods.contains_key(&method.0)'),
        (chk, "path form of an inherent call looks the method up under the receiver argument's type",
         'let arg_ty = arg_tast.get_ty(); if super::util::try_constr_name(&arg_ty).as_deref() == Some(resolved_type_name.as_str()) && let Some(method_ty) = type_env.lookup_inherent_method(&arg_ty, &member_ident) { receiver_ty = arg_ty; method_lookup = Some(method_ty); }'),
        (chk, "the receiver's constructor is compared with the RESOLVED type name (`Cell` written in package Lib is `Lib::Cell`), not with the path as written",
         'try_constr_name(&arg_ty).as_deref() == Some(resolved_type_name.as_str())'),
        (chk, "the resolved name is what resolve_type_name returns for the written path",
         'let (resolved_type_name, type_env) = super::util::resolve_type_name(genv, &type_name); let type_ident = tast::TastIdent(resolved_type_name.clone());'),
        (chk, "dot form of an inherent call looks the method up under the receiver's type",
         'let receiver_ty = receiver_tast.get_ty(); if let Some(method_ty) = lookup_inherent_method_for_ty( genv, &receiver_ty, &tast::TastIdent(field.to_ident_name()), ) {'),
        # which package's environment each inherent call form asks (Model/MethodEnv.lean)
        (chk, "path form: the first lookup goes to the environment of the package that DEFINES the named type",
         'let mut method_lookup = type_env.lookup_inherent_method(&receiver_ty, &member_ident);'),
        (chk, "path form: the overlap guard is put to the environment of the package that DEFINES the named type, not to genv.current()",
         'if let Some(first_arg) = args.first() && type_env .trait_env .instantiation_impl_defines(&resolved_type_name, &member_ident) {'),
        (chk, "dot form: lookup_inherent_method_for_ty asks env_for_receiver_ty",
         'let env = env_for_receiver_ty(genv, receiver_ty); env.lookup_inherent_method(receiver_ty, method)'),
        (chk, "env_for_receiver_ty: the environment the constructor name resolves to, through type applications",
         'match receiver_ty { tast::Ty::TEnum { name } | tast::Ty::TStruct { name } => { let (_resolved, env) = super::util::resolve_type_name(genv, name); env } tast::Ty::TApp { ty, .. } => env_for_receiver_ty(genv, ty), tast::Ty::TRef { .. } | tast::Ty::TVec { .. } => genv.current(), _ => genv.current(), }'),
        (re.sub(r"\s+", " ", _src("crates/compiler/src/typer/util.rs")), "resolve_type_name",
         'if name == "Self" { return (name.to_string(), genv.current()); } if let Some((package, rest)) = name.split_once("::") { if package == "Builtin" { return (rest.to_string(), genv.current()); } if package == "Main" && genv.package == "Main" { return (rest.to_string(), genv.current()); } if package == genv.package { return (name.to_string(), genv.current()); } if let Some(dep) = genv.deps.get(package) { return (name.to_string(), dep); } return (name.to_string(), genv.current()); } if genv.package == "Main" || genv.package == "Builtin" { (name.to_string(), genv.current()) } else { (format!("{}::{}", genv.package, name), genv.current()) }'),
        (nm, "parse_inherent_method_fn_name", 'let mut parts = name.split(\'#\'); if parts.next()? != "inherent" { return None; } let base = parts.next()?; let _ty = parts.next()?; let method = parts.next()?; if parts.next().is_some() { return None; } Some((base, method))'),
    ]
    for text, what, frag in want:
        if frag not in text:
            raise Exception(f"C17 anchor changed ({what}): {frag[:80]}")
    text = GEN_HEADER.format(src="compile_match.rs, mono.rs, go/compile.rs, typer/check.rs, names.rs (dispatch sites; shape assertions)") + f"""namespace Goml.Gen

/-- number of source fragments of the method naming sites and the dyn coercion guard that were
found verbatim in the Rust text on this run (the Lean transcription is `Model/Mangle.lean`, dispatch section) -/
def dispatchAnchors : Nat := {len(want)}

end Goml.Gen
"""
    write_if_changed("Dispatch.lean", text)

EXTRACTORS += [gen_go_keywords, gen_ty_names, gen_runtime, gen_dispatch]
def _norm(text):
    """whitespace-normalised source without `//` comments"""
    return re.sub(r"\s+", " ", re.sub(r"//[^\n]*", "", text))

def gen_package_ids():
    """C13/C16: package-id assignment (pipeline.rs ×2, hir.rs), root package name and the collection
    type of `PackageUnit.imports` (packages.rs)"""
    pipe = _norm(open(os.path.join(REPO, "crates/compiler/src/pipeline/pipeline.rs")).read())
    pat = (r'let mut package_names: Vec<String> = graph\.packages\.keys\(\)\.cloned\(\)\.collect\(\); package_names\.sort\(\); '
           r'let mut package_ids = HashMap::new\(\); package_ids\.insert\("(\w+)"\.to_string\(\), hir::PackageId\((\d+)\)\); '
           r'package_ids\.insert\("(\w+)"\.to_string\(\), hir::PackageId\((\d+)\)\); let mut next_id = (\d+)u32; '
           r'for name in package_names \{ if name == "(\w+)" \|\| name == "(\w+)" \{ continue; \} '
           r'package_ids\.insert\(name, hir::PackageId\(next_id\)\); next_id \+= 1; \}')
    found = re.findall(pat, pipe)
    if len(found) != 2 or found[0] != found[1]:
        raise Exception(f"pipeline.rs: expected two identical package-id assignment blocks, found {found}")
    b, bid, m, mid, first, s1, s2 = found[0]
    if (s1, s2) != (b, m):
        raise Exception(f"pipeline.rs: id assignment skips {s1},{s2} but reserves {b},{m}")
    hir = _norm(open(os.path.join(REPO, "crates/compiler/src/hir.rs")).read())
    hpat = (r'package_index\.insert\(PackageName\("(\w+)"\.to_string\(\)\), PackageId\((\d+)\)\);.*?'
            r'package_index\.insert\(PackageName\("(\w+)"\.to_string\(\)\), PackageId\((\d+)\)\); \} let mut next_id = (\d+)u32;')
    hm = re.search(hpat, hir)
    if not hm or hm.groups() != (b, bid, m, mid, first):
        raise Exception(f"hir.rs: package_index constants {hm.groups() if hm else None} differ from pipeline.rs {(b, bid, m, mid, first)}")
    if "other_packages.sort_by(|a, b| a.0.cmp(&b.0));" not in hir:
        raise Exception("hir.rs: other_packages are no longer sorted by name")
    # the three uses of the two orders in typecheck_packages / compile
    if len(re.findall(r"for name in order\.iter\(\) \{", pipe)) != 2:
        raise Exception("pipeline.rs: expected two `for name in order.iter()` loops (type-check order)")
    if len(re.findall(r"for name in graph\.discovery_order\.iter\(\) \{", pipe)) != 3:
        raise Exception("pipeline.rs: expected three `for name in graph.discovery_order.iter()` loops (concatenation order)")
    pk = _norm(open(os.path.join(REPO, "crates/compiler/src/pipeline/packages.rs")).read())
    rm = re.search(r'fn root_package_name\(&self\) -> &str \{ "(\w+)" \}', pk)
    if not rm:
        raise Exception("packages.rs: root_package_name not found")
    im = re.search(r"pub struct PackageUnit \{ pub name: String, pub files: Vec<SourceFileAst>, pub imports: (\w+)<String>, \}", pk)
    if not im:
        raise Exception("packages.rs: PackageUnit shape changed")
    for needle in ["while let Some(package_name) = queue.pop() {", "names.sort();", "deps.sort();",
                   "let mut queue: Vec<String> = entry_package.imports.iter().cloned().collect();",
                   "queue.extend(package.imports.iter().cloned());"]:
        if needle not in pk:
            raise Exception(f"packages.rs: `{needle}` not found")
    ordered = {"BTreeSet": "true", "HashSet": "false"}.get(im.group(1))
    if ordered is None:
        raise Exception(f"packages.rs: unknown collection {im.group(1)} for PackageUnit.imports")
    write_if_changed("PackageIds.lean", f"""/- GENERATED by tools/extract.py (gen_package_ids) from pipeline/pipeline.rs, hir.rs, pipeline/packages.rs — do not edit -/
namespace Goml.Graph
def builtinName : String := "{b}"
def builtinId : Nat := {bid}
def mainName : String := "{m}"
def mainId : Nat := {mid}
def firstFreeId : Nat := {first}
/-- `FlatPackageLayout::root_package_name` -/
def rootName : String := "{rm.group(1)}"
/-- `PackageUnit.imports` is a `{im.group(1)}<String>`: iterated in ascending order? -/
def importsOrdered : Bool := {ordered}
end Goml.Graph
""")

EXTRACTORS += [gen_package_ids]


def c16_gen_local_name():
    """C16: the two predicates behind the orphan rule and the inherent-impl locality check (typer/toplevel.rs).
    Their bodies are asserted verbatim (modulo whitespace): ownership of `Pkg::Item` is decided by comparing the
    package segment with the current package — not by any other test on the text of the name — and only a
    struct / enum / generic application of one is a local nominal type."""
    src = _norm(open(os.path.join(REPO, "crates/compiler/src/typer/toplevel.rs")).read())
    m = re.search(r'fn is_local_name\(current_package: &str, name: &str\) -> bool \{ '
                  r'if let Some\(\(package, _\)\) = name\.split_once\("::"\) \{ package == current_package \} '
                  r'else \{ ((?:current_package == "\w+"(?: \|\| )?)+) \} \}', src)
    if not m:
        raise Exception("toplevel.rs: is_local_name no longer compares the package segment of `Pkg::Item` with the current package")
    unq = re.findall(r'current_package == "(\w+)"', m.group(1))
    n = re.search(r'fn is_local_nominal_type\(current_package: &str, ty: &tast::Ty\) -> bool \{ match ty \{ '
                  r'tast::Ty::TStruct \{ name \} \| tast::Ty::TEnum \{ name \} => \{ is_local_name\(current_package, name\) \} '
                  r'tast::Ty::TApp \{ ty, \.\. \} => is_local_nominal_type\(current_package, ty\), _ => false, \} \}', src)
    if not n:
        raise Exception("toplevel.rs: is_local_nominal_type is no longer `struct | enum | application of one`")
    uses = len(re.findall(r"is_local_nominal_type\(&env\.package, &for_ty\)", src))
    if uses != 2 or "let trait_local = is_local_name(&env.package, &trait_name_str);" not in src:
        raise Exception("toplevel.rs: the orphan rule / inherent-impl check no longer call is_local_name / is_local_nominal_type as expected")
    items = ", ".join('"%s"' % u for u in unq)
    write_if_changed("LocalName.lean", f"""/- GENERATED by tools/extract.py (c16_gen_local_name) from typer/toplevel.rs — do not edit -/
namespace Goml.Vis
/-- `is_local_name`: a qualified name `Pkg::Item` is local iff `Pkg` **equals** the current package -/
def localByPackageSegmentEquality : Bool := true
/-- packages whose own items carry no package prefix (an unqualified name is local to them) -/
def unqualifiedLocalTo : List String := [{items}]
end Goml.Vis
""")

EXTRACTORS += [c16_gen_local_name]

def c08_gen_lift_consts():
    """C08: naming constants and shape anchors of lift.rs (closure env struct / field / apply function names)"""
    lift = _norm(open(os.path.join(REPO, "crates/compiler/src/lift.rs")).read())
    names = _norm(open(os.path.join(REPO, "crates/compiler/src/names.rs")).read())
    m1 = re.search(r'const CLOSURE_ENV_PREFIX: &str = "(\w+)";', lift)
    m2 = re.search(r'const CLOSURE_APPLY_METHOD: &str = "(\w+)";', lift)
    if not m1 or not m2:
        raise Exception("lift.rs: CLOSURE_ENV_PREFIX / CLOSURE_APPLY_METHOD not found")
    for needle, what in [
        ('format!("{}{}_{}", CLOSURE_ENV_PREFIX, hint, self.next_id)', "fresh_struct_name with hint"),
        ('format!("{}{}", CLOSURE_ENV_PREFIX, self.next_id)', "fresh_struct_name without hint"),
        ("let primary = name.split('/').next().unwrap_or(name);", "sanitize_env_name: text before the first '/'"),
        ("if ch.is_ascii_alphanumeric() { ch } else { '_' }", "sanitize_env_name: character map"),
        (".split('_') .filter(|part| !part.is_empty()) .collect::<Vec<_>>() .join(\"_\");", "sanitize_env_name: underscore runs collapsed"),
        ("if sanitized.chars().next().is_some_and(|c| c.is_ascii_digit()) { sanitized.insert(0, '_'); }", "sanitize_env_name: leading digit"),
        ('format!("{}_{}", base, index)', "make_field_name"),
        ("let apply_fn_name = inherent_method_fn_name(&env_ty, CLOSURE_APPLY_METHOD);", "apply function name"),
        ("for (index, (name, field_ty)) in captured.iter().enumerate().rev() {", "captured variables rebound innermost-last"),
        ("fn_params.push((env_param_name.clone(), env_ty.clone())); fn_params.extend(lowered_params.iter().cloned());", "env is the first parameter"),
        ("let struct_name = state.fresh_struct_name(sanitized_hint.as_deref());", "struct numbered after the body is transformed"),
    ]:
        if needle not in lift:
            raise Exception(f"lift.rs: anchor lost: {what}")
    m3 = re.search(r'let env_param_name = state\.gensym\.gensym\("(\w+)"\);', lift)
    m4 = re.search(r'sanitize_env_name\(name\)\.unwrap_or_else\(\|\| "(\w+)"\.to_string\(\)\)', lift)
    if not m3 or not m4:
        raise Exception("lift.rs: env parameter gensym prefix / field fallback not found")
    # which type constructors `ty_contains_closure` looks through
    body = block_after(lift, r"fn ty_contains_closure\(&self, ty: &Ty\) -> bool \{", "ty_contains_closure")
    arms = re.findall(r"Ty::(T\w+) \{", body)
    if arms != ["TStruct", "TTuple", "TArray", "TFunc", "TApp"]:
        raise Exception(f"lift.rs: ty_contains_closure looks through {arms}")
    m5 = re.search(r'pub fn inherent_method_fn_name\(receiver_ty: &tast::Ty, method_name: &str\) -> String \{ if is_primitive\(receiver_ty\) \{.*?\} let base = inherent_base\(receiver_ty\); format!\( "(\w+)(\W)\{\}\2\{\}\2\{\}", base, ty_compact\(receiver_ty\), method_name \) \}', names)
    if not m5:
        raise Exception("names.rs: inherent_method_fn_name shape changed")
    write_if_changed("LiftConsts.lean", f"""/- GENERATED by tools/extract.py (c08_gen_lift_consts) from lift.rs, names.rs — do not edit -/
namespace Goml.Lift.Consts
def closureEnvPrefix : String := "{m1.group(1)}"
def applyMethod : String := "{m2.group(1)}"
/-- prefix handed to the shared `Gensym` for the environment parameter of an apply function -/
def envParamPrefix : String := "{m3.group(1)}"
/-- `make_field_name` base when the captured name sanitises to nothing -/
def fieldFallback : String := "{m4.group(1)}"
/-- `inherent_method_fn_name`: `<inherentPrefix><sep>base<sep>type<sep>method` -/
def inherentPrefix : String := "{m5.group(1)}"
def inherentSep : String := "{m5.group(2)}"
/-- type constructors `ty_contains_closure` looks through, in source order -/
def containsClosureArms : List String := [{", ".join('"' + a + '"' for a in arms)}]
end Goml.Lift.Consts
""")

EXTRACTORS += [c08_gen_lift_consts]

def c08_split_top(text, sep):
    """split at `sep` outside (), {}, []"""
    out, depth, cur = [], 0, []
    for ch in text:
        if ch in "({[":
            depth += 1
        elif ch in ")}]":
            depth -= 1
        if ch == sep and depth == 0:
            out.append("".join(cur)); cur = []
        else:
            cur.append(ch)
    out.append("".join(cur))
    return [x.strip() for x in out if x.strip()]

def c08_gen_capture_walk():
    """C08: the case list of lift.rs `collect_captured`, as a table variant -> sub-expression fields walked (in order).
    Every `LiftExpr` variant must appear in exactly one arm, and every field of it that holds sub-expressions
    (Box<LiftExpr>, Vec<LiftExpr>, Option<Box<LiftExpr>>, Vec<LiftArm>) must be walked by that arm: a variant with
    sub-expressions in a leaf arm, or an arm that skips such a field, is an extractor error."""
    lift = _norm(open(os.path.join(REPO, "crates/compiler/src/lift.rs")).read())
    enum_body = block_after(lift, r"pub enum LiftExpr \{", "enum LiftExpr")
    variants = []          # (name, [(field, kind)])
    for m in re.finditer(r"(E\w+) \{([^{}]*)\}", enum_body):
        fields = []
        for f in c08_split_top(m.group(2), ","):
            fm = re.match(r"(\w+): (.+)$", f)
            if not fm:
                raise Exception(f"lift.rs: cannot read field `{f}` of LiftExpr::{m.group(1)}")
            t = fm.group(2).strip()
            kind = {"Box<LiftExpr>": "one", "Vec<LiftExpr>": "many", "Option<Box<LiftExpr>>": "opt", "Vec<LiftArm>": "arms"}.get(t)
            if kind is None and "LiftExpr" in t or kind is None and "LiftArm" in t:
                raise Exception(f"lift.rs: LiftExpr::{m.group(1)}.{fm.group(1)} has a sub-expression type the extractor does not know: {t}")
            if kind:
                fields.append((fm.group(1), kind))
        variants.append((m.group(1), fields))
    if len(variants) < 10:
        raise Exception("lift.rs: enum LiftExpr not found / too few variants")
    arm_struct = block_after(lift, r"pub struct LiftArm \{", "struct LiftArm")
    arm_fields = [f.split(":")[0].replace("pub", "").strip() for f in c08_split_top(arm_struct, ",") if "LiftExpr" in f]
    body = block_after(lift, r"fn collect_captured\( expr: &LiftExpr, bound: &mut Vec<String>, captured: &mut IndexMap<String, Ty>, scope: &Scope, \) \{", "collect_captured")
    mbody = block_after(body, r"match expr \{", "collect_captured: match expr")
    # arms: `pattern => { block }` (every arm of this function is a block)
    arms, i = [], 0
    while i < len(mbody):
        j = mbody.find("=>", i)
        if j < 0:
            break
        pat = mbody[i:j].strip()
        k = mbody.index("{", j)
        depth, e = 0, k
        while True:
            if mbody[e] == "{":
                depth += 1
            elif mbody[e] == "}":
                depth -= 1
                if depth == 0:
                    break
            e += 1
        arms.append((pat, mbody[k + 1:e]))
        i = e + 1
        while i < len(mbody) and mbody[i] in " ,":
            i += 1
    seen, table = {}, {}
    for pat, blk in arms:
        for alt in c08_split_top(pat, "|"):
            am = re.match(r"LiftExpr::(E\w+) \{(.*)\}$", alt)
            if not am:
                raise Exception(f"lift.rs: collect_captured has an arm the extractor cannot read: `{alt}`")
            v = am.group(1)
            if v in seen:
                raise Exception(f"lift.rs: collect_captured matches LiftExpr::{v} twice")
            seen[v] = True
            alias = {}
            for f in c08_split_top(am.group(2), ","):
                if f == "..":
                    continue
                fm = re.match(r"(\w+)(?:: (\w+))?$", f)
                if not fm:
                    raise Exception(f"lift.rs: collect_captured: cannot read binding `{f}` of LiftExpr::{v}")
                alias[fm.group(1)] = fm.group(2) or fm.group(1)
            decl = dict(next(fs for n, fs in variants if n == v)) if any(n == v for n, _ in variants) else None
            if decl is None:
                raise Exception(f"lift.rs: collect_captured matches unknown variant {v}")
            walked = []
            for field, kind in decl.items():
                a = alias.get(field)
                pos = None
                if a is not None:
                    if kind == "one":
                        mm = re.search(r"collect_captured\( ?&?%s, bound, captured, scope,? ?\)" % re.escape(a), blk)
                        pos = mm.start() if mm else None
                    elif kind == "many":
                        mm = re.search(r"for (\w+) in %s \{ collect_captured\( ?\1, bound, captured, scope,? ?\); \}" % re.escape(a), blk)
                        pos = mm.start() if mm else None
                    elif kind == "opt":
                        mm = re.search(r"if let Some\((\w+)\) = %s \{ collect_captured\( ?\1, bound, captured, scope,? ?\); \}" % re.escape(a), blk)
                        pos = mm.start() if mm else None
                    elif kind == "arms":
                        mm = re.search(r"for (\w+) in %s \{ (.*?) \}" % re.escape(a), blk)
                        if mm:
                            inner = [x for x in re.findall(r"collect_captured\( ?&%s\.(\w+), bound, captured, scope,? ?\)" % mm.group(1), mm.group(2))]
                            if inner != arm_fields:
                                raise Exception(f"lift.rs: collect_captured walks {inner} of every match arm, LiftArm has {arm_fields}")
                            pos = mm.start()
                if pos is None:
                    where = "a leaf arm" if not blk.strip() else "its arm"
                    raise Exception(f"lift.rs: collect_captured does not walk `{field}` of LiftExpr::{v} ({where}): "
                                    f"variables used only there would not be captured")
                walked.append((pos, field))
            table[v] = [f for _, f in sorted(walked)]
            if v == "ELet":
                # the bound name is pushed between value and body, popped afterwards
                if not re.search(r"collect_captured\( ?value, bound, captured, scope,? ?\); bound\.push\(name\.clone\(\)\); collect_captured\( ?body, bound, captured, scope,? ?\); bound\.pop\(\);", blk):
                    raise Exception("lift.rs: collect_captured: ELet no longer binds its name exactly around the body")
    missing = [n for n, _ in variants if n not in seen]
    if missing:
        raise Exception(f"lift.rs: collect_captured has no arm for {missing}")
    rows = ",\n".join('  ("%s", [%s])' % (n, ", ".join('"%s"' % f for f in table[n])) for n, _ in variants)
    write_if_changed("LiftCaptureWalk.lean", f"""/- GENERATED by tools/extract.py (c08_gen_capture_walk) from lift.rs — do not edit -/
namespace Goml.Lift.Consts
/-- `collect_captured`: for every `LiftExpr` variant (declaration order) the sub-expression fields it
    walks, in the order it walks them; the extractor has checked that these are ALL the fields of the
    variant that hold sub-expressions -/
def captureWalk : List (String × List String) := [
{rows}]
end Goml.Lift.Consts
""")

EXTRACTORS += [c08_gen_capture_walk]

# ---------------------------------------------------------------- C18: derive dispatch, json_escape_string table
def c18_rust_lit(lit):
    """value of a plain Rust string literal body (between the quotes): \\ \" \n \t escapes only"""
    out, i = [], 0
    while i < len(lit):
        if lit[i] == "\\":
            nxt = lit[i + 1]
            if nxt not in '\\"nt':
                raise Exception(f"derive/runtime literal with an escape this extractor does not read: {lit!r}")
            out.append({"\\": "\\", '"': '"', "n": "\n", "t": "\t"}[nxt]); i += 2
        else:
            out.append(lit[i]); i += 1
    return "".join(out)

def c18_fn_body(text, header_re, what):
    """brace-balanced body after header_re; braces inside string literals do not count"""
    m = re.search(header_re, text)
    if not m:
        raise Exception(f"anchor gone: {what}")
    i = text.index("{", m.end() - 1)
    depth, j, in_str = 0, i, False
    while j < len(text):
        c = text[j]
        if in_str:
            if c == "\\":
                j += 1
            elif c == '"':
                in_str = False
        elif c == '"':
            in_str = True
        elif c == "{":
            depth += 1
        elif c == "}":
            depth -= 1
            if depth == 0:
                return text[i:j + 1]
        j += 1
    raise Exception(f"unbalanced body: {what}")

def c18_chars(s):
    return "[" + ", ".join(str(ord(c)) for c in s) + "]"

def c18_gen_derive():
    d = _norm(_src("crates/compiler/src/derive.rs"))
    rt = _norm(_src("crates/compiler/src/go/runtime.rs"))
    consts = dict(re.findall(r'const (\w+): &str = "([^"]*)";', d))
    for k in ("TO_STRING_TRAIT", "TO_STRING_FN", "TO_JSON_TRAIT", "TO_JSON_FN", "SELF_PARAM_NAME"):
        if k not in consts:
            raise Exception(f"derive.rs: constant {k} is gone")
    # primitive_to_string_fn: TypeExpr variant -> runtime function
    body = c18_fn_body(d, r"fn primitive_to_string_fn\(ty: &ast::TypeExpr\) -> Option<&'static str> \{", "derive.rs::primitive_to_string_fn")
    prim = re.findall(r'ast::TypeExpr::(\w+) => Some\("(\w+)"\)', body)
    if len(prim) < 12 or "_ => None" not in body:
        raise Exception(f"derive.rs::primitive_to_string_fn: expected >= 12 arms and a `_ => None`, found {len(prim)}")
    # call_to_string: string as it is, primitives through the table, everything else `.to_string()`
    cts = c18_fn_body(d, r"fn call_to_string\(value: Expr, ty: Option<&ast::TypeExpr>, attr_ptr: &MySyntaxNodePtr\) -> Expr \{", "derive.rs::call_to_string")
    if not re.match(r"\{\s*if matches!\(ty, Some\(ast::TypeExpr::TString\)\) \{ value \} else if let Some\(helper\) = ty\.and_then\(primitive_to_string_fn\) \{ "
                    r"call_function\(helper, vec!\[value\], attr_ptr\) \} else \{ Expr::ECall \{ func: Box::new\(Expr::EField \{ expr: Box::new\(value\), "
                    r"field: AstIdent::new\(TO_STRING_FN\), astptr: \*attr_ptr, \}\), args: Vec::new\(\), astptr: \*attr_ptr, \} \}\s*\}$", cts):
        raise Exception("derive.rs::call_to_string changed shape")
    # call_to_json: explicit arms, then the primitive table, then `.to_json()`
    ctj = c18_fn_body(d, r"fn call_to_json\(value: Expr, ty: Option<&ast::TypeExpr>, attr_ptr: &MySyntaxNodePtr\) -> Expr \{", "derive.rs::call_to_json")
    arms = []
    for m in re.finditer(r'Some\(ast::TypeExpr::(\w+)\) => (?:\{ )?(call_function\("(\w+)", vec!\[value\], attr_ptr\)|Expr::EString \{ value: "(\w+)"\.to_string\(\), astptr: \*attr_ptr, \})', ctj):
        arms.append((m.group(1), "fn", m.group(3)) if m.group(3) else (m.group(1), "lit", m.group(4)))
    if [a[0] for a in arms] != ["TString", "TBool", "TUnit"]:
        raise Exception(f"derive.rs::call_to_json: explicit arms changed: {arms}")
    if not re.search(r"other => match other\.and_then\(primitive_to_string_fn\) \{ Some\(helper\) => call_function\(helper, vec!\[value\], attr_ptr\), "
                     r"None => Expr::ECall \{ func: Box::new\(Expr::EField \{ expr: Box::new\(value\), field: AstIdent::new\(TO_JSON_FN\),", ctj):
        raise Exception("derive.rs::call_to_json: fall-through arm changed shape")
    # binders
    fb = c18_fn_body(d, r"fn field_bindings\(count: usize\) -> Vec<AstIdent> \{", "derive.rs::field_bindings")
    m = re.search(r'AstIdent::new\(&format!\("(\w+)\{\}", idx\)\)', fb)
    if not m:
        raise Exception("derive.rs::field_bindings: binder format changed")
    prefix = m.group(1)
    if d.count("field_bindings(") != 5:
        raise Exception(f"derive.rs: expected field_bindings to be used by the four body builders, found {d.count('field_bindings(') - 1} uses")
    # literal pieces of the generated text: the model hard-codes them, so they must be exactly these
    want = {
        "build_struct_json_body": ['"{}"', '"{"', '","', '"\\"{}\\":"', '"}"'],
        "build_enum_json_body": ['"{{\\"tag\\":\\"{}\\"}}"', '"{{\\"tag\\":\\"{}\\",\\"fields\\":["', '","', '"]}"'],
        "build_struct_body": ['"{} {{}}"', '"{} {{ "', '"{}: "', '", "', '" }"'],
        "build_enum_body": ['"{}::{}"', '"{}::{}("', '", "', '")"'],
    }
    for fn, lits in want.items():
        b = c18_fn_body(d, r"fn " + fn + r"\(\w+: &\w+, attr_ptr: &MySyntaxNodePtr\) -> Expr \{", f"derive.rs::{fn}")
        got = re.findall(r'(?:value: |format!\()("(?:[^"\\]|\\.)*")', b)
        if got != lits:
            raise Exception(f"derive.rs::{fn}: literal pieces changed: {got}")
    cp = c18_fn_body(d, r"fn concat_parts\(parts: Vec<Expr>, attr_ptr: &MySyntaxNodePtr\) -> Expr \{", "derive.rs::concat_parts")
    if "op: common_defs::BinaryOp::Add, lhs: Box::new(acc), rhs: Box::new(part)," not in cp:
        raise Exception("derive.rs::concat_parts is no longer a left fold of `+`")
    # runtime: json_escape_string = "\"" + ReplaceAll(... ReplaceAll(s, old0, new0) ..., oldN, newN) + "\""
    js = c18_fn_body(rt, r"fn json_escape_string\(\) -> goast::Fn \{", "runtime.rs::json_escape_string")
    m = re.search(r'let mut replacements = vec!\[((?: ?\("(?:[^"\\]|\\.)*"\.to_string\(\), "(?:[^"\\]|\\.)*"\.to_string\(\)\),?)+) ?\];', js)
    if not m:
        raise Exception("runtime.rs::json_escape_string: explicit replacement pairs not found")
    pairs = [(c18_rust_lit(a), c18_rust_lit(b)) for a, b in re.findall(r'\("((?:[^"\\]|\\.)*)"\.to_string\(\), "((?:[^"\\]|\\.)*)"\.to_string\(\)\)', m.group(1))]
    m = re.search(r'for code in (\w+)u8\.\.(\w+) \{ replacements\.push\(\(\(code as char\)\.to_string\(\), format!\("((?:[^"\\]|\\.)*)\{:04x\}", code\)\)\); \}', js)
    if not m:
        raise Exception("runtime.rs::json_escape_string: control-character loop not found")
    lo, hi, pre = int(m.group(1), 0), int(m.group(2), 0), c18_rust_lit(m.group(3))
    for code in range(lo, hi):
        pairs.append((chr(code), pre + "%04x" % code))
    for frag in ['.fold(s_var(), |acc, (old, new)| goast::Expr::Call { func: Box::new(goast::Expr::Var { name: "strings.ReplaceAll".to_string(),',
                 'args: vec![acc, str_lit(old), str_lit(new)],',
                 'lhs: Box::new(str_lit("\\"".to_string())), rhs: Box::new(escaped),', 'rhs: Box::new(str_lit("\\"".to_string())),']:
        if frag not in js:
            raise Exception(f"runtime.rs::json_escape_string changed near: {frag[:60]}")
    if any(len(o) != 1 for o, _ in pairs):
        raise Exception("runtime.rs::json_escape_string: a replaced pattern is not a single character")
    out = GEN_HEADER.format(src="derive.rs (call_to_json, call_to_string, primitive_to_string_fn, field_bindings), go/runtime.rs (json_escape_string)")
    out += "namespace Goml.Gen.Derive\n\n"
    out += f'def toStringFn : String := {lstr(consts["TO_STRING_FN"])}\ndef toJsonFn : String := {lstr(consts["TO_JSON_FN"])}\n'
    out += f'def selfParam : String := {lstr(consts["SELF_PARAM_NAME"])}\n/-- `field_bindings`: the generated locals are this prefix followed by the index -/\ndef binderPrefix : String := {lstr(prefix)}\n\n'
    out += "/-- `primitive_to_string_fn`: ast::TypeExpr variant ↦ runtime function -/\ndef primToString : List (String × String) := [\n"
    out += ",\n".join(f"  ({lstr(a)}, {lstr(b)})" for a, b in prim) + "]\n\n"
    out += "/-- `call_to_json`: the arms before the primitive table; `fn` = call of that function, `lit` = that text -/\ndef jsonArms : List (String × String × String) := [\n"
    out += ",\n".join(f"  ({lstr(a)}, {lstr(b)}, {lstr(c)})" for a, b, c in arms) + "]\n\n"
    out += ("/-- `json_escape_string`: `strings.ReplaceAll(…, old, new)` in application order (innermost first);\n"
            "    every `old` is one character, given with `new` as code points -/\ndef jsonReplacements : List (Nat × List Nat) := [\n")
    out += ",\n".join(f"  ({ord(o)}, {c18_chars(n)})" for o, n in pairs) + "]\n\nend Goml.Gen.Derive\n"
    write_if_changed("Derive.lean", out)

EXTRACTORS += [c18_gen_derive]

# ---------------------------------------------------------------- C03: constants of the type checker model
def c03_gen_ty_consts():
    """tast::ARRAY_WILDCARD_LEN (the array length `array_get`/`array_set` are declared with) and the
    name the typer gives `Self` in trait method signatures"""
    t = src("crates/compiler/src/tast.rs")
    m = re.search(r"pub const ARRAY_WILDCARD_LEN: usize = ([^;]+);", t)
    if not m:
        raise Exception("anchor lost: tast::ARRAY_WILDCARD_LEN")
    val = m.group(1).strip()
    if val == "usize::MAX":
        n = 2**64 - 1
    elif re.fullmatch(r"[0-9_]+", val):
        n = int(val.replace("_", ""))
    else:
        raise Exception(f"ARRAY_WILDCARD_LEN has an unexpected form: {val}")
    b = src("crates/compiler/src/builtins.rs")
    if b.count("tast::ARRAY_WILDCARD_LEN") != 1:
        raise Exception("anchor lost: builtins.rs uses ARRAY_WILDCARD_LEN exactly once (array_get/array_set share it)")
    write_if_changed("TyConsts.lean", f"""/- GENERATED by tools/extract.py from crates/compiler/src/tast.rs, builtins.rs — do not edit; regenerated on every ./check run -/

namespace Goml.Gen

/-- `tast::ARRAY_WILDCARD_LEN`: the length in the signatures of `array_get` / `array_set`, which the
typer's unifier lets stand for any array length -/
def arrayWildcardLen : Nat := {n}

end Goml.Gen
""")


# ---------------------------------------------------------------- DCE (C02/C09): tables of go/dce.rs
def dce_tables():
    """value-only callee list of `keep_effect`, the root functions of `prune_dead_functions`, and
    which expression forms `expr_has_side_effects` answers `true` for without looking inside"""
    t = src("crates/compiler/src/go/dce.rs")
    m = re.search(r"const VALUE_ONLY_CALLEES: \[&str; (\d+)\] = \[(.*?)\];", t, flags=re.S)
    if not m:
        raise Exception("dce.rs: VALUE_ONLY_CALLEES not found")
    names = re.findall(r'"([^"]*)"', m.group(2))
    if len(names) != int(m.group(1)) or not names:
        raise Exception("dce.rs: VALUE_ONLY_CALLEES length mismatch")
    r = re.search(r"for root in \[(.*?)\] \{", t)
    if not r:
        raise Exception("dce.rs: root list of prune_dead_functions not found")
    roots = re.findall(r'"([^"]*)"', r.group(1))
    body = block_after(t, r"fn expr_has_side_effects\(e: &ast::Expr\) -> bool", "expr_has_side_effects")
    # arms of the form `ast::Expr::K { … } => true` / `ast::Expr::K { op: ast::GoXOp::O, .. } => true`
    always = []
    for am in re.finditer(r"ast::Expr::(\w+)\s*\{([^{}]*)\}\s*=>\s*true,", body):
        kind, inner = am.group(1), am.group(2)
        om = re.search(r"op:\s*ast::Go(?:Unary|Binary)Op::(\w+)", inner)
        always.append(kind + ("." + om.group(1) if om else ""))
    if "Call" not in always:
        raise Exception("dce.rs: expr_has_side_effects no longer treats Call as an effect")
    return names, roots, always

def gen_dce_tables():
    names, roots, always = dce_tables()
    ls = lambda xs: "[" + ", ".join(lstr(x) for x in xs) + "]"
    write_if_changed("DceTables.lean", f"""/- GENERATED by tools/extract.py (gen_dce_tables) from crates/compiler/src/go/dce.rs — do not edit; regenerated on every ./check run -/
namespace Goml.Gen

/-- `VALUE_ONLY_CALLEES`: callees whose call `keep_effect` keeps as `_ = e` -/
def dceValueOnlyCallees : List String := {ls(names)}

/-- roots of the reachability walk in `prune_dead_functions` -/
def dceRoots : List String := {ls(roots)}

/-- expression forms `expr_has_side_effects` answers `true` for outright (`Kind` or `Kind.Op`) -/
def dceAlwaysEffects : List String := {ls(always)}

end Goml.Gen
""")

EXTRACTORS += [c03_gen_ty_consts]


# ---------------------------------------------------------------- C07: order of the two callee lookups of mono_expr
def c07_gen_mono_lookup():
    """mono_expr, case ECall: a directly named callee is looked up (1) under the name as Core spells it and
    only when that fails (2) through inherent_method_index, (base type, method) -> the generic impl function.
    The order decides which body runs when `impl[T] B[T]` and `impl B[int32]` define the same method."""
    t = _norm(src("crates/compiler/src/mono.rs"))
    m = re.search(r"let callee_opt = (.*?);\s*let Some\(callee\) = callee_opt else", t, flags=re.S)
    if not m:
        raise Exception("anchor lost: mono.rs `let callee_opt = …; let Some(callee) = callee_opt else` (callee resolution of ECall)")
    expr = m.group(1)
    a = expr.find("ctx.orig_fns.get(func_name)")
    b = expr.find("inherent_method_index")
    if a < 0 or b < 0 or expr.count("ctx.orig_fns.get(func_name)") != 1:
        raise Exception("anchor lost: the callee resolution of ECall no longer consists of `ctx.orig_fns.get(func_name)` and an `inherent_method_index` lookup")
    if not (expr.startswith("ctx.orig_fns.get(func_name).or_else(") and a < b):
        raise Exception("mono.rs: the callee of a direct call is no longer looked up as spelled FIRST and through inherent_method_index only as a fallback")
    if t.count("inherent_method_index") != 5:
        raise Exception(f"anchor lost: mono.rs mentions inherent_method_index {t.count('inherent_method_index')} times (expected 5: field, build x3, one lookup)")
    write_if_changed("MonoLookup.lean", """/- GENERATED by tools/extract.py from crates/compiler/src/mono.rs (mono_expr, case ECall) — do not edit; regenerated on every ./check run -/

namespace Goml.Gen

/-- where `mono_expr` looks for the definition of a directly named callee -/
inductive CalleeLookup where
  /-- `ctx.orig_fns.get(func_name)`: the name exactly as Core spells it -/
  | asSpelled
  /-- `inherent_method_index`: `inherent#Base#…#method` ↦ the generic `impl[..] Base[..]` function of that method -/
  | inherentIndex
  deriving DecidableEq, Repr, Inhabited

/-- the lookups in the order mono.rs tries them (`a.or_else(|| b)`) -/
def calleeLookupOrder : List CalleeLookup := [.asSpelled, .inherentIndex]

end Goml.Gen
""")

EXTRACTORS += [c07_gen_mono_lookup]


# ---------------------------------------------------------------- C07: the instance key and the order in which a request finds its bindings
def c07_gen_mono_key():
    """`SubstKey::new` (what two requests must agree on to be ONE instance: the `(parameter, type)` entries sorted by
    parameter name, compared as a `Vec`) and the order in which the two request routes of `mono_expr` — a call (case
    `ECall`) and a generic function used as a value (`specialize_fn_value`) — unify the parts of the callee's
    signature, i.e. the insertion order of the substitution each of them hands to `ensure_instance`."""
    t = _norm(src("crates/compiler/src/mono.rs"))
    if "#[derive(Debug, Clone, PartialEq, Eq, Hash)] struct SubstKey(Vec<(String, Ty)>);" not in t:
        raise Exception("anchor lost: mono.rs `struct SubstKey(Vec<(String, Ty)>)` with derived PartialEq/Eq/Hash (an ordered list of entries)")
    m = re.search(r"impl SubstKey \{ fn new\(s: &Subst\) -> Self \{ (.*?) \} \}", t)
    if not m:
        raise Exception("anchor lost: mono.rs `impl SubstKey { fn new(s: &Subst) -> Self { … } }`")
    body = m.group(1)
    collect = "s.iter().map(|(k, v)| (k.clone(), v.clone())).collect()"
    if body == f"let mut entries: Vec<(String, Ty)> = {collect}; entries.sort_by(|a, b| a.0.cmp(&b.0)); Self(entries)":
        order = "sortedByName"
    elif body == f"Self({collect})" or body == f"let entries: Vec<(String, Ty)> = {collect}; Self(entries)":
        order = "insertionOrder"
    else:
        raise Exception("anchor lost: SubstKey::new is neither `entries sorted by name` nor `entries as inserted`: " + body[:200])
    if t.count("SubstKey::new(") != 1 or "fn ensure_instance(&mut self, name: &str, s: Subst) -> String { let key = SubstKey::new(&s);" not in t:
        raise Exception("anchor lost: mono.rs builds a SubstKey somewhere else than at the head of Ctx::ensure_instance")

    def parts(fn_text, what, p_call, r_call):
        if fn_text.count(p_call) != 1 or fn_text.count(r_call) != 1 or fn_text.count("unify(") != 2:
            raise Exception(f"anchor lost: {what} no longer unifies the parameter types (`{p_call}`) and the result type (`{r_call}`) exactly once each")
        return ["params", "ret"] if fn_text.find(p_call) < fn_text.find(r_call) else ["ret", "params"]

    m = re.search(r"fn specialize_fn_value\(ctx: &mut Ctx, name: &str, ty: &Ty\) -> Option<String> \{(.*?)Some\(ctx\.ensure_instance\(&generic_func_name, subst\)\) \}", t)
    if not m:
        raise Exception("anchor lost: mono.rs `fn specialize_fn_value … Some(ctx.ensure_instance(&generic_func_name, subst)) }`")
    value_order = parts(m.group(1), "specialize_fn_value", "unify(pt, at, &mut subst)", "unify(&callee.ret_ty, ret_ty, &mut subst)")
    m = re.search(r"let mut call_subst: Subst = IndexMap::new\(\);(.*?)let spec = ctx\.ensure_instance\(&generic_func_name, call_subst\);", t)
    if not m:
        raise Exception("anchor lost: mono.rs, case ECall: `let mut call_subst … let spec = ctx.ensure_instance(&generic_func_name, call_subst);`")
    call_order = parts(m.group(1), "mono_expr (case ECall)", "unify(pt, at, &mut call_subst)", "unify(&callee.ret_ty, &new_ty, &mut call_subst)")
    if t.count("ensure_instance(&generic_func_name") != 2:
        raise Exception("anchor lost: mono.rs requests instances of generic functions at other places than ECall and specialize_fn_value")
    ll = lambda xs: "[" + ", ".join("." + x for x in xs) + "]"
    write_if_changed("MonoKey.lean", f"""/- GENERATED by tools/extract.py from crates/compiler/src/mono.rs (SubstKey::new, specialize_fn_value, mono_expr case ECall) — do not edit; regenerated on every ./check run -/

namespace Goml.Gen

/-- what `SubstKey::new` does with the entries of the substitution before they are compared (as a `Vec`) -/
inductive SubstKeyOrder where
  /-- `entries.sort_by(|a, b| a.0.cmp(&b.0))`: by parameter name -/
  | sortedByName
  /-- the entries in the order the request inserted them -/
  | insertionOrder
  deriving DecidableEq, Repr, Inhabited

def substKeyOrder : SubstKeyOrder := .{order}

/-- the parts of a callee's signature a request unifies with the use site -/
inductive SigPart where
  | params
  | ret
  deriving DecidableEq, Repr, Inhabited

/-- a call (`mono_expr`, case `ECall`): the order of the `unify` calls that fill `call_subst` -/
def callUnifyOrder : List SigPart := {ll(call_order)}

/-- a generic function used as a value (`specialize_fn_value`): the order of the `unify` calls that fill `subst` -/
def valueUnifyOrder : List SigPart := {ll(value_order)}

end Goml.Gen
""")

EXTRACTORS += [c07_gen_mono_key]
EXTRACTORS += [gen_dce_tables]

# ---------------------------------------------------------------- C09: guards of anf.rs
def c09_anf_guards():
    """which right operands of && / || `anf` keeps as a plain binary operator (no `if` lowering), and what
    `anf_imm` passes on without naming: both must be exactly the immediates `EVar | EPrim`"""
    t = re.sub(r"\s+", " ", src("crates/compiler/src/anf.rs"))
    m = re.search(r"LiftExpr::EBinary \{ op: op @ \(BinaryOp::And \| BinaryOp::Or\), lhs, rhs, ty: _, \} "
                  r"if !matches!\( ?\*rhs, (.*?) ?\) => \{ let short_circuit", t)
    if not m:
        raise Exception("anf.rs: guard of the EBinary{And|Or} arm (`if !matches!(*rhs, …)`) not found")
    alts = [a.strip() for a in m.group(1).split("|")]
    kinds = []
    for a in alts:
        k = re.fullmatch(r"LiftExpr::(\w+) \{ \.\. \}", a)
        if not k:
            raise Exception(f"anf.rs: And|Or guard alternative not of the form `LiftExpr::X {{ .. }}`: {a}")
        kinds.append(k.group(1))
    body = block_after(t, r"fn anf_imm<'a>\(.*?\) -> AExpr \{", "anf_imm")
    arms = re.findall(r"LiftExpr::(\w+) \{[^}]*\} => k\(", body)
    if "_ => { let name = gensym.gensym(\"t\");" not in body:
        raise Exception("anf.rs: anf_imm no longer names every other expression with gensym(\"t\")")
    ls = lambda xs: "[" + ", ".join(f'"{x}"' for x in xs) + "]"
    write_if_changed("AnfGuards.lean", f"""/- GENERATED by tools/extract.py (c09_anf_guards) from crates/compiler/src/anf.rs — do not edit; regenerated on every ./check run -/
namespace Goml.Anf.Gen
/-- `LiftExpr` variants accepted by `matches!(*rhs, …)` in the `EBinary {{ op: And | Or }}` arm of `anf`:
    right operands for which `&&` / `||` is NOT lowered to `if` -/
def trivialRhsKinds : List String := {ls(kinds)}
/-- `LiftExpr` variants `anf_imm` passes to its continuation without naming them -/
def immKinds : List String := {ls(arms)}
end Goml.Anf.Gen
""")

EXTRACTORS += [c09_anf_guards]
# ---------------------------------------------------------------- C01 pipeline composition: order of the passes
def c01pipe_calls(text, what):
    """the `let (file, env) = pass(env_arg, [&gensym,] file_arg);` statements of the back half, in source order"""
    rx = re.compile(r"let \((\w+), (\w+)\) =\s*((?:crate::)?(?:mono::mono|lift::lambda_lift|anf::anf_file|go::compile::go_file))\(\s*(\w+)\.clone\(\),\s*(?:(&gensym),\s*)?(\w+)\.clone\(\)\s*\);")
    calls = [(m.group(3).replace("crate::", ""), m.group(4), m.group(6), m.group(5) is not None, m.group(1), m.group(2), m.start()) for m in rx.finditer(text)]
    if [c[0] for c in calls] != ["mono::mono", "lift::lambda_lift", "anf::anf_file", "go::compile::go_file"]:
        raise Exception(f"{what}: the back half is no longer mono -> lambda_lift -> anf_file -> go_file (found {[c[0] for c in calls]})")
    return calls

def c01pipe_gen_pipeline_order():
    """C01 pipeline composition: which passes `pipeline::compile` (and the separate-compilation linker) run after
    match compilation, in which order, what each is given, and that `go_file` ends with dead-code elimination"""
    pl = src("crates/compiler/src/pipeline/pipeline.rs")
    sep = src("crates/compiler/src/pipeline/separate.rs")
    body = block_after(pl, r"pub fn compile\(path: &Path, src: &str\) -> Result<Compilation, CompilationError> \{", "pipeline::compile")
    calls = c01pipe_calls(body, "pipeline::compile")
    calls_sep = c01pipe_calls(sep, "separate.rs link")
    if [(c[0], c[3]) for c in calls] != [(c[0], c[3]) for c in calls_sep]:
        raise Exception("pipeline.rs and separate.rs sequence the passes differently")
    # one Gensym, created before match compilation, shared by every later pass
    g = [m.start() for m in re.finditer(r"let gensym = Gensym::new\(\);", body)]
    bp = body.find("build_package(&gensym")
    if len(g) != 1 or bp < 0 or not (g[0] < bp < calls[0][6]):
        raise Exception("pipeline::compile: expected exactly one Gensym, created before build_package, before mono")
    gf = block_after(src("crates/compiler/src/go/compile.rs"), r"pub fn go_file\(", "go::compile::go_file")
    if not re.search(r"\(crate::go::dce::eliminate_dead_vars\(file\), goenv\)\s*$", gf.strip()):
        raise Exception("go_file no longer returns eliminate_dead_vars(file)")
    row = lambda c: f'({lstr(c[0])}, {lstr(c[1])}, {lstr(c[2])}, {"true" if c[3] else "false"}, {lstr(c[4])}, {lstr(c[5])})'
    rows = ",\n  ".join(row(c) for c in calls)
    write_if_changed("PipelineOrder.lean", f"""/- GENERATED by tools/extract.py (c01pipe_gen_pipeline_order) from pipeline/pipeline.rs, pipeline/separate.rs, go/compile.rs — do not edit; regenerated on every ./check run -/
namespace Goml.Gen

/-- the passes `pipeline::compile` runs after match compilation, in source order:
    (pass, environment argument, file argument, is it handed the pipeline-wide `Gensym`,
     variable bound to the output file, variable bound to the output environment) -/
def pipelineOrder : List (String × String × String × Bool × String × String) := [
  {rows}]

/-- the same four calls in the same order in `separate.rs` (linking separately compiled packages) -/
def pipelineOrderSeparate : List String := [{", ".join(lstr(c[0]) for c in calls_sep)}]

/-- `go_file` returns `dce::eliminate_dead_vars(file)` -/
def goFileEndsWithDce : Bool := true

end Goml.Gen
""")

EXTRACTORS += [c01pipe_gen_pipeline_order]

# ---------------------------------------------------------------- gocomp: anchors of go/compile.rs the model was written against
def gocomp_fn_body(text, name):
    return block_after(text, r"\bfn\s+" + re.escape(name) + r"\b[^{;]*\{", f"fn {name}")

def gocomp_tables():
    comp = src("crates/compiler/src/go/compile.rs")
    goast = src("crates/compiler/src/go/goast.rs")
    rt = src("crates/compiler/src/go/runtime.rs")
    cexpr = gocomp_fn_body(comp, "compile_cexpr")
    i = cexpr.find("anf::CExpr::ECall")
    if i < 0:
        raise Exception("compile_cexpr: the ECall arm is gone")
    call_arm = cexpr[i:cexpr.find("anf::CExpr::EProj", i)]
    # callee names the ECall arm (and the `missing` case of compile_aexpr_assign) compares with
    special = []
    for m in re.finditer(r'\*?name\s*==\s*"(\w+)"', call_arm):
        if m.group(1) not in special:
            special.append(m.group(1))
    assign = gocomp_fn_body(comp, "compile_aexpr_assign")
    for m in re.finditer(r'name\s*==\s*"(\w+)"', assign):
        if m.group(1) not in special:
            special.append(m.group(1))
    if len(special) < 5:
        raise Exception(f"compile_cexpr ECall arm: callee tests not found ({special})")
    # `tast_ty_to_go_type` never answers TVoid  =>  compile_fn's TVoid arm (compile_aexpr) is dead
    conv = gocomp_fn_body(goast, "tast_ty_to_go_type")
    void_result = "TVoid" in conv
    fn = gocomp_fn_body(comp, "compile_fn")
    if "goty::GoType::TVoid => (None, compile_aexpr(" not in fn.replace("\n", " ") and "TVoid" not in fn:
        raise Exception("compile_fn: the TVoid arm is gone")
    gens = re.findall(r'gensym\.gensym\("(\w+)"\)', comp)
    # order of the runtime functions
    mk = gocomp_fn_body(rt, "make_runtime")
    rtfns = re.findall(r"Item::Fn\((\w+)\(\)\)", mk)
    if len(rtfns) < 10:
        raise Exception("make_runtime: Item::Fn(...) list not found")
    # the three statement lowerings that exist
    lowerings = [n for n in ("compile_aexpr_effect", "compile_aexpr_assign", "compile_aexpr", "compile_while", "compile_match_branches",
                             "compile_cexpr_effect", "compile_go", "compile_fn", "go_file") if re.search(r"\bfn\s+" + n + r"\b", comp)]
    return special, void_result, gens, rtfns, lowerings

def gocomp_gen_tables():
    special, void_result, gens, rtfns, lowerings = gocomp_tables()
    ls = lambda xs: "[" + ", ".join(lstr(x) for x in xs) + "]"
    write_if_changed("GoCompTables.lean", f"""/- GENERATED by tools/extract.py (gocomp_gen_tables) from crates/compiler/src/go/compile.rs, goast.rs, runtime.rs — do not edit; regenerated on every ./check run -/
namespace Goml.Gen

/-- callee names `compile_cexpr` (ECall arm) and `compile_aexpr_assign` test for, in source order -/
def gocompSpecialCallees : List String := {ls(special)}

/-- does `tast_ty_to_go_type` mention `TVoid`?  (`false`: the `TVoid` arm of `compile_fn`, i.e. `compile_aexpr`, is dead) -/
def gocompTyToGoMentionsVoid : Bool := {"true" if void_result else "false"}

/-- prefixes passed to `Gensym::gensym` in compile.rs, in source order -/
def gocompGensymPrefixes : List String := {ls(gens)}

/-- the functions `make_runtime` emits, in order -/
def gocompRuntimeFns : List String := {ls(rtfns)}

/-- the lowering functions of compile.rs the model mirrors (or, for `compile_aexpr`, declares dead) -/
def gocompLoweringFns : List String := {ls(lowerings)}

end Goml.Gen
""")

EXTRACTORS += [gocomp_gen_tables]

# ---------------------------------------------------------------- C14: the maps of the link environment
def c14_struct_fields(text, name):
    m = re.search(r"pub struct " + name + r"\s*\{(.*?)\n\}", text, re.S)
    if not m:
        raise Exception(f"c14: struct {name} not found")
    fields = re.findall(r"^\s*pub (\w+)\s*:\s*([^\n]+?),?\s*$", m.group(1), re.M)
    if not fields:
        raise Exception(f"c14: struct {name} has no fields")
    return fields

def c14_exports_tables():
    """env.rs: the maps of TypeEnv / TraitEnv / ValueEnv; artifact.rs: the loops of PackageExports::apply_to and the
    fields of PackageExports / to_genv.  Theorems (Props/C14.lean) `decide` that apply_to copies every map."""
    env = src("crates/compiler/src/env.rs")
    art = src("crates/compiler/src/artifact.rs")
    genv = [f for f, _ in c14_struct_fields(env, "GlobalTypeEnv")]
    exports = [f for f, _ in c14_struct_fields(art, "PackageExports")]
    maps, nonmaps = [], []
    for part, ty in c14_struct_fields(env, "GlobalTypeEnv"):
        for f, fty in c14_struct_fields(env, ty.strip()):
            (maps if fty.startswith("IndexMap<") else nonmaps).append(f"{part}.{f}")
    m = re.search(r"pub fn apply_to\(&self, genv: &mut GlobalTypeEnv\) \{(.*?)\n    \}\n", art, re.S)
    if not m:
        raise Exception("c14: PackageExports::apply_to not found")
    body = m.group(1)
    loops = re.findall(r"for \((\w+), (\w+)\) in self\.(\w+)\.(\w+)\.iter\(\) \{\s*genv\s*\.(\w+)\s*\.(\w+)\s*\.insert\(\s*(\w+)\.clone\(\),\s*(\w+)\.clone\(\)\s*\);\s*\}", body)
    if len(loops) != body.count("for ") or not loops:
        raise Exception("c14: apply_to has a loop of an unexpected shape")
    applied = []
    for k, v, e1, f1, e2, f2, k2, v2 in loops:
        if (e1, f1) != (e2, f2) or (k, v) != (k2, v2):
            raise Exception(f"c14: apply_to loop copies {e1}.{f1} into {e2}.{f2}")
        applied.append(f"{e1}.{f1}")
    m = re.search(r"pub fn to_genv\(&self\) -> GlobalTypeEnv \{\s*GlobalTypeEnv \{(.*?)\}\s*\}", art, re.S)
    if not m:
        raise Exception("c14: PackageExports::to_genv not found")
    togenv = re.findall(r"(\w+): self\.(\w+)\.clone\(\)", m.group(1))
    ls = lambda xs: "[" + ", ".join('"' + x + '"' for x in xs) + "]"
    write_if_changed("Exports.lean", f"""/- GENERATED by tools/extract.py (c14_exports_tables) from crates/compiler/src/env.rs and artifact.rs — do not edit -/
namespace Goml.Gen.Exports

/-- the parts of `GlobalTypeEnv` (env.rs) -/
def genvParts : List String := {ls(genv)}

/-- the fields of `PackageExports` (artifact.rs) -/
def exportsParts : List String := {ls(exports)}

/-- every `IndexMap` of `TypeEnv` / `TraitEnv` / `ValueEnv`, as `part.field` -/
def envMaps : List String := {ls(maps)}

/-- fields of those structs that are not an `IndexMap` (none expected: `apply_to` could not merge them) -/
def envOther : List String := {ls(nonmaps)}

/-- the maps `PackageExports::apply_to` extends, in the order of its loops -/
def appliedMaps : List String := {ls(applied)}

/-- `PackageExports::to_genv`: (field of `GlobalTypeEnv`, field of `PackageExports` it is cloned from) -/
def toGenv : List (String × String) := [{", ".join('("' + a + '", "' + b + '")' for a, b in togenv)}]

end Goml.Gen.Exports
""")

EXTRACTORS += [c14_exports_tables]
# ---------------------------------------------------------------- C02: the back end's name tests
C02_NAME_TEST_FILES = ["go/compile.rs", "go/dce.rs", "go/goast.rs", "go/goty.rs", "go/mangle.rs", "go/mod.rs", "lift.rs", "mono.rs",
                       "anf.rs", "names.rs"]

def c02_name_tests():
    """every place where the middle / back end decides something by LOOKING AT A NAME: a comparison of a
    string with a literal (`== "main"`, `.ends_with("::main")`, `.contains("TParam")`, a `"vec_new" =>` match
    arm), the name constants of lift.rs, and the Go name of the renamed entry.  Returns
    {"stems": [...], "sites": [...]}; the stems (the literal without its non-alphanumeric edges) drive the
    name-test catalogue `gv c02names` — a new test on a name adds its stem to the catalogue by itself."""
    sites, stems = [], []
    def add(lit):
        s = re.sub(r"^[^A-Za-z0-9]+|[^A-Za-z0-9]+$", "", lit)
        if re.fullmatch(r"[A-Za-z][A-Za-z0-9_]*", s) and s not in stems:
            stems.append(s)
    for rel in C02_NAME_TEST_FILES:
        path = os.path.join(REPO, "crates/compiler/src", rel)
        if not os.path.exists(path):
            continue
        text = open(path, encoding="utf-8").read().split("#[cfg(test)]")[0]
        text = re.sub(r"//[^\n]*", "", text)
        for m in re.finditer(r'(?:(==|!=)\s*"([^"\n]+)"|"([^"\n]+)"\s*(==|!=)|\.(starts_with|ends_with|contains|strip_prefix|strip_suffix)\(\s*"([^"\n]+)"\s*\))', text):
            lit = m.group(2) or m.group(3) or m.group(6)
            op = m.group(1) or m.group(4) or m.group(5)
            sites.append((rel, text.count("\n", 0, m.start()) + 1, op, lit))
            add(lit)
        for m in re.finditer(r'^\s*\|?\s*((?:"[^"\n]+"\s*\|\s*)*"[^"\n]+")\s*(?:if [^=\n]*)?=>', text, flags=re.M):   # `"lit" | "lit2" =>` match arms
            for lit in re.findall(r'"([^"\n]+)"', m.group(1)):
                sites.append((rel, text.count("\n", 0, m.start()) + 1, "match-arm", lit))
                add(lit)
        for m in re.finditer(r'const [A-Z][A-Z_0-9]*(?:PREFIX|SUFFIX|METHOD|NAME)[A-Z_0-9]*: &str = "([^"\n]+)";', text):
            sites.append((rel, text.count("\n", 0, m.start()) + 1, "const", m.group(1)))
            add(m.group(1))
    comp = _norm(_src("crates/compiler/src/go/compile.rs"))
    m = re.search(r'let patched_name = if is_entry \{ "(\w+)"\.to_string\(\) \}', comp)
    if not m:
        raise Exception("compile.rs::compile_fn: `let patched_name = if is_entry { \"…\".to_string() }` not found")
    sites.append(("go/compile.rs", 0, "entry-go-name", m.group(1)))
    add(m.group(1))
    if not re.search(r"let is_entry = [^;]*\bmain\b", comp):
        raise Exception("compile.rs::compile_fn: `let is_entry = … main …` not found")
    for must in ("main", "TParam"):
        if must not in stems:
            raise Exception(f"name tests of the back end: the test on `{must}` was not found (scanner out of date?)")
    return {"stems": stems, "sites": sites}

# the keywords of the Go specification, written out from the specification: NOT read from go/mangle.rs, whose
# table (`is_go_keyword`) is one of the things the dictionary tests
C02_GO_SPEC_KEYWORDS = ["break", "case", "chan", "const", "continue", "default", "defer", "else", "fallthrough", "for", "func", "go",
                        "goto", "if", "import", "interface", "map", "package", "range", "return", "select", "struct", "switch", "type", "var"]

def c02_go_words():
    """the Go-word dictionary of the name-test catalogue: every spelling that means something to GO and that a
    goml user might give to an item -> its class.  go-keyword: the specification's 25 (+ whatever else
    mangle.rs::is_go_keyword lists); go-predeclared: the universe block; runtime-name: what the emitted file
    itself declares or relies on — runtime helper functions, imported package names, fixed parameter / field
    names of generated code (re-read from go/runtime.rs and go/compile.rs on every run), gensym prefixes."""
    words = {}
    for w in C02_GO_SPEC_KEYWORDS + list(go_ident_tables()["keywords"]):
        words.setdefault(w, "go-keyword")
    for w in GO_PREDECLARED:
        words.setdefault(w, "go-predeclared")
    rt = runtime_tables()
    comp = _src("crates/compiler/src/go/compile.rs")
    generated_fields = sorted(set(re.findall(r'name: "([a-z_][a-z0-9_]*)"\.to_string\(\),\s*ty:', comp)))   # goast::Field { name: "vtable".to_string(), ty: … }
    for w in rt["helpers"] + rt["imports"] + rt["fixed_params"] + rt["gensym"] + generated_fields + [rt["entry_go"], rt["closure_apply"]]:
        if re.fullmatch(r"[A-Za-z][A-Za-z0-9_]*", w):
            words.setdefault(w, "runtime-name")
    if len([w for w, c in words.items() if c == "go-keyword"]) < 25 or "vtable" not in words or "string_println" not in words:
        raise Exception("c02_go_words: a word class came out empty (runtime_tables / compile.rs anchors moved?)")
    return words

def c02_check_name_tests():
    c02_name_tests()
    c02_go_words()

EXTRACTORS += [c02_check_name_tests]

# ---------------------------------------------------------------- unify: shape of typer/unify.rs (arms of `unify`, diagnostics)
def unify_gen_shape():
    """the sequence of arms of the `match (&l_norm, &r_norm)` in `Typer::unify` (constructor pairs, in source order)
    and the diagnostic messages `occurs` / `unify` push (text up to the first `{`), in source order"""
    t = src("crates/compiler/src/typer/unify.rs")
    try:
        o0, o1 = t.index("fn occurs("), t.index("fn substitute_ty_params(")
        u0, u1 = t.index("    fn unify(&mut self"), t.index("    pub(crate) fn fresh_ty_var")
        n0 = t.index("    fn norm(&mut self")
    except ValueError:
        raise Exception("anchor lost: typer/unify.rs fn occurs / fn norm / fn unify / fn fresh_ty_var")
    if not (o0 < o1 < n0 < u0 < u1):
        raise Exception("anchor lost: order of occurs / norm / unify in typer/unify.rs")
    reg = t[u0:u1]
    if "let l_norm = self.norm(l);\n        let r_norm = self.norm(r);\n        match (&l_norm, &r_norm) {" not in reg:
        raise Exception("anchor lost: unify no longer starts with norm(l); norm(r); match (&l_norm, &r_norm)")
    # Model/Unify.lean::solveEqs reads the TypeEqual arm of Typer::solve as "unify, note progress, go on"
    if not re.search(r"Constraint::TypeEqual\(l, r\) => \{\s*if self\.unify\(diagnostics, &l, &r\) \{\s*changed = true;\s*\}\s*\}", t):
        raise Exception("anchor lost: the Constraint::TypeEqual arm of Typer::solve is no longer `if self.unify(..) { changed = true; }`")
    arms, acc = [], None
    for line in reg.split("\n"):
        if acc is None and re.match(r"^ {12}(\(|\| \(|_ =>)", line):
            acc = ""
        if acc is not None:
            acc += line + "\n"
            if "=>" in line:
                cs = re.findall(r"tast::Ty::(\w+)", acc.split("=>")[0])
                arms.append(",".join(cs) if cs else "_")
                acc = None
    msgs = [m.strip().rstrip(":") for m in re.findall(r'format!\(\s*"([^"{]*)', t[o0:o1]) + re.findall(r'format!\(\s*"([^"{]*)', reg)]
    # the diagnostics of Typer::solve and instantiate_struct_field_ty (full format strings, source order)
    try:
        i0, i1 = t.index("fn instantiate_struct_field_ty("), t.index("fn decompose_struct_type(")
        s0 = t.index("    pub fn solve(&mut self")
    except ValueError:
        raise Exception("anchor lost: instantiate_struct_field_ty / decompose_struct_type / Typer::solve")
    smsgs = re.findall(r'format!\(\s*"([^"]*)"', t[i0:i1]) + re.findall(r'format!\(\s*"([^"]*)"', t[s0:n0])
    if "while changed {" not in t[s0:n0] or "let mut changed = true;" not in t[s0:n0]:
        raise Exception("anchor lost: the `while changed` loop of Typer::solve")
    if len(arms) < 10 or len(msgs) < 5:
        raise Exception(f"unify.rs: unexpected shape (arms={len(arms)}, messages={len(msgs)})")
    q = lambda s: '"' + s.replace("\\", "\\\\").replace('"', '\\"') + '"'
    write_if_changed("UnifyShape.lean", GEN_HEADER.format(src="crates/compiler/src/typer/unify.rs") + f"""
namespace Goml.Gen

/-- the arms of `match (&l_norm, &r_norm)` in `Typer::unify`, in source order (the constructors named in each pattern) -/
def unifyArms : List String := [{", ".join(q(a) for a in arms)}]

/-- the diagnostics `occurs` and `unify` push, in source order (text before the first placeholder) -/
def unifyMessages : List String := [{", ".join(q(m) for m in msgs)}]

/-- the diagnostics of `instantiate_struct_field_ty` and `Typer::solve`, in source order (format strings) -/
def solveMessages : List String := [{", ".join(q(m) for m in smsgs)}]

end Goml.Gen
""")

EXTRACTORS += [unify_gen_shape]
# ---------------------------------------------------------------- gopp: the Go printer's tables (go_pprint.rs)
def gopp_char_lit(lit):
    """a Rust char literal body (between the quotes) -> the character"""
    table = {"\\n": "\n", "\\r": "\r", "\\t": "\t", "\\\\": "\\", "\\'": "'", '\\"': '"', "\\0": "\0"}
    if lit in table:
        return table[lit]
    if len(lit) == 1:
        return lit
    raise Exception(f"go_pprint.rs: char literal of unexpected shape: {lit!r}")

def gopp_str_lit(lit):
    """a Rust string literal body (no raw strings) -> the string"""
    out, i = [], 0
    while i < len(lit):
        if lit[i] == "\\":
            out.append(gopp_char_lit(lit[i:i + 2]))
            i += 2
        else:
            out.append(lit[i])
            i += 1
    return "".join(out)

def gopp_lean_char(c):
    esc = {"\n": "\\n", "\r": "\\r", "\t": "\\t", "\\": "\\\\", "'": "\\'", '"': '"'}
    return "'" + esc.get(c, c) + "'"

def gopp_tables():
    pp = src("crates/compiler/src/pprint/go_pprint.rs")
    # -- escape_go_string: the literal arms, then the control-character arm, then the pass-through arm
    esc = block_after(pp, r"fn escape_go_string\(value: &str\) -> String\s*\{", "escape_go_string")
    arms = block_after(esc, r"match ch\s*\{", "escape_go_string match")
    lits = re.findall(r"'((?:\\.|[^'\\]))'\s*=>\s*escaped\.push_str\(\"((?:\\.|[^\"\\])*)\"\)", arms)
    if len(lits) != 5:
        raise Exception(f"go_pprint.rs escape_go_string: expected 5 literal arms, found {len(lits)}")
    rows = [(gopp_char_lit(c), gopp_str_lit(s)) for c, s in lits]
    if not re.search(r"other if other\.is_control\(\)\s*=>\s*\{\s*escaped\.push_str\(&format!\(\"\\\\u\{:04x\}\", other as u32\)\);\s*\}", arms):
        raise Exception("go_pprint.rs escape_go_string: the control-character arm is no longer `\\\\u{:04x}` of `is_control()`")
    if not re.search(r"other\s*=>\s*escaped\.push\(other\)", arms):
        raise Exception("go_pprint.rs escape_go_string: the pass-through arm is gone")
    if arms.count("=>") != 7:
        raise Exception("go_pprint.rs escape_go_string: arms of an unexpected shape")
    # -- go_float_literal
    fl = block_after(pp, r"fn go_float_literal\(value: f64\) -> String\s*\{", "go_float_literal")
    m = re.search(r"let text = value\.to_string\(\);\s*if !value\.is_finite\(\) \|\| text\.contains\(\['\.', 'e', 'E'\]\)\s*\{\s*text\s*\}\s*else\s*\{\s*format!\(\"\{\}([^\"]*)\", text\)", fl)
    if not m:
        raise Exception("go_pprint.rs go_float_literal: shape changed")
    suffix = m.group(1)
    # -- operators
    def docs(impl):
        b = block_after(pp, r"impl " + impl + r"\s*\{", f"go_pprint impl {impl}")
        f = block_after(b, r"fn doc\(&self\) -> RcDoc<'_, \(\)>\s*\{", f"{impl}::doc")
        rows = re.findall(impl + r"::(\w+)\s*=>\s*RcDoc::text\(\"([^\"]*)\"\)", f)
        if f.count("=>") != len(rows):
            raise Exception(f"go_pprint.rs: {impl}::doc has arms of an unexpected shape")
        return rows
    bins, uns = docs("GoBinaryOp"), docs("GoUnaryOp")
    if len(bins) != 12 or len(uns) != 4:
        raise Exception(f"go_pprint.rs: expected 12 binary and 4 unary Go operators, found {len(bins)}/{len(uns)}")
    # -- go_type_name: the primitive spellings
    tn = block_after(pp, r"fn go_type_name\(ty: &GoType\) -> String\s*\{", "go_type_name")
    prim = re.findall(r"GoType::(\w+)\s*=>\s*\"([^\"]*)\"\.to_string\(\)", tn)
    if len(prim) != 14:
        raise Exception(f"go_pprint.rs go_type_name: expected 14 fixed spellings, found {len(prim)}")
    # -- every fixed text and every Doc combinator the printer uses (no soft break may appear unnoticed)
    body = pp[pp.index("fn go_type_doc"):]
    texts = sorted(set(gopp_str_lit(t) for t in re.findall(r"RcDoc::text\(\"((?:\\.|[^\"\\])*)\"\)", body)))
    combs = sorted(set(re.findall(r"RcDoc::(\w+)\(", pp)) | set(re.findall(r"\)\s*\.(\w+)\(", body)) - {"to_doc", "iter", "map", "unwrap", "render", "is_some", "doc", "clone"})
    nests = sorted(set(re.findall(r"\.nest\((\d+)\)", pp)))
    widths = sorted(set(re.findall(r"fn to_pretty\(&self, goenv: &GlobalGoEnv, (\w+): usize\)", pp)))
    if nests != ["4"] or widths != ["width"]:
        raise Exception(f"go_pprint.rs: nest amounts {nests} / to_pretty signature changed")
    L = [HEADER, "namespace Goml.Gen.GoPrintTables\n"]
    L.append("/-- go_pprint.rs `escape_go_string`: the arms with a fixed two-character escape, in source order; every other `char::is_control()` character is written `\\\\u{:04x}`, everything else as itself -/")
    L.append("def escapes : List (Char × List Char) := [" + ", ".join("(" + gopp_lean_char(c) + ", [" + ", ".join(gopp_lean_char(x) for x in s) + "])" for c, s in rows) + "]")
    L.append("/-- digits of Rust's `{:x}` -/")
    L.append("def hexDigits : List Char := [" + ", ".join(gopp_lean_char(c) for c in "0123456789abcdef") + "]")
    L.append("/-- go_pprint.rs `go_float_literal`: appended when the `{}` text of the f64 has no `.`/`e`/`E` -/")
    L.append(f"def integralSuffix : String := {lstr(suffix)}")
    L.append(lpairs("binSyms", bins, "go_pprint.rs GoBinaryOp::doc").rstrip())
    L.append(lpairs("unSyms", uns, "go_pprint.rs GoUnaryOp::doc").rstrip())
    L.append(lpairs("typeNames", prim, "go_pprint.rs go_type_name: fixed spellings").rstrip())
    L.append("/-- every distinct `RcDoc::text(\"…\")` literal from `go_type_doc` to the end of go_pprint.rs, sorted -/")
    L.append("def textLiterals : List String := [" + ", ".join(lstr(t) for t in texts) + "]")
    L.append("/-- every `RcDoc::<ctor>(` and chained `.method(` of the Doc algebra the printer uses, sorted -/")
    L.append("def docCombinators : List String := [" + ", ".join(lstr(t) for t in combs) + "]")
    L.append("/-- the only `nest` amount -/")
    L.append("def nestAmount : Nat := 4")
    L.append("\nend Goml.Gen.GoPrintTables\n")
    write_if_changed("GoPrintTables.lean", "\n".join(L))

EXTRACTORS += [gopp_tables]



# ---------------------------------------------------------------- C12/C04 round 11: the parser's grammar functions
GRAM_FILES = ["file.rs", "expr.rs", "pattern.rs", "path.rs", "stmt.rs"]

def gram_strip(text):
    """Rust source with comments, string and char literals blanked (same length), for structural scans"""
    out, i, n = list(text), 0, len(text)
    while i < n:
        c = text[i]
        if text.startswith("//", i):
            j = text.find("\n", i); j = n if j < 0 else j
            for k in range(i, j): out[k] = " "
            i = j; continue
        if c == '"':
            j = i + 1
            while j < n and text[j] != '"':
                j += 2 if text[j] == "\\" else 1
            for k in range(i + 1, j): out[k] = " "
            i = j + 1; continue
        if c == "'" and i + 2 < n and text[i + 2] == "'":
            out[i + 1] = " "; i += 3; continue
        i += 1
    return "".join(out)

def gram_functions(text):
    """[(name, body_text, [loop head text…])] for every `fn` of a file, in source order"""
    clean = gram_strip(text)
    res = []
    for m in re.finditer(r"^(?:pub(?:\([a-z]+\))? )?fn (\w+)\s*\(", clean, flags=re.M):
        i = clean.index("{", clean.index(")", m.end()) if "->" not in clean[m.end():clean.index("{", m.end())] else m.end())
        # the body starts at the first `{` after the signature's closing parenthesis / return type
        depth, j = 0, m.end() - 1
        while True:
            if clean[j] == "(": depth += 1
            elif clean[j] == ")":
                depth -= 1
                if depth == 0: break
            j += 1
        i = clean.index("{", j)
        depth, k = 0, i
        while True:
            if clean[k] == "{": depth += 1
            elif clean[k] == "}":
                depth -= 1
                if depth == 0: break
            k += 1
        body = clean[i:k + 1]
        loops = [" ".join(text[i + lm.start():i + lm.end()].split()) for lm in re.finditer(r"(?<![\[\w])(?:while\s[^{]*|loop\s*)\{", body)]
        loops = [l[:-1].strip() for l in loops]
        res.append((m.group(1), text[i:k + 1], loops))
    return res

def gram_const_set(text, name, tmac, variants):
    m = re.search(r"const " + name + r": &\[TokenKind\] = &\[(.*?)\];", text, re.S)
    if not m:
        raise RuntimeError(f"grammar: const {name} not found")
    names = c04_t_names(m.group(1))
    if not names or m.group(1).count("T!") != len(names):
        raise RuntimeError(f"grammar: const {name}: unexpected element")
    return [variants.index(gram_tk(tmac, t)) for t in names]

def gram_tk(tmac, spelling):
    for key in (spelling, "'" + spelling + "'"):
        if key in tmac:
            return tmac[key]
    raise RuntimeError(f"grammar: T![{spelling}] is not in the T! macro")

def extract_grammar():
    """token/syntax kind numbers, Display names, first/recovery sets, binding powers and the list of grammar functions
    with their loop heads (crates/parser/src/{file,expr,pattern,path,stmt}.rs) -> Gen/Grammar.lean"""
    lex = c20_read("crates/lexer/src/lib.rs")
    syn = c20_read("crates/parser/src/syntax.rs")
    tmac = _t_macro(lex)
    m = re.search(r"pub enum TokenKind \{(.*?)\n\}", lex, re.S)
    variants = [v for v, _ in _enum_variants_with_attrs(m.group(1))]
    sm = re.search(r"#\[repr\(u16\)\]\s*pub enum MySyntaxKind \{(.*?)\n\}", syn, re.S)
    skinds = [v for v, _ in _enum_variants_with_attrs(sm.group(1))]
    dm = re.search(r"impl std::fmt::Display for TokenKind \{\s*fn fmt\(&self, f: &mut std::fmt::Formatter<'_>\) -> std::fmt::Result \{\s*"
                   r"f\.write_str\(match self \{(.*?)\n        \}\)", lex, re.S)
    if not dm:
        raise RuntimeError("grammar: `impl Display for TokenKind` changed shape")
    disp = {}
    for l in dm.group(1).strip().splitlines():
        mm = re.fullmatch(r'\s*Self::(\w+) => "((?:[^"\\]|\\.)*)",', l)
        if not mm:
            raise RuntimeError(f"grammar: Display arm not understood: {l!r}")
        disp[mm.group(1)] = mm.group(2).encode().decode("unicode_escape")
    if set(disp) != set(variants):
        raise RuntimeError("grammar: Display does not cover every TokenKind")
    src = {f: c20_read("crates/parser/src/" + f) for f in GRAM_FILES}
    psrc = c20_read("crates/parser/src/parser.rs")
    sets = {
        "exprFirst": gram_const_set(src["expr.rs"], "EXPR_FIRST", tmac, variants),
        "patternFirst": gram_const_set(src["pattern.rs"], "PATTERN_FIRST", tmac, variants),
        "typeFirst": gram_const_set(src["file.rs"], "TYPE_FIRST", tmac, variants),
        "paramListRecovery": gram_const_set(src["file.rs"], "PARAM_LIST_RECOVERY", tmac, variants),
    }
    body = c20_fn_body(psrc, "should_consume_on_expect_failure")
    mm = re.search(r"!matches!\(\s*kind,(.*?)\)\s*\}", body, re.S)
    if not mm:
        raise RuntimeError("grammar: should_consume_on_expect_failure changed shape")
    sets["expectKeeps"] = [variants.index(gram_tk(tmac, t)) for t in c04_t_names(mm.group(1))]
    # the shape of expect / advance_with_error / open / close / precede / completed the model relies on
    for frag, what in [
        ('if cur_kind == T![eof] || !should_consume_on_expect_failure(cur_kind) {\n            self.events.push(Event::Error(err_msg));\n            return;\n        }\n\n        self.advance_with_error(&err_msg);', "Parser::expect"),
        ('"expect {:?}, actual {:?}",\n            kind.to_string(),\n            cur_kind.to_string()', "Parser::expect message"),
        ('let m = self.open();\n        self.events.push(Event::Error(error.to_string()));\n        self.advance();\n        self.close(m, MySyntaxKind::ErrorTree);', "Parser::advance_with_error"),
        ('*forward_parent = Some(m.index - self.index)', "MarkerClosed::precede"),
        ('p.events.push(Event::Close);\n\n        MarkerClosed { index: self.index }', "MarkerOpened::completed"),
    ]:
        if frag not in psrc:
            raise RuntimeError(f"grammar: {what} changed shape (the model's primitive no longer mirrors it)")
    def bp(fname, text, value_re):
        ret, b = _bp_fn_body(text, fname)
        return _arms(b, tmac, value_re, fname)
    prefix = [(variants.index(v), vals[0]) for v, _, vals in bp("prefix_binding_power", src["expr.rs"], r"(\d+)")]
    postfix = [(variants.index(v), vals[0]) for v, _, vals in bp("postfix_binding_power", src["expr.rs"], r"\((\d+), \(\)\)")]
    infix = [(variants.index(v), vals[0], vals[1]) for v, _, vals in bp("infix_binding_power", src["expr.rs"], r"\((\d+), (\d+)\)")]
    tinfix = [(variants.index(v), vals[0], vals[1]) for v, _, vals in bp("type_infix_binding_power", src["file.rs"], r"\((\d+), (\d+)\)")]
    fns = []
    for f in GRAM_FILES:
        for name, body, loops in gram_functions(src[f]):
            fns.append((f, name, loops, body.count("assert!(p.at"), len(re.findall(r"\bp\.(?:open|precede)\(|\.precede\(p\)", body))))
    if len(fns) < 60:
        raise RuntimeError("grammar: fewer than 60 grammar functions found")
    def nl(xs): return "[" + ", ".join(str(x) for x in xs) + "]"
    L = ["/- GENERATED by tools/extract.py from crates/lexer/src/lib.rs, crates/parser/src/{syntax,parser,file,expr,pattern,path,stmt}.rs — do not edit. -/",
         "namespace Goml.Gen.Gram", "",
         "/-! `TokenKind as u16` -/"]
    for i, v in enumerate(variants):
        L.append(f"def T_{v} : Nat := {i}")
    L += ["", "/-! `MySyntaxKind as u16` -/"]
    for i, v in enumerate(skinds):
        if i >= len(variants) or variants[i] != v:
            L.append(f"def K_{v} : Nat := {i}")
    L += ["", "/-- `impl Display for TokenKind`, indexed by discriminant -/",
          "def displayNames : List String := [" + ", ".join(_lean_str(disp[v]) for v in variants) + "]", "",
          "/-- `#[derive(Debug)]` names, indexed by discriminant -/",
          "def debugNames : List String := [" + ", ".join(_lean_str(v) for v in variants) + "]", ""]
    docs = {"exprFirst": "`EXPR_FIRST` (expr.rs)", "patternFirst": "`PATTERN_FIRST` (pattern.rs)", "typeFirst": "`TYPE_FIRST` (file.rs)",
            "paramListRecovery": "`PARAM_LIST_RECOVERY` (file.rs)",
            "expectKeeps": "kinds `Parser::expect` reports without consuming (`should_consume_on_expect_failure` is false)"}
    for k, v in sets.items():
        L += [f"/-- {docs[k]} -/", f"def {k} : List Nat := {nl(v)}", ""]
    L += ["/-- `prefix_binding_power`: (kind, r_bp) -/", "def prefixBp : List (Nat × Nat) := " + nl(f"({a}, {b})" for a, b in prefix), "",
          "/-- `postfix_binding_power`: (kind, l_bp) -/", "def postfixBp : List (Nat × Nat) := " + nl(f"({a}, {b})" for a, b in postfix), "",
          "/-- `infix_binding_power`: (kind, l_bp, r_bp) -/", "def infixBp : List (Nat × Nat × Nat) := " + nl(f"({a}, {b}, {c})" for a, b, c in infix), "",
          "/-- `type_infix_binding_power`: (kind, l_bp, r_bp) -/", "def typeInfixBp : List (Nat × Nat × Nat) := " + nl(f"({a}, {b}, {c})" for a, b, c in tinfix), "",
          "/-- every `fn` of the grammar files in source order: (file, name, loop heads, number of `assert!(p.at(..))`, number of markers opened) -/",
          "def grammarFns : List (String × String × List String × Nat × Nat) := ["]
    L += ["  " + ",\n  ".join(f"({_lean_str(f)}, {_lean_str(n)}, [{', '.join(_lean_str(l) for l in loops)}], {a}, {o})" for f, n, loops, a, o in fns), "]", "",
          "end Goml.Gen.Gram", ""]
    write_if_changed("Grammar.lean", "\n".join(L))

EXTRACTORS += [extract_grammar]
# ---------------------------------------------------------------- C04: match-compiler dispatch vs the types the typer gives refutable patterns
def c04_norm(t):
    return re.sub(r"\s+", " ", t).strip()

def c04_depth_of(body, needle):
    """brace depth (0 = directly in `body`) of every occurrence of `needle` in `body`"""
    out, depth, i = [], 0, 0
    while i < len(body):
        if body.startswith(needle, i):
            out.append(depth)
        if body[i] == "{":
            depth += 1
        elif body[i] == "}":
            depth -= 1
        i += 1
    return out

def c04_match_dispatch():
    """C04: `compile_match.rs::compile_rows` dispatches on the type of the first refutable pattern column; some arms are
    `panic!`/`unreachable!`. Whether those are reachable is decided by the typer: the table of types it equates a literal
    pattern's scrutinee with (check.rs `check_pat_*`, unconditionally) must stay inside the arms that have a case."""
    tast = src("crates/compiler/src/tast.rs")
    variants = re.findall(r"^\s{4}(T\w+)\b", block_after(tast, r"pub enum Ty \{", "tast.rs enum Ty"), flags=re.M)
    if len(variants) < 20 or "TFloat64" not in variants or "TVar" not in variants:
        raise Exception(f"tast.rs: enum Ty variants not recognised: {variants}")
    cm = src("crates/compiler/src/compile_match.rs")
    rows = block_after(cm, r"fn compile_rows\(", "compile_match.rs compile_rows")
    # block_after took the first `{` after the header: make sure it is the function body
    if "let bvar = branch_variable(&rows);" not in rows or "move_variable_patterns(row);" not in rows:
        raise Exception("compile_match.rs: compile_rows is not `move_variable_patterns; …; let bvar = branch_variable(&rows); match &bvar.ty {…}`")
    disp = block_after(rows, r"match &bvar\.ty \{", "compile_rows: match &bvar.ty")
    mvp = block_after(cm, r"fn move_variable_patterns\(", "move_variable_patterns")
    if not re.search(r"Pat::PVar \{", mvp) or not re.search(r"Pat::PWild \{ ty: _ \} => false,", mvp) or not re.search(r"_ => true,", mvp):
        raise Exception("compile_match.rs: move_variable_patterns no longer removes exactly the PVar and PWild columns")
    bv = c04_norm(block_after(cm, r"fn branch_variable\(", "branch_variable"))
    if "var_ty.insert(col.var.clone(), col.pat.get_ty());" not in bv:
        raise Exception("compile_match.rs: branch_variable no longer takes the branch type from the column's pattern")
    # top-level arms of the dispatch: they start at the indentation of the first one
    starts = [m for m in re.finditer(r"^ {8}((?:Ty::\w+(?: \{[^}]*\}|\([^)]*\))?(?:\s*\|\s*)?)+) =>", disp, flags=re.M)]
    if len(starts) < 15:
        raise Exception(f"compile_rows: expected the arms of `match &bvar.ty`, found {len(starts)}")
    case, nocase = [], []
    for k, m in enumerate(starts):
        body = disp[m.end():starts[k + 1].start() if k + 1 < len(starts) else len(disp)]
        heads = re.findall(r"Ty::(\w+)", m.group(1))
        nb = c04_norm(body)
        fn = re.match(r"\{?\s*(?:let ident = TastIdent::new\(name\); )?(compile_\w+_case)\(", nb)
        pm = re.match(r"\{?\s*(panic|unreachable)!\((?:\"([^\"]*)\")?", nb)
        for h in heads:
            if fn:
                case.append((h, fn.group(1)))
            elif pm:
                nocase.append((h, pm.group(1) + (": " + pm.group(2) if pm.group(2) else "")))
            elif h == "TApp":
                # `match base.as_ref() { Ty::TEnum => compile_enum_case, Ty::TStruct => compile_struct_case, _ => panic! }`
                inner = re.findall(r"Ty::(TEnum|TStruct) \{ name \} => \{.*?(compile_\w+_case)\(", nb)
                if [x[0] for x in inner] != ["TEnum", "TStruct"] or not re.search(r"_ => panic!\(", nb):
                    raise Exception("compile_rows: the TApp arm is not `match base { TEnum => compile_enum_case, TStruct => compile_struct_case, _ => panic! }`")
                case.append((h, "/".join(x[1] for x in inner)))
            else:
                raise Exception(f"compile_rows: arm {h} is neither a compile_*_case call nor panic!/unreachable!: {nb[:80]}")
    seen = [h for h, _ in case + nocase]
    if sorted(seen) != sorted(variants):
        raise Exception(f"compile_rows: the arms {sorted(seen)} are not exactly the variants of tast::Ty {sorted(variants)}")
    chk = src("crates/compiler/src/typer/check.rs")
    def ty_list(fn):
        b = block_after(chk, r"fn " + fn + r"\(ty: &tast::Ty\) -> bool\s*\{", fn)
        if not c04_norm(b).startswith("matches!("):
            raise Exception(f"check.rs: {fn} is not a single matches!")
        return re.findall(r"tast::Ty::(\w+)", b)
    ints, floats = ty_list("is_integer_ty"), ty_list("is_float_ty")
    lit = []
    for fn, const in (("check_pat_unit", "TUnit"), ("check_pat_bool", "TBool"), ("check_pat_string", "TString")):
        b = block_after(chk, r"fn " + fn + r"\([^)]*\) -> tast::Pat\s*\{", fn)
        want = f"self.push_constraint(Constraint::TypeEqual(tast::Ty::{const}, ty.clone()));"
        if not c04_norm(b).startswith(want) or c04_depth_of(b, "push_constraint") != [0]:
            raise Exception(f"check.rs: {fn} no longer starts with the unconditional constraint `{const} = scrutinee type`")
        lit.append((fn, [const]))
    b = block_after(chk, r"fn check_pat_int\([^)]*\) -> tast::Pat\s*\{", "check_pat_int")
    if "let target_ty = integer_literal_target(ty).unwrap_or(tast::Ty::TInt32);" not in c04_norm(b) \
            or c04_depth_of(b, "self.push_constraint(Constraint::TypeEqual(target_ty.clone(), ty.clone()))") != [0]:
        raise Exception("check.rs: check_pat_int no longer equates the scrutinee's type with `integer_literal_target(ty) or int32` on every path "
                        "(an unsuffixed integer pattern could then keep a type the match compiler has no case for)")
    itt = c04_norm(block_after(chk, r"fn integer_literal_target\(expected: &tast::Ty\) -> Option<tast::Ty>\s*\{", "integer_literal_target"))
    if itt != "if is_integer_ty(expected) { Some(expected.clone()) } else { None }":
        raise Exception("check.rs: integer_literal_target is no longer `is_integer_ty(expected) ? expected : None`")
    if "TInt32" not in ints:
        raise Exception("check.rs: the default type of an unsuffixed integer pattern is not an integer type")
    lit.append(("check_pat_int", ints))
    b = block_after(chk, r"fn check_pat_typed_int\([^)]*\) -> tast::Pat\s*\{", "check_pat_typed_int")
    if c04_depth_of(b, "self.push_constraint(Constraint::TypeEqual(") != [0] or \
            "self.push_constraint(Constraint::TypeEqual( literal_ty.clone(), expected_ty.clone(), ));" not in c04_norm(b):
        raise Exception("check.rs: check_pat_typed_int no longer equates the scrutinee's type with the suffix type on every path")
    cp = block_after(chk, r"fn check_pat\(", "check_pat")
    cp = cp[cp.index("let out = match pat_node"):] if "let out = match pat_node" in cp else ""
    typed = re.findall(r"hir::Pat::PU?Int\d+ \{ value \} => \{?\s*self\.check_pat_typed_int\(diagnostics, &value, &tast::Ty::(\w+), ty\)", cp)
    if len(typed) != 8:
        raise Exception(f"check.rs: check_pat: expected 8 suffixed integer pattern arms, found {len(typed)}")
    lit.append(("check_pat_typed_int", typed))
    sl = lambda xs: "[" + ", ".join(lstr(x) for x in xs) + "]"
    L = [HEADER, "namespace Goml.Gen.MatchDispatch\n",
         "/-- the variants of `tast::Ty` (tast.rs), in source order -/", f"def tyVariants : List String := {sl(variants)}\n",
         lpairs("matchCase", case, "compile_match.rs `compile_rows`, `match &bvar.ty`: the variants whose arm compiles a case, with the function called "
                "(`bvar.ty` is the type of a pattern that is neither `PVar` nor `PWild`: those columns are removed first)"),
         lpairs("matchNoCase", nocase, "… the variants whose arm is `panic!` / `unreachable!`: the match compiler relies on the typer never giving a refutable pattern such a type"),
         "/-- check.rs `is_integer_ty` / `is_float_ty` -/", f"def integerTys : List String := {sl(ints)}", f"def floatTys : List String := {sl(floats)}\n",
         "/-- check.rs: for each literal-pattern checker, the types it equates the scrutinee's type with — on every path, before anything is solved "
         "(`check_pat_int`: `integer_literal_target(ty)` = the scrutinee's type when `is_integer_ty`, else `int32`; `check_pat_typed_int`: the suffix types "
         "passed by `check_pat`) -/",
         "def literalPatternTys : List (String × List String) := [\n" + ",\n".join(f"  ({lstr(f)}, {sl(ts)})" for f, ts in lit) + "]\n",
         "end Goml.Gen.MatchDispatch\n"]
    write_if_changed("MatchDispatch.lean", "\n".join(L))

EXTRACTORS += [c04_match_dispatch]
# ---------------------------------------------------------------- C12: looks that do not consume (fuel-limit catalogue)
def c12_fn_spans(text):
    """(name, body) of every `fn` in a Rust source text (brace matching that skips strings, chars and comments)"""
    out = []
    for m in re.finditer(r"\bfn\s+([A-Za-z_][A-Za-z0-9_]*)\s*(?:<[^>]*>)?\s*\(", text):
        i = text.find("{", m.end())
        semi = text.find(";", m.end())
        if i < 0 or (0 <= semi < i):
            continue
        depth, j, n = 0, i, len(text)
        while j < n:
            c = text[j]
            if text.startswith("//", j):
                j = text.find("\n", j)
                if j < 0:
                    j = n
                continue
            if c == '"':
                j += 1
                while j < n and text[j] != '"':
                    j += 2 if text[j] == "\\" else 1
            elif c == "'" and re.match(r"'(\\.|[^\\'])'", text[j:j + 4]):
                j += len(re.match(r"'(\\.|[^\\'])'", text[j:j + 4]).group(0)) - 1
            elif c == "{":
                depth += 1
            elif c == "}":
                depth -= 1
                if depth == 0:
                    out.append((m.group(1), text[i:j + 1]))
                    break
            j += 1
    return out


def extract_c12_lookahead():
    """C12/C04: where the grammar functions look ahead without consuming. `p.nth(<literal>)` is a bounded look;
    `p.nth(<anything else>)` makes the number of looks grow with the input (the fuel-limit catalogue of
    harness/src/c12.rs must drive each such function past the limit). Also counted: the `!p.eof()` / `p.eof()`
    guards whose truthfulness while out of fuel losslessness rests on."""
    files = ["file.rs", "expr.rs", "pattern.rs", "path.rs", "stmt.rs"]
    unbounded, literal_max, eof_sites, nth_sites = [], 0, 0, 0
    for f in files:
        text = c20_read("crates/parser/src/" + f)
        eof_sites += len(re.findall(r"\bp\.eof\(\)", text))
        for name, body in c12_fn_spans(text):
            for a in re.findall(r"\bp\.nth\(([^()]*)\)", body):
                nth_sites += 1
                a = a.strip()
                if re.fullmatch(r"\d+", a):
                    literal_max = max(literal_max, int(a))
                elif name not in unbounded:
                    unbounded.append(name)
        # a look we cannot classify (nested call in the argument) must not go unnoticed
        if re.search(r"\bp\.nth\([^()]*\(", text):
            raise Exception(f"{f}: p.nth(..) with a call in its argument — classify it in extract_c12_lookahead")
    if nth_sites == 0 or eof_sites == 0:
        raise Exception("parser grammar files: no p.nth(..) / p.eof() site found — the anchors of extract_c12_lookahead are gone")
    text = f"""/- GENERATED by tools/extract.py from crates/parser/src/{{file,expr,pattern,path,stmt}}.rs — do not edit. -/
namespace Goml.Gen

/-- grammar functions that call `p.nth(e)` with a computed `e`: their number of looks grows with the input -/
def unboundedLookaheadFns : List String := {c04_lean_str_list(unbounded)}

/-- the largest literal `n` in a `p.nth(n)` -/
def maxLiteralLookahead : Nat := {literal_max}

/-- number of `p.nth(..)` sites / of `p.eof()` guards in the grammar functions -/
def nthSites : Nat := {nth_sites}
def eofGuardSites : Nat := {eof_sites}

end Goml.Gen
"""
    write_if_changed("Lookahead.lean", text)
    return {"unbounded": unbounded, "literal_max": literal_max, "nth_sites": nth_sites, "eof_sites": eof_sites}


EXTRACTORS += [extract_c12_lookahead]

if __name__ == "__main__":
    main()
