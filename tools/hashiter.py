#!/usr/bin/env python3
"""Auxiliary source scan for C13 (NOT part of the proof).

Lists every place in the non-test Rust sources of the workspace (the anchored files and everything else under
crates/*/src: lexer, parser, lowering, later passes, Go back end, printers) where a std `HashMap`/`HashSet` is *iterated*
(`for … in x`, `.iter()`, `.keys()`, `.values()`, `.into_iter()`, `.drain()`, `.extend(x)` …) and
classifies it with the hand-written table below:

  not-observable   the iteration order cannot reach an output (sorted afterwards, folded into a set,
                   any/all/count, only membership is used …)
  observable       the order reaches Go text / a dump / diagnostics / a hash
  unclassified     the site is not in the table (new or edited code): shown in the evidence and the
                   check widens its K-fold search

A site is identified by (file, enclosing fn, normalised text of the line), never by line number, so
unrelated edits above it do not rename it.  Usage: hashiter.py [repo] -> JSON on stdout.
"""
import json, os, re, sys

FILES = [
    "crates/compiler/src/pipeline/packages.rs",
    "crates/compiler/src/pipeline/pipeline.rs",
    "crates/compiler/src/pipeline/separate.rs",
    "crates/compiler/src/typer/toplevel.rs",
    "crates/compiler/src/typer/util.rs",
    "crates/compiler/src/typer/check.rs",
    "crates/compiler/src/typer/localenv.rs",
    "crates/compiler/src/typer/unify.rs",
    "crates/compiler/src/hir.rs",
    "crates/compiler/src/typer/name_resolution.rs",
    "crates/compiler/src/compile_match.rs",
    "crates/compiler/src/go/dce.rs",
    "crates/compiler/src/artifact.rs",
    "crates/compiler/src/env.rs",
]

HASHTY = r"(?:(?:Vec|Option|Rc|Arc|Box|RefCell|Cell|Mutex|RwLock)<\s*)*(?:(?:std::)?collections::|hash_map::|hash_set::|im::)?(?:Im|Fx|Ahash|AHash)?Hash(?:Map|Set)\b"
# `HashSet::<String>::new()`
HASHTY_TURBO = HASHTY + r"\s*::\s*<[^;=]*?>\s*"
ITER_METHODS = r"iter|iter_mut|keys|values|values_mut|into_iter|into_keys|into_values|drain|difference|union|intersection|symmetric_difference|retain|extract_if|par_iter"

# (file basename, fn, normalised line) -> (class, why)
N, O = "not-observable", "observable"
TABLE = {
    # ---- pipeline/packages.rs
    ("packages.rs", "topo_sort_packages", "graph.packages.keys().cloned().collect();"):
        (N, "sorted on the next line (`names.sort()`)"),
    ("packages.rs", "discover_packages_with_layout", "entry_package.imports.iter().cloned().collect();"):
        (O, "seeds the discovery work list: with a HashSet the discovery order follows the hash seed "
            "(fixed: `imports` is a BTreeSet, the site no longer shows up)"),
    ("packages.rs", "discover_packages_with_layout", "queue.extend(package.imports.iter().cloned());"):
        (O, "extends the discovery work list (fixed: BTreeSet)"),
    ("packages.rs", "visit_package", "package.imports.iter().cloned().collect();"):
        (N, "sorted on the next line"),
    ("packages.rs", "collect_imports", "file.ast.imports.iter()"):
        (N, "`ast::File.imports` is a Vec (name collision with the set-valued field); collected into a set"),
    # ---- pipeline/pipeline.rs
    ("pipeline.rs", "typecheck_packages", "graph.packages.keys().cloned().collect();"):
        (N, "sorted on the next line before ids are assigned"),
    ("pipeline.rs", "typecheck_with_packages_and_results", "graph.packages.keys().cloned().collect();"):
        (N, "sorted on the next line before ids are assigned"),
    ("pipeline.rs", "", "package.imports.iter().cloned().collect();"):
        (N, "sorted on the next line (`deps.sort()`)"),
    # ---- pipeline/separate.rs
    ("separate.rs", "read_source_files", "for import in ast.imports.iter() {"):
        (N, "`ast::File.imports` is a Vec; inserted into a set"),
    ("separate.rs", "check_package", "imports.into_iter().collect();"): (N, "sorted and deduplicated on the next two lines"),
    ("separate.rs", "build_package", "imports.into_iter().collect();"): (N, "sorted and deduplicated on the next two lines"),
    ("separate.rs", "link_cores", "for (pkg, unit) in by_name.iter() {"):
        (O, "the first stale / missing dependency found is the one reported (fixed: walked in name order)"),
    ("separate.rs", "link_cores", "= by_name.iter().collect();"): (N, "sorted by name on the next line"),
    ("separate.rs", "topo_sort", "for name in cores.keys() {"): (N, "fills BTreeMaps"),
    ("separate.rs", "topo_sort", "cores.keys().cloned().collect();"): (N, "sorted on the next line"),
    # ---- hir.rs
    ("hir.rs", "lower_to_project_hir_files_with_env", "= grouped .keys()"): (N, "collected then `sort_by` name"),
    ("hir.rs", "resolve_constructor_path", "= full_name_index .iter()"):
        (N, "only `matches.len()` and, when it is 1, the single element are used; with >1 matches the candidate list is "
            "stored in `ConstructorResolutionErrorKind::Ambiguous` but no diagnostic prints it"),
    # ---- typer
    ("toplevel.rs", "define_trait_impl", "for method_name in trait_method_names.iter() {"):
        (O, "one diagnostic per missing method, in set order (fixed: iterates the trait's IndexMap)"),
    ("name_resolution.rs", "new_with_deps", "for (package, interface) in deps {"):
        (N, "fills `enums_by_package` (nested maps and sets) which is only queried by key"),
    ("name_resolution.rs", "resolve_files_with_env", ".imports .iter()"):
        (N, "`ast::File.imports` is a Vec (name collision with `ResolutionContext.imports`)"),
    ("separate.rs", "link_cores", "in unit.deps.iter() {"): (N, "`CoreUnit.deps` is a BTreeMap (name collision with `PackageTypeEnv.deps`)"),
    ("separate.rs", "topo_sort", "in unit.deps.keys() {"): (N, "`CoreUnit.deps` is a BTreeMap"),
    ("check.rs", "has_visible_trait_impl", "genv.deps .values() .any("): (N, "`any` over the dependency environments: order-independent"),
    ("unify.rs", "", "for dep in genv.deps.values() {"):
        (N, "collects the impls found in the dependency environments; only their number (0 / 1 / several) and, when it is 1, "
            "the single element are used"),
    ("localenv.rs", "lookup_var", "in self.scopes.iter().enumerate().rev() {"):
        (N, "`scopes` is a Vec of maps walked innermost first; each map is only queried by key"),
    ("localenv.rs", "end_closure", "capture_stack .pop()"):
        (O, "the capture list of a closure in map order: `Typer::subst` reports one unresolved type variable per capture in "
            "that order (seeded change C13-capture-map-diagnostic-order; the tree keeps an IndexMap here)"),
    ("check.rs", "", "field_map.keys()"):
        (O, "joined into the text of `Struct pattern … has unknown fields: …` (fixed: written order)"),
    ("hir_pprint.rs", "to_doc", "RcDoc::concat(self.packages.iter().enumerate().map("):
        (N, "`ProjectHir.packages` is a Vec (name collision with the map-valued field `HirTables.packages` of hir.rs)"),
    # ---- go/dce.rs
    ("dce.rs", "dce_block_with_live", "for u in &used_rhs {"): (N, "inserts into the liveness set"),
    ("dce.rs", "dce_block_with_live", "live.extend(cases_live_in);"): (N, "set union"),
    # live-in sets returned in a tuple by the recursive calls (`let (blk, body_live_in) = dce_block_with_live(…)`)
    ("dce.rs", "dce_block_with_live", "live.extend(body_live_in);"): (N, "set union into the liveness HashSet"),
    ("dce.rs", "dce_block_with_live", "live.extend(then_live_in);"): (N, "set union into the liveness HashSet"),
    ("dce.rs", "dce_block_with_live", "live.extend(else_live_in);"): (N, "set union into the liveness HashSet"),
    ("dce.rs", "dce_block_with_live", "live.extend(default_live_in);"): (N, "set union into the liveness HashSet"),
    ("dce.rs", "dce_block_with_live", "cases_live_in.extend(live_in);"): (N, "set union into a HashSet"),
    ("dce.rs", "add_uses_expr", "for u in vars_used_in_expr(e) {"): (N, "inserts into the liveness set"),
    ("dce.rs", "prune_dead_functions", "= fn_map.keys().cloned().collect();"): (N, "set of names, membership only"),
    ("dce.rs", "prune_dead_functions", "for callee in called_functions_in_fn(f, &fn_names) {"):
        (N, "pushes on a work stack; only the reachable *set* is used and the output keeps the original item order"),
}


def strip_line_comment(s):
    return re.sub(r"//.*", "", s)


def fn_regions(src):
    """[(fn name, first line index, last line index)] — a region runs to the line before the next `fn`"""
    starts = []
    for i, l in enumerate(src):
        m = re.match(r"\s*(?:pub(?:\([a-z]+\))?\s+)?(?:async\s+)?fn\s+([a-z_][a-z0-9_]*)", strip_line_comment(l))
        if m:
            starts.append((m.group(1), i))
    out = []
    for k, (name, i) in enumerate(starts):
        j = starts[k + 1][1] - 1 if k + 1 < len(starts) else len(src) - 1
        out.append((name, i, j))
    return out


def split_top(t):
    """split a type list at its top-level commas"""
    out, depth, cur = [], 0, ""
    for ch in t:
        if ch in "<([":
            depth += 1
        elif ch in ">)]":
            depth -= 1
        if ch == "," and depth == 0:
            out.append(cur)
            cur = ""
        else:
            cur += ch
    if cur.strip():
        out.append(cur)
    return out


# functions (of the file being scanned) that return a tuple: name -> indices of the hash-typed components
FNS_RET_TUPLE = {}


def hash_names(text, fns_ret, extra_fields=()):
    names = set()
    for m in re.finditer(r"\b(?:let\s+(?:mut\s+)?)?([a-z_][a-z0-9_]*)\s*:\s*&?\s*(?:'[a-z]+\s+)?(?:mut\s+)?" + HASHTY, text):
        names.add(m.group(1))
    for m in re.finditer(r"\blet\s+(?:mut\s+)?([a-z_][a-z0-9_]*)\s*=\s*" + HASHTY + r"::", text):
        names.add(m.group(1))
    for m in re.finditer(r"\blet\s+(?:mut\s+)?([a-z_][a-z0-9_]*)[^;=]*=\s*[^;]*?collect::<\s*" + HASHTY, text):
        names.add(m.group(1))
    for m in re.finditer(r"\blet\s+(?:mut\s+)?([a-z_][a-z0-9_]*)\s*=\s*" + HASHTY_TURBO + r"::", text):
        names.add(m.group(1))
    for f in fns_ret:
        for m in re.finditer(r"\blet\s+(?:mut\s+)?([a-z_][a-z0-9_]*)[^;=]*=\s*[^;]*?\b" + f + r"\(", text):
            names.add(m.group(1))
    # `let (a, b, c) = f(…);` where f returns a tuple: the components whose type is a hash collection
    for f, idxs in FNS_RET_TUPLE.items():
        for m in re.finditer(r"\blet\s+\(([^()=;]*)\)\s*(?::[^=;]*)?=\s*[^;]*?\b" + re.escape(f) + r"\(", text):
            parts = [x.strip() for x in m.group(1).split(",")]
            for i in idxs:
                if i < len(parts):
                    nm = re.sub(r"^(?:mut|ref)\s+", "", parts[i])
                    if re.fullmatch(r"[a-z_][a-z0-9_]*", nm) and nm != "_":
                        names.add(nm)
    # `let (a, b): (HashSet<X>, Vec<Y>) = …;`
    for m in re.finditer(r"\blet\s+\(([^()=;]*)\)\s*:\s*\(([^=;]*)\)\s*=", text):
        parts = [x.strip() for x in m.group(1).split(",")]
        for i, t in enumerate(split_top(m.group(2))):
            if i < len(parts) and re.match(r"\s*&?\s*(?:mut\s+)?" + HASHTY, t):
                nm = re.sub(r"^(?:mut|ref)\s+", "", parts[i])
                if re.fullmatch(r"[a-z_][a-z0-9_]*", nm):
                    names.add(nm)
    # aliases: `let t = &s;` / `let t = s.clone();` / `let t = std::mem::take(&mut self.s);` of a hash-typed name or field
    known = set(names) | set(extra_fields)
    for _ in range(3):
        alt = "|".join(sorted(re.escape(n) for n in known)) or "$^"
        found = set()
        for m in re.finditer(r"\blet\s+(?:mut\s+)?([a-z_][a-z0-9_]*)\s*=\s*(?:std::mem::take\s*\(\s*)?&?\s*(?:mut\s+)?"
                             r"(?:[a-z_][a-z0-9_]*\s*\.\s*)*(?:" + alt + r")\s*(?:\.\s*(?:clone|to_owned|unwrap|unwrap_or_default|take)\s*\(\s*\)\s*)*\)?\s*;", text):
            found.add(m.group(1))
        if found <= known:
            break
        names |= found
        known |= found
    return names


def struct_fields(text):
    fields = set(m.group(1) for m in re.finditer(r"\bpub\s+([a-z_][a-z0-9_]*)\s*:\s*" + HASHTY, text))
    for sm in re.finditer(r"\bstruct\s+[A-Za-z0-9_]+(?:<[^>]*>)?\s*\{(.*?)\n\}", text, flags=re.S):
        for m in re.finditer(r"^\s*(?:pub(?:\([a-z]+\))?\s+)?([a-z_][a-z0-9_]*)\s*:\s*" + HASHTY, sm.group(1), flags=re.M):
            fields.add(m.group(1))
    return fields


# hash-typed public fields of structs defined in any scanned file (e.g. `PackageTypeEnv.deps`, used as `genv.deps`)
GLOBAL_FIELDS = set()

# calls that may stand between the collection and the iteration: `self.capture_stack.pop().unwrap_or_default().into_iter()`
PASS_THROUGH = r"(?:\s*\.\s*(?:pop|unwrap_or_default|unwrap|clone|as_ref|as_mut|take|last|last_mut|borrow|borrow_mut)\s*\(\s*\))*"


def scan_file(repo, rel):
    path = os.path.join(repo, rel)
    if not os.path.exists(path):
        return None
    src = open(path, encoding="utf-8").read().split("\n")
    base = os.path.basename(rel)
    text = "\n".join(strip_line_comment(l) for l in src)
    # struct fields (of this file and public ones of the other scanned files) and functions returning a hash collection
    own_fields = struct_fields(text)
    fields = own_fields | GLOBAL_FIELDS
    fns_ret = set(m.group(1) for m in re.finditer(
        r"\bfn\s+([a-z_][a-z0-9_]*)\s*(?:<[^>]*>)?\s*\([^)]*\)\s*->\s*(?:\(\s*[^)]*?)?" + HASHTY, text))
    FNS_RET_TUPLE.clear()
    for m in re.finditer(r"\bfn\s+([a-z_][a-z0-9_]*)\s*(?:<[^>]*>)?\s*\([^)]*\)\s*->\s*\(", text):
        depth, j = 1, m.end()
        while j < len(text) and depth:
            depth += text[j] in "(" 
            depth -= text[j] in ")"
            j += 1
        idxs = [i for i, t in enumerate(split_top(text[m.end():j - 1])) if re.match(r"\s*&?\s*(?:mut\s+)?" + HASHTY, t)]
        if idxs:
            FNS_RET_TUPLE[m.group(1)] = idxs
    fns_ret -= set(FNS_RET_TUPLE)
    sites = []
    for fn, lo, hi in fn_regions(src):
        region = "\n".join(strip_line_comment(l) for l in src[lo:hi + 1])
        local = hash_names(region, fns_ret, fields)
        allnames = local | fields
        alt = "|".join(sorted(re.escape(n) for n in allnames)) or "$^"
        recv = r"(?:[a-z_][a-z0-9_]*(?:\(\))?\s*\.\s*)*(?:" + alt + r")"
        falt = "|".join(sorted(re.escape(n) for n in fns_ret)) or "$^"
        pats = [
            ("method", re.compile(r"\b(" + recv + r")" + PASS_THROUGH + r"\s*\.\s*(" + ITER_METHODS + r")\s*\(")),
            ("for", re.compile(r"\bfor\s+[^;{]*?\bin\s+&?(?:mut\s+)?(" + recv + r")\s*\{")),
            ("for-call", re.compile(r"\bfor\s+[^;{]*?\bin\s+&?((?:" + falt + r"))\s*\(")),
            ("extend", re.compile(r"\.\s*(?:extend|extend_from_slice|append|chain|zip)\s*\(\s*&?(?:mut\s+)?(" + recv + r")" + PASS_THROUGH + r"\s*\)")),
            ("extend-call", re.compile(r"\.\s*(?:extend|chain|zip)\s*\(\s*&?((?:" + falt + r"))\s*\(")),
            ("from-iter-call", re.compile(r"\b(?:from_iter)\s*\(\s*&?((?:" + falt + r"))\s*\(")),
            ("method-call", re.compile(r"\b((?:" + falt + r"))\s*\((?:[^()]|\([^()]*\))*\)" + PASS_THROUGH + r"\s*\.\s*(" + ITER_METHODS + r")\s*\(")),
            ("from-iter", re.compile(r"\b(?:from_iter|from)\s*\(\s*&?(" + recv + r")" + PASS_THROUGH + r"\s*\)")),
            ("for", re.compile(r"\bfor\s+[^;{]*?\bin\s+&?(?:mut\s+)?(" + recv + r")" + PASS_THROUGH + r"\s*\{")),
        ]
        for i in range(lo, hi + 1):
            line = strip_line_comment(src[i])
            joined = line
            if not re.match(r"\s*\.", line):
                j = i + 1
                while j <= hi and j < i + 8 and re.match(r"\s*\.\s*[a-z_]+", strip_line_comment(src[j])):
                    joined = joined.rstrip() + " " + strip_line_comment(src[j]).strip()
                    j += 1
            for kind, p in pats:
                for m in p.finditer(joined):
                    r = m.group(1)
                    last = re.split(r"\s*\.\s*", r)[-1]
                    is_call = kind.endswith("-call")
                    if not is_call and last not in allnames:
                        continue
                    # a field name known only from another file counts only when it is written as a field (`x.deps`)
                    if not is_call and last not in (local | own_fields) and "." not in r:
                        continue
                    norm = " ".join(joined.split())
                    site = {"file": rel, "line": i + 1, "fn": fn, "kind": kind, "receiver": r,
                            "text": norm[:160], "key": [base, fn, norm]}
                    if kind in ("extend", "extend-call"):
                        # `t.extend(<hash collection>)` where `t` is itself a hash collection of this fn / this file: a set union,
                        # whatever the order of the argument
                        tm = re.search(r"((?:[a-z_][a-z0-9_]*\s*\.\s*)*[a-z_][a-z0-9_]*)\s*\.\s*extend\s*\(\s*&?(?:mut\s+)?" + re.escape(r), joined)
                        if tm and re.split(r"\s*\.\s*", tm.group(1))[-1] in (local | own_fields):
                            site["auto"] = "the receiver `" + tm.group(1) + "` of `extend` is itself a HashMap/HashSet: set union"
                    sites.append(site)
    seen, out = set(), []
    for s in sites:
        k = (s["line"], s["receiver"])
        if k in seen:
            continue
        seen.add(k)
        out.append(s)
    return out


def classify(site):
    base, fn, norm = site["key"]
    if site.get("auto"):
        return "not-observable", "auto: " + site.pop("auto")
    for (b, f, t), (cls, why) in TABLE.items():
        if b == base and f in (fn, "") and t in norm:
            return cls, why
    return "unclassified", "not in tools/hashiter.py TABLE"


def all_compiler_sources(repo):
    """every Rust source of the workspace crates that is not a test: the anchored files first, then the rest (passes after
    the typer, the Go back end, the printers …) — a hash collection introduced anywhere on the way to an output is listed"""
    files = list(FILES)
    crates = os.path.join(repo, "crates")
    roots = [os.path.join(crates, "compiler", "src")] + sorted(
        os.path.join(crates, c, "src") for c in (os.listdir(crates) if os.path.isdir(crates) else []) if c != "compiler")
    for root in roots:
        for d, ds, fs in os.walk(root):
            ds[:] = sorted(x for x in ds if x != "tests")
            for f in sorted(fs):
                rel = os.path.relpath(os.path.join(d, f), repo)
                if f.endswith(".rs") and rel not in files:
                    files.append(rel)
    return files


# ---- self-test of the scanner: every way of INTRODUCING a hash-typed binding × every way of ITERATING it, written into a
# synthetic source file and scanned with the same code as the compiler sources.  A missed combination is a hole in
# the scan (reported by the check as a broken tie); a control with an ordered collection must yield no site.
SELFTEST_INTROS = [
    # (label, lines before the fn, parameter list, lines at the top of the body, receiver expression)
    ("let-annotated-ref-elems", "", "", "let mut s: HashSet<&tast::Ty> = HashSet::new();", "s"),
    ("let-annotated-map", "", "", "let mut s: HashMap<String, Vec<tast::Ty>> = HashMap::new();", "s"),
    ("let-new", "", "", "let mut s = HashSet::new();", "s"),
    ("let-turbofish-new", "", "", "let mut s = HashSet::<String>::new();", "s"),
    ("let-with-capacity", "", "", "let mut s = HashMap::with_capacity(8);", "s"),
    ("let-default", "", "", "let mut s = HashSet::default();", "s"),
    ("let-from-array", "", "", "let s = HashSet::from([1, 2, 3]);", "s"),
    ("let-annotated-collect", "", "xs: &[String]", "let s: HashSet<_> = xs.iter().cloned().collect();", "s"),
    ("let-collect-turbofish", "", "xs: &[String]", "let s = xs.iter().cloned().collect::<HashSet<_>>();", "s"),
    ("let-collect-turbofish-multiline", "", "xs: &[String]", "let s = xs\n        .iter()\n        .cloned()\n        .collect::<HashSet<String>>();", "s"),
    ("let-full-path", "", "", "let mut s: std::collections::HashSet<String> = std::collections::HashSet::new();", "s"),
    ("param-ref", "", "s: &HashSet<String>", "", "s"),
    ("param-mut-ref", "", "s: &mut HashMap<String, u32>", "", "s"),
    ("param-lifetime-ref", "", "s: &'a HashMap<String, u32>", "", "s"),
    ("param-by-value", "", "s: HashSet<tast::Ty>", "", "s"),
    ("field-of-self", "struct Holder {\n    names: HashSet<String>,\n}", "&self", "", "self.names"),
    ("pub-field-of-other", "pub struct Env {\n    pub table: HashMap<String, u32>,\n}", "env: &Env", "", "env.table"),
    ("field-of-field", "pub struct Env {\n    pub table: HashMap<String, u32>,\n}", "ctx: &Ctx", "", "ctx.env.table"),
    ("fn-result", "fn names_of(x: u32) -> HashSet<String> {\n    HashSet::new()\n}", "", "let s = names_of(1);", "s"),
    ("fn-result-direct", "fn names_of(x: u32) -> HashSet<String> {\n    HashSet::new()\n}", "", "", "names_of(1)"),
    ("fn-result-direct-nested-arg", "fn names_of(x: u32) -> HashSet<String> {\n    HashSet::new()\n}", "", "", "names_of(id(1))"),
    ("fn-result-in-tuple", "fn split(x: u32) -> (HashSet<String>, Vec<u32>) {\n    (HashSet::new(), vec![])\n}", "", "let (s, _rest) = split(1);", "s"),
    ("alias-ref", "", "", "let mut s0: HashSet<String> = HashSet::new();\n    let s = &s0;", "s"),
    ("alias-clone", "", "", "let mut s0: HashSet<String> = HashSet::new();\n    let s = s0.clone();", "s"),
    ("alias-field-clone", "struct Holder {\n    names: HashSet<String>,\n}", "&self", "let s = self.names.clone();", "s"),
    ("alias-mem-take", "struct Holder {\n    names: HashSet<String>,\n}", "&mut self", "let s = std::mem::take(&mut self.names);", "s"),
    ("vec-of-maps-pop", "", "", "let mut stack: Vec<HashMap<String, u32>> = Vec::new();", "stack.pop().unwrap_or_default()"),
    ("option-of-set", "", "o: Option<HashSet<String>>", "", "o.unwrap()"),
    ("im-hashmap", "", "", "let mut s: ImHashMap<String, u32> = ImHashMap::new();", "s"),
]
SELFTEST_ITERS = [
    ("for-by-value", "for x in {R} {\n        out.push(x);\n    }"),
    ("for-by-ref", "for x in &{R} {\n        out.push(x);\n    }"),
    ("for-pattern", "for (k, v) in {R} {\n        out.push((k, v));\n    }"),
    ("for-iter", "for x in {R}.iter() {\n        out.push(x);\n    }"),
    ("for-keys", "for x in {R}.keys() {\n        out.push(x);\n    }"),
    ("for-values", "for x in {R}.values() {\n        out.push(x);\n    }"),
    ("for-into-iter", "for x in {R}.into_iter() {\n        out.push(x);\n    }"),
    ("for-drain", "for x in {R}.drain() {\n        out.push(x);\n    }"),
    ("for-clone", "for x in {R}.clone() {\n        out.push(x);\n    }"),
    ("iter-map-collect", "let v: Vec<_> = {R}.iter().map(|x| x.clone()).collect();\n    out.extend(v);"),
    ("into-iter-collect", "let v: Vec<_> = {R}.into_iter().collect();\n    out.extend(v);"),
    ("chain-multiline", "let v: Vec<_> = {R}\n        .iter()\n        .cloned()\n        .collect();\n    out.extend(v);"),
    ("extend-by-value", "out.extend({R});"),
    ("extend-by-ref", "out.extend(&{R});"),
    ("extend-iter-cloned", "out.extend({R}.iter().cloned());"),
    ("vec-from-iter", "let v = Vec::from_iter({R});\n    out.extend(v);"),
    ("chain-adaptor", "for x in first.iter().chain(&{R}) {\n        out.push(x);\n    }"),
    ("for-each", "{R}.iter().for_each(|x| out.push(x));"),
    ("keys-join", "let text = {R}.keys().cloned().collect::<Vec<_>>().join(\", \");\n    out.push(text);"),
    ("into-keys", "for x in {R}.into_keys() {\n        out.push(x);\n    }"),
    ("difference", "for x in {R}.difference(&other) {\n        out.push(x);\n    }"),
    ("retain-with-effect", "{R}.retain(|x| {\n        out.push(x.clone());\n        true\n    });"),
]
# the same statements over ordered collections: the scan must stay silent
SELFTEST_CONTROLS = [
    "let mut s: IndexSet<tast::Ty> = IndexSet::new();",
    "let mut s: BTreeSet<String> = BTreeSet::new();",
    "let mut s: Vec<String> = Vec::new();",
    "let mut s: IndexMap<String, u32> = IndexMap::new();",
]


def selftest():
    import tempfile
    missed, false_pos, n = [], [], 0
    with tempfile.TemporaryDirectory(prefix="hashiter-selftest-") as d:
        def scan(src):
            rel = "case.rs"
            with open(os.path.join(d, rel), "w") as f:
                f.write(src)
            GLOBAL_FIELDS.clear()
            GLOBAL_FIELDS.update(m.group(1) for m in re.finditer(r"\bpub\s+([a-z_][a-z0-9_]*)\s*:\s*" + HASHTY, src))
            return scan_file(d, rel) or []
        for il, pre, params, body, recv in SELFTEST_INTROS:
            for tl, stmt in SELFTEST_ITERS:
                if "{R}.drain()" in stmt and "unwrap" in recv:
                    pass
                src = (pre + "\n\n" if pre else "") + "fn emit(" + params + ") {\n    let mut out = Vec::new();\n" + \
                      ("    " + body + "\n" if body else "") + "    " + stmt.replace("{R}", recv) + "\n    print(out);\n}\n"
                n += 1
                lo = src.index("fn emit(")
                first_line = src[:lo].count("\n") + 1
                if not any(s["fn"] == "emit" and s["line"] > first_line for s in scan(src)):
                    missed.append(il + " x " + tl)
        for body in SELFTEST_CONTROLS:
            for tl, stmt in SELFTEST_ITERS:
                src = "fn emit() {\n    let mut out = Vec::new();\n    " + body + "\n    " + stmt.replace("{R}", "s") + "\n    print(out);\n}\n"
                n += 1
                if scan(src):
                    false_pos.append(body.split(":")[1].split("=")[0].strip() + " x " + tl)
    GLOBAL_FIELDS.clear()
    return {"cases": n, "introductions": len(SELFTEST_INTROS), "iterations": len(SELFTEST_ITERS), "missed": missed, "false_positives": false_pos}


def main():
    if len(sys.argv) > 1 and sys.argv[1] == "--selftest":
        json.dump(selftest(), sys.stdout, indent=1)
        return
    repo = sys.argv[1] if len(sys.argv) > 1 else os.environ.get("GV_REPO", "/repo")
    FILES[:] = all_compiler_sources(repo)
    out = {"files": [], "sites": [], "missing_files": []}
    for rel in FILES:
        pth = os.path.join(repo, rel)
        if os.path.exists(pth):
            GLOBAL_FIELDS.update(m.group(1) for m in re.finditer(
                r"\bpub\s+([a-z_][a-z0-9_]*)\s*:\s*" + HASHTY, "\n".join(strip_line_comment(l) for l in open(pth, encoding="utf-8").read().split("\n"))))
    for rel in FILES:
        sites = scan_file(repo, rel)
        if sites is None:
            out["missing_files"].append(rel)
            continue
        out["files"].append(rel)
        for s in sites:
            s["class"], s["why"] = classify(s)
            del s["key"]
            out["sites"].append(s)
    out["counts"] = {}
    for s in out["sites"]:
        out["counts"][s["class"]] = out["counts"].get(s["class"], 0) + 1
    json.dump(out, sys.stdout, indent=1)


if __name__ == "__main__":
    main()
