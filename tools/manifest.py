#!/usr/bin/env python3
"""Writes /verif/MANIFEST.json from the table below (kept valid at all times)."""
import json, os
VERIF = os.path.dirname(os.path.dirname(os.path.abspath(__file__)))
ALL = [f"C{i:02d}" for i in range(1, 21)]

CLAIMS = {
 "C04": dict(
    category="other",
    text="Partial proof + fault enumeration. PROVED in Lean over a model of the parser primitives (cursor, fuel = Gen.parserFuel and the expect "
         "recovery set = Gen.recoveryTokens, both regenerated from parser.rs on every run; peek/nth/eof/at/eat/advance/expect/advance_with_error): "
         "peek_stuck_eof (after `fuel` looks without an advance every further look answers eof, reported once: stuck_reported_once), loop_terminates "
         "(a `while !at(k) && !eof` loop whose body advances or spends fuel leaves within (fuel+1)(n+1) iterations), dispatch_progress (an if/else-if chain "
         "of guards with an advancing default makes progress whatever its branches do), file_consumes_all (the top-level loop of file() terminates with "
         "every token consumed, for any item parsers built from the primitives), expect_keeps_recovery_token, error_range_is_token_range. The model is "
         "diffed against the real Parser object on random op sequences. Termination/validation of package graphs and artefacts is C16/C15 "
         "(Props/C15.lean validate_iff, corrupt_core_rejected, other_version_*_rejected). SEARCHED, not proved: every entry point (parse, compile incl. the "
         "CLI's error formatting and all stage pretty-printers, check_package, build_package, read_core, link_cores) on random texts, byte/token/"
         "same-class-token mutations of the corpus and of generated programs, type-directed generated programs (well-typed and with one ill-typed hole), "
         "22 nesting forms to depth 200, package directory layouts (missing/misnamed/cyclic/self-importing/invalid-UTF-8/multi-file), altered artefacts "
         "(random bytes/JSON, truncation, every kind of single-value change) — each case in a child process (8 MiB main-thread stack) under catch_unwind "
         "with a CPU-time watchdog; oracle: Ok or Err with at least one error diagnostic, every diagnostic range inside the text on char boundaries, no panic, "
         "no abort, no hang. One signature per panic site (file + function) x entry point x stream class.",
    design_ref="§5 C04, §C04 — as built",
    note="Trusted: Lean kernel; extract_parser_consts/extract_recovery (regex over parser.rs, expr.rs, file.rs); harness/src/c04.rs, c04gen.rs, crash.rs, "
         "jsonspan.rs. Crash-freedom is a search result over the explored inputs only; item parsers are covered by the StepOK closure argument, not modelled one "
         "by one; ranges of diagnostics of multi-file projects are not checked (no file attribution). Known findings: polymorphic recursion never returns; "
         "link_cores panics on a .core whose core_ir was edited (three sites).",
    technique="Lean 4 proof of the parser's termination logic + op-sequence correspondence + crash/hang search in child processes (fault enumeration)"),
 "C05": dict(
    category="proof",
    text="Lean theorems over a model of resolve_expr/resolve_pat: the state-threading resolver refines the environment-passing "
         "specification for every expression and state (resolve_refines_spec), never leaks a binding, innermost binder wins, and "
         "acceptance coincides with declarative well-scopedness (resolve_accepts_iff_scoped). The model is tied to name_resolution.rs "
         "by a correspondence run: the real AST of every corpus and generated program is resolved by the real resolver and by the model, "
         "and the use→binder maps must be identical; the acceptance oracle runs the whole pipeline.",
    design_ref="§5 C05",
    note="Trusted: Lean kernel (axioms printed in evidence), harness AST→scope-tree dump and HIR walk, the generator's coverage of scope shapes. "
         "The typer's own scoping (LocalTypeEnv) is exercised only through the acceptance oracle.",
    technique="Lean 4 proof (structural induction over the nested AST) + differential correspondence with the Rust resolver"),
 "C15": dict(
    category="proof",
    text="Lean theorems over a state machine of the artefact protocol (sources, .interface and .core files, ops edit/check/build/link/"
         "single-field corruption/foreign-version file) for an arbitrary injective hash: link_sound (for every history, a successful link "
         "implies every package was type-checked against exactly the interface view — transitively, deps are hashed — carried by the linked "
         "dependency), body_edit_hash_stable, iface_edit_hash_changes, dep_hash_propagates, stale_rejected, corrupt_core_rejected, "
         "corrupt_iface_rejected, other_version_*_rejected. Tied to artifact.rs/separate.rs by replaying generated histories on the real "
         "check_package/build_package/read_core/link_cores with JSON files and comparing every outcome (ok/err class, hash identity pattern).",
    design_ref="§5 C15",
    note="Trusted: Lean kernel; injectivity of SHA-256∘serde_json is a hypothesis; edit catalogue of 10 interface variants; textual JSON mutation; "
         "error-message classification in harness/src/c15.rs. Known finding: core_ir is covered by no digest.",
    technique="Lean 4 proof (invariant by induction over operation histories) + history-level differential correspondence"),
 "C20": dict(
    category="other",
    text="Partial proof + fault enumeration. PROVED in Lean over a model of line-index's LineIndex, the offset_at glue of query.rs (its three "
         "checks are regenerated from the Rust source into Gen/QueryGlue.lean on every run), rowan's token_at_offset on the leaf tokens and the "
         "completion-placeholder logic: offset_total (for every text and every (line, col) the offset handed to the queries is absent or lies in "
         "[0, len] on a char boundary), offset_complete (every in-text boundary position is accepted), token_at_in_range (the token selection never "
         "fails for an in-range offset and every selected token contains it), hover_no_bad_offset (rowan's assertion cannot fire), "
         "dot_prepare_safe / colon_prepare_safe (the `.`/`::` anchor and the focus offset lie inside the parsed text, insert_str is called on a "
         "char boundary); the unfixed code is kept as Glue.unchecked with the counter-example. The model is diffed against the line-index crate, "
         "rowan and the observable behaviour of the queries on every tie position. SEARCHED, not proved: that hover_type / dot_completions / "
         "colon_colon_completions and the wasm-app wrappers return normally (catch_unwind + 5 s watchdog) on every prefix (token boundaries and "
         "mid-token) and token-level mutation of corpus, seed, generated and token-soup programs x every (line, col) incl. positions outside the "
         "text; that hover at every TAST identifier of an accepted program equals the TAST type; that every offered completion, inserted, does not "
         "draw the diagnostic a non-existent name draws.",
    design_ref="§5 C20, §C20 — as built",
    note="Trusted: Lean kernel; extract_query_glue (regex over query.rs); harness/src/c20.rs + crash.rs; line-index and rowan behave as modelled "
         "(diffed, not proved); token tiling of the tree (C12) is a hypothesis. Crash-freedom of lowering/hir/typer on erroneous programs is a search "
         "result over the explored texts only. Known findings: hover on shorthand struct fields/binders and on dyn-coerced variables; `::` completions "
         "in an impl header.",
    technique="Lean 4 proof of the position logic + differential tie + crash/hang search (fault enumeration) + hover/completion differential against the compiler"),
}

NOT_YET = "not claimed yet: the model/theorems/tie for this property are still being built (see DESIGN.md §5)"

def main():
    checks = []
    for pid in ALL:
        if pid not in CLAIMS:
            continue
        c = CLAIMS[pid]
        checks.append({
            "property_id": pid,
            "quick_cmd": f"./check {pid} --tier quick",
            "thorough_cmd": f"./check {pid} --tier thorough",
            "evidence_file": f"/verif/evidence/{pid}.json",
            "replay_cmd_template": f"./check {pid} --replay {{path}}",
            "engine": "lean-proof+gv-correspondence",
            "level_claimed": {"category": c["category"], "text": c["text"], "design_ref": c["design_ref"]},
            "level_note": c["note"],
            "technique": c["technique"],
        })
    m = {
        "version": 1,
        "setup_cmd": "./check setup",
        "hooks": {
            "guard": "goml_verif",
            "enable": "none needed: every IR has public fields, the harness links the crates in /repo by path (no cfg-guarded source change exists)",
            "baseline_off_cmd": "cd /repo && cargo nextest run --workspace --no-fail-fast --offline --test-threads 8 || cargo test --workspace --no-fail-fast --offline",
            "source_commits": [],
            "add_only": True,
        },
        "engines": [
            {"name": "lean-proof+gv-correspondence", "path": "/verif/check",
             "serves_properties": sorted(CLAIMS),
             "kind_free_text": "Lean 4 theorems over executable models (lean/GomlVerif), regenerated tables (tools/extract.py), "
                               "Rust harness gv linked against /repo crates for the correspondence and the failing-input search"},
        ],
        "checks": checks,
        "not_applicable": [{"property_id": p, "reason": NOT_YET} for p in ALL if p not in CLAIMS],
        "notes": "See DESIGN.md. Fix commits in /repo are listed in known_findings.json (status fixed).",
    }
    json.dump(m, open(os.path.join(VERIF, "MANIFEST.json"), "w"), indent=1)

if __name__ == "__main__":
    main()
