#!/usr/bin/env python3
"""Writes /verif/MANIFEST.json from the table below (kept valid at all times)."""
import json, os
VERIF = os.path.dirname(os.path.dirname(os.path.abspath(__file__)))
ALL = [f"C{i:02d}" for i in range(1, 21)]

CLAIMS = {
 "C05": dict(
    category="proof",
    text="Lean theorems over a model of resolve_expr/resolve_pat: the state-threading resolver refines the environment-passing "
         "specification for every expression and state (resolve_refines_spec), never leaks a binding, innermost binder wins, and "
         "acceptance coincides with declarative well-scopedness (resolve_accepts_iff_scoped). The model is tied to name_resolution.rs "
         "by a correspondence run: the real AST of every corpus and generated program is resolved by the real resolver and by the model, "
         "and the use→binder maps must be identical; the acceptance oracle runs the whole pipeline.",
    design_ref="§5 C05",
    note="Trusted: Lean kernel (axioms printed in evidence), harness AST→scope-tree dump and HIR walk, the generator's coverage of scope shapes. "
         "The typer's own scoping (LocalTypeEnv) is exercised only through the acceptance oracle.",
    technique="Lean 4 proof (structural induction over the nested AST) + differential correspondence with the Rust resolver"),
 "C13": dict(
    category="proof",
    text="Lean theorems over a model of discover_packages / topo_sort_packages / package-id assignment / concatenation order in which every "
         "iteration over a set of package names is a parameter: plan_enum_invariant (for all package layouts and all pairs of enumerations of "
         "every import set and of the package map's keys: same discovered packages in the same order, same ids, same type-check order, same "
         "concatenation order, or the same error), discover_enum_invariant, topo_enum_invariant, ids_enum_invariant, link_enum_invariant, "
         "ids_injective, discover_mem_iff_reach, discover_fuel_suffices; for the code before the fix (HashSet) the counter-examples "
         "hash_discovery_order_varies / hash_reported_error_varies and hash_only_link_order_varies. imports_ordered re-checks on every run "
         "that PackageUnit.imports is an ordered set (table regenerated from packages.rs). Tie: the real discover_packages + "
         "topo_sort_packages (+ ids of a whole compile) on generated package directories and on raw graphs (all 3-package graphs) equal "
         "the model's output. Everything after discovery (typer, passes, printers, artefact hashes) is NOT modelled: it is covered by the "
         "differential oracle only — K-fold recompilation in one process (fresh hash keys, permuted directory creation) and in child "
         "processes, comparing Go text, every stage dump, diagnostics, interface/core bytes and hashes, link results byte for byte.",
    design_ref="§5 C13, §C13 — as built",
    note="Trusted: Lean kernel; tools/extract.py gen_package_ids; error-message classification and the project generator in harness/src/c13.rs; "
         "SipHash-128 digests for the cross-process comparison; String order in Rust = Lean. tools/hashiter.py (source scan of HashMap/HashSet "
         "iterations, heuristic) is auxiliary. Three defects found and fixed (known_findings.json).",
    technique="Lean 4 proof (sorted-set uniqueness, DFS invariants) + differential correspondence + K-fold / cross-process byte comparison"),
 "C16": dict(
    category="proof",
    text="Lean theorems over a model of the isolation and coherence decision logic: package_allowed_iff and visible_iff (a qualified path "
         "P::x resolves from a file of Q iff P = Q or P = Builtin or P is imported by that file, given the item exists), invisible_unresolved, "
         "not_imported_reported, use_accepted_visible (no reference form is accepted unless its target package is visible), "
         "accepted_package_isolated (impls name visible packages only and obey the orphan rule), topo_ok_iff_acyclic / topo_order_correct / "
         "topo_error_truthful (the DFS of topo_sort_packages succeeds iff the import graph is acyclic and complete; its order is a permutation "
         "with every import earlier; its cycle / missing errors are true), cycle_missing_reported (type checking is reached only if every "
         "reachable package directory exists and declares its own name and there is no cycle), coherent (accepted implies at most one impl per "
         "(trait, type)), order_independent (acceptance is invariant under any permutation of the type-check/merge order), enum_independent, "
         "merge_check_redundant (orphan rule + visibility + acyclicity already exclude cross-package duplicates). Tie: generated worlds "
         "(layouts with cycles, diamonds, missing, misdeclared, inconsistent directories x placements of 8 reference forms and of impls by "
         "trait owner x type owner, in files with and without imports) compiled by the real pipeline::compile; accept/reject, graph error and "
         "set of diagnostic classes must equal the model's; a declarative oracle (package-level, from the property text) demands rejection "
         "independently of the model; three permuted copies per world must agree.",
    design_ref="§5 C16, §C16 — as built",
    note="Trusted: Lean kernel; source templates, message classification in harness/src/c16.rs; the declarative oracle in tools/props/c16.py. "
         "The typer's inference and trait-method dispatch are not modelled: a use is a reference form to a standard item. No defect found.",
    technique="Lean 4 proof (decision logic, DFS correctness, fold invariants) + differential correspondence on generated package worlds"),
 "C15": dict(
    category="proof",
    text="Lean theorems over a state machine of the artefact protocol (sources, .interface and .core files, ops edit/check/build/link/"
         "single-field corruption/foreign-version file) for an arbitrary injective hash: link_sound (for every history, a successful link "
         "implies every package was type-checked against exactly the interface view — transitively, deps are hashed — carried by the linked "
         "dependency), body_edit_hash_stable, iface_edit_hash_changes, dep_hash_propagates, stale_rejected, corrupt_core_rejected, "
         "corrupt_iface_rejected, other_version_*_rejected. Tied to artifact.rs/separate.rs by replaying generated histories on the real "
         "check_package/build_package/read_core/link_cores with JSON files and comparing every outcome (ok/err class, hash identity pattern).",
    design_ref="§5 C15",
    note="Trusted: Lean kernel; injectivity of SHA-256∘serde_json is a hypothesis; edit catalogue of 10 interface variants; textual JSON mutation; "
         "error-message classification in harness/src/c15.rs. Known finding: core_ir is covered by no digest.",
    technique="Lean 4 proof (invariant by induction over operation histories) + history-level differential correspondence"),
}

NOT_YET = "not claimed yet: the model/theorems/tie for this property are still being built (see DESIGN.md §5)"

def main():
    checks = []
    for pid in ALL:
        if pid not in CLAIMS:
            continue
        c = CLAIMS[pid]
        checks.append({
            "property_id": pid,
            "quick_cmd": f"./check {pid} --tier quick",
            "thorough_cmd": f"./check {pid} --tier thorough",
            "evidence_file": f"/verif/evidence/{pid}.json",
            "replay_cmd_template": f"./check {pid} --replay {{path}}",
            "engine": "lean-proof+gv-correspondence",
            "level_claimed": {"category": c["category"], "text": c["text"], "design_ref": c["design_ref"]},
            "level_note": c["note"],
            "technique": c["technique"],
        })
    m = {
        "version": 1,
        "setup_cmd": "./check setup",
        "hooks": {
            "guard": "goml_verif",
            "enable": "none needed: every IR has public fields, the harness links the crates in /repo by path (no cfg-guarded source change exists)",
            "baseline_off_cmd": "cd /repo && cargo nextest run --workspace --no-fail-fast --offline --test-threads 8 || cargo test --workspace --no-fail-fast --offline",
            "source_commits": [],
            "add_only": True,
        },
        "engines": [
            {"name": "lean-proof+gv-correspondence", "path": "/verif/check",
             "serves_properties": sorted(CLAIMS),
             "kind_free_text": "Lean 4 theorems over executable models (lean/GomlVerif), regenerated tables (tools/extract.py), "
                               "Rust harness gv linked against /repo crates for the correspondence and the failing-input search"},
        ],
        "checks": checks,
        "not_applicable": [{"property_id": p, "reason": NOT_YET} for p in ALL if p not in CLAIMS],
        "notes": "See DESIGN.md. Fix commits in /repo are listed in known_findings.json (status fixed).",
    }
    json.dump(m, open(os.path.join(VERIF, "MANIFEST.json"), "w"), indent=1)

if __name__ == "__main__":
    main()
