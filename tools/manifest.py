#!/usr/bin/env python3
"""Writes /verif/MANIFEST.json from the table below (kept valid at all times)."""
import json, os
VERIF = os.path.dirname(os.path.dirname(os.path.abspath(__file__)))
ALL = [f"C{i:02d}" for i in range(1, 21)]

# commits in /repo whose message starts with `verif-hook:` (cfg-guarded verification hooks)
HOOK_COMMITS = ["12ac8be", "d787177", "746a7e5", "85f7995"]

CLAIMS = {
 "C04": dict(
    category="other",
    text="Partial proof + fault enumeration. PROVED in Lean over a model of the parser primitives (cursor, fuel = Gen.parserFuel and the expect "
         "recovery set = Gen.recoveryTokens, both regenerated from parser.rs on every run; peek/nth/eof/at/eat/advance/expect/advance_with_error): "
         "peek_stuck_eof (after `fuel` looks without an advance every further look answers eof, reported once: stuck_reported_once), loop_terminates "
         "(a `while !at(k) && !eof` loop whose body advances or spends fuel leaves within (fuel+1)(n+1) iterations), dispatch_progress (an if/else-if chain "
         "of guards with an advancing default makes progress whatever its branches do), file_consumes_all (the top-level loop of file() terminates with "
         "every token consumed, for any item parsers built from the primitives), expect_keeps_recovery_token, error_range_is_token_range, "
         "eof_unmoved_by_looks (Parser::eof answers the same after any number of looks) with eofViaPeek_out_of_fuel / eofViaPeek_with_fuel for the "
         "fuel-aware reading, and the CursorCovered invariant (the cursor never runs ahead of the Advance events) for every primitive, dispatch chain and loop. The model is "
         "diffed against the real Parser object on random op sequences. Termination/validation of package graphs and artefacts is C16/C15 "
         "(Props/C15.lean validate_iff, corrupt_core_rejected, other_version_*_rejected). SEARCHED, not proved: every entry point (parse, compile incl. the "
         "CLI's error formatting and all stage pretty-printers, check_package, build_package, read_core, link_cores) on random texts, byte/token/"
         "same-class-token mutations of the corpus and of generated programs, type-directed generated programs (well-typed and with one ill-typed hole), the infinite-type family `occurs` (every way two inference variables are unified first x every way to tie the knot), "
         "the call-arity catalogue (harness/src/arity.rs: every callee kind — each function, inherent method and trait method of the REAL initial environment read at run time, user/generic functions, constructors, closures, inherent/trait/dyn methods, extern functions, non-callees, and a builtin's name re-bound by a user fn / extern / local — x every argument count 0..declared+2 x three argument fillings x 16 call contexts, each text through parse, compile, check_package, build_package, link_cores and the three editor queries), "
         "22 nesting forms to depth 200, the fuel-limit catalogue of C12 (lookahead-only scans, frames that look while they unwind, consuming loops, followers of an out-of-fuel construct, sized from the fuel measured on the real parser; the texts that end at the parser), package directory layouts (missing/misnamed/cyclic/self-importing/invalid-UTF-8/multi-file), altered artefacts "
         "(random bytes/JSON, truncation, every kind of single-value change) — each case in a child process (8 MiB main-thread stack) under catch_unwind "
         "with a CPU-time watchdog; oracle: Ok or Err with at least one error diagnostic, every diagnostic range inside the text on char boundaries, no panic, "
         "no abort, no hang. One signature per panic site (file + function) x entry point x stream class.",
    design_ref="§5 C04, §C04 — as built",
    note="Trusted: Lean kernel; extract_parser_consts/extract_recovery (regex over parser.rs, expr.rs, file.rs); harness/src/c04.rs, c04gen.rs, arity.rs, crash.rs, "
         "jsonspan.rs. Crash-freedom is a search result over the explored inputs only; item parsers are covered by the StepOK closure argument, not modelled one "
         "by one; ranges of diagnostics of multi-file projects are not checked (no file attribution). Known findings: polymorphic recursion never returns; "
         "link_cores panics on a .core whose core_ir was edited (three sites).",
    technique="Lean 4 proof of the parser's termination logic + op-sequence correspondence + crash/hang search in child processes (fault enumeration)"),
 "C03": dict(
    category="proof",
    text="Lean theorems over the type-consistency judgement Wt.errs (Model/Wt.lean: every node's annotation agrees with its children, "
         "with the binder of a variable, with the schemes of the program's functions / builtins / externs (references are instances, "
         "matched by matchTy), with enum/struct definitions instantiated at the annotation's type arguments, with trait method "
         "signatures, operators and branch types) and over the model of mono.rs: subst_preserves_wt (for every expression, substitution "
         "and environment with closed definitions: a type-consistent expression stays type-consistent when a type substitution is applied "
         "to all its annotations and to its environment), getTy_subst, scheme_instance_stable, subst_closed (a closed covering "
         "substitution leaves no TParam), collapse_noTApp (phase 2 of mono returns application-free types for known generic heads, for "
         "every type constructor the Rust descends into), collapse_preserves. The property itself is decided on the implementation's own "
         "outputs: Wt.errs and the closedness predicates are evaluated on every REAL Core/Mono/Lift/ANF dump of every accepted corpus and "
         "generated program, each with the signature environment dumped from the real genv/monoenv/liftenv (annotations the dumps drop are "
         "cross-checked in the harness), and an ill-typed stream (one type error of 11 kinds injected at one forced position of a "
         "well-typed generated program, plus 32 hand-written programs around wildcard array lengths, fields, arities, arguments) must be "
         "rejected by the real compiler in the typer stage."
         " Argument count (Props/C03Arity.lean: wt_call_arg_count, wt_call_declared_count, wt_call_builtin_count, wt_dyncall_count, "
         "wt_traitcall_count, wt_constr_count — a dump that passes Wt has, at every call form, as many arguments as the callee annotation, "
         "the named declaration, the trait method signature or the constructor has parameters): a deterministic catalogue of every call "
         "form x declared count 0..3 x written count x position, each with an accepted twin, must be rejected by the typer; a model-free "
         "count oracle runs on every real stage dump. "
         "Argument type (Props/C03ArgTy.lean: compatTy_eq_of_noWildLen, wt_call_arg_types, wt_call_arg_type_at, wt_call_result_type, "
         "wt_dyncall_arg_types, wt_traitcall_arg_types, wt_constr_arg_types — in a dump that passes Wt every argument of every call has "
         "exactly the type the callee annotation / trait method signature / field list declares at its position, the only licence being "
         "the wildcard array length of array_get/array_set): a deterministic catalogue (harness/src/c03argty.rs) of every call form "
         "(incl. dot and path calls of methods that a generic inherent impl AND an impl of one instantiation define, and of methods only "
         "an instantiation impl defines) x declared count x every argument position whose type the call fixes x two wrong literals x "
         "position of the call, each with an accepted twin, must be rejected by the typer; an accepted variant must be flagged by Wt on "
         "its Core dump. "
         "Round 10 (Props/C03pres.lean) adds the PRESERVATION theorems for the pass models (tied to the Rust by C09/C08/C07/C06): "
         "anf_preserves_wt / anf_file_preserves_wt (ANF keeps Wt.errs = [] and the type: typed-context invariant over the direct-style "
         "reading of the CPS functions), anf_preserves_closed / anf_file_preserves_closed (closedFns), anf_preserves_scoped (scope "
         "closedness independently of types); lift_preserves_closed / lift_preserves_scoped (every emitted function, generated apply "
         "functions included, mentions only its parameters, globals and apply-function names; typing only for the closure-free part, "
         "lift_preserves_wt_partial, because of the known closure-struct-vs-function-type finding); mono_preserves_wt_partial / "
         "mono_phase1_preserves_wtProg_partial (instance bodies are substitution instances up to callee names; phase 2 only without type "
         "applications); matchc_preserves_closed / compileMatch_closed / compileLet_closed (every pattern variable used in an arm body is "
         "bound on every path of the decision tree). Every side condition is a decidable predicate (inAnfFragment, presHypArity, "
         "sigClosedB, Mono.presHypProg, Match.presHypRows/presHypNames) that gomlmodel c03pres / c03presmatch evaluates on the REAL "
         "Core/Mono/Lift/ANF dumps of every program and on every real match site, together with the conclusion on the model's output "
         "and the same judgement on the real output (evidence: pass_preservation)."
         " Round 11 brings the typer's CONSTRAINT GENERATION inside the model (Model/Infer.lean, on top of the models of unify and solve; "
         "Props/Infer.lean). FORMS MODELLED AND TIED (infer_expr / check_expr / infer_call_expr / check_pat / the scope stack of "
         "localenv.rs / typecheck_fn and typecheck_impl_block): literals, name references, tuples, closures (both modes), let, blocks, "
         "if, while, match, unary / binary operators, projections, field access, calls of locals / top-level monomorphic and generic "
         "functions / arbitrary callees, x.m(a) on inherent methods, T::m(x, a) incl. the instantiation-specific-impl branch, array "
         "literals, enum / struct constructor expressions, struct literals naming every field once; patterns: variable, wildcard, "
         "literal, typed-int, tuple, constructor, struct (every field once). NOT modelled: trait static calls Tr::m(..), method calls on "
         "a type-parameter receiver, dyn coercions, go, float-suffix literals, struct literals / patterns with unknown, duplicate or "
         "missing fields, qualified (other-package) names. THEOREMS: infer_total / inferFn_total and infer_store_invariant / "
         "inferFn_store_invariant for every modelled form (Vec indexing is Option, a Rust panic a stuck state); genFn_justified and "
         "infer_sound / infer_sound_nofield (typecheck_fn ends without a diagnostic => the elaborated body satisfies the declarative "
         "judgement Model/InferSpec.lean::Wt with types compared in the final store, modulo wildcard array lengths, for every binder "
         "table; no per-function certificate) for all modelled forms — constructor expressions, struct literals (one rel per field against the instantiated parameter of its "
         "declared position, via the reordering lemmas), array literals (rel item element-type per item; the length is not stated), "
         "constructor / struct / typed-int patterns included — EXCEPT the two method-call forms x.m(a) and T::m(x, a), "
         "which the explicit decidable hypothesis r.gen.outside = false excludes; field accesses are only judged by 'the "
         "StructFieldAccess was queued and solve ended clean'; infer_sound_partial (certificate version) is kept and the certificate is "
         "still evaluated on every tied function. TIE (gv infer through two add-only cfg(goml_verif) observer hooks, vs gomlmodel "
         "infer: queue before solve, key counts, diagnostic classes, recorded and final type of every node): 1 500 generated functions, "
         "the real corpus (74 programs, 304 functions incl. 72 impl methods: 279 inside the model, 275 compared, 25 outside) and the "
         "accepted twins of the C03 call-form catalogue (1 462 functions, 1 406 compared); 0 differences; the seeded change in "
         "infer_static_member_call_expr breaks this tie. ORACLE without the model: every accepted generated function's real final types "
         "satisfy Wt; every program with one injected error of 19 kinds is rejected by the typer.",
    design_ref="§5 C03, §C03 — as built, §C03 pass preservation — as built (round 10), Seeded C03-dot-method-call-arity-unchecked (round 10), "
               "§The typer's unifier — as built (round 10), §The typer's constraint generation — as built (round 11)",
    note="Proved: the theorems above about Wt / the mono model. Validated only: that the real stage dumps satisfy the judgement (oracle on "
         "every accepted program of the run, not a theorem about the typer), that ill-typed programs are rejected (sampled by injection). "
         "Not done: typing preservation for closures through lift (known finding), for mono phase 2 with type applications and for "
         "the match compiler; soundness of Sem w.r.t. wt; of the typer's inference (check.rs, 3 300 lines) only the fragment of "
         "Model/Infer.lean is modelled (constructors, struct literals, arrays, method / trait-bounded calls, dyn coercions are not), "
         "infer_sound takes the binder table (one LocalId per binder: name resolution, C05) as a hypothesis and does not state what a "
         "solved StructFieldAccess means; the post-pass check_operator_operand_classes (fix bf79d08) is outside the model; the model is "
         "tied by sampling generated bodies. The preservation theorems are about the pass MODELS under decidable hypotheses that are validated (not proved) to hold "
         "on the real programs of each run. Trusted: Lean kernel, our reading of type consistency in Wt.errs, harness dumps of the environments, the generator's "
         "own typing. Fixed: a value coerced to dyn Trait twice inside a call argument. Known findings: after lambda lifting closures are "
         "structs while the positions they flow through keep function types (Lift/ANF not type-consistent); phantom type parameters "
         "survive mono (shared with C07).",
    technique="Lean 4 proof (structural induction over the nested IR and over types) + executable judgement run on the real stage "
              "dumps + type-error injection against the real compiler"),
 "C05": dict(
    category="proof",
    text="Lean theorems over a model of resolve_expr/resolve_pat: the state-threading resolver refines the environment-passing "
         "specification for every expression and state (resolve_refines_spec), never leaks a binding, innermost binder wins, and "
         "acceptance coincides with declarative well-scopedness (resolve_accepts_iff_scoped). The model is tied to name_resolution.rs "
         "by a correspondence run: the real AST of every corpus and generated program is resolved by the real resolver and by the model, "
         "and the use→binder maps must be identical; the acceptance oracle runs the whole pipeline. "
         "Package-level names are part of the model (Globals: constructors per file, definitions, builtins, read off the declarations): a bare "
         "name is looked up among the local binders first (innermost_wins, local_iff, ctor_iff, unresolved_iff cover locals against "
         "constructors and functions), every binder occurrence has an id of its own (binder_ids_fresh: also two parameters / pattern "
         "variables of one name; duplicate_later_wins). resolve_refines_spec holds under conOk (AST lowering, which classifies bare names "
         "by spelling before resolution, called no locally bound name a constructor); conOk is evaluated on the real AST of every case, "
         "not proved of lower.rs. Generated programs bind names spelled like constructors of an enum of the same file / another file / an "
         "imported package, like functions and type names, in all four binder kinds, and repeat names inside one parameter list / pattern; "
         "the well-typed-by-construction stream must be accepted. Which bare names in PATTERN position are constructor patterns "
         "(variants / structs declared in the same file, whatever is in scope) is the language's documented rule, not decided by the property; "
         "since round 11 the check applies that rule itself (harness/src/patrule.rs, on the parser's node and the file's declarations) instead of "
         "taking lower.rs's word: the binders of the scope tree follow the rule, a pattern lowered against it is reported, and the catalogue "
         "harness/src/patpos.rs (constructor patterns under same-spelled parameters, closure parameters and shorthand fields, uses of the local in "
         "the arm bodies) must resolve to the innermost binder by the rule and be accepted.",
    design_ref="§5 C05, §CST→AST lowering — as built (round 11)",
    note="Round 11: the constructor-vs-local classification of ast/src/lower.rs (is_constructor_path and its binder stack) is now inside a "
         "Lean model (Model/Lower.lean) whose stack discipline is proved (Props/Lower.lean: lower_binder_stack_balanced, patVars_scope) and which "
         "./check C05 ties to the real lowering on the real rowan tree of every file of every generated and catalogue program; lower_ctor_iff (Props/Lower.lean) proves conOk* of every "
         "AST the lowering MODEL produces, for all trees; conOk* is still evaluated per case on the REAL AST as a cross-check, and the model-free "
         "lower-classification oracle does the same on every real lowered AST of the tie. "
         "Trusted: Lean kernel (axioms printed in evidence), harness AST→scope-tree dump and HIR walk, the generator's coverage of scope shapes. "
         "The typer's own scoping (LocalTypeEnv) is exercised only through the acceptance oracle.",
    technique="Lean 4 proof (structural induction over the nested AST) + differential correspondence with the Rust resolver"),
 "C07": dict(
    category="proof",
    text="Lean theorems over a model of mono.rs (Model/Mono.lean: subst_ty, unify, SubstKey, spec_name_for via the C19 name model, "
         "ensure_instance, mono_expr incl. ETraitCall resolution and generic functions used as values, the work-list loop, "
         "TypeMono::collapse_type_apps/ensure_instance, rewrite_expr_types). Proved for every program, substitution and state: "
         "unify_sound / unify_binds (a successful unify instantiates the template to the actual type, only extends the substitution and "
         "binds every parameter of the template; all type constructors the Rust handles), subst_closed, worklist_bijection / "
         "instances_unique (instance keys pairwise distinct, queued = keys, emitted ++ pending names = instance names in order at every "
         "iteration; on return one emitted function per (function, SubstKey) and nothing pending), monoExpr_is_pure (the emitted expression "
         "and the requests do not depend on the instance table) and instance_name_of_key, monoExpr_no_param / no_residue_partial (every "
         "emitted function is the specialisation of a program function at a substitution with parameter-free values, and is parameter-free "
         "whenever the substitution covers the function; call_covers: it does at a saturated call), mono_preserves_partial / "
         "instance_behaves_as_generic / mono_preserves_run_partial (under Sem, for every fuel, the specialised program computes exactly what "
         "the generic one computes - first-order fragment with direct calls of builtins, monomorphic and generic functions), "
         "traitcall_commutes / traitcall_resolution (the statically resolved trait_impl#Tr#Ty#m is the function dynamic dispatch on the "
         "runtime value selects), mono_terminates_partial / mono_terminates_of_closed_list (finite instance universe => the work list "
         "empties within |universe| iterations) and polyrec_no_finite_universe (no such universe exists for polymorphic recursion). "
         "Tied to the Rust by a correspondence run: the model on the REAL Core dump and genv type definitions must print the REAL Mono dump "
         "(functions in order, signatures, bodies, mono_enums/mono_structs/mono_funcs), panic exactly where the real pass panics and run out "
         "of fuel exactly where the real pass does not return (child process with watchdog). Independent oracles on the real outputs: real "
         "Core vs real Mono under Sem, closedness (no TParam/TApp/TVar/ETraitCall) of the real Mono/Lift/ANF dumps, pairwise distinct "
         "function names, no reference to an unspecialised generic function, no panic, termination watchdog; type instances: every "
         "construction, arm pattern and field read of a data type in the real Mono program carries the field types of the one definition "
         "monoenv holds under that name (distinct instantiations never share a name or a body), on all streams incl. a catalogue of "
         "instantiation pairs that differ at exactly one position of the argument's type tree (5 containers x 17 positions). "
         "One instance however it is asked for: key_order_irrelevant (SubstKey::new, as regenerated from mono.rs into Gen/MonoKey.lean, gives "
         "two permutations of one set of bindings the same key: nameLe is a total order, key is a sorted permutation) and "
         "same_instance_requested_once (a second ensure_instance with the bindings found in another order returns the same name and leaves "
         "instance table, queued set and work list unchanged); key_is_source_key / request_orders_are_source_orders pin the model's key and "
         "the unify order of its two request routes (call, function value) to the regenerated table. Validated, not proved: that the routes "
         "produce permutations of one binding set - by the catalogue `req:` (16 signature shapes with the type parameters in different "
         "first-occurrence orders in declaration, parameter list and result x 9 request routes: call, function value as argument / let / "
         "returned / array element / struct field, call or value inside another generic instance, call inside a closure; methods by path, "
         "dot, inside a generic) under the model-free oracle that no two functions of the real Mono program are the same instance of one "
         "Core function (whatever they are called) and that exactly the requested instances exist.",
    design_ref="§5 C07, §C07 — as built",
    note="Proved: the theorems above about the Lean model. _partial: no_residue assumes the instance substitution covers the function (false "
         "for a type parameter that occurs only in a body - known finding); mono_preserves is proved for the closure-free fragment with "
         "direct calls and for phase 1 (specialisation), the link from `mono`'s own output to its hypotheses is shown by evaluation on an "
         "excerpt, phase 2 (type instances) and closures/dyn/fn values are validated by the Sem oracle only; termination assumes a finite "
         "instance universe. Validated only: model = Rust (differential), instance-name injectivity (owned by C19). Trusted: Lean kernel, "
         "harness dumps (dump.rs, c07.rs), DecSyntax/EncSyntax, Sem for the behaviour oracle, the generator's coverage. "
         "Fixed: unify lacked Vec/dyn, collapse_type_apps skipped Vec, generic functions used as values were not specialised. "
         "Known findings: polymorphic recursion never terminates; a type parameter that occurs only in a function body survives mono.",
    technique="Lean 4 proof (structural induction over the nested IR, work-list invariants, fuel-indexed simulation under Sem) + "
              "differential correspondence with mono::mono + independent oracles on the real stage dumps"),
 "C09": dict(
    category="proof",
    text="Lean theorems over Model/Anf.lean, a model of anf.rs (anf / anf_imm / anf_list / compile_match_arms_to_anf / anf_file in the same "
         "continuation-passing shape, gensym counter threaded, including the && / || -> if lowering), stated against the shared big-step "
         "semantics Sem (world = stdout, Ref store, spawned activations, extern events; failure carries the world at the failure point). "
         "Proved for every expression of the Lift sub-language (all node kinds: variables, literals, unary/binary operators incl. the short-circuit "
         "lowering, calls, dyn calls, tuples/arrays/constructors incl. the nullary-constructor tag, let, if, match with default, while, go, field and "
         "tuple projections, to-dyn) that satisfies the decidable predicate InAnfFragment (no let-bound name of an operand is mentioned by another "
         "operand of the same node; no handed-out temporary t<m> occurs in the expression): eval_fuel_monotone; anf_preserves_partial (in the "
         "fuel-monotone form, both directions: whatever e evaluates to - value, stdout, store, spawned activations, failure and failure point - "
         "anf e evaluates to, and conversely); anf_file_preserves_partial and anf_run_preserves_partial (the same for the whole file produced by "
         "anf_file, i.e. Sem.run of the ANF file equals Sem.run of the Lift file under either go schedule); anf_preserves_outcome; anf_cont (for EVERY "
         "expression and continuation, anf e k is the chain of operand bindings around k's result) with anf_chain_fwd / anf_chain_bwd; anf_is_anf "
         "(every operand of the output is immediate, for every Lift expression); trace corollaries args_left_to_right_once, "
         "items_left_to_right_once, only_selected_branch, only_selected_arm, short_circuit, while_recheck, while_exit, go_once. Non-vacuity: "
         "decide-checked examples inside the fragment (effects in argument positions, a failing division between two prints, a short-circuited "
         "print, a whole file) and two counter-examples outside it (a source variable spelled t0, a shadowing let) where anf changes the result. "
         "Tie (L1, exact): on every run the model is applied to the REAL Lift dump of every function of the 82-program corpus, of G-prog programs "
         "and of the effect-placement programs and must equal, node for node including temporary names, numbering and type annotations, both "
         "the real anf_file output on a fresh Gensym and the pipeline's own ANF (counter offset recovered); the driver also evaluates InAnfFragment "
         "/ FileInAnfFragment on every real function/file (all inside so far) and isA on every real ANF function. Oracle independent of the model: "
         "an effect-placement generator (44 expression forms; a printing call, a print inside a branch block, a Ref update, a division by zero, an "
         "out-of-range array_get or a failing callee in every operand / argument / branch / arm / condition / loop-body / discarded-let / unused-let / "
         "go position; nested compositions) whose programs are compiled by the real pipeline; the real Core, Mono, Lift, ANF dumps run under Sem "
         "and the real Go AST under Go.Sem, under both go schedules, and must agree with each other (first divergent stage reported) and with "
         "the trace the generator itself computes for the source program (labels in evaluation order, final Ref value, failure point). "
         "Operands of every binary / logical form are also placed inside ten nearly-trivial shapes (field of a returned struct or of a struct "
         "literal, tuple projection, enum payload via match, double negation, nested && / ||, array_get / vec_get of a call, int32_to_string of a "
         "call, call of a closure variable) with the left operand of && / || deciding and not deciding. Besides the all-effectful plans, every "
         "form is run with ONE effectful hole (print, failing division; Ref update for the logical forms) among EFFECT-FREE neighbours of each "
         "syntactic class (variable, operator tree over variables such as the guard idiom `d != 0 && n / d > k`, field of a struct variable, "
         "unary on a variable, tuple projection), so that with a failing division the whole expression is call-free; plus nested compositions "
         "mixing effectful and effect-free holes. Translator: the guard of the "
         "EBinary{And|Or} arm and the immediates of anf_imm are regenerated from anf.rs (Gen/AnfGuards.lean); the model's trivialRhs reads the "
         "table and trivialRhs_eq_isAtom, on which the preservation proofs rest, re-checks it. Further forms destructure literal right-hand sides "
         "(tuple, nested tuple, struct literal, constructor application; let and match; every mix of named and `_` components, an effect under "
         "every component) at function level, in loop bodies, in arms and as last statement, and put `go` first / middle / last in while bodies, "
         "branches and arms inside them, nested loops, closure bodies and function bodies, followed by effects and the loop-counter update; a stage "
         "that runs out of (small) fuel while the reference stage finishes is reported as does-not-terminate. "
         "Named operands (harness/src/c09/fields.rs): struct literals written in EVERY permutation of 2, 3 and 4 fields (identity included; goml has "
         "no other named-operand form) in 13 places - let value, call argument between two effectful arguments, projected directly, generic "
         "struct, fields of four types, an initialiser that is itself a permuted literal, two literals in one expression, closure body run twice, "
         "loop body, selected / unselected arm, if condition, right-hand side of a destructuring let whose struct PATTERN is written in another "
         "permutation with `_` components, scrutinee of a match whose arms test and bind the fields in other permutations - under effect plans "
         "(print / print in a branch block / Ref update in every initialiser; each kind of failing operation in an initialiser among prints and "
         "among Ref updates; one initialiser that READS the Ref the others update), with the ten wrapper shapes around every initialiser and with "
         "random compound initialisers; expected trace = initialisers in WRITTEN order, field values by NAME (quick: all 32 orders for the plain "
         "literal, 14 per other place, holes / kinds rotating with the seed; thorough: the full product).",
    design_ref="§5 C09, §C09 — as built",
    note="Proved: the theorems above, about Model/Anf.lean and Sem. Caveat in the theorems: a source run that goes wrong (Fail.stuck = ill-typed IR) "
         "is only required to be matched by some outcome (ANF names all operands before the operation, so it notices an ill-typed operand later); "
         "well-typedness of the IR is C03's. Validated only: that the model equals anf.rs (exact tie on every real function, every run); the statement "
         "lowering of go/compile.rs outside InGoFragment (inside it: Model/GoCompile.lean tied exactly by `gv gocomp`, Props/GoCompile.lean "
         "compile_preserves / compile_order, see DESIGN 'Go back end (compile.rs) - as built') - covered by the stage-wise oracle on the Go stage. "
         "go/dce.rs has its own model (Model/Dce.lean) tied exactly to the real pass on every run (gv dce | gomlmodel dce) and Props/Dce.lean proves "
         "dce_preserves / dce_preserves_body / dce_preserves_syn: every definite Go.Sem run (normal end or panic) of a function body is reproduced by the DCE'd "
         "body with the same world, signal and result, under the decidable contract scopeErrs = [] /\\ shapeOK /\\ semOK (forward simulation; divergence of the "
         "input run and simultaneous DCE of callees are not covered); real goroutine interleavings (the semantics offers two schedules: run the activation at "
         "the spawn / never before the spawner ends). Two small refinements of Sem.lean were needed and agreed: a tag evaluates to the enum value "
         "of its type, and && / || with a non-boolean left operand get stuck before the right operand is evaluated. Found and fixed: dead-code "
         "elimination dropped a dead division by zero (known_findings.json, fix commit by worker dce). Trusted: Lean kernel, Sem/Go.Sem, dump "
         "serialisers, the generator's own trace computation.",
    technique="Lean 4 proof (CPS-to-direct-style decomposition anf_eq_dec; forward and backward simulation by mutual structural recursion over "
              "the nested expression type with fuel induction for while and for the whole-file lift) + exact differential correspondence with "
              "anf.rs + effect-placement generator with stage-wise evaluation under Sem / Go.Sem"),
 "C06": dict(
    category="proof",
    text="Lean theorems over a model of compile_match.rs (move_variable_patterns, branch_variable with its last-maximum rule, the row "
         "distribution of the unit/bool/int/string/enum/struct/tuple cases, gensym threading, compile_rows with fuel), quantified over ALL "
         "pattern matrices the compiler accepts (wildcards, variables, unit/bool/integer/string literals, tuples, structs, enum constructors incl. "
         "generic enums, any nesting, any number of rows and columns), all arm bodies (a type parameter) and all scrutinee values of the right "
         "shape: compileRows_correct (running the compiled tree reaches exactly the body of the first row all of whose patterns match, in the "
         "environment extended by generated temporaries and exactly that row's bindings; no row matches => the `missing` failure), "
         "no_other_arm_runs, no_match_fails, bindings_correct (every pattern variable is bound to the component matchPat assigns it; all other "
         "non-generated names unchanged), compileRows_correct_sem + toExpr_sem (the same statement for Sem.eval on the Core expression, with exact "
         "fuel accounting), scrutinee_once / scrutinee_var, int_nonexhaustive_rejected, compileRows_total (fuel above the pattern-size measure "
         "never runs out: every sub-matrix is strictly smaller), compileRows_counter, realGen_injective / realGen_ne (discharge the gensym "
         "hypotheses for the compiler's x{n}). Tied to the Rust on every run (L1): every match / destructuring let of the real typed AST of the "
         "corpus, of exhaustively enumerated / sampled small matrices and of generated programs with nested patterns is compiled by the REAL "
         "compile_match::compile_file (marker bodies) and the model's Core must equal the real Core up to bound names. Independent oracle: the "
         "real Core runs under Sem on every value of the scrutinee type up to depth 3 and must behave like firstMatch on the source patterns. "
         "The source patterns are the patterns AS WRITTEN; which bare identifier of a written pattern is a constructor is decided by the language's "
         "rule (variant of an enum / name of a struct declared in the same file, whatever local binders are in scope), applied by "
         "harness/src/patrule.rs to the parser's node, not by ast/src/lower.rs nor by the typed pattern; a pattern lowered against the rule is "
         "reported on its own. A deterministic catalogue (harness/src/patpos.rs: constructor spelling x binder kind putting that spelling in scope x "
         "type of the local x pattern position x arm body uses the local, 405 programs) must be accepted and print at every stage the output "
         "computed on the generator's own pattern terms (validated, not proved; lower.rs is not modelled here).",
    design_ref="§5 C06, 'C06 — as built'",
    note="Proved about the model; that the model equals compile_match.rs is validated differentially (L1), not proved. Hypotheses of the main "
         "theorem: gensym injective and fresh (proved for x{n} vs names not starting with x), values of the scrutinee's shape (`conf`, evaluated "
         "on every generated value), no pattern variable spelled like a column variable (`leavesOK`, decidable on the output, evaluated on every "
         "real tree). Float patterns and matches on Vec/Ref/dyn panic in the compiler (C04); `missing` at a non-unit Go type is C02's finding; the "
         "ANF/Go lowering of the tree is covered by C01's stage-wise oracle, not here. Trusted: Lean kernel, Sem as the meaning of Core, "
         "harness TAST walk and dumps, the driver's alpha-equivalence and value enumeration.",
    technique="Lean 4 proof (induction over fuel / rows / patterns) + differential correspondence with the real match compiler + first-match oracle on the real Core"),
 "C08": dict(
    category="proof",
    text="Lean theorems over a model of lift.rs (Model/Lift.lean: Scope layers, transform_expr with the pass state threaded in the Rust's "
         "traversal order, collect_captured, transform_closure with closure_env_<ctx>_<n> / <name>_<i> / inherent#S#S#apply naming, call "
         "rewriting, return-type and struct-field-type rewriting, lambda_lift) on the unified Syntax.Expr, against the shared semantics Sem: "
         "captures_exact / captures_mem / captures_nodup / captures_types (for EVERY body, parameter list and scope, collect_captured = free "
         "variables of the body minus the parameters, restricted to the scope, each once, in first-occurrence order, typed by the scope entry), "
         "lift_no_closures (for every input the output has no closure node), lift_preserves_partial (for every program whose lifting passes the "
         "decidable structural check DirectFlow, every source run under Sem that ends normally or panics is reproduced by the lifted program - "
         "same stdout, status, extern events - for every sufficiently large fuel; proved by a simulation over ALL of Sem (every node kind, all "
         "builtins, the Ref store, go, dyn dispatch) by induction on fuel in fuel-monotone form, closure values related to (environment struct, "
         "apply function) pairs), accepted_pair_preserves (the same for any pair the check accepts - it is run as a validator on the REAL Mono/Lift "
         "pair of every checked program), ref_sharing (related references are the same store location and the environment struct holds, for every "
         "captured variable bound to a Ref, that very location). Tie (L1, exact, names included): the model lifts the REAL Mono file in the REAL "
         "pre-lift environment and its functions, closure env structs, rewritten user structs and registered function types must equal the REAL "
         "LiftFile/GlobalLiftEnv node by node, for the corpus and for seeded closure-centred programs (every capture set, nesting up to 4, every "
         "flow of a function value; plus one program per syntactic context collect_captured has to walk x kind of outer variable x nesting 1..3 "
         "with the variable used nowhere else). The case list of collect_captured is regenerated from lift.rs on every run, checked against the "
         "LiftExpr declaration (every sub-expression field walked) and proved equal to the model's traversal (capture_walk_table). "
         "Oracle independent of the model: the REAL Lift file must be closed (no lifted function mentions a local it does not bind); the REAL Mono, Lift and ANF dumps under Sem and the REAL Go under Go.Sem must "
         "agree whenever Go.Check accepts the Go. Spelling twins (model-free, on the same real dumps): capture sites x value kind x binder x "
         "nesting with the captured variable spelled like a package-level name (variant upper/lower case with/without payload, struct, enum type, "
         "function, builtin; declared in the same or another file) must be accepted like, print at every stage what, and capture the same "
         "environment-struct fields (modulo the renaming) as the alpha-twin with a fresh name, and print what the program with the closure body "
         "evaluated in place prints.",
    design_ref="§5 C08, 'C08 — as built'",
    note="PARTIAL: DirectFlow is a hypothesis decided per program (by running the verified check on the model's output / the real output), not a "
         "theorem about a syntactic class; the evidence reports its ratio (all generated flows except two closures sharing one struct field). The "
         "preservation theorem is about Sem, where calling an environment struct value is defined for every flow; at the Go level closures passed "
         "as arguments, chosen by a branch, stored in arrays / Ref cells, curried, or returned before the maker is lifted give ill-typed Go - C02's "
         "known findings, counted here per flow and never compared behaviourally. Known finding of this check: two closures in the same struct "
         "field make the Lift IR call the wrong apply function. Proved about the model; model = lift.rs is validated differentially (L1), not "
         "proved. Trusted: Lean kernel, Sem/Go.Sem/Go.Check, harness dumps (the dump omits the type stored on if/let/while/go/literal nodes; the "
         "harness checks on every real tree that the model's recomputation agrees), tools/extract.py (naming constants and shape anchors of "
         "lift.rs regenerated on every run), the hypothesis that no local or user function is spelled like an apply function or env parameter (C19).",
    technique="Lean 4 proof (mutual structural induction; simulation by induction on fuel) + verified validator on real pass output + "
              "differential correspondence with lift.rs + stage-wise behavioural oracle"),
 "C10": dict(
    category="proof",
    text="Lean theorems over a model of the integer-literal pipeline and of the operator mapping, quantified over the tables regenerated from the "
         "sources on every run (Gen/OpMap, Gen/NumTypes, Gen/ToString). Proved for all digit strings, all widths, both signednesses, all operand "
         "values: lit_accept_iff (a literal is accepted iff its written value is in the type's range, on both Rust parser paths), lit_accept_value / "
         "lit_value (the value rebuilt by tast_builder, printed with to_string and read back by Go at the declared type - octal rule and "
         "representability included - is the written number), lit_reject_kind, opmap_faithful_bin / opmap_faithful_un (the Go operator selected by "
         "compile.rs and spelled by go_pprint.rs, on two's-complement words of any sized integer type, denotes the source operator's meaning on "
         "mathematical integers: wrap modulo 2^N, truncated division incl. minInt / -1, division-by-zero failure, signed/unsigned ordering), the "
         "spec-pinning lemmas wrap_mod, wrap_signed_range, div_trunc, div_min_neg_one, div_zero_panics, cmp_signed, cmp_unsigned, to_string_int "
         "(%d rendering reads back), and decide-theorems over the generated tables (num_types_consistent, lit_forms_consistent, pat_forms_consistent, "
         "opmap_total, opmap_symbols_agree, to_string_covers, to_string_verbs_ok). Tied to the Rust by the translator and by a correspondence run "
         "through the real pipeline: every 8-bit literal, all boundaries of the 8 integer types in every suffix form, random wide values, literal "
         "patterns, one program per operator x type x operand shape (real Core EPrim, real goast nodes and printed text must equal the model's "
         "prediction), plus Rust's own str::parse / to_string / wrapping_* against the model. An independent oracle evaluates every emitted operator "
         "on all 8-bit operand pairs (boundary+random pairs for wider types) against the source meaning, with Go's constant-expression rules.",
    design_ref="§5 C10",
    note="Go constant expressions over float literals (Model/GoConst.lean): float_const_faithful_if_exact_operands (abstract rounding), concrete "
         "counter-examples by decide, Gen/FloatPrint table theorem; the real printed Go of 2100+ literal-operand programs is evaluated with Go's constant "
         "rules against the source meaning. The KIND of a printed float literal is proved: float_const_integral_suffix_needed (for ALL whole operands a, b>0 the "
         "unsuffixed spelling `a / b` is Go's truncated integer quotient, the `.0`-suffixed one is exactly a/b), float_print_always_float_kind / float_print_whole_value "
         "(over the regenerated suffix: whatever go_float_literal prints is a floating-point token of the right value); Go's reading of a numeric token "
         "(Model/GoConst.litValL, decimal float grammar with exponents) is validated three-way against python and Rust's str::parse. Floats are otherwise validated, not proved: literal -> Core bits against an independent correctly-rounded decimal->binary conversion and Rust's parse, "
         "printed Go literal read back, operator symbol and operand Go types; float32 'rounds every operation to single precision' rests on Go. "
         "Trusted: Lean kernel; the reading of the Go specification in goBinInt/goConstBin/goIntToken; tools/extract.py regexes; harness program templates. "
         "Known findings: operators on all-literal operands become Go constant expressions (integers: overflow / zero divisor rejected by the Go compiler; "
         "floats: value differs from the IEEE operation at float64 and on float32 ties, -0.0 is +0, constant zero divisor / overflow rejected).",
    technique="Lean 4 proof (induction over digit strings; BitVec/Int lemmas; decide over regenerated tables) + translator + differential correspondence + spec oracle"),
 "C11": dict(
    category="proof",
    text="Lean theorems over a model of the Pratt loop (expr_bp/atom/arg_list, with the binding-power tables regenerated from "
         "crates/parser/src/expr.rs on every run) and of lower_expr_with_args/apply_trailing_args: bp_levels (the table realises the "
         "documented order prefix > * / > + - > comparisons > equality > && > ||, every infix l < r; it also states that the call power is "
         "below the prefix power, which is why lowering has to re-associate); parse_print_cst (for EVERY tree the model parser turns the "
         "minimal-parentheses printing into the CST described by the tree's spine); parse_print (for every well-formed tree over "
         "identifiers and integer literals with all 12 binary operators, both prefix operators, calls of any arity, field access and tuple "
         "projection: parse (printMin t) = t; well-formed only excludes calling an integer literal directly, witnessed by "
         "literal_receiver_rejected); left_assoc; string literals: escape_accepted / decode_escape (every string has a spelling the lexer "
         "regex accepts and lowering decodes it back), decode_plain, escape_table, multiline_fidelity; escapes_table_spec, surrogate_combine "
         "(the surrogate-pair arithmetic, translated from the Rust expression on every run, equals 0x10000+(hi-0xD800)*0x400+(lo-0xDC00) "
         "for all 1024x1024 pairs), decode_surrogate_pair, decode_bmp_escape, decode_lone_surrogate, decode_escapeAllU (round trip with the "
         "all-\\u encoder). Tied to the Rust by a differential "
         "run: ~29 000 trees (all operator pairs and triples exhaustively, random larger trees, trees with redundant parentheses) are printed "
         "by the model, rendered with canonical blanks / random trivia and comments / glued, parsed by the real parse_ast_file, and the dumped "
         "ast::Expr must equal both the original tree (property oracle) and the model's parse (tie); likewise ~27 500 postfix-chain trees (22 forms of "
         "primary expression x chains of length 1..3 over call / field / projection x prefix operators x 4 contexts, and prefix x every chain of "
         "length 4 and 5), each also compared with its fully parenthesised spelling; ~3 000 of the printed texts are moreover read in 41 host "
         "positions (every place of the grammar where an expression is read: let, statement, block tail, if / while / match parts, closure "
         "bodies, array / tuple / struct-literal elements, arguments, parentheses, go, method and generic function bodies) and must be read "
         "there exactly as in the `let` initialiser (model-free oracle host-position); ~390 literal spellings plus ~11 800 \\u-escape spellings over the whole code space (every plane, all surrogates, lone "
         "surrogates; in literals, patterns, multi-line strings; oracle computed in Python from the source text) (every integer "
         "suffix, floats, every escape, multi-line strings) are compiled by the whole pipeline and the EPrim reaching Core must be the denoted "
         "value (oracle) and equal the model's decoding (tie). "
         "Round 11 — CST→AST lowering inside the model: Model/Lower.lean mirrors crates/ast/src/lower.rs function by function (accessors of "
         "cst/nodes.rs; expressions incl. trailing_args re-attachment, every literal kind, calls, fields, projections, paths, struct literals, "
         "closures, blocks/let, if/while/match/go; patterns; types; items fn/enum/struct/trait/impl/extern incl. attributes; the binder stack "
         "locals with is_constructor / is_constructor_path; the diagnostics). Theorems (Props/Lower.lean): lower_binder_stack_balanced (for every "
         "tree, fuel and state the stack after lowering an expression / branch / field / argument / arm / block equals the stack before), "
         "lower_ctor_iff / lower_ctor_iff_block / lower_ctor_iff_arm (for every tree, fuel and state the lowered AST is classified exactly as the "
         "declarative scope rules of Model/Resolve.lean say — every EConstr [x] has x in the file's constructor set and no enclosing local binder x, "
         "every classified EPath [x] is not such a name — hence Resolve.conOkExpr holds of it: the hypothesis of resolve_refines_spec is a theorem), "
         "lower_stmt_only_pushes, lower_pat_ty_leave_stack, lower_no_panic (no tree reaches the one panic site of lower.rs, function by function), lower_fuel_suffices (the model's fuel 2*size+10 is never exhausted), lower_total (for every tree: within fuel, no panic, stack empty, an ast::File iff no diagnostic), lower_ctor_iff_file (every function and method body of a lowered file satisfies conOk under its parameters), "
         "isCtorPath_bare_iff / isCtorPath_qualified (the classification test), patVars_scope (bind_pat pushes "
         "exactly Resolve.patNames). Tie: the REAL rowan tree of ~52 000 texts per quick run (all corpus and witness files, the name catalogue, "
         "every operator tree of this check, 700 generated whole programs with items / patterns / types / blocks / closures / struct literals, "
         "2 500 token-level mutants = error-recovered trees, LF/CRLF pairs) is lowered by the model and must equal the real ast::File dump or "
         "the real diagnostic list; model-free oracles: no panic in ast::lower, LF and CRLF spellings of a program lower to the same tree, every bare name of every real "
         "lowered AST is classified as the lexical scope rules say (lower-classification), and a prefix operator followed by every chain of 3-4 calls / "
         "fields / projections is read as the operator applied to the whole chain (432 programs, expected tree built independently).",
    design_ref="§5 C11, §C11 — as built, §CST→AST lowering — as built (round 11)",
    note="Proved: the theorems above about the Lean model. Validated only (differential, not proved): that the model equals the Rust parser "
         "and lowering; integer/float literal values (no Lean theorem: the value is computed by Rust's str::parse, the harness compares with "
         "an independently computed expectation); items, patterns and types are not in the OPERATOR-tree generator (they are in the round-11 "
         "program generator of the lowering tie); lower_parse_print_ops / lower_parse_print_ops_tree: on the image of Pratt.Cst restricted to operator trees (identifiers, integers, "
         "parentheses, both prefix and all twelve binary operators; no call, no `.`) Model/Lower.lean computes what Pratt.lower computes, so parse_print "
         "holds for the lowering model that is tied to ast::lower, under the decidable side condition fits (no variable spelled like a constructor). "
         "lower_parse_print / lower_parse_print_tree (fifth pass): the same for the WHOLE image of Pratt.Cst — calls (identifier callee, postfix callee, "
         "handed down), field access and tuple projection (applied or handed down to the operand of a prefix operator), any pending list — under the "
         "decidable side condition okC (no identifier in expression position spelled like a constructor of the file; tuple indices fit usize, beyond "
         "which the real code reports a diagnostic): Pratt.lower c tr = some a implies Model/Lower.lean lowers embed c to toExpr a, so parse_print holds "
         "for the lowering model tied to ast::lower. TIED, not proved: that the real rowan tree of these texts is embed of the Pratt CST (up to "
         "punctuation tokens no accessor reads). NOT proved: constructors / literals of every kind / multi-segment paths / closures / blocks as atoms "
         "of lower_parse_print, "
         "lower_parse_print beyond operator trees, "
         "sufficiency of the model's fuel, source ranges of lowering diagnostics (not modelled). "
         "Trusted: Lean kernel, tools/extract.py regexes, harness AST dump and trivia insertion, the real lexer (C12) for token boundaries.",
    technique="Lean 4 proof (structural induction over trees via a spine decomposition of the Pratt CST) + translator for the "
              "binding-power table + differential correspondence with parse_ast_file and the whole pipeline"),
 "C12": dict(
    category="proof",
    text="Lean theorems over (i) a model of the lexer whose rule tables (65 #[token] literals, 17 #[regex] patterns as a regex AST, "
         "priorities, callback, trivia kinds, both kind enums) are regenerated from lexer/src/lib.rs and parser/src/syntax.rs on every run, "
         "and (ii) a model of Parser::build_tree with rowan's GreenNodeBuilder. Proved for every rule table, every text and every positive "
         "error-token length: the token loop ends without stall or invalid bump and the token texts concatenate to the input with no empty "
         "token (lex_tiles), byte ranges are contiguous and end on char boundaries (lex_ranges_tile), the byte count the hand-written "
         "multi-line-string scanner bumps by is a char boundary of the UTF-8 text (multiline_boundaries, scanner modelled over bytes), every "
         "non-error token is a longest match of the declarative regex/literal semantics and error tokens occur only where no rule matches or a "
         "callback rejected (valid_tokens_maximal, error_only_without_match; derivative matcher proved correct). Proved for every event list that "
         "is balanced and has one Advance per non-trivia token: build_tree succeeds and the leaves of the tree are exactly the tokens in order "
         "with nothing dropped (buildTree_lossless); for every event list all Error-event ranges lie in the text (diag_ranges_in_text); node "
         "ranges lie in the text (node_ranges_in_text); TokenKind and MySyntaxKind discriminants agree on all lexer kinds (kinds_aligned, decided "
         "on the regenerated tables). Composition parse_lossless_partial. Tied to the Rust by (a) lexAll fed the real error lengths must equal "
         "lexer::lex on every input and (b) buildTree fed the REAL event list and tokens must equal the real green tree and diagnostic ranges; "
         "every real event list is checked to satisfy the theorem's hypotheses. Direct oracles on the implementation for every input: tiling, "
         "char boundaries, tree text == input, leaves == tokens with same-named kinds, node/diagnostic/lowering-diagnostic ranges in the text, "
         "line:column rendering exact, parse twice identical, no panic, no hang, deep nesting in child processes. "
         "Grammar side of the Advance hypothesis, on the model of the parser's fuel machine (Model/ParserFuel.lean, fuel constant regenerated): "
         "the top-level loop of file() started in ANY well-formed state — e.g. out of fuel after a lookahead-only scan of any length — ends at "
         "the real end of input with at least one Advance per token, for arbitrary item parsers built from the primitives "
         "(file_advances_cover_tokens, file_after_lookahead); with a fuel-aware eof() the same hypotheses do not suffice "
         "(fuel_aware_eof_drops_tokens). A deterministic fuel-limit catalogue sized from the fuel measured on the real parser (lookahead-only "
         "scans, stacked frames that look while unwinding, consuming loops, followers of an out-of-fuel construct; size windows around F/4, F/3, "
         "F/2, F) runs under all direct oracles; the list of functions that look ahead by a computed distance is regenerated from the source "
         "and must be covered by the catalogue.",
    design_ref="§5 C12, §C12 — as built, §Seeded C12-eof-fuel-impl-path-lookahead",
    note="Only validated, not proved: that logos' generated automaton is 'longest match, then priority' (L1 tie on exhaustive strings <=3 over 34 symbols, "
         "<=4..8 over smaller alphabets, a special-character alphabet (U+FEFF, Cf/Zs/Zl, NUL, NEL, CR, FF) and 27 special prefixes/suffixes/infixes on short texts and corpus files, corpus, mutants, random); that file::file's event list is balanced with enough Advances (checked on every real "
         "event list, owned by C04; the item parsers of file.rs are not modelled one by one — StepOK/KeepsCovered are proved for the primitives, dispatch chains and loops); that Parser::eof is the fuel-independent Input::eof (asserted textually by the translator, observed by C04's fuel-ops tie); determinism (parse twice). Trusted: Lean kernel, extract.py's regex-subset parser, harness serialisation, "
         "rowan/logos as observed. Known finding: stack overflow (abort, no tree) at ~10^5 nested '(' or '!'.",
    technique="Lean 4 proof (induction over token loop / event list, Brzozowski-derivative correctness, UTF-8 arithmetic) + table translator + "
              "differential correspondence with lexer::lex and Parser::build_tree + exhaustive small-string search"),
 "C13": dict(
    category="proof",
    text="Lean theorems over a model of discover_packages / topo_sort_packages / package-id assignment / concatenation order in which every "
         "iteration over a set of package names is a parameter: plan_enum_invariant (for all package layouts and all pairs of enumerations of "
         "every import set and of the package map's keys: same discovered packages in the same order, same ids, same type-check order, same "
         "concatenation order, or the same error), discover_enum_invariant, topo_enum_invariant, ids_enum_invariant, link_enum_invariant, "
         "ids_injective, discover_mem_iff_reach, discover_fuel_suffices; for the code before the fix (HashSet) the counter-examples "
         "hash_discovery_order_varies / hash_reported_error_varies and hash_only_link_order_varies. imports_ordered re-checks on every run "
         "that PackageUnit.imports is an ordered set (table regenerated from packages.rs). Tie: the real discover_packages + "
         "topo_sort_packages (+ ids of a whole compile) on generated package directories and on raw graphs (all 3-package graphs) equal "
         "the model's output. Everything after discovery (typer, passes, printers, artefact hashes) is NOT modelled: it is covered by the "
         "differential oracle only — K-fold recompilation in one process (fresh hash keys, permuted directory creation) and in child "
         "processes, comparing Go text, every stage dump, diagnostics, interface/core bytes and hashes, link results byte for byte. "
         "The recompiled projects include an emission-collections family: well-typed programs with k = 2..6 members of each collection the "
         "middle/back end prints (Go packages of extern functions / extern types, tuple / array / Ref / Vec types, structs, enums, dyn "
         "traits x implementors, generic and bounded instances, closures, go statements, externs spread over k packages through build + link) "
         "and its complement, a definition-only family: k = 2..6 tuple / array / Ref (and nested, dyn, function, Vec) types that no function "
         "signature or body mentions and that reach the output only through emitted type definitions (payloads of variants nobody builds "
         "or matches, fields of unbuilt structs, instances of generic enums / structs of which only the payload-free variant is built, "
         "definitions spread over k enums / structs / files / packages), each recompiled 40x in process and in 23 processes. "
         "An iteration over a std HashMap/HashSet anywhere in the non-test sources that tools/hashiter.py has not classified (or has "
         "classified as observable) fails the check as a broken tie naming the site; the scanner's own coverage (29 ways of introducing a "
         "hash-typed binding x 22 ways of iterating it, plus ordered-collection controls) is re-tested on every run.",
    design_ref="§5 C13, §C13 — as built",
    note="Trusted: Lean kernel; tools/extract.py gen_package_ids; error-message classification and the project generator in harness/src/c13.rs; "
         "SipHash-128 digests for the cross-process comparison; String order in Rust = Lean. tools/hashiter.py (source scan of HashMap/HashSet "
         "iterations, regex heuristic with a hand-written classification table, not part of the proof) can only raise a broken tie, never "
         "vouch for determinism. Three defects found and fixed (known_findings.json).",
    technique="Lean 4 proof (sorted-set uniqueness, DFS invariants) + differential correspondence + K-fold / cross-process byte comparison"),
 "C16": dict(
    category="proof",
    text="Lean theorems over a model of the isolation and coherence decision logic: package_allowed_iff and visible_iff (a qualified path "
         "P::x resolves from a file of Q iff P = Q or P = Builtin or P is imported by that file, given the item exists), invisible_unresolved, "
         "not_imported_reported, use_accepted_visible (no reference form is accepted unless its target package is visible), "
         "accepted_package_isolated (impls name visible packages only and obey the orphan rule), topo_ok_iff_acyclic / topo_order_correct / "
         "topo_error_truthful (the DFS of topo_sort_packages succeeds iff the import graph is acyclic and complete; its order is a permutation "
         "with every import earlier; its cycle / missing errors are true), cycle_missing_reported (type checking is reached only if every "
         "reachable package directory exists and declares its own name and there is no cycle), coherent (accepted implies at most one impl per "
         "(trait, type)), order_independent (acceptance is invariant under any permutation of the type-check/merge order), enum_independent, "
         "merge_check_redundant (orphan rule + visibility + acyclicity already exclude cross-package duplicates). Tie: generated worlds "
         "(layouts with cycles, diamonds, missing, misdeclared, inconsistent directories x placements of 12 reference forms (incl. three-segment paths P::S::f / P::T::m and values of un-imported types) and of trait and inherent impls by "
         "trait owner x target type (named, primitive, Vec/Ref/tuple/array/function/dyn/generic instance over own, foreign or primitive "
         "arguments), in the root package and in libraries, in files with and without imports) compiled by the real pipeline::compile; accept/reject, graph error and "
         "set of diagnostic classes must equal the model's; a declarative oracle (package-level, from the property text) demands rejection "
         "independently of the model; three permuted copies per world must agree. Every world and every project of the C14 visibility catalogues "
         "also goes through the other type-check entry points (typecheck_with_packages; typecheck_with_packages_and_results, the editor's own copy of the "
         "dependency-environment loop, entered through main.gom and through a second file of Main): the verdict class must equal compile's (model-free "
         "oracle entry-points-agree), the must-reject oracle and the model tie are applied to each entry point.",
    design_ref="§5 C16, §C16 — as built",
    note="Trusted: Lean kernel; source templates, message classification in harness/src/c16.rs; the declarative oracle in tools/props/c16.py. "
         "The typer's inference and trait-method dispatch are not modelled: a use is a reference form to a standard item. No defect found.",
    technique="Lean 4 proof (decision logic, DFS correctness, fold invariants) + differential correspondence on generated package worlds"),
 "C15": dict(
    category="proof",
    text="Lean theorems over a state machine of the artefact protocol (sources, .interface and .core files, ops edit/check/build/link/"
         "single-field corruption/foreign-version file) for an arbitrary injective hash: link_sound (for every history, a successful link "
         "implies every package was type-checked against exactly the interface view — transitively, deps are hashed — carried by the linked "
         "dependency), body_edit_hash_stable, iface_edit_hash_changes, dep_hash_propagates, stale_rejected, corrupt_core_rejected, "
         "corrupt_iface_rejected, other_version_*_rejected; linkCores_ok_iff (link_cores accepts iff the inputs are non-empty, duplicate-free, contain Main "
         "and EVERY recorded dependency hash of EVERY input equals the linked dependency's interface hash - independent of visiting order, package names and "
         "position in the graph) with stale_edge_rejected / missing_edge_rejected. Tied to artifact.rs/separate.rs by replaying generated histories on the real "
         "check_package/build_package/read_core/link_cores with JSON files and comparing every outcome (ok/err class, hash identity pattern); histories = random ones over 7 fixed graphs, deterministic catalogues "
         "(corruptions, foreign versions, every subset of dependents rebuilt, forged dependency tables, order-only edits) and an edge sweep over EVERY labelled "
         "import graph on Main + 3 packages plus seeded samples on Main + 4 / 5 (each import edge in turn the only stale one). Two model-free oracles on the "
         "implementation's own outputs: altered-artifact (a hand-altered file takes part in a successful operation) and pinned-hash (a link succeeds although an "
         "import edge pins another hash than its dependency's core exports, judged from the hash identities the builds print).",
    design_ref="§5 C15",
    note="Trusted: Lean kernel; injectivity of SHA-256∘serde_json is a hypothesis; edit catalogue of 10 interface variants; textual JSON mutation; "
         "error-message classification in harness/src/c15.rs. Known finding: core_ir is covered by no digest.",
    technique="Lean 4 proof (invariant by induction over operation histories) + history-level differential correspondence"),
 "C20": dict(
    category="other",
    text="Partial proof + fault enumeration. PROVED in Lean over a model of line-index's LineIndex, the offset_at glue of query.rs (its three "
         "checks are regenerated from the Rust source into Gen/QueryGlue.lean on every run), rowan's token_at_offset on the leaf tokens and the "
         "completion-placeholder logic: offset_total (for every text and every (line, col) the offset handed to the queries is absent or lies in "
         "[0, len] on a char boundary), offset_complete (every in-text boundary position is accepted), token_at_in_range (the token selection never "
         "fails for an in-range offset and every selected token contains it), hover_no_bad_offset (rowan's assertion cannot fire), "
         "dot_prepare_safe / colon_prepare_safe (the `.`/`::` anchor and the focus offset lie inside the parsed text, insert_str is called on a "
         "char boundary); the unfixed code is kept as Glue.unchecked with the counter-example. The model is diffed against the line-index crate, "
         "rowan and the observable behaviour of the queries on every tie position. SEARCHED, not proved: that hover_type / dot_completions / "
         "colon_colon_completions and the wasm-app wrappers return normally (catch_unwind + 5 s watchdog) on every prefix (token boundaries and "
         "mid-token) and token-level mutation of corpus, seed, generated and token-soup programs x every (line, col) incl. positions outside the "
         "text; that hover at every TAST identifier of an accepted program equals the TAST type (all pipeline corpus programs in the quick tier, plus the `late:*` family: every type constructor around an element whose type is resolved late, and the `latefix:*` family: the same values completed by an annotation, a later argument, the declared result type, a later branch or match arm); that hover on the initialiser EXPRESSION of every `let` of an accepted program and on its argument / item / operand sub-expressions (calls, literals, struct / tuple / array literals, closures, match, operators) equals the type of the corresponding TAST expression; that no hover answer at any swept position of an accepted program contains an inference variable; that a text and its line-ending twins (CRLF, mixed, blank lines, lone CR, no final newline, tabs, multi-byte text before the cursor) get identical hover/dot/`::` answers at corresponding positions; that every offered completion, inserted, does not "
         "draw the diagnostic a non-existent name draws; that on multi-package projects (the first 300 worlds of the C16 generator and the C14 visibility "
         "catalogues) the editor's type check gives the verdict class of the compiler's own (entry-points-agree), hover equals the type the COMPILE path "
         "(typecheck_with_packages) assigned, `P::` offers nothing for a package the file does not import and every item offered after `P::` / `x.` type-checks "
         "on the compile path when inserted.",
    design_ref="§5 C20, §C20 — as built",
    note="Trusted: Lean kernel; extract_query_glue (regex over query.rs); harness/src/c20.rs + crash.rs; line-index and rowan behave as modelled "
         "(diffed, not proved); token tiling of the tree (C12) is a hypothesis. Crash-freedom of lowering/hir/typer on erroneous programs is a search "
         "result over the explored texts only. Known findings: hover on shorthand struct fields/binders and on dyn-coerced variables; `::` completions "
         "in an impl header; dot completions offer the fields of a type whose package the user package does not import; hover finds no type for some "
         "variables in a second file of a multi-file package Main.",
    technique="Lean 4 proof of the position logic + differential tie + crash/hang search (fault enumeration) + hover/completion differential against the compiler"),
 "C17": dict(
    category="proof",
    text="Lean theorems over a transcription of the four places that name a method's function (definition site and static site in "
         "compile_match.rs, ETraitCall resolution in mono.rs, vtable wrapper in go/compile.rs, the latter after mono's type-collapsing phase): "
         "call_forms_static_bounded_agree (for every trait, method, substitution and receiver type the bounded-generic form names the function "
         "the impl was compiled to, as the static form does), call_forms_agree (additionally the dyn wrapper calls exactly the Go function of "
         "that definition, for every receiver type without generic applications), inherent_forms_agree, inherent_generic_lookup, "
         "dyn_requires_impl / no_impl_no_dyn (decision model of coerce_to_expected_dyn), hasVisible_iff. Tied to the Rust by generated programs "
         "(receiver types x trait/method names, every applicable call form in one program): callee names read off the real Core/Mono/Lift dumps "
         "and the real goast must equal the model's at every site, and - model-free - the static call, the instance of the bounded function and "
         "the vtable wrapper must reach one declared Go function; ill-formed programs (dyn without impl, unsatisfied bound, duplicate or "
         "ambiguous methods) must be rejected. Widened: receivers that are trait objects of ANOTHER trait (impl B for dyn A, UFCS B::m(d)), "
         "and an effect family - every call form of an effectful method in 21 value/statement/loop/branch/match positions - whose real Go ASTs "
         "are run under Go.Sem: all forms of one (receiver, position) must print and return the same. Overlapping inherent impls "
         "(impl[T] C[T] next to impl C[int32]): inherent_overlap_forms_agree, path_form_without_overlap, exact_instantiation_wins over a model of "
         "lookup_inherent_method and both call forms, and - over a package-indexed model (Model/MethodEnv.lean: resolve_type_name, "
         "env_for_receiver_ty) - inherent_forms_agree_across_packages (whichever package is being checked, the path form finds what the dot "
         "form finds when both are put to the environment of the package that defines the type; hypothesis discharged for qualified names and "
         "for names written unqualified in a library by resolve_env_idem_of_fixed / resolve_env_idem_unqualified_in_library), "
         "path_form_guard_on_other_table. Multi-package projects under the same Go.Sem oracle: the overlap family in three placements and the "
         "effect family with trait, receiver types, impl and call sites distributed over Main / Lib / Root in 9 placements (every combination the "
         "orphan rule and the import graph allow; a rotating share on quick, all on thorough); negative programs also as a library and with "
         "their declarations in another package than their functions.",
    design_ref="§5 C17, 'C17 — as built', 'C17 — widened', 'C17 — overlapping inherent impls', 'C17 — the same-effect families inside library packages', 'Seeded C17-path-form-current-package-env (round 11)'",
    note="'Same code runs' is identity of the Go function reached; equality of results additionally needs C07/C09 (no Go toolchain to execute). "
         "For receivers that are instances of generic types the dyn form is proved NOT to agree (dyn_generic_instance_mismatch) - known finding; "
         "trait bounds are not checked at calls of generic functions - known finding. The name-level tie is single-package; multi-package projects "
         "are judged by behaviour (Go.Sem) and the package-indexed lookup model is tied by source anchors, not by a per-call differential run; "
         "the trait side of 'which package's environment' is exercised by the placements but not modelled. The 29 source anchors of the "
         "naming sites and environment choices are re-checked textually on every run (Gen/Dispatch.lean). Trusted: Lean kernel, harness dump scraping, goscope.rs.",
    technique="Lean 4 proof (unfolding + structural induction on types) + differential correspondence at every naming site of the real pipeline"),
 "C19": dict(
    category="proof",
    text="Lean theorems over a transcription of every name encoder (go_ident, encode_ty, go_type_name_for, ty_compact, trait/inherent method "
         "names, spec_name_for, instance type names, closure env/apply names, variant struct names, dyn/ref/array helper names, local renaming, "
         "gensym) with keyword list, escape cases, primitive spellings, runtime helper names and gensym prefixes regenerated from the Rust text: "
         "goIdent_legal (for EVERY string the result is a legal Go identifier and no keyword; keywords_cover_spec: the table contains the 25 "
         "keywords of the Go spec), goIdent_injective_on_source_idents, local_vs_temp_disjoint / goLocal_ne_goTemp (a renamed local hint__idx is "
         "never a temporary prefix++counter, for every gensym prefix in the crate), local_rename_injective, gensym_injective, "
         "traitImplFnName_injective_partial (#-free components), goTypeNameFor_injective_partial (prims, structs with _-free names, tuples, Vec, "
         "arrays at any nesting), variant_eq_type_only_if_qualified_partial. The full-strength injectivity statements are FALSE and refuted by "
         "examples, each replayed on the real encoders and the real pipeline. Tie: exhaustive model-vs-real diff of the seven public encoders "
         "(all identifiers up to length 4 over {a _ 0 T # / : é}, types exhaustively to depth 2 and sampled to depth 4) plus whole-program name "
         "predictions; oracle on the real goast::File: one declaration per name and scope, legal identifiers, every reference resolves to the "
         "entity meant, resolution shape invariant under renaming a user identifier, over templates x an adversarial dictionary. "
         "INSTANCE NAMES (Props/C19Compact.lean, harness/src/c19univ.rs): tyCompact_injective / tyCompact_injective_of_kinds / "
         "monoTypeName_injective_one_param - ty_compact, the spelling instance names and spec names are built from (instance_names_use_tyCompact, "
         "re-read from mono.rs every run), is injective on EVERY monomorphic type (primitives, structs, enums, dyn, tuples, generic applications, "
         "arrays, Vec, Ref, function types, any nesting) up to struct-vs-enum kind, for nominal names that are identifiers other than a "
         "primitive's spelling / Vec / Ref / dyn-prefixed - each side condition shown necessary by a collision. Validated, not proved: an "
         "enumerated universe of types (every constructor one level over 11 atoms, two levels over 2 atoms, user structs named like the REAL "
         "encoders' spellings of those types) instantiates one generic enum, struct and function per type through the real pipeline; the real "
         "instance tables must hold as many names as types (Mono and Go level), every shared name becomes a two-type program judged by the pair "
         "hunt's oracles, and the model predicts every real name.",
    design_ref="§5 C19, 'C19 — as built', 'C19 — instance-name collision hunt', 'Seeded C19-instance-args-spelled-by-encode-ty (round 11)'",
    note="PARTIAL: uniqueness is proved only on the stated fragments; 26 collision classes reachable from source programs are known findings "
         "(user names equal to runtime helpers / main0 / fmt / temporaries / predeclared len, any; `_` and `#` merged by go_ident; tuple-nesting "
         "and lower-casing in encode_ty/ref_struct_name; instance names vs user names; `dyn Tr` spelled `dynTr` by ty_compact, like a user struct of that name). Behavioural rename-invariance is checked syntactically "
         "(alpha-shape of the Go file), not under a Go semantics. Trusted: Lean kernel, extract.py, goscope.rs scope rules, generator templates.",
    technique="Lean 4 proof (all strings / all types) + translator-regenerated tables + exhaustive encoder diff + scope oracle on real output"),
 "C01": dict(
    category="translation_validation",
    text="Per-program translation validation against formal semantics written in Lean: Sem (source-level meaning of the unified IR: "
         "call-by-value, left-to-right, first-match, short-circuit, wrapping fixed-width integers, Ref store, traces) and Go.Sem (the "
         "emitted Go subset). For every accepted corpus and generated program the REAL Core, Mono, Lift and ANF dumps are run under Sem "
         "and the REAL Go AST under Go.Sem; stdout and the way the run ends must agree stage by stage (the first divergent stage names "
         "the guilty pass) and with the outputs recorded from real Go. The pass-level preservation theorems live under C06-C10; this check "
         "is the glue between them and the code. "
         "The reference is SOURCE-LEVEL: the REAL ast::File(s) of the project (repository's own parser + lowering, every package) are run "
         "under SrcSem (Model/SrcSem.lean), a dynamically typed big-step interpreter of the surface language that consults nothing the "
         "front end computes (lexical scoping as C05 states it, binding by FIELD NAME for struct patterns/literals, first match, runtime "
         "dispatch of the three method-call forms, unsuffixed literals = int32); a src/core divergence names the front end (derive, name "
         "resolution, typer elaboration, match compilation). Where a value does not reveal what types decide SrcSem answers "
         "`unsupported:<why>` and the check falls back to Core for that program (evidence: counts and reasons). Proved about SrcSem "
         "(Props/C01src.lean): struct patterns and struct literals are invariant under permutation of their written fields, initialisers "
         "run in written order, environments are only passed down, lookup = the C05 resolver model's lookup, a bare name with a local binder in scope means that binder whatever it is spelled like — also in call position and whichever way lower.rs tagged the node (src_local_binder_wins, src_local_callee_wins). NAME CATALOGUE (harness/src/namecat.rs; validated, not proved): a local binder of every kind spelled like a variant / struct / enum type / function / builtin, in 22 use positions, declared in the same or another file: each program must print its by-construction output, be accepted and print at every stage like its twin with a fresh binder name, and be lowered like the twin up to the name. "
         "PIPELINE COMPOSITION (Props/C01pipe.lean): the per-pass theorems are chained into one theorem about the composite middle-end model "
         "pipeline = anf . lift . mono (Model/Pipeline.lean; pass order re-extracted from pipeline.rs every run): pipeline_preserves - for every "
         "Core program in the decidable InPipeFragment, every definite Sem run of main (normal end or panic, with stdout and extern events) is "
         "reproduced by the ANF program, for every sufficiently large fuel, under either go schedule. Links: a NEW lock-step simulation of mono "
         "under the full Sem (closures, renamed instances and type instances; Lemmas/PipeMonoSim.lean), lift_preserves_partial (C08), "
         "anf_run_preserves_partial (C09). pipeline_preserves_partial: the same from the Mono program on, for programs with ETraitCall (whose "
         "Core->Mono link needs type soundness). END TO END (second stage): core_to_emitted_go_preserves - for every Core program in the decidable "
         "InEmitFragment, every definite Sem run of main is the Go.Sem outcome of the EMITTED Go file (whole model pipeline: mono, lift, anf, "
         "re-annotation, go_file incl. eliminate_dead_vars), with NO hypothesis besides the fragment: the go/compile.rs link is "
         "GoCompile.compile_preserves_run, the DCE link is the new Dce.dce_file_preserves (file-level lifting of dce_preserves via a Go.Sem file "
         "congruence and a lock-step pruning theorem; Go.Sem.zero made total, callG given Go's arity rule). core_to_go_preserves is the same "
         "up to the file before DCE. The back-end conjunct admits trait objects (compile_preserves_run_dyn under the decidable implsOK); the DCE "
         "contract admits dead field projections of non-pointer static type (inertSyn_sound_field; Go.Sem: nil value of a non-pointer type is stuck). "
         "FOURTH STAGE (round 11): the back-end conjunct also admits trait objects whose receiver type is a function type or an admitted enum "
         "(GoFrag.dynRecvTy; for an enum the wrapper's assertion self.(E) goes through Go's method-set rule, so the file-level check gained "
         "dynRecvTableOK: every variant struct has the enum interface's method set, DynLink.recv); compile_preserves_run(_dyn) and "
         "core_to_emitted_go_preserves are re-proved with unchanged statements. "
         "On the real programs (quick): InEmitFragment 340 of 603 (329 before this stage; InPipeFragment 382), every compiled file inside the DCE contract; "
         "for every program still outside the evidence names the ROOT reason (GoFrag.rootReason: the first failing clause of the deepest callee on the "
         "chain of callee-outside-fragment): inexact Go constant expressions 36, closure conversions that go/compile.rs emits ill-typed "
         "(closure environment for a function type 29, function type for a closure environment 28, in arms / arrays / branches / results 13), floats 24, "
         "extern calls 7, `missing` 3, string_get / json_escape_string 2 - the first two groups are outside BY DESIGN (Go.Sem is not Go there / the Go does not compile). Tie: the composite model on the "
         "REAL Core dump equals the REAL Mono, Lift and ANF dumps for every corpus and generated program; the whole-pipeline model on the REAL Core dump + REAL GlobalGoEnv dump equals the REAL emitted "
         "Go AST; the evidence reports how many real programs lie inside each fragment (InPipeFragment, InLiftAnfFragment, InE2EFragment, "
         "InEmitFragment) and why the others do not.",
    design_ref="§5 C01",
    note="Trusted: Sem/Go.Sem as definitions (Go.Sem reproduces all recorded corpus outputs), harness IR serialisers, the generator's coverage. "
         "The Go back end has its own model (Model/GoCompile.lean, exact tie `gv gocomp` on every run) and, for the stage-(a) fragment, a proved "
         "forward simulation Sem -> Go.Sem (Props/GoCompile.lean compile_preserves / compile_preserves_run); outside the fragment it stays validated here. "
         "Not covered: go_pprint.rs (AST is dumped before printing), real goroutine interleavings, Go's float formatting. "
         "SrcSem starts at ast::File: CST->AST lowering itself (operator association, literal decoding) is C11/C12's; SrcSem is validated "
         "like Go.Sem, by reproducing every recorded corpus output it can decide.",
    technique="translation validation with Lean-defined executable semantics (Sem vs Go.Sem) on real stage dumps"),
 "C02": dict(
    category="translation_validation",
    text="Go.Check, a Lean checker for the rules go build/go vet enforce on the emitted subset (declared once and before use, typed "
         "assignment/call/return/composite literal, interface satisfaction, unused locals and imports, terminating statements, legal "
         "identifiers), applied to the REAL Go AST of every accepted corpus and generated program. Constants must be REPRESENTABLE (round 11, "
         "Go spec Constants/Representability; error class constant-overflows with the value and the type): every integer literal at its own "
         "sized integer type, and - Scope.constFits - every integer constant expression the back end can emit (literal, unary minus on one) at "
         "the TARGET type wherever assignability is demanded (typed var declaration, assignment, call argument, return value, struct-literal "
         "field, array/slice element, append element) and as a constant operand against a typed non-constant operand; constant ARITHMETIC "
         "(127 + 1) is not evaluated here (C10's known findings); witness corpus/C02/int-literal-boundaries.gom puts uint64 literals at and "
         "above 2^63 and the negative extremes in each of these positions (no C02 stream had one before: the seeded change "
         "C10-u64-literal-above-i64-max-printed-negative, `var max uint64 = -1`, was a broken tie only and is now a VIOLATION). "
         "goIdent_legal (C19) proves identifier "
         "legality for all strings. The printed text is tied to that AST on every run (go_pprint output parsed back by goparse.rs with "
         "Go's automatic-semicolon, precedence and composite-literal rules; oracle go-printer). The printer itself (pprint/go_pprint.rs) has a Lean "
         "model (Model/GoPrint.lean: the `pretty` Doc algebra it uses with pretty 0.12's renderer, escape_go_string, go_float_literal, go_type_name/doc, every "
         "Expr/Stmt/Item form) tied BYTE FOR BYTE to the real `to_pretty` at widths 40/80/120 on every top-level item of every corpus/generated "
         "program and of synthetic Go ASTs (gv gopp | gomlmodel gopp, oracle rows go-printer-model), and theorems in Props/GoPrint.lean: "
         "render_width_irrelevant (the printer builds no group/line, so the text is the same at every width), print_expr_roundtrip + "
         "parse_deterministic (the printer writes NO parentheses; on paren-free trees of the operator subset the printed tokens parse back, by Go's "
         "5 binary levels/unary/postfix grammar, to exactly the tree - the tie checks every compiler-produced item is paren-free), glue_free_expr "
         "(no two tokens written without a space read as another Go token), "
         "escape_go_string_decodes (Go's interpreted-string lexing of the escaped text gives back every string), no_break_inserts_semicolon "
         "(line breaks inside an expression follow only `{` or `,`). Character level (round 11): Model/GoLex.lean is Go's lexer on characters "
         "(identifiers, keywords, decimal/float literals, interpreted strings, the 47 operators with maximal munch, blanks, newlines, automatic "
         "semicolons); Props/GoLex.lean PROVES lex_layout (on any layout of the printer's pieces - one blank per space, any indentation after a "
         "newline - whose tokens are each read back by lexTok, lex returns exactly the pieces' tokens, kinds and texts, with Go's automatic "
         "semicolons), lexTok_word/lexTok_ident/lexTok_kw (a well-formed identifier or keyword followed by a non-letter/digit is read back as "
         "that token), goIdent_wf (EVERY output of go_ident is such a well-formed identifier token, from goIdent_legal), lexTok_int (decimal digits "
         "followed by a non-digit/letter/_/. are one num token), lexTok_op (each of Go's 47 operators followed by a character that does not extend it "
         "to a longer operator or comment opener is that sym token: maximal munch, generic lemma take_not_longer + decide on the table) and "
         "lex_render_tokens_partial / lex_render_tokens_spaced_partial (layouts of identifiers, keywords, decimal integers and operators each "
         "followed by a blank/newline/end lex to exactly their tokens with the semicolons). NOT proved at "
         "character level: floats, strings, and tokens written with nothing between them (glueFree => the per-kind boundaries; the pairwise "
         "`glued` misses `.``.``.` = `...`, stated as an example); these are "
         "VALIDATED on every run: the real text of every item is lexed by Model/GoLex.lean and must give the token list of the model's Doc.pieces "
         "with the semicolons (expectToks), and harness/src/goparse.rs's tokenizer (second, independent lexer) must give the same kinds and texts "
         "(golex tie inside gv gopp). Dead-code elimination (go/dce.rs) has a "
         "Lean model tied exactly to the real pass (gv dce | gomlmodel dce) and theorems in Props/Dce.lean: dce_no_unused (every kept "
         "local and type-switch binding is read), dce_decl_before_use, prune_imports_exact, prune_funcs_closed. "
         "Name-test catalogue (gv c02names; validation, not proof): the string literals the middle/back end compares names with are re-read from the Rust on every run "
         "(extract.c02_name_tests) and every kind of user-named item (35 kinds incl. methods called statically / through a bound / through dyn, generic items, closure parameters, pattern binders, "
         "functions as values, library-package items and package names) is compiled under "
         "every such name as-is, as prefix/suffix/infix and in the other case; Go.Check and the printer tie judge the real Go of each accepted program (oracle name-test). "
         "Go-word dictionary of the same catalogue: every item kind is also compiled under every Go keyword, predeclared identifier and name the emitted runtime declares or relies on "
         "(extract.c02_go_words: the specification's lists + helper / import / fixed parameter and field names re-read from go/runtime.rs and go/compile.rs); the printed text is parsed back by "
         "goparse.rs, which refuses Go's 25 keywords in every identifier position (its own negative controls run with the catalogue), and Go.Check judges the AST. "
         "Known findings: closures in func-typed positions, nested type switch on one scrutinee, dyn-annotated struct literal; from the name-test catalogue: user functions "
         "named like a builtin, types/packages whose name contains `TParam`, a library function called `main`, items called `main`/`main0`, functions / types / library variants named like a runtime helper function. "
         "Definition-only type catalogue (gv c02deftypes; validation, not proof): every kind of type whose Go spelling names a declaration (tuple, array, Ref, Vec, "
         "dyn Trait implemented / unimplemented / with a rich signature, function type, generic enum / struct instance, extern type; each nested in 11 wrappers: 146 kinds) "
         "x every place a type can be written without a function mentioning it (18 places: payload of an unbuilt variant, field of an unbuilt struct, struct behind an unused "
         "variant, generic instance argument / annotation / field, trait method parameter / result, extern signature, second file, other package; plus a control place), "
         "one program per cell, judged by Go.Check (every named type declared once), the printer parse-back and no-panic (oracle definition-only-type). It found and led to "
         "fixes 8ba5942 (dyn Trait only in a type definition) and c0cf55d (runtime type only as a Vec element); known from it: the types of a never-implemented trait's method "
         "signatures named by its vtable struct are not declared, a generic instance in a trait method signature panics the back end when the trait is used as dyn, an "
         "extern type of a library package gets a qualified Go name.",
    design_ref="§5 C02; DCE (C02/C09) — as built; C02 definition-only type catalogue (round 11)",
    note="Trusted: Go.Check as our reading of the Go spec (accepts the 73 corpus programs real Go accepted, rejects 058 as real Go did); "
         "goast dump; goparse.rs as our reading of Go's lexical grammar (the Lean side models Go's expression grammar, string-literal lexing and semicolon rule on the printer's own token pieces, not a character-level Go lexer: adjacency of tokens is proved for the expression subset (glue_free_expr) and checked per item by glueFree); compile.rs is modelled (Model/GoCompile.lean, exact tie `gv gocomp`): the scope rules of its "
         "output are proved for InGoFragment functions (Props/GoCompile.lean compile_wellformed + Props/Dce.lean), typing and everything outside the fragment are validated per program.",
    technique="translation validation with a Lean-defined Go type/scope checker on the real Go AST, printer round trip, and Lean theorems about the DCE pass"),
 "C14": dict(
    category="proof",
    text="Lean theorems over Sem (Model/Sem.lean) and Model/Alpha.lean about exactly the two things in which the Core handed to mono/lift/anf/go differs "
         "between the two ways of compiling a project - the order in which the packages' functions are concatenated (discovery order vs topological order) "
         "and the numbering of compile_match's temporaries (one Gensym for the program vs one per package): run_perm_invariant (if function names are pairwise "
         "distinct, Sem.run is invariant under every permutation of the function list), run_alpha_invariant (renaming every function by its own renaming "
         "does not change Sem.run - stdout, way of ending, extern events are EQUAL - when the renaming is injective on the function's names, every moved variable is "
         "let-bound inside the body and no closure parameter is moved; closures included: closure expressions, closure values in environments, in the Ref store, in "
         "data, returned / passed / called through locals, spawned by go, behind dyn - the proof relates the values of the two runs by Alpha.VRel (closures whose "
         "bodies are renamings of each other under name-wise renamed, value-wise related environments; stores related cell by cell) and shows every builtin maps "
         "related arguments to related results; run_alpha_invariant_partial, the round-1 closure-free statement, is now a corollary), separate_eq_whole_validated "
         "(a decidable validator on two Core programs - every function has a renamed twin, closure expressions included, no extra function, dyn tables answer "
         "alike, hypotheses of the renaming theorem - is sound: it accepts only programs that run alike), check_build_same_interface (in the C15 model of the "
         "artefact protocol check and build accept together, write the same .interface, and the interface inside the .core is that file), and about the link "
         "environment both ways build with PackageExports::apply_to (Model/Exports.lean): link_env_order_irrelevant (if every export map has distinct keys and no two "
         "packages export the same key of the same map differently, the environments built over any two orders of the packages answer every lookup in every map "
         "alike - the two ways use two different topological sorts), indexmap_rebuilt_from_entries (inserting the entries of a map with distinct keys into an empty "
         "map yields the map: what reading a map back from the interface JSON does), apply_to_copies_every_map (decide on tables regenerated from env.rs / "
         "artifact.rs: every IndexMap of TypeEnv/TraitEnv/ValueEnv has its loop in apply_to, those structs have no other field, PackageExports has the parts of "
         "GlobalTypeEnv and to_genv clones each into the part of the same name). Tie: on every run the "
         "validator is evaluated by gomlmodel on the real linked Core and the real whole-program Core of every accepted project with the per-function shift of "
         "temporaries as renaming (quick tier 151/151, thorough tier 464/464 pairs inside the verified fragment, 31 resp. 186 of them with closure expressions; a pair "
         "the validator rejects but the unverified structural comparison accepts is counted by reason in the evidence - none today); Exports.applyAll is evaluated on "
         "the real exports (re-read from JSON) of every accepted project and compared lookup by lookup with the real GlobalTypeEnv of the separate link and of the "
         "whole-program compile, together with both hypotheses of link_env_order_irrelevant. "
         "Model-free oracle on the real pipeline: the 8 corpus package projects and generated multi-package projects (all DAG shapes on <= 5 packages, cross-package "
         "traits, impls, generic functions with bounds, generic enums/structs instantiated across packages, closures, multi-file packages, ill-typed variants) are "
         "compiled whole and separately in every topological order (sampled in the quick tier) with .interface/.core written to and re-read from JSON files; "
         "acceptance must agree (same stage when rejected), Go.Sem of both Go ASTs and Sem of both Cores must give the same outcome, Go.Check must agree, and "
         "check_package / build_package must serialise the same interface bytes; the exports of every built package read back from the .interface JSON text must "
         "be what was written (Debug rendering of exports / to_genv() / hir_interface, compact JSON, recomputed hash). The same oracle also judges a deterministic catalogue of type-directed lookups "
         "(field, inherent method, Trait::m(v), bound, dyn coercion, match; through call results, lets and closure parameters) on a value whose type lives in a package "
         "the user package imports / imports only in a sibling file / reaches only through an import of an import, with the impl beside the type or beside the trait, "
         "user = Main or a library (258 projects), and a sample of the C16 package worlds (60 quick / 600 thorough).",
    design_ref="§5 C14, 'C14 — as built', 'C14 closures and link environment — as built (round 10)'",
    note="The JSON codec of the exports' entries themselves (serde derive on EnumDef, Ty, FnScheme, ...) is validated by the round-trip oracle, not modelled; keys and "
         "values of the link environment are compared by their Debug rendering (values by a 64-bit hash of it). The stages after Core (mono, lift, anf, go) are "
         "the same code in both ways and are covered by the behavioural oracle only. Trusted: Lean kernel; Sem/Go.Sem/Go.Check; the Core/Go dumps and their decoders; "
         "the project generator. No defect found on the tree.",
    technique="Lean 4 proof (induction on fuel over the mutual interpreter; verified validator) + differential correspondence of the real Core + behavioural oracle over all topological orders"),
 "C18": dict(
    category="proof",
    text="Lean theorems over Model/Derive.lean, which holds what the generated to_json / to_string return as functions on values (toJson, toString, "
         "following build_struct_json_body / build_enum_json_body / build_struct_body / build_enum_body / concat_parts), the runtime's json_escape_string "
         "(jsonQuote), Go's %q (goQuote, parametric in unicode.IsPrint), an RFC 8259 reader (jsonRead), the declarative structure (encode / decode), and the "
         "generated method bodies as an AST with the derive's binder choice (genJson, genString, scoped). Proved for all definitions, values and strings: "
         "toJson_wellformed_partial (for every set of non-generic definitions with identifier names, every well-typed value - any nesting, recursion through "
         "enums - and every string, jsonRead (toJson v) = some (encode v): an object per struct in field order, tag / fields per variant), "
         "toJson_roundtrip_partial (decoding that structure at the value's type gives the value back), json_escape_total (json_escape_string followed by a JSON "
         "reader is the identity on all strings), json_escape_is_runtime_table (the character-wise escaper of the model equals the chain of strings.ReplaceAll "
         "calls regenerated from go/runtime.rs), goQuote_json_safe_partial (what the helper used to be, %q, is JSON exactly on a decidable set of runes; \\a \\v "
         "\\xNN \\UNNNNNNNN are not, as examples), toString_shape (the generated part list equals the intercalate rendering Name { f: v } / Enum::Variant(v)), "
         "generated_code_computes (the generated method bodies, as the AST the derive appends, evaluate to toJson / toString under the arm's bindings), "
         "derive_attrs_union / _perm / _skip / _dup (an item derives a trait iff some attribute is a derive listing it: stacking, order, repetition, unknown targets and other attributes are irrelevant; derivesTrait mirrors find_derive_attr / parse_derive_targets and expandImpls is tied to what derive::expand appends), "
         "derive_total (for every definition the generated bodies are well-scoped: binders pairwise distinct, every variable bound, no helper of the regenerated "
         "dispatch tables shadowed by a binder or by self). Tied to the Rust three ways on every run: (1) translator - Gen/Derive.lean (primitive_to_string_fn, "
         "call_to_json arms, binder prefix, json_escape_string replacement table) with shape assertions on every literal piece of the four body builders; "
         "(2) L1 on the derive itself - the impl blocks derive::expand appends to generated programs, serialised, must equal genString / genJson; (3) L1 on "
         "behaviour - stdout of the real Go AST under Go.Sem and of the real Core under Sem must equal the model's text. Model-free oracle: every printed to_json "
         "line must parse with Python's json module to the value a declarative Rust writer (serde_json for strings) gives, and with jsonRead to encode; to_string "
         "must equal a join-style rendering computed in Rust; definitions the derive cannot handle must be rejected with a diagnostic in lower/typer.",
    design_ref="§5 C18, 'C18 — as built'",
    note="_partial: a float leaf is modelled by its %g text and assumed to be a JSON number (finite); non-finite floats print +Inf/-Inf/NaN - known finding. "
         "Go's %g shortest-digit formatting (Sem.showFloat) is validated against Rust's shortest digits on random bit patterns, not proved. Trusted: Lean kernel; "
         "Go.Sem/Sem as the meaning of the emitted Go (strings.ReplaceAll, fmt verbs); tools/extract.py; harness generator and serialisers; Python's json module. "
         "Three defects fixed in the repository copy (primitive fields rejected in generated code; field named like a helper captured it; %q is not JSON).",
    technique="Lean 4 proof (mutual induction over nested values; parser-printer round trip; decide over regenerated tables) + translator + differential correspondence (AST and behaviour) + independent JSON readers"),
}

NOT_YET = "not claimed yet: the model/theorems/tie for this property are still being built (see DESIGN.md §5)"

# ---- round 10 (unify): the typer's unifier is inside the model (additive; see DESIGN.md "The typer's unifier — as built (round 10)")
CLAIMS["C03"]["text"] += (
    " The typer's unifier (typer/unify.rs: occurs, Typer::norm, Typer::unify with every arm, and the ena union-find table as the "
    "typer observes it) is modelled in Model/Unify.lean and proved in Props/Unify.lean: unify_sound (after a unify that returned "
    "true the two sides have normal forms that agree: equal up to array lengths one of which is ARRAY_WILDCARD_LEN; unify_sound_eq: "
    "equal when no wildcard length is involved; unify_sound_eq_fails / wildcard_order_dependence: plain equality and order "
    "independence are false for the real code), unify_extends (for every outcome, equations that held before still hold), "
    "acyclic_invariant and reachable_acyclic (the occurs check keeps every reachable store acyclic and the table well-formed), "
    "norm_idempotent, norm_no_bound_var, norm_total / norm_terminates (on an acyclic store norm returns; explicit bound on the nesting "
    "of calls), unify_complete_partial, arms_match_source / diag_messages_match_source (the arms and diagnostics of the Rust match, "
    "regenerated from the source on every run, are the ones the model mirrors). Tie: gv unify runs generated scripts (alias chains "
    "then knot-tying, nested constructors of every kind, one mismatch of every class at every depth, both argument orders) on a "
    "fresh REAL Typer through the cfg(goml_verif) hook and the model answers the same scripts; outcome, diagnostic class and the "
    "normal forms of both sides and of every variable are compared after every step. Whole programs reaching each unify diagnostic "
    "class (36 hand-written) are compiled by the real pipeline and counted.")
CLAIMS["C03"]["note"] += (
    " Unifier (round 10) — proved: the theorems of Props/Unify.lean about Model/Unify.lean. Validated only: that Model/Unify.lean "
    "computes what the real Typer::unify/norm compute (step-by-step comparison on generated scripts; independent oracle on the real "
    "answers: norm l agrees with norm r after true, exactly one diagnostic iff false, the real store is never cyclic, no crash). Not "
    "modelled: constraint generation (check.rs), Typer::solve (the re-queueing loop, Overloaded and StructFieldAccess constraints), "
    "inst_ty/subst_ty; path compression of ena (unobservable through find/probe_value). Termination of unify itself (as opposed to "
    "norm) is not proved: the model carries fuel. Trusted in addition: the verif-hook commit (accessors only), harness/src/unify.rs.")
CLAIMS["C03"]["text"] += (
    " The constraint loop Typer::solve (TypeEqual, Overloaded and StructFieldAccess constraints, the re-queueing `while changed` "
    "loop, is_concrete, decompose_struct_type, instantiate_struct_field_ty, substitute_ty_params, inst_ty, resolve_type_name for "
    "package Main) is modelled in Model/Solve.lean and proved in Props/Solve.lean: solve_eq_sound (if solve pushes no diagnostic, "
    "every queued equality holds in the final store), solve_acyclic (for every queue, environment and outcome the store stays "
    "acyclic and only refines), solve_terminates (the loop ends within weight+1 passes: every pass that reports progress strictly "
    "decreases the weight of what it re-queues), solve_messages_match_source. Tie: gv solve pushes generated constraint queues "
    "(deferred overloaded calls and field accesses unblocked by later constraints, multi-pass chains, every diagnostic of solve) "
    "into a fresh REAL Typer and calls the real solve against two real environments (a compiled prelude with synthetic generic impl "
    "rows; the same plus a dependency package); the model answers the same queues; diagnostics in order, left-over queue, number of "
    "keys and all normal forms are compared.")
CLAIMS["C03"]["note"] += (
    " Solve (round 10) — proved: the theorems of Props/Solve.lean about Model/Solve.lean; validated only: model = real solve on "
    "generated queues (oracle on the real answers: no cyclic store / crash, clean run => every queued equality holds under the real "
    "final normal forms, left-over queue iff the two final diagnostics). Not modelled: constraint GENERATION (check.rs), packages "
    "other than Main as the current package, more than one dependency (HashMap iteration order). Soundness of field / overloaded "
    "constraints themselves (as opposed to the equalities they generate) is not stated.")
CLAIMS["C04"]["note"] += (
    " Round 10: Props/Unify.lean proves that the occurs check keeps the typer's union-find store acyclic for every outcome of unify "
    "(acyclic_invariant, reachable_acyclic) and that norm returns on an acyclic store within an explicit number of nested calls "
    "(norm_total, norm_terminates); cyclic_store_not_acyclic shows the invariant is what prevents the unbounded recursion. The tie "
    "(gv unify, part of ./check C03) walks the REAL store after every step and reports a cyclic store or a killed process with the "
    "script as failing input; the seeded change C04-occurs-check-alias is caught by it. Props/Solve.lean: solve_terminates (the "
    "constraint loop cannot spin: explicit bound on the number of passes), solve_acyclic.")

CLAIMS["C12"]["note"] += (
    " Round 11 — the parser's grammar functions are inside the model: Model/Grammar.lean holds all 61 grammar functions of file.rs, expr.rs, "
    "pattern.rs, path.rs, stmt.rs and their 28 loops as terms of a statement language over the parser primitives (tables regenerated into "
    "Gen/Grammar.lean; grammar_model_covers_source re-checks function-for-function, loop-for-loop agreement with the Rust text). Validated "
    "(tie): the model's event list equals Parser.events event for event (kinds, forward parents, Error messages) on every tree-tie input of "
    "the C12 streams plus all token strings <= 3 over 44 token classes and the fuel-boundary family; all 61 functions and 28 loop heads are "
    "exercised. Proved for every token list, fuel level and call budget: grammar_stepOK, grammar_advances_cover_cursor (Props/C04), "
    "grammar_sets_reject_eof, parse_events_cover_tokens_partial. NOT proved (named _partial): that the model's call budget never runs out "
    "(grammar_terminates; the tie observes oof=false on every input) and that flatL of an item tree satisfies resolve/balancedFrom for all "
    "trees (checked on every real and model event list, decided on examples).")
CLAIMS["C04"]["note"] += (
    " Round 11: Props/C04.lean additionally proves, over the model of ALL grammar functions (Model/Grammar.lean, tied event for event to "
    "Parser.events): grammar_stepOK (no grammar function touches the tokens, moves the cursor back or past the end), "
    "grammar_advances_cover_cursor, fileItems_ends_at_eof, file_consumes_all_tokens_partial (file() ends at the end of the input with one "
    "Advance per token whenever the model's call budget did not run out; that it never does is observed, not proved). Found by this work and "
    "fixed (bec8f9c): parser panic at entry assertions / unreachable!() when a look takes the last unit of fuel "
    "(match with 250 prefix operators in the scrutinee).")
CLAIMS["C03"]["text"] += (
    " Round 11 — type soundness of the reference semantics: Model/ValTy.lean types the VALUES of Sem (valTy: scalars by width, "
    "tuples, enum / struct values by type name and the field types of the definition at the type arguments; envTy with a "
    "substitution theta for the type parameters of the running generic function) and Props/C03.lean proves "
    "sem_preserves_types_partial (in a program whose functions all satisfy Wt.wtFn and lie in the decidable fragment ValTy.okE, "
    "for every fuel, environment of well-typed values and instantiation theta: a value returned by Sem.eval for an expression "
    "annotated tau inhabits theta(tau)), sem_preserves_types_apply_partial (calls of top-level functions at any instantiation) and "
    "traitcall_static_dispatch (whenever theta makes the receiver annotation of an ETraitCall concrete, the runtime key Sem "
    "dispatches on is the key of that type, and Sem applies the dispatch row of the STATIC key). Fragment: literals, local "
    "variables, let, if, while, operators, tuples / projections, constructors, struct field reads, enum field reads under the arm "
    "that tested the variant, match as Core has it, direct calls of (generic) program functions and of the printing builtins, "
    "trait calls on concretely annotated receivers. gomlmodel tsound evaluates the hypothesis (sigClosedB && okProg) on every real "
    "Core dump of the C01 streams and, independently of the fragment, restores dynamic dispatch in the REAL Mono dump (every "
    "direct call of an implementation mono.rs chose statically must find the same function by the key of the runtime receiver) "
    "and compares the Sem outcomes.")
CLAIMS["C03"]["note"] += (
    " Round 11 — proved: the three theorems above (axioms propext, Classical.choice, Quot.sound). Four places where Wt alone was "
    "too weak became decidable conjuncts of the fragment (enum field read without the variant fact; struct N vs enum N; dispatch "
    "row vs implementing function; wildcard-compatible vs exact callee instance). Not proved (closures / function values were added in the second pass, trait calls on receivers of parametric type in the third, arrays / Vec in the fourth): (Ref in the fifth pass), "
    "trait objects, go, impls for instances of generic types, progress. Validated "
    "only: the static-dispatch oracle on programs outside the fragment. In real Core dumps the typer has already resolved every "
    "trait-method call on a concrete receiver to a direct call; every ETraitCall left has a receiver of parametric type.")
CLAIMS["C03"]["text"] += (
    " Second pass of round 11: value typing is the inductive predicate ValTy.VT (closures: their code is Wt-consistent and in "
    "the fragment under a typing of the captured environment at the instantiation of the activation that built them; top-level "
    "functions as values at an instance of their signature); the fragment admits closure nodes, function values and calls of any "
    "fragment expression of function type; sem_preserves_types_applyv_partial covers the application of any function value. "
    "Real Core dumps inside the hypothesis: 81 -> 216 of 682.")
CLAIMS["C03"]["text"] += (
    " Third pass: ETraitCall on ANY receiver (in real Core dumps always a type parameter under a trait bound) is inside the fragment "
    "when the dispatch table passes the decidable check ValTy.implsOk (every row's function has a first parameter of a keyable "
    "type — scalar of a real width or non-generic enum / struct — with the row's key and the trait's method signature at that "
    "Self; no nominal type named like a scalar key); Lemmas/ValTyKey.lean proves key_determines (the dispatch key of a well-typed "
    "value determines its type among the keyable types), so traitcall_static_dispatch now applies to real programs with trait "
    "calls. Real Core dumps inside the hypothesis: 216 -> 225 of the same 683 programs, 360 of 818 with the new pattern-position stream (8 with an ETraitCall).")
CLAIMS["C03"]["text"] += (
    " Fourth pass: arrays and vectors are typed values (VT.array, VT.vec); array literals and array_get / array_set / vec_new / "
    "vec_push / vec_get / vec_len (judged on the shape of the argument and result types of the call, ValTy.polyOk) are inside the "
    "fragment. Lemmas/ValTyStore.lean holds the store-typing development for Ref (typing monotone under append-only extension of "
    "the store typing, world invariant, allocation, read, no dangling reference) — proved, NOT yet connected to "
    "sem_preserves_types_partial: programs using Ref are still outside the fragment.")
CLAIMS["C03"]["text"] += (
    " Fifth pass: references. ValTyR.VT S P Psi (Model/ValTyRef.lean) indexes value typing by a store typing; "
    "sem_preserves_types_store_partial (Props/C03.lean): in a program whose functions are Wt-consistent and in the fragment WITH the "
    "reference builtins (okProg S P true: ref / ref_get / ref_set admitted), from a world satisfying the invariant WT S P Psi w, a "
    "value returned by Sem.eval inhabits its annotation under an append-only extension Psi' of the store typing and the new world "
    "satisfies WT for Psi'; sem_preserves_types_main_partial (a whole run of main from the empty store); "
    "traitcall_static_dispatch_store. The whole induction (20 node kinds, lists, arms, apply) is re-proved over the store-typed "
    "predicate (Lemmas/ValTy2*.lean, monotonicity of typing under extension); the reference-free theorem is kept as it was. The "
    "driver now evaluates the fragment with references on every real Core dump.")
CLAIMS["C03"]["text"] += (
    " Sixth pass: trait objects are typed values (ValTyR.VT.dyn: the packed value has a keyable type whose key the object carries); "
    "toDyn at a keyable source type and dynCall of an object-safe method (objSafe) under the dispatch-table check implsOk are inside "
    "the fragment of sem_preserves_types_store_partial (key_determines identifies the implementation's receiver type with the type "
    "of the packed value).")
CLAIMS["C07"]["note"] += (
    " Round 11: traitcall_static_dispatch (Props/C03.lean) proves, on the fragment of sem_preserves_types_partial, the typing "
    "invariant traitcall_commutes assumes (runtime key = key of the instantiated static type); ./check C07 also runs the "
    "static-dispatch oracle of tools/props/tsound.py on the real Mono dumps (dynamic dispatch restored, same Sem outcome).")
CLAIMS["C01"]["note"] += (
    " Round 11: the Core -> Mono link of pipeline_preserves still excludes ETraitCall (InPipeFragment unchanged: the lock-step "
    "simulation cannot absorb the one unit of fuel a trait call differs from the direct call mono emits, and the type-soundness "
    "fragment has no closures yet); what is new is the proved typing invariant (traitcall_static_dispatch) and the per-program "
    "static-dispatch oracle on the real Mono dumps (coverage.type_soundness_and_static_dispatch).")

CLAIMS["C12"]["note"] += (
    " Round 11 follow-up — now PROVED for every token list (no hypothesis): grammar_events_wellformed (the grammar model's event "
    "list resolves — every forward-parent chain lands on an Open —, is balanced with root FILE and its Advance count is the number of "
    "adv leaves; Lemmas/GrammarFlat.lean rf_spec/rf_balanced for every item tree incl. the wrap/precede encoding, Lemmas/GrammarKinds.lean "
    "no TombStone kind). parse_lossless_partial_budget composes lex_tiles, the grammar model and buildTree_lossless into 'tree text = "
    "input, leaves = tokens, nothing dropped, all ranges in the text' for every text; its only hypothesis is that the model's call "
    "budget does not run out (grammar_terminates — still NOT proved, observed oof=false on every tie input).")
CLAIMS["C04"]["note"] += (
    " Follow-up: grammar_advances_exact (exactly one Advance per token consumed while the cursor is inside the input, every grammar "
    "function; at the real end advance() still pushes an Advance that build_tree ignores — example `if 1 { }`: 5 Advances, 4 tokens).")


CLAIMS["C04"]["note"] += (
    " Round 11: Gen/MatchDispatch.lean (regenerated from compile_match.rs compile_rows / move_variable_patterns / branch_variable, tast.rs enum Ty and "
    "typer/check.rs check_pat_unit / _bool / _string / _int / _typed_int, is_integer_ty, is_float_ty, integer_literal_target) with Props/C04.lean "
    "match_dispatch_partitions_ty (each of the 24 Ty variants either has a case in compile_rows or ends in panic!/unreachable!), "
    "literal_pattern_type_has_match_case (every type a literal-pattern checker equates the scrutinee's type with - on every path, asserted by the "
    "extractor - has a case), float_pattern_would_panic, unsuffixed_int_pattern_default_has_case: statements about the two TABLES only; that the "
    "equation is then solved or reported is C03's unifier/solver theorems, and constructor / tuple patterns are not in the table. SEARCHED in "
    "addition: stream pat-scrut (harness/src/patcat.rs), the deterministic catalogue pattern form (29: unsuffixed / out-of-range / suffixed integers, "
    "string, bool, unit, tuples, constructors incl. wrong arity and undefined, struct patterns, wildcard, binder) x scrutinee type (27: every integer "
    "and float width, bool, string, unit, tuples, generic and plain enums, structs, generic structs, Vec, Ref, array, closure, dyn) x route by which the "
    "scrutinee's type becomes known (23: concrete when the pattern is checked - parameter, annotated let, literal - or an inference variable resolved "
    "later or never - call, generic call, method, trait method, closure parameter fixed by a later call / a later use / a generic higher-order function / "
    "never, closure call, generic-struct field, ref_get / vec_get / array_get, if / match / block join, tuple or constructor binder, type parameter) x "
    "position (top, tuple component, constructor argument, struct field, nested) x form (match with catch-all, only arm, let), cut to about 5.6k texts in "
    "the quick tier, each through parse, compile, check_package, build_package, link_cores and the three queries; gen-ill's wrongly typed hole now also "
    "takes any other primitive type (float for int, int64 for int32, ...).")
CLAIMS["C12"]["note"] += (
    " Round 11 third pass — grammar_terminates is PROVED (Props/C04; abstract interpreter over the statement language, potential "
    "(len-pos)*257+fuel, ranks <= 6, per-function check decided for all 130 reachable function instances), hence parse_lossless, "
    "grammar_events_cover_tokens, parse_events_cover_tokens, file_consumes_all_tokens hold for EVERY text / token list without any "
    "hypothesis (the _partial versions are replaced). Remaining validated-only part for the parser: that Model/Grammar.lean is the Rust "
    "(exact equality of event lists on every tie input).")
CLAIMS["C04"]["note"] += (
    " Third pass: grammar_progress and grammar_terminates (the fuel-bounded grammar model never runs out of budget = 40*257*(len+1)+41; "
    "every loop iteration and call cycle advances, spends parser fuel or stops) are proved for the whole grammar, replacing the "
    "'searched, not proved' argument for match_arm_list and all list loops; file_consumes_all_tokens is unconditional.")

CLAIMS["C11"]["note"] += (
    " Round 11 (parse worker): Model/PrattGrammar.lean bridges the Pratt model of these theorems and the event-tied grammar model "
    "(Model/Grammar.lean). Proved: binding_power_tables_agree (both regenerated tables identical), pratt_is_grammar_upto4 (all 16105 "
    "token lists of <= 4 tokens: Pratt accepts => the grammar model emits exactly the item tree of that Cst and consumes everything), "
    "pratt_is_grammar_needs_fuel_bound (the unbounded statement is false beyond ~250 nested operators: parser fuel). Validated only: the "
    "same agreement on every tree of the C11 streams at run time (56k token lists, 0 differences). NOT proved: pratt_is_grammar for all "
    "token lists of bounded nesting (simulation lemma with a fuel invariant), so parse_print is still a theorem about Model/Pratt.lean.")
CLAIMS["C12"]["note"] += (
    " Fourth pass: Input's trivia skipping is modelled (Model/InputView.lean) and input_view proves that Input::nth/peek/eof/skip on "
    "all tokens answer what the grammar model's look/isEof/bump answer on the non-trivia kinds (kindsOf = view, length = nonTrivia).")


CLAIMS["C18"]["text"] += (
    " Round 11 follow-up: the attribute's TEXT is inside the model — attrText / stripComments mirror ast/src/lower.rs::lower_attributes (the text of "
    "the attribute's syntax node, which holds every trivia token up to the next token of the file, without its comment tokens; string literals are "
    "respected) — with attr_comment_invisible / attr_comment_at_end / attr_plain / derive_attrs_comment (a // comment after string-free code of the "
    "node, in particular after the closing bracket or between two targets, changes neither the text derive.rs reads nor the traits derived) and "
    "derive_attrs_union_src; tied by the AST comparison of derive::expand's output (expandImplsSrc of the node texts as written) and searched with a "
    "layout family in the generator (13 layouts after an attribute, two multi-line spellings with comments between the targets) and in the probe "
    "catalogue (8 attribute lists x 12 layouts + 10 attributes with a comment between their own tokens, judged by a comment-aware reading written "
    "independently of the compiler's lexer); Model/Lower.lean lowerAttributes (Cst.codeText) follows the same fix and is tied by the lowering tie on "
    "the real trees of the probes and of the generated programs that spell their attributes. Hygiene against the package: GMethod.hygienic tops (no call of the generated body is taken by a "
    "top-level function of the package the type is defined in; name resolution prefers the package's definitions to the builtins) with "
    "derive_hygienic_partial (holds when no function of the package is spelled like a helper of the regenerated tables; the examples after it are the "
    "capture) — tied and searched by a catalogue of two-package projects: for every (derived method, helper, leaf type) READ OFF the impl blocks the "
    "real derive::expand appends (24 pairs), a library package defining the derived type next to a function spelled like the helper (same / other "
    "signature) and two controls (no such function; a longer name), expected text from the declarative writers.")
CLAIMS["C18"]["note"] += (
    " Round 11 follow-up: one more defect fixed in the repository copy (a comment after or inside a derive attribute silently disabled the derive, a "
    "commented-out target was derived: 0de5442); one more known finding (a function of a LIBRARY package spelled like a runtime helper takes the calls "
    "of the derived code: not JSON / generated code rejected in the typer). stripComments covers the token kinds an attribute is made of in the "
    "generated and catalogue inputs (punctuation, identifiers, \"...\" literals, whitespace, // comments), not multi-line strings or char literals.")

# ---- round 11 (fu-r11-c14): every rejecting decision of both pipelines' entry points is exercised and compared (additive)
CLAIMS["C14"]["text"] += (
    " Round 11 (searched, not proved): check_package and build_package are compared on EVERY package of every order of every project, accepted or "
    "rejected as a whole - both accept: same interface bytes; both reject: same stage and the same diagnostics (sorted message classes); check "
    "accepts while build rejects only when every diagnostic of build is one of match compilation, the one stage check does not run (the shapes are "
    "read off compile_match.rs on every run). Two more deterministic catalogues under the acceptance oracle: diagnostics of the stage after the typer "
    "(integer-literal match without catch-all on every integer type, nested in variant payloads / tuples / struct patterns, inside closures, methods, "
    "generic functions; inherent methods used as values; the matched value or the method owned by an imported package; 25 rejecting forms + 3 controls "
    "x entry file / sibling / library / library sibling = 112 projects) and the entry point (main in the entry file / a sibling file / only a library / "
    "only as a method / only as an extern / nowhere; main with a parameter, a result, a type parameter; 12 projects).")
CLAIMS["C14"]["note"] = CLAIMS["C14"]["note"].replace(
    "No defect found on the tree.",
    "Defects found and fixed in the repository copy: see known_findings.json (C14, status fixed) - the latest (round 11, 3e0a664): whole-program "
    "compilation accepted a Main package without a main function and emitted func main() { main0() } with no main0, while link rejects it.")

def main():
    checks = []
    for pid in ALL:
        if pid not in CLAIMS:
            continue
        c = CLAIMS[pid]
        checks.append({
            "property_id": pid,
            "quick_cmd": f"./check {pid} --tier quick",
            "thorough_cmd": f"./check {pid} --tier thorough",
            "evidence_file": f"/verif/evidence/{pid}.json",
            "replay_cmd_template": f"./check {pid} --replay {{path}}",
            "engine": "lean-proof+gv-correspondence",
            "level_claimed": {"category": c["category"], "text": c["text"], "design_ref": c["design_ref"]},
            "level_note": c["note"],
            "technique": c["technique"],
        })
    m = {
        "version": 1,
        "setup_cmd": "./check setup",
        "hooks": {
            "guard": "goml_verif",
            "enable": "RUSTFLAGS='--cfg goml_verif' when building the harness (tools/vlib.py::build_harness and harness/.cargo/config.toml set it); "
                      "the only guarded code is `#[cfg(goml_verif)] impl Typer { verif_fresh, verif_tvar, verif_tvar_index, verif_unify, "
                      "verif_norm, verif_probe, verif_push_constraint, verif_constraints, verif_var_count }` at the end of "
                      "crates/compiler/src/typer/unify.rs (accessors to the private norm/unify, the constraint queue and "
                      "the union-find table; no behaviour depends on them), and (round 11, commit 746a7e5) in "
                      "crates/compiler/src/typer/toplevel.rs a thread-local observer `verif_set_fn_observer` that `typecheck_fn` calls through three "
                      "`#[cfg(goml_verif)]` statements (at entry, before `solve`, after `solve`; it only reads) plus `verif_ty_from_hir`, re-exported "
                      "from typer/mod.rs; commit 85f7995: `typecheck_impl_block` calls the same observer for every method (phases 10-12) and "
                      "`verif_impl_generics()` reads the impl's type parameters. Everything else links the crates in /repo by path unguarded.",
            "baseline_off_cmd": "cd /repo && cargo nextest run --workspace --no-fail-fast --offline --test-threads 8 || cargo test --workspace --no-fail-fast --offline",
            "source_commits": HOOK_COMMITS,
            "add_only": True,
        },
        "engines": [
            {"name": "lean-proof+gv-correspondence", "path": "/verif/check",
             "serves_properties": sorted(CLAIMS),
             "kind_free_text": "Lean 4 theorems over executable models (lean/GomlVerif), regenerated tables (tools/extract.py), "
                               "Rust harness gv linked against /repo crates for the correspondence and the failing-input search"},
        ],
        "checks": checks,
        "not_applicable": [{"property_id": p, "reason": NOT_YET} for p in ALL if p not in CLAIMS],
        "notes": "See DESIGN.md. Fix commits in /repo are listed in known_findings.json (status fixed).",
    }
    json.dump(m, open(os.path.join(VERIF, "MANIFEST.json"), "w"), indent=1)

if __name__ == "__main__":
    main()
