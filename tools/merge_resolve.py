"""Resolve merge conflicts of worker branches: union for additive shared files, JSON concat for
known_findings.json, ours for generated files; then dedup registration lines."""
import subprocess, json, re, os
def show(stage, f):
    return subprocess.run(["git", "show", f":{stage}:{f}"], capture_output=True, text=True).stdout
def union(f):
    base, ours, theirs = show(1, f), show(2, f), show(3, f)
    for n, t in (("base", base), ("ours", ours), ("theirs", theirs)):
        open(f"/tmp/m_{n}", "w").write(t)
    subprocess.run(["git", "merge-file", "--union", "/tmp/m_ours", "/tmp/m_base", "/tmp/m_theirs"])
    open(f, "w").write(open("/tmp/m_ours").read())
st = subprocess.run(["git", "status", "--short"], capture_output=True, text=True).stdout.splitlines()
for l in st:
    if l[:2] not in ("UU", "AA"):
        continue
    f = l[3:]
    if f == "known_findings.json":
        a, b = json.loads(show(2, f)), json.loads(show(3, f))
        out = list(a) + [e for e in b if e not in a]
        json.dump(out, open(f, "w"), indent=1)
    elif f == "MANIFEST.json" or f.startswith("evidence/"):
        open(f, "w").write(show(2, f))
    else:
        union(f)
    print("resolved", f)
def dedup(path, pat):
    if not os.path.exists(path):
        return
    seen, out = set(), []
    for l in open(path).read().split("\n"):
        k = l.strip() if re.match(pat, l) else None
        if k and k in seen:
            continue
        if k:
            seen.add(k)
        out.append(l)
    open(path, "w").write("\n".join(out))
dedup("harness/src/main.rs", r'\s*(mod \w+;|"\w+" => \w+::main\(&args\),)')
dedup("lean/Main.lean", r'\s*(import \S+|\| \["\w+"\] => .*)$')
p = "tools/extract.py"
s = open(p).read()
s = re.sub(r"^EXTRACTORS = \[(?!\])", "EXTRACTORS += [", s, flags=re.M)
open(p, "w").write(s)
