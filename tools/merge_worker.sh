#!/usr/bin/env bash
# usage: tools/merge_worker.sh <id> [fix-sha ...]   — integrate a worker branch (see docs/WORKER_BRIEF.md)
set -u
id=$1; shift
cd /repo
declare -A MAP
for c in "$@"; do
  if git cherry-pick -n $c >/dev/null 2>&1; then
    git checkout HEAD -- crates/compiler/src/tests 2>/dev/null
    git commit -q -C $c && MAP[$c]=$(git rev-parse --short HEAD) && echo "picked $c -> ${MAP[$c]}"
  else
    echo "CONFLICT cherry-picking $c"; git status --short | head; exit 1
  fi
done
cd /verif
git fetch -q /tmp/wk/$id/verif work-$id:work-$id || exit 1
git add -A; git commit -qm "evidence before merging work-$id" >/dev/null 2>&1; git merge --no-edit work-$id >/dev/null 2>&1
python3 /verif/tools/merge_resolve.py
for c in "${!MAP[@]}"; do sed -i "s/$c/${MAP[$c]}/g" known_findings.json DESIGN.md; done
python3 tools/extract.py && python3 tools/manifest.py && git add -A && git commit -q -m "Merge work-$id" && echo "merged $id"
