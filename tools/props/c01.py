"""C01 — emitted Go behaves as the source denotes: stage-wise evaluation of the real IR dumps
under the Lean semantics (Sem for Core/Mono/Lift/ANF, Go.Sem for the Go AST)."""
import os, re, subprocess
import vlib
from props import c01pipe

STAGES = ["core", "mono", "lift", "anf", "go"]
# `src` = the SURFACE program (real ast::File dumps) under SrcSem: the reference whenever SrcSem decides
CHAIN = ["src"] + STAGES
FRONT_END = "front end (CST->AST lowering, derive, name resolution, typer elaboration, match compilation)"

def run_sem(ctx, lines, cap=0, sub="sem", env=None):
    p = vlib.srun(["bash", "-c", f"ulimit -s unlimited; exec {vlib.MODEL} {sub}"], input="\n".join(lines) + "\n",
                       stdout=subprocess.PIPE, stderr=subprocess.PIPE, text=True, timeout=3000,
                       env=dict(os.environ, GV_CAP=str(cap), **(env or {})))
    res = {}
    for l in p.stdout.split("\n"):
        f = l.split("\t")
        if len(f) >= 3:
            res[f[0]] = (f[1], f[2], f[3] if len(f) > 3 else "")
    if p.returncode != 0:
        ctx.broken_ties.append((f"model driver {sub}", p.stderr[-1000:]))
    return res

DEFAULT_TYPING_CODE = "untyped-constant-in-interface"


def gocheck(ctx, lines):
    p = vlib.srun(["bash", "-c", f"ulimit -s unlimited; exec {vlib.MODEL} gocheck"], input="\n".join(lines) + "\n",
                       stdout=subprocess.PIPE, stderr=subprocess.PIPE, text=True, timeout=3000)
    res = {}
    for l in p.stdout.split("\n"):
        f = l.split("\t")
        if len(f) >= 2:
            status, detail = f[1], f[2] if len(f) > 2 else ""
            dflt = ""
            if status == "err":
                # `untyped-constant-in-interface` is not an error of Go (the file compiles): it marks a place where real
                # Go's behaviour differs from the annotated AST / Go.Sem (default typing of untyped constants).  It is a
                # behavioural finding of C01 (oracle go-default-typing), so it is split off here: for every consumer
                # (C02's "invalid Go", the Go-stage skips of C01 / C09 / GOCOMP) the file is judged without it.
                errs = [e for e in detail.split(" ;; ") if e]
                d = [e for e in errs if e.split("|", 1)[0] == DEFAULT_TYPING_CODE]
                rest = [e for e in errs if e.split("|", 1)[0] != DEFAULT_TYPING_CODE]
                dflt = " ;; ".join(d)
                detail = " ;; ".join(rest)
                if not rest:
                    status = "ok"
            res[f[0]] = (status, detail, dflt)
    if p.returncode != 0:
        ctx.broken_ties.append(("model driver gocheck", p.stderr[-1000:]))
    return res


def sexp_children(text):
    """the direct children (as text) of the S-expression `text` = `(tag child…)`"""
    out, depth, start, i, n = [], 0, None, 0, len(text)
    while i < n:
        c = text[i]
        if c == '"':
            if depth == 1 and start is None:
                start = i
            i += 1
            while i < n and text[i] != '"':
                i += 2 if text[i] == "\\" else 1
            if depth == 1 and start is not None:
                out.append(text[start:i + 1]); start = None
        elif c == "(":
            depth += 1
            if depth == 2:
                start = i
        elif c == ")":
            if depth == 2 and start is not None:
                out.append(text[start:i + 1]); start = None
            depth -= 1
        elif depth == 1 and not c.isspace():
            j = i
            while j < n and not text[j].isspace() and text[j] not in "()":
                j += 1
            out.append(text[i:j]); i = j - 1
        i += 1
    return out

def derive_only_adds_impls(plain, expanded):
    """derive::expand must leave every written item alone and only insert impl blocks"""
    pf, ef = sexp_children(plain)[1:], sexp_children(expanded)[1:]
    if len(pf) != len(ef):
        return "file count"
    for a, b in zip(pf, ef):
        ai, bi = sexp_children(a)[1:], sexp_children(b)[1:]
        k = 0
        for it in bi:
            if k < len(ai) and it == ai[k]:
                k += 1
            elif not it.startswith("(impl "):
                return "derive changed or added a non-impl item: " + it[:120]
        if k != len(ai):
            return "derive dropped or reordered an item: " + ai[k][:120]
    return None

def collect(ctx, sub="c01", extra=()):
    ok, out = ctx.gv(sub, extra)
    rows = vlib.read_tsv(os.path.join(ctx.run_dir, f"{sub}.cases.tsv")) if ok else []
    progs = {}
    for r in rows:
        if r[0].startswith("#"):
            continue
        d = progs.setdefault(r[0], {"stages": {}})
        if r[1] == "EXPECT":
            d["expect"] = vlib.unesc(r[3]) if len(r) > 3 and r[2] == "out" else None
        elif r[1] == "SRC":
            d["src"] = vlib.unesc(r[2])
        elif r[1] == "STAGE":
            d["stages"][r[2]] = r[3]
        elif r[1] == "GENV":
            d["genv"] = r[2]
        elif r[1] == "SIG":
            d["sig"] = (r[2], r[3])
        elif r[1] == "GOENV":
            d["goenv"] = r[2]
        elif r[1] == "AANF":
            d["aanf"] = r[2]
        elif r[1] == "SRCPLAIN":
            d["srcplain"] = r[2] if len(r) > 2 else ""
        elif r[1] == "SRCERR":
            d["srcerr"] = r[2] if len(r) > 2 else ""
        elif r[1] == "ALPHA":
            d["alpha"] = tuple(r[2:7]) + ("",) * (5 - len(r[2:7]))
        elif r[1] == "PPRINT":
            d["pprint"] = (r[2], vlib.unesc(r[3]) if len(r) > 3 else "")
        elif r[1] == "REJECT":
            d["reject"] = (r[2], r[3] if len(r) > 3 else "")
            d["src"] = vlib.unesc(r[4]) if len(r) > 4 else None
        elif r[1] == "PANIC":
            d["panic"] = r[2]
            d["src"] = vlib.unesc(r[3]) if len(r) > 3 else None
    feats = next((r[1] for r in rows if r[0] == "#FEATS"), "")
    # witnesses of KNOWN findings that another property owns are run by that property's check only
    own = ctx.pid
    for f in getattr(ctx, "findings", []):
        w = f.get("witness") or ""
        if f.get("status") == "known" and f.get("property") not in (own,) and w.startswith("corpus/"):
            progs.pop("corpus:" + w[len("corpus/"):], None)
    return progs, feats

# streams whose programs carry the output they print BY CONSTRUCTION (namecat.rs, patpos.rs)
BY_CONSTRUCTION = ("names:", "patpos:")
GENERATED = ("gen:", "eff:", "wrap:", "nest:", "prog:", "names:", "patpos:")
GENERATED += ("fld:", "fldwrap:", "fldnest:")  # harness/src/c09/fields.rs

def evaluate(ctx, progs):
    # generated programs are small: they run with a small fuel budget (GV_GEN_FUEL), so that a stage
    # which no longer terminates (e.g. a dropped loop-counter update) costs a second, not minutes;
    # a stage that runs out of fuel while the reference stage finishes is reported as a divergence
    gen_env = {"GV_FUEL": os.environ.get("GV_GEN_FUEL", "20000")}
    res = {}
    for gen in (False, True):
        lines, src_lines = [], []
        for pid, d in progs.items():
            if pid.startswith(GENERATED) != gen:
                continue
            for st, sx in d["stages"].items():
                (src_lines if st == "src" else lines).append(f"{pid}|{st}\t{sx}")
        env = gen_env if gen else None
        if lines:
            res.update(run_sem(ctx, lines, env=env))
        if src_lines:
            res.update(run_sem(ctx, src_lines, sub="srcsem", env=env))
    # where the Go specification leaves the capacity of a grown slice open, Go.Sem takes it as a
    # parameter: programs that append are run again under a generous growth policy
    lines2 = [f"{pid}|go\t{d['stages']['go']}" for pid, d in progs.items() if "go" in d["stages"] and "append" in d["stages"]["go"]]
    res2 = {}
    for gen in (False, True):
        part = [l for l in lines2 if l.split("|", 1)[0].startswith(GENERATED) == gen]
        if part:
            res2.update(run_sem(ctx, part, cap=2, env=gen_env if gen else None))
    for pid, d in progs.items():
        d["out"] = {st: res.get(f"{pid}|{st}") for st in d["stages"]}
        d["go_cap2"] = res2.get(f"{pid}|go")
    return progs

# corpus programs whose recorded .out is not a run of the program (Go's own error text etc.)
def expected_matches(pid, exp, got):
    status, out, _ = got
    if exp is None:
        return None
    if status == "ok":
        return exp == vlib.unesc(out)
    if status.startswith("panic"):
        # the recorded output of a failing run continues with Go's panic report
        return exp.startswith(vlib.unesc(out)) and "panic" in exp
    return False

def alpha_twins(ctx, progs):
    """the name catalogue (harness/src/namecat.rs): a program whose local binder is spelled like a package-level name
    (`names:…:a`) and its twin with a fresh binder name (`…:b`) differ in nothing lexical scoping can see, so
    (1) CST->AST lowering commutes with the renaming, (2) both are accepted, (3) every stage of both prints the same.
    None of the three goes through a model of the compiler."""
    cov = {"pairs": 0, "lowering_commutes_with_renaming": 0, "accepted_alike_and_every_stage_prints_the_same": 0,
           "split_into_single_cells": 0, "cells(use-position/binder-kind)": {}, "spellings": {}}
    for pid, d in progs.items():
        if not (pid.startswith("names:") and pid.endswith(":a")):
            continue
        tw = progs.get(pid[:-2] + ":b")
        al = d.get("alpha")
        if tw is None or al is None:
            ctx.broken_ties.append(("name catalogue", f"{pid}: twin or lowering row missing"))
            continue
        cov["pairs"] += 1
        cov["split_into_single_cells"] += ":c" in pid[len("names:"):]
        cov["spellings"][al[2]] = cov["spellings"].get(al[2], 0) + 1
        for c in al[4].split():
            cov["cells(use-position/binder-kind)"][c] = cov["cells(use-position/binder-kind)"].get(c, 0) + 1
        info = {"id": pid, "binder_spelling": al[2], "fresh_spelling_in_the_twin": al[3], "cells(use-position/binder-kind)": al[4],
                "src": d.get("src"), "twin_src": tw.get("src")}
        if al[0] == "ok":
            cov["lowering_commutes_with_renaming"] += 1
        else:
            ctx.report({"oracle": "lowering-alpha", "kind": "lowered-differently-under-a-package-level-spelling"},
                       "CST->AST lowering of a function depends on how a local binder is spelled: renaming the binder (and the uses it binds) "
                       "to a fresh name of the same length changes more of the lowered function than that name", dict(info, detail=vlib.unesc(al[1])[:1500]))
        state = lambda x: "rejected" if "reject" in x else "panics" if "panic" in x else "accepted"
        if state(tw) != "accepted":
            ctx.broken_ties.append(("name catalogue: the twin (fresh binder names) is not accepted — generator or unrelated defect",
                                    f"{pid}: {tw.get('reject') or tw.get('panic')}"))
            continue
        if state(d) != "accepted":
            ctx.report({"oracle": "alpha-twin", "kind": f"{state(d)}-under-a-package-level-spelling"},
                       f"a program is {state(d)} only because a local binder is spelled like a package-level name (the twin with a fresh name is accepted)",
                       dict(info, diagnostics=str(d.get("reject") or d.get("panic"))[:600]))
            continue
        oa, ob = d.get("out") or {}, tw.get("out") or {}
        diff = [st for st in CHAIN if oa.get(st) and ob.get(st) and (oa[st][0], oa[st][1]) != (ob[st][0], ob[st][1])]
        if diff:
            st = diff[0]
            la, lb = vlib.unesc(oa[st][1]).split("\n"), vlib.unesc(ob[st][1]).split("\n")
            first = next(((x, y) for x, y in zip(la + [""] * len(lb), lb + [""] * len(la)) if x != y), ("", ""))
            ctx.report({"oracle": "alpha-twin", "kind": "behaves-differently-under-a-package-level-spelling", "first_divergent_stage": st},
                       "a program and its twin, which differ only in the spelling of a local binder, do not print the same",
                       dict(info, stages_that_differ=diff, first_differing_line={"program": first[0], "twin": first[1]},
                            outcomes={k: {"status": v[0], "stdout": vlib.unesc(v[1])[:600]} for k, v in oa.items() if v},
                            twin_outcomes={k: {"status": v[0], "stdout": vlib.unesc(v[1])[:600]} for k, v in ob.items() if v}))
        else:
            cov["accepted_alike_and_every_stage_prints_the_same"] += 1
    return cov

def run(ctx):
    ctx.extract()
    from props import gocomp
    ctx.build_lean([m for m in ["GomlVerif.Props.C01", "GomlVerif.Props.C01src", c01pipe.PROP_MODULE, gocomp.PROP_MODULE]
                    if os.path.exists(os.path.join(vlib.LEAN, m.replace(".", "/") + ".lean"))])
    if not ctx.build_harness():
        return ctx.finish("translation_validation", {"programs": 0, "disagreements_checked": 0, "samples": []}, [], "lake build")
    import time as _t
    _ph = {}
    _t0 = _t.time()
    progs, feats = collect(ctx)
    _ph["collect(harness)"] = round(_t.time() - _t0, 1); _t0 = _t.time()
    progs = evaluate(ctx, progs)
    _ph["evaluate(sem of every stage)"] = round(_t.time() - _t0, 1); _t0 = _t.time()
    gc = gocheck(ctx, [f"{pid}\t{d['stages']['go']}" for pid, d in progs.items() if "go" in d["stages"]])
    _ph["gocheck"] = round(_t.time() - _t0, 1); _t0 = _t.time()
    ctx.notes.append(f"phases_s so far: {_ph}")
    n_invalid_go = 0
    n_pprint = 0
    n_prog = n_agree = n_exp = n_exp_ok = n_fuel = n_extern = 0
    n_from_src = n_gen = n_gen_src = n_exp_src = n_exp_src_ok = n_corpus = n_corpus_src = 0
    fallback = {}
    pending = []
    samples, distinct = [], set()
    derive_checked = 0
    n_patpos = 0
    for pid, d in progs.items():
        n_patpos += pid.startswith("patpos:")
        if not d["stages"] and pid.startswith("patpos:") and ("reject" in d or "panic" in d):
            # harness/src/patpos.rs: well-typed by construction when a constructor name in pattern position tests the
            # constructor and a use in the arm body means the innermost local binder of that spelling
            ctx.report({"oracle": "accept-by-construction", "stream": "patpos"},
                       "a program whose patterns name constructors of the file while a local binder of the same spelling is in scope is rejected",
                       {"id": pid, "src": d.get("src"), "diagnostics": str(d.get("reject") or d.get("panic"))[:600]})
        if not d["stages"]:
            continue
        n_prog += 1
        if d.get("srcplain") not in (None, "same") and "src" in d["stages"]:
            derive_checked += 1
            bad = derive_only_adds_impls(d["srcplain"], d["stages"]["src"])
            if bad:
                ctx.report({"oracle": "derive-expansion", "kind": bad.split(":")[0]},
                           "derive::expand did more than insert impl blocks", {"id": pid, "src": d.get("src"), "detail": bad})
        o = d["out"]
        if any(v is None for v in o.values()):
            ctx.broken_ties.append(("sem driver", f"{pid}: missing stage result {[k for k, v in o.items() if v is None]}"))
            continue
        if any(v[0] in ("decode-error", "parse-error") for v in o.values()):
            ctx.broken_ties.append(("dump decoder", f"{pid}: {[(k, v[0]) for k, v in o.items() if v[0].endswith('error')]}"))
            continue
        # printer tie: parse(print(ast)) must be the AST the semantics and the checker were given
        pp = d.get("pprint")
        if pp is not None:
            n_pprint += 1
            if pp[0] != "ok":
                ctx.report({"oracle": "go-printer", "kind": pp[0]},
                           "the printed Go text does not parse back to the Go AST it was printed from",
                           {"id": pid, "src": d.get("src"), "detail": pp[1][:600]})
        gcr = gc.get(pid, ("ok", "", ""))
        if len(gcr) > 2 and gcr[2]:
            # a numeric literal stored at an interface type takes Go's DEFAULT type (`int`, `float64`), which neither the
            # annotated Go AST nor Go.Sem shows: the emitted Go does not behave like the source (a later assertion to the
            # annotated type panics)
            e0 = gcr[2].split(" ;; ")[0]
            parts = e0.split("|", 2)
            ctx.report({"oracle": "go-default-typing", "where": (parts[2] if len(parts) > 2 else "").split(" ")[0]},
                       "a numeric literal is stored at an interface type as an untyped constant: real Go gives it the default type "
                       "(int / float64), not the type of the source literal",
                       {"id": pid, "src": d.get("src"), "error": e0, "function": parts[1] if len(parts) > 1 else ""})
        invalid_go = gcr[0] == "err"
        if invalid_go:
            # not valid Go: whether it is accepted is C02's question; it has no Go behaviour to
            # compare, but everything before the Go back end still has
            n_invalid_go += 1
        if o.get("core") is not None and o["core"][0] == "fuel" or (o.get("src") is not None and o["src"][0] == "fuel"):
            # the source-side run does not finish within the fuel: nothing to compare with.  A LATER
            # stage running out of fuel while the reference finishes is a divergence (e.g. a dropped
            # loop-counter update) and is reported below.
            n_fuel += 1
            continue
        # source meaning: the SURFACE program under SrcSem whenever SrcSem decides; otherwise the
        # earliest stage the dynamic semantics can run (Core unless it needs type-passing dispatch,
        # which shows as `stuck` there), else Mono
        so = o.get("src")
        if so is None:
            why = "no-src-dump:" + (d.get("srcerr") or "?")
        elif so[0].startswith("unsupported"):
            why = so[0]
        elif so[0].startswith("stuck"):
            why = "src-" + so[0]
            if not so[2].strip():
                # (after an uninterpreted extern "go" call nothing is comparable, `stuck` included)
                ctx.broken_ties.append(("SrcSem cannot run the program (model gap)", f"{pid}: {so[0]}"))
            else:
                why = "extern-go-call-result-used"
        else:
            why = None
        if why is None:
            ref_stage = "src"
            n_from_src += 1
            if pid.startswith("gen"):
                n_gen_src += 1
            if pid.startswith(("repo:", "pkg:")):
                n_corpus_src += 1
        else:
            ref_stage = "core" if not o["core"][0].startswith("stuck") else "mono"
            fallback[why] = fallback.get(why, 0) + 1
        n_gen += pid.startswith("gen")
        n_corpus += pid.startswith(("repo:", "pkg:"))
        ref = o[ref_stage]
        ext = bool(ref[2].strip())
        n_extern += ext
        payload = {"id": pid, "src": d.get("src"), "outcomes": {k: {"status": v[0], "stdout": vlib.unesc(v[1])[:400]} for k, v in o.items()},
                   "reference_stage": ref_stage}
        # stage-wise: first stage whose outcome differs from the reference.  Core dumps that need
        # type-passing dispatch are not executable by Sem (`stuck`): the chain then skips Core.
        core_needs_types = o["core"][0].startswith("stuck") and not o["mono"][0].startswith("stuck")
        chain = [st for st in CHAIN[CHAIN.index(ref_stage):]
                 if not (st == "core" and ref_stage == "src" and core_needs_types)
                 and not (st == "go" and invalid_go)]
        div = next((st for st in chain if (o[st][0], o[st][1]) != (ref[0], ref[1])), None)
        if ext:
            # extern "go" calls are uninterpreted events: outputs are not comparable beyond them
            continue
        if ref[0].startswith("stuck"):
            ctx.broken_ties.append(("Sem cannot run the program (model gap)", f"{pid}: {ref[0]}"))
            continue
        if div is None:
            n_agree += 1
        else:
            kind = "stdout-differs" if o[div][0] == ref[0] else f"ends-differently:{ref[0].split(':')[0]}->{o[div][0].split(':')[0]}"
            if o[div][0] == "fuel":
                kind = "does-not-terminate"
            if o[div][0].startswith("stuck"):
                kind = "stage-output-not-executable:" + o[div][0][:60]
            blame = FRONT_END if (ref_stage == "src" and div == chain[1]) else f"the pass that produces {div}"
            pending.append((pid, div, kind, blame, payload, ref_stage))
        if invalid_go:
            continue
        g2 = d.get("go_cap2")
        if g2 is not None and (g2[0], g2[1]) != (o["go"][0], o["go"][1]):
            ctx.report({"oracle": "go-unspecified-behaviour", "kind": "append-shares-backing-array"},
                       "the emitted Go behaves differently depending on the capacity a grown slice gets (two vec_push on one vector share a backing array)",
                       dict(payload, go_tight_capacity=vlib.unesc(o["go"][1])[:300], go_generous_capacity=vlib.unesc(g2[1])[:300]))
        # recorded outputs come from real Go: they validate Go.Sem itself and the whole pipeline
        exp = d.get("expect")
        # a recording that is not a run of the program's intended behaviour: the Go compiler's own
        # error text, or Go's bad-verb marker (the defect fixed by the %g commit, see known_findings)
        if exp is not None and exp.startswith("# command-line-arguments"):
            exp = None
            d["expect"] = None
        if exp is not None and "%!d(float" in exp:
            # recorded before the %g fix: Go wrapped each float as %!d(float32=3.5); the value inside
            # is Go's own %v rendering, which is what the fixed helper prints
            exp = re.sub(r"%!d\(float(?:32|64)=([^)]*)\)", r"\1", exp)
            d["expect"] = exp
        if d.get("expect") is not None and not ext:
            n_exp += 1
            m = expected_matches(pid, d["expect"], o["go"])
            if m:
                n_exp_ok += 1
            else:
                # (the name catalogue carries the output its programs print BY CONSTRUCTION: one signature for the stream)
                ctx.report({"oracle": "output-by-construction", "stream": pid.split(":")[0]} if pid.startswith(BY_CONSTRUCTION) else {"oracle": "recorded-output", "program": pid},
                           "Go.Sem of the emitted Go differs from the output the program prints by construction" if pid.startswith(BY_CONSTRUCTION) else
                           "Go.Sem of the emitted Go differs from the output recorded from real Go",
                           dict(payload, expected=d["expect"][:400]))
            # the same validation for SrcSem: the source meaning must be what real Go printed
            if ref_stage == "src":
                n_exp_src += 1
                if expected_matches(pid, d["expect"], o["src"]):
                    n_exp_src_ok += 1
                else:
                    ctx.report({"oracle": "output-by-construction-src", "stream": pid.split(":")[0]} if pid.startswith(BY_CONSTRUCTION) else {"oracle": "recorded-output-src", "program": pid},
                               "SrcSem of the source program differs from the output the program prints by construction" if pid.startswith(BY_CONSTRUCTION) else
                               "SrcSem of the source program differs from the output recorded from real Go",
                               dict(payload, expected=d["expect"][:400]))
        if len(vlib.unesc(ref[1])) > 0:
            distinct.add(ref[1] + "|" + str(len(d["stages"].get("go", ""))))
        if len(samples) < 3 and pid.startswith("gen"):
            samples.append({"id": pid, "src": (d.get("src") or "")[:600], "stdout": vlib.unesc(ref[1])[:200], "status": ref[0]})
    # attribution: a front-end divergence that disappears when SrcSem runs the initialisers of struct
    # literals in DECLARATION order (semantics parameter `litDeclOrder`) is exactly that choice
    front = [p for p in pending if p[5] == "src" and p[3] == FRONT_END]
    alt = {}
    if front:
        alt = run_sem(ctx, [f"{pid}|src\t{progs[pid]['stages']['src']}" for pid, *_ in front], sub="srcsem", env={"GV_SRC_LITORDER": "decl"})
    for pid, div, kind, blame, payload, ref_stage in pending:
        a = alt.get(f"{pid}|src")
        o = progs[pid]["out"]
        if a is not None and (a[0], a[1]) == (o[div][0], o[div][1]):
            kind = "struct-literal-initialisers-run-in-declaration-order"
            payload = dict(payload, src_with_declaration_order_initialisers={"status": a[0], "stdout": vlib.unesc(a[1])[:400]})
        ctx.report({"oracle": "stagewise", "first_divergent_stage": div, "kind": kind},
                   f"the {div} stage no longer behaves like the {ref_stage} stage ({blame})", dict(payload, blamed=blame))
    # the name catalogue: program / twin pairs
    alpha_cov = alpha_twins(ctx, progs)
    # pipeline composition: composite middle-end model vs the real dumps, fragment of `pipeline_preserves`
    # (of the name catalogue one program per declaring file and spelling, and no twins: the others differ from it in
    # which binder kind goes with which use position / in one identifier, and the composite model costs seconds on each)
    _t0 = _t.time()
    first_of_group = {}
    for k in progs:
        if k.startswith("names:") and k.endswith(":a"):
            first_of_group.setdefault(tuple(k.split(":")[1:3]), k)
    pipe_cov = c01pipe.evaluate(ctx, {k: v for k, v in progs.items() if not k.startswith("names:") or k in first_of_group.values()})
    _ph['c01pipe'] = round(_t.time() - _t0, 1)
    # type soundness of Sem / static dispatch of trait calls on the same real dumps (tools/props/tsound.py)
    from props import tsound
    _t0 = _t.time()
    ts_cov = tsound.evaluate(ctx, progs)
    _ph['tsound'] = round(_t.time() - _t0, 1)
    rejected = sum(1 for d in progs.values() if "reject" in d)
    panics = [d for d in progs.values() if "panic" in d]
    ctx.violations.sort(key=lambda v: len(v[2].get("src") or "x" * 10**6))
    cov = {
        "programs": n_prog, "disagreements_checked": len(ctx.violations),
        "patpos_programs(constructor name in pattern position under a same-spelled local, output by construction)": n_patpos,
        "samples": samples or [{"id": "corpus only"}],
        "evaluations": n_prog * len(CHAIN), "distinct_nontrivial": len(distinct),
        "rule": "one program = 82-program corpus (74 single-file pipeline programs here) + type-directed generated programs over the feature lattice + the name catalogue (a local binder of every kind spelled like a package-level name, in every use position, with fresh-named twins); every accepted program's real "
                "Core/Mono/Lift/ANF dumps run under Sem and its real Go AST under Go.Sem, its real ast::File(s) under SrcSem (the reference); non-trivial = prints something; distinct by stdout and Go size",
        "all_stages_agree": n_agree, "with_recorded_output": n_exp, "recorded_output_reproduced": n_exp_ok,
        "reference_is_source_level(SrcSem)": n_from_src, "reference_fell_back_to_core_or_mono": sum(fallback.values()),
        "fallback_reasons": fallback,
        "repository_corpus_programs_compared": n_corpus, "repository_corpus_programs_compared_from_src": n_corpus_src,
        "generated_programs_compared": n_gen, "generated_programs_compared_from_src": n_gen_src,
        "with_recorded_output_and_src_reference": n_exp_src, "recorded_output_reproduced_by_SrcSem": n_exp_src_ok,
        "derive_expansion_checked": derive_checked,
        "printed_go_parsed_back_to_ast": n_pprint, "fuel_exhausted(skipped)": n_fuel, "rejected_by_gocheck(owned by C02)": n_invalid_go, "programs_with_extern_calls(compared up to events)": n_extern,
        "generator_rejected": rejected, "compiler_panics_seen(owned by C04)": len(panics),
        "generator_features": feats,
        "pipeline_composition": pipe_cov,
        "type_soundness_and_static_dispatch": ts_cov,
        "name_catalogue(local binder spelled like a package-level name, program vs fresh-named twin)": alpha_cov,
    }
    # ---- the Go back end (go/compile.rs): model = implementation, Sem(ANF) vs Go.Sem(Go) on its stream
    _t0 = _t.time()
    gocomp.add_to(ctx, "C01", cov)
    _ph["gocomp"] = round(_t.time() - _t0, 1)
    cov["phases_s"] = _ph
    ctx.assumptions += [
        "SrcSem (lean/GomlVerif/Model/SrcSem.lean) on the real ast::File dumps is the source-level meaning whenever it decides (status not unsupported:…); it is validated, like Go.Sem, by reproducing the outputs recorded from real Go; it starts at ast::File, so CST->AST lowering is trusted here (C11/C12 own it) — except for which names are constructors: a node the lowering tagged as a constructor application whose bare name has a local binder in scope is read as a use / call of that binder (theorems src_local_binder_wins, src_local_callee_wins), and the name catalogue (harness/src/namecat.rs) checks, without any model, that a program whose local binder is spelled like a variant / struct / enum type / function / builtin prints what it must by construction, is accepted and behaves at every stage like its twin with a fresh binder name, and is lowered like that twin up to the name",
        "Sem (lean/GomlVerif/Model/Sem.lean) is the meaning of the IR stages (and the fallback reference); Go.Sem (Model/GoSem.lean) is our reading of the Go spec for the emitted subset, validated against the outputs recorded from real Go",
        "`go`: compared under the schedule that runs a spawned activation to completion at the spawn; real goroutine interleavings are outside the model",
        "floats: Go's shortest float formatting is not modelled; programs printing floats are compared only between stages that share the same formatting function",
        "go_pprint.rs is tied separately: the printed text of every program is parsed back by harness/src/goparse.rs (Go precedence, composite-literal rule) and must equal the AST with expression type annotations erased",
    ]
    ctx.assumptions += c01pipe.ASSUMPTIONS
    ctx.assumptions += tsound.ASSUMPTIONS
    tb = ["Lean 4 (compiled model executable)", "Sem/Go.Sem definitions", "SrcSem definition", "harness/src/dump.rs, godump.rs (IR serialisers)", "harness/src/astdump.rs (ast::File serialiser)", "tools/props/c01.py"]
    return ctx.finish("translation_validation", cov, tb, "gomlmodel srcsem + gomlmodel sem (Lean-compiled SrcSem / Sem / Go.Sem on the real AST and stage dumps)")
