"""C01 pipeline composition (part of `./check C01`): the composite middle-end MODEL `anf ∘ lift ∘ mono`
(lean/GomlVerif/Model/Pipeline.lean) is run on the REAL Core dump of every program of the C01 streams and
compared with the REAL Mono / Lift / ANF dumps of the same compilation (this composes the per-pass exact
ties of C07, C08, C09); the fragment predicate of `pipeline_preserves` (Props/C01pipe.lean) is evaluated on
the same real input and the reasons for lying outside are counted.

A DIFF is a broken tie (model vs implementation), not a violation of C01: whether the real code misbehaves
on that program is decided by c01.py's stage-wise oracle (real dumps under Sem / Go.Sem), which runs on the
same programs in the same check."""
import os, re, subprocess
import vlib

PROP_MODULE = "GomlVerif.Props.C01pipe"
NEEDED = ("core", "mono", "lift", "anf")

def definite(status):
    return status == "ok" or status.startswith("panic:")

def reason_class(r):
    """`mono:fn-ref:inherent#Point#Point#new` -> `mono:fn-ref` (the name is kept in the samples only)"""
    r = r.strip()
    m = re.match(r"(mono:fn-ref):", r)
    if m:
        return m.group(1)
    m = re.match(r"(mono:panic):", r)
    if m:
        return m.group(1)
    return r

ROOT_NOTES = [
    ("call:user-fn-args(closure-env-for-func", "outside by design: a closure environment passed where a function type is declared; the emitted Go is ill-typed (known C02 finding)"),
    ("call:user-fn-result-type(func-for-closure-env", "outside by design: the callee returns a closure environment, the call site is annotated with the function type (cross-package / result-only type parameter); the emitted Go is ill-typed (Go.check: assign-mismatch; known C02 finding)"),
    ("go-const-expr:", "outside by design: an operation on literals whose exact Go constant value is not the wrapping run-time value (Go rejects or rounds it: finding C10); Go.Sem is not faithful to Go there"),
    ("signature:parameter:float", "floats: not in the fragment (Sem / Go.Sem float operations are not related by a theorem)"),
    ("signature:result:float", "floats: not in the fragment"),
    ("literal:float", "floats: not in the fragment"),
    ("call:extern", "extern results are uninterpreted in Sem and Go.Sem (both answer unit whatever the declared type), so the typing invariant of the simulation does not survive the call"),
    ("node:to-dyn(receiver:enum", "trait object of an enum receiver: the wrapper's assertion self.(E) goes through the method-set rule (structImplements); not yet linked"),
    ("match:literal-arms", "closure conversion in an arm (arms of closure-environment type under a function-type annotation): ill-typed Go"),
    ("match:enum-arms", "closure conversion in an arm: ill-typed Go"),
    ("node:array(array)", "closure conversion in an array literal: ill-typed Go"),
    ("if:type", "closure conversion in a branch: ill-typed Go"),
    ("signature:result-type", "closure conversion in the result: ill-typed Go"),
    ("call:other-builtin:", "a runtime builtin outside builtinSig"),
    ("call:missing", "`missing` (non-exhaustive match): Sem's builtin and the runtime function both end in panic:missing; the clause (a sixth call form, compile_aexpr_assign's statement form) is not built yet"),
    ("node:go", "the apply function of the spawned closure is outside the fragment (extern calls)"),
]

def root_note(clause):
    for pre, note in ROOT_NOTES:
        if clause.startswith(pre):
            return note
    return ""

def evaluate(ctx, progs):
    """progs: what c01.collect/evaluate built ({id: {"stages": …, "genv": …, "out": …}}); returns the coverage dict"""
    lines = []
    for pid, d in progs.items():
        st = d.get("stages", {})
        if all(k in st for k in NEEDED) and d.get("genv"):
            # `(prog (file …) (impls …))` for every stage; the model input is the Core one + genv
            cols = [pid, st["core"], d["genv"], st["mono"], st["lift"], st["anf"]]
            # back half: GlobalGoEnv dump, real annotated ANF, real Go AST
            if d.get("goenv") and d.get("aanf") and "go" in st:
                cols += [d["goenv"], d["aanf"], st["go"]]
            lines.append("\t".join(cols))
    cov = {"programs": len(lines)}
    if not lines:
        return cov
    # the composite model + fragment predicates cost ~0.4 s per program: spread the programs over
    # several driver processes (answers are per line, order does not matter)
    from concurrent.futures import ThreadPoolExecutor
    jobs = max(1, min(12, len(lines) // 20 + 1))
    chunks = [lines[i::jobs] for i in range(jobs)]

    def _one(chunk):
        return vlib.srun(["bash", "-c", f"ulimit -s unlimited; exec {vlib.MODEL} c01pipe"], input="\n".join(chunk) + "\n",
                         stdout=subprocess.PIPE, stderr=subprocess.PIPE, text=True, timeout=3000)
    res = {}
    with ThreadPoolExecutor(max_workers=jobs) as ex:
        for p in ex.map(_one, chunks):
            if p.returncode != 0:
                ctx.broken_ties.append(("model driver c01pipe", p.stderr[-1000:]))
            for l in p.stdout.split("\n"):
                f = l.split("\t")
                if len(f) >= 4:
                    res[f[0]] = f[1:] + [""] * (12 - len(f[1:]))
    n = {"EQ": 0, "EQT": 0, "DIFF": 0, "UNSUPPORTED": 0}
    n_in = n_out = n_from_mono = 0
    agree_m = definite_m = 0
    reasons, by_stream = {}, {}
    agree = definite_in = 0
    diffs, samples_out, samples_in = [], [], []
    go_v = {"EQ": 0, "EQA": 0, "DIFF": 0, "UNSUPPORTED": 0}
    n_back = n_e2e = e2e_agree = e2e_def = 0
    e2e_reasons, e2e_samples, e2e_by_stream = {}, [], {}
    e2e_roots, e2e_root_by_prog = {}, {}
    n_dce_ok = n_emit = emit_def = emit_agree = 0
    dce_reasons, emit_samples = {}, []
    for pid, *_ in [l.split("\t", 1) for l in lines]:
        r = res.get(pid)
        if r is None:
            ctx.broken_ties.append(("model driver c01pipe", f"{pid}: no answer"))
            continue
        verdict, detail, infrag, why, stats = r[0], r[1], r[2], r[3], r[4]
        if verdict in ("decode-error", "parse-error", "bad-line"):
            ctx.broken_ties.append(("dump decoder (c01pipe)", f"{pid}: {verdict}"))
            continue
        n[verdict] = n.get(verdict, 0) + 1
        stream = pid.split(":")[0]
        bs = by_stream.setdefault(stream, {"programs": 0, "in_fragment": 0})
        bs["programs"] += 1
        if verdict == "DIFF":
            diffs.append({"id": pid, "detail": detail[:400]})
        if verdict == "UNSUPPORTED" and "mono:panic" in detail:
            # the real `mono` returned, the model says the Rust panics there: model and implementation disagree
            diffs.append({"id": pid, "detail": "model reports a mono panic the implementation did not have: " + detail[:300]})
        # ---- back half (columns 6..9): whole-pipeline model vs the real Go file, end-to-end fragment
        if r[6].startswith("go="):
            n_back += 1
            gv = r[6][3:]
            kind = gv.split(":")[0]
            go_v[kind] = go_v.get(kind, 0) + 1
            if kind == "DIFF" or kind == "decode-error":
                diffs.append({"id": pid, "detail": "whole-pipeline model (Core dump in) vs real go_file output: " + gv[:300]})
            if r[7] == "E2E-IN":
                n_e2e += 1
                e2e_by_stream[stream] = e2e_by_stream.get(stream, 0) + 1
                if len(e2e_samples) < 5:
                    e2e_samples.append(pid)
                o = progs[pid].get("out") or {}
                oc, og = o.get("core"), o.get("go")
                if oc and og and definite(oc[0]):
                    e2e_def += 1
                    if (oc[0], oc[1], oc[2]) == (og[0], og[1], og[2]):
                        e2e_agree += 1
                    elif kind in ("EQ", "EQA") and verdict in ("EQ", "EQT"):
                        ctx.broken_ties.append(("core_to_go_preserves contradicted by evaluation",
                                                f"{pid}: in InE2EFragment, model = real dumps, Sem(core)={oc[0]} Go.Sem(go)={og[0]}"))
            else:
                items = [x.strip() for x in r[8].split(";") if x.strip()] or ["?"]
                for k in items:
                    if k.startswith("go:root:"):
                        continue
                    e2e_reasons[k] = e2e_reasons.get(k, 0) + 1
                # ROOT reason of the back end (round 11): `go:root:<clause>@<function>` = the first failing clause of the
                # deepest callee on the chain of `callee-outside-fragment`s; absent when `main` itself holds the clause
                roots = [k[len("go:root:"):] for k in items if k.startswith("go:root:")]
                mains = [k[len("go:main:"):] + "@main" for k in items if k.startswith("go:main:")]
                others = [k for k in items if k.startswith("go:") and not k.startswith(("go:root:", "go:main:"))]
                rr = (roots or mains or others or [None])[0]
                if rr is not None:
                    clause = rr.rsplit("@", 1)[0]
                    row = e2e_roots.setdefault(clause, {"programs": 0, "of_those_inside_InPipeFragment": 0,
                                                        "note": root_note(clause), "samples": []})
                    row["programs"] += 1
                    if "middle-end" not in items:
                        row["of_those_inside_InPipeFragment"] += 1
                    if len(row["samples"]) < 3:
                        row["samples"].append(pid + " @" + rr.rsplit("@", 1)[-1])
                    e2e_root_by_prog[pid] = rr
            # DCE contract of the compiled file; fragment of `core_to_emitted_go_preserves`
            if r[9] == "dce=OK":
                n_dce_ok += 1
            else:
                for k in sorted({":".join(x.strip().split(":")[::2]) for x in r[11].split(";") if x.strip()}):
                    dce_reasons[k] = dce_reasons.get(k, 0) + 1
            if r[10] == "EMIT-IN":
                n_emit += 1
                if len(emit_samples) < 5:
                    emit_samples.append(pid)
                o = progs[pid].get("out") or {}
                oc, og = o.get("core"), o.get("go")
                if oc and og and definite(oc[0]):
                    emit_def += 1
                    if (oc[0], oc[1], oc[2]) == (og[0], og[1], og[2]):
                        emit_agree += 1
                    elif kind in ("EQ", "EQA") and verdict in ("EQ", "EQT"):
                        ctx.broken_ties.append(("core_to_emitted_go_preserves contradicted by evaluation",
                                                f"{pid}: in InEmitFragment, model = real dumps, Sem(core)={oc[0]} Go.Sem(go)={og[0]}"))
        if infrag == "IN":
            n_in += 1
            bs["in_fragment"] += 1
            if len(samples_in) < 3:
                samples_in.append({"id": pid, "stats": stats})
            # cross-check of the theorem on the real dumps (the real ANF is the model's ANF when the tie holds):
            # a definite Core outcome must be the ANF outcome
            o = progs[pid].get("out") or {}
            oc, oa = o.get("core"), o.get("anf")
            if oc and oa and definite(oc[0]):
                definite_in += 1
                if (oc[0], oc[1], oc[2]) == (oa[0], oa[1], oa[2]):
                    agree += 1
                elif verdict in ("EQ", "EQT"):
                    ctx.broken_ties.append(("pipeline_preserves contradicted by evaluation",
                                            f"{pid}: in InPipeFragment, model ANF = real ANF, Sem(core)={oc[0]} Sem(anf)={oa[0]}"))
        else:
            n_out += 1
            if infrag == "IN-FROM-MONO":
                # fragment of `pipeline_preserves_partial`: chain from the Mono program on
                n_from_mono += 1
                bs["in_fragment_from_mono"] = bs.get("in_fragment_from_mono", 0) + 1
                o = progs[pid].get("out") or {}
                om, oa = o.get("mono"), o.get("anf")
                if om and oa and definite(om[0]):
                    definite_m += 1
                    if (om[0], om[1], om[2]) == (oa[0], oa[1], oa[2]):
                        agree_m += 1
                    elif verdict in ("EQ", "EQT"):
                        ctx.broken_ties.append(("pipeline_preserves_partial contradicted by evaluation",
                                                f"{pid}: in InLiftAnfFragment, model = real dumps, Sem(mono)={om[0]} Sem(anf)={oa[0]}"))
            for w in [x for x in why.split(";") if x.strip()] or ["?"]:
                k = reason_class(w)
                reasons[k] = reasons.get(k, 0) + 1
            if len(samples_out) < 5:
                samples_out.append({"id": pid, "reasons": why})
    for d in diffs[:5]:
        ctx.broken_ties.append(("composite middle-end model differs from the real pipeline (Core dump in, ANF dump out)", f"{d['id']}: {d['detail']}"))
    cov.update({
        "composite_model_eq_real_anf": n["EQ"],
        "eq_up_to_type_annotation_of_a_temporary(C09 EQT)": n["EQT"],
        "diff": n["DIFF"], "unsupported(model mono out of fuel or panicking)": n["UNSUPPORTED"],
        "in_InPipeFragment": n_in, "outside_InPipeFragment": n_out,
        "outside_but_in_InLiftAnfFragment(pipeline_preserves_partial, chain from Mono)": n_from_mono,
        "outside_both": n_out - n_from_mono,
        "outside_reasons(first failing check per conjunct)": dict(sorted(reasons.items(), key=lambda kv: -kv[1])),
        "by_stream": by_stream,
        "in_fragment_with_definite_core_run": definite_in,
        "of_those_real_anf_outcome_equals_core_outcome": agree,
        "from_mono_fragment_with_definite_mono_run": definite_m,
        "of_those_real_anf_outcome_equals_mono_outcome": agree_m,
        "end_to_end": {
            "programs_with_back_half_dumps": n_back,
            "whole_pipeline_model_eq_real_go(Core dump in, emitted Go AST out)": go_v["EQ"],
            "eq_given_the_real_annotations(EQA: closure-typed let/if node, C09 EQT artefact)": go_v["EQA"],
            "diff": go_v["DIFF"], "unsupported(model reaches a go/compile.rs panic)": go_v["UNSUPPORTED"],
            "in_InE2EFragment(core_to_go_preserves speaks about them)": n_e2e,
            "in_InE2EFragment_by_stream": e2e_by_stream,
            "outside_reasons(middle-end = outside InPipeFragment; go:main:… = why main is outside the back end's fragment)": dict(sorted(e2e_reasons.items(), key=lambda kv: -kv[1])),
            "outside_root_reasons(back end; the first failing clause at the deepest callee on the chain of callee-outside-fragment, per program)":
                dict(sorted(e2e_roots.items(), key=lambda kv: -kv[1]["programs"])),
            "outside_root_reason_by_program(clause@function)": e2e_root_by_prog,
            "in_fragment_with_definite_core_run": e2e_def,
            "of_those_real_go_outcome(Go.Sem)_equals_core_outcome(Sem)": e2e_agree,
            "samples_inside": e2e_samples,
            "compiled_files_inside_the_DCE_contract(Dce.fileDceOK)": n_dce_ok,
            "outside_the_DCE_contract_by_failing_clause(programs)": dict(sorted(dce_reasons.items(), key=lambda kv: -kv[1])),
            "in_InEmitFragment(core_to_emitted_go_preserves speaks about them: Core -> emitted Go, no hypotheses)": n_emit,
            "in_InEmitFragment_with_definite_core_run": emit_def,
            "of_those_real_emitted_go_outcome(Go.Sem)_equals_core_outcome(Sem)": emit_agree,
            "samples_in_InEmitFragment": emit_samples,
        },
        "samples_inside": samples_in, "samples_outside": samples_out, "diff_samples": diffs[:5],
    })
    return cov

ASSUMPTIONS = [
    "pipeline composition: `pipeline_preserves` is about the composite MODEL (Model/Pipeline.lean = Mono.mono, Lift.liftFile, Anf.anfFns sequenced as pipeline.rs sequences the passes; order re-extracted every run); "
    "model = implementation is validated per program (composite model on the real Core dump = real Mono, Lift and ANF dumps), not proved; "
    "the Gensym value at the start of the middle end is read off the real output (first `env<N>` / smallest `t<n>`)",
    "pipeline composition: programs outside InPipeFragment (ETraitCall, closure flows outside DirectFlow, …) are covered by the stage-wise translation validation only",
]
