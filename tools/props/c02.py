"""C02 — every accepted program yields Go the Go compiler would accept: Go.Check (Lean) on the
real Go AST of every accepted corpus / generated program."""
import json, os, re, subprocess
import vlib
from props import c01, dce
from props import gocomp
from props import namecat
from props import gopp
from props import deftypes

def classify(detail):
    """type classes in an error detail, so that a finding is keyed by its shape, not by names"""
    d = detail
    d = re.sub(r'Goml\.Go\.GTy\.name "closure_env_[^"]*"', "closure_env_struct", d)
    d = re.sub(r'Goml\.Go\.GTy\.name "[^"]*"', "named", d)
    d = re.sub(r"Goml\.Go\.GTy\.func \[.*?\] \(.*?\)(?= got|$)", "func", d)
    d = re.sub(r"Goml\.Go\.GTy\.func .*?(?= got|$)", "func", d)
    d = re.sub(r"Goml\.Go\.GTy\.int \d+ (true|false)", "int", d)
    d = re.sub(r"Goml\.Go\.GTy\.(\w+)", r"\1", d)
    d = re.sub(r"\b(assign|var) [\w_]+:", r"\1:", d)
    d = re.sub(r"field [\w_.]+:", "field:", d)
    return d

gocheck = c01.gocheck

def _replay_is_dce(path):
    try:
        return json.load(open(path)).get("signature", {}).get("source") == "dce"
    except Exception:
        return False


def _replay_is_names(path):
    try:
        return json.load(open(path)).get("signature", {}).get("oracle") == "name-test"
    except Exception:
        return False


def _replay_is_deftypes(path):
    try:
        return json.load(open(path)).get("signature", {}).get("oracle") == "definition-only-type"
    except Exception:
        return False


def run(ctx):
    ctx.extract()
    mods = [m for m in ["GomlVerif.Props.C02", dce.PROP_MODULE, gocomp.PROP_MODULE, gopp.PROP_MODULE, gopp.LEX_MODULE] if os.path.exists(os.path.join(vlib.LEAN, m.replace(".", "/") + ".lean"))]
    ctx.build_lean(mods)
    if not ctx.build_harness():
        return ctx.finish("translation_validation", {"programs": 0, "disagreements_checked": 0, "samples": []}, [], "lake build")
    progs, feats = c01.collect(ctx)
    lines = [f"{pid}\t{d['stages']['go']}" for pid, d in progs.items() if "go" in d["stages"]]
    res = gocheck(ctx, lines)
    n = n_ok = n_pprint = 0
    samples, distinct, codes = [], set(), {}
    for pid, d in progs.items():
        if "go" not in d["stages"]:
            continue
        n += 1
        # the text the user's `go build` sees: go_pprint.rs output must parse (Go's lexical rules incl.
        # automatic semicolons, precedence, composite-literal rule) back to the AST that is checked here
        pp = d.get("pprint")
        if pp is not None:
            n_pprint += 1
            if pp[0] != "ok":
                ctx.report({"oracle": "go-printer", "kind": pp[0]},
                           "the printed Go text does not parse back to the Go AST it was printed from (go build would reject or misread it)",
                           {"id": pid, "src": d.get("src"), "detail": pp[1][:600]})
        r = res.get(pid)
        if r is None or r[0] in ("decode-error", "parse-error"):
            ctx.broken_ties.append(("gocheck driver", f"{pid}: {r}"))
            continue
        distinct.add(len(d["stages"]["go"]))
        if r[0] == "ok":
            n_ok += 1
            if len(samples) < 2 and pid.startswith("gen"):
                samples.append({"id": pid, "src": (d.get("src") or "")[:500], "gocheck": "ok"})
            continue
        seen = set()
        for e in r[1].split(" ;; "):
            parts = e.split("|", 2)
            code, site, detail = parts[0], parts[1] if len(parts) > 1 else "", parts[2] if len(parts) > 2 else ""
            if code == "assign-mismatch":
                shape = classify(detail)
            elif code in ("unused-variable", "redeclared"):
                shape = ""
            elif code == "undeclared":
                # which kind of generated name is missing (type of a dyn struct, helper, temporary, …)
                shape = ("dyn-struct" if "dyn__" in detail else "closure" if "closure_env" in detail else "other")
            elif code in ("no-such-field", "literal-of-undeclared-type", "field-of-non-struct"):
                shape = ("dyn-struct" if "dyn__" in detail else "closure-env" if "closure_env" in detail else "other")
            else:
                shape = detail
            sig = {"oracle": "gocheck", "code": code, "shape": shape}
            key = (code, shape)
            codes[code] = codes.get(code, 0) + 1
            if key in seen:
                continue
            seen.add(key)
            ctx.report(sig, f"emitted Go is rejected by Go's rules: {code} {shape}",
                       {"id": pid, "src": d.get("src"), "error": e, "function": site})
    # ---- dead-code elimination (go/dce.rs): model = implementation, Go's rules on its real output
    dce_cov = None
    # (Ctx.__init__ reads the replay file's signature and then clears replays/<pid>-*.json: ask the context, not the file)
    if not ctx.replay or (ctx.replay_signature or {}).get("source") == "dce" or _replay_is_dce(ctx.replay):
        dce_cov, found = dce.evaluate(ctx)
        for sig, what, payload in dce.split_for_properties(found)[0]:
            ctx.report(sig, what, payload)
    # ---- the name-test catalogue: every kind of user-named item x every name the back end tests for x every
    # relation (equal / prefix / suffix / infix / case): the real Go of each accepted program under Go.Check
    names_cov = None
    if not ctx.replay or (ctx.replay_signature or {}).get("oracle") == "name-test" or _replay_is_names(ctx.replay):
        names_cov, found = namecat.evaluate(ctx, classify)
        for sig, what, payload in found:
            ctx.report(sig, what, payload)
    # ---- the definition-only type catalogue: every kind of type whose Go spelling names a declaration x every place a
    # type can be written without a function mentioning it: the real Go of each accepted program under Go.Check
    deftypes_cov = None
    if not ctx.replay or _replay_is_deftypes(ctx.replay):
        deftypes_cov, found = deftypes.evaluate(ctx)
        for sig, what, payload in found:
            ctx.report(sig, what, payload)
    ctx.violations.sort(key=lambda v: len(v[2].get("src") or v[2].get("input") or "x" * 10**6))
    cov = {
        "programs": n, "disagreements_checked": len(ctx.violations), "samples": samples or [{"id": "corpus"}],
        "evaluations": n + (names_cov or {}).get("accepted", 0), "distinct_nontrivial": len(distinct) + (names_cov or {}).get("accepted", 0),
        "rule": "every accepted corpus and generated program's real goast::File checked by Go.Check; distinct by Go size; plus the accepted programs of the name-test catalogue (one per item kind x relation x stem, all distinct)",
        "printed_go_text_parsed_back": n_pprint, "accepted_by_gocheck": n_ok, "error_codes": codes, "generator_features": feats,
        "dce": dce_cov,
        "name_tests": names_cov,
        "definition_only_types": deftypes_cov,
    }
    # ---- the Go back end (go/compile.rs): model = implementation, go_file does not panic
    gocomp.add_to(ctx, "C02", cov)
    # ---- the Go printer (pprint/go_pprint.rs): model = implementation byte for byte; oracle rows go-printer-model
    gopp.add_to(ctx, "C02", cov)
    ctx.assumptions += [
        "Go.Check (lean/GomlVerif/Model/GoCheck.lean) is our reading of the Go rules for the emitted subset; it accepts the corpus programs real Go accepted and rejects 058 as real Go did",
        "Go.Check judges the goast; the pretty-printed text (go_pprint.rs) is tied to that AST by parsing it back with harness/src/goparse.rs (our reading of Go's lexical grammar: automatic semicolon insertion, operator precedence, composite-literal restriction)",
        "extern \"go\" items are typed from their declared goml signature only",
    ]
    tb = ["Lean 4 (compiled Go.Check)", "harness/src/godump.rs", "tools/props/c02.py", "harness/src/gopp.rs", "tools/props/gopp.py"]
    return ctx.finish("translation_validation", cov, tb, "gomlmodel gocheck")
