"""C03 — acceptance is type-sound: every stage output is well-typed and closed.

Oracle (on the implementation's own outputs): the Lean checker `Wt.errs` (Model/Wt.lean) and the
closedness predicates (Model/Closed.lean) run on every REAL Core / Mono / Lift / ANF dump of every
accepted corpus / generated program, each with the signature environment of its stage dumped from
genv / monoenv / liftenv; the annotations the dumps drop are cross-checked by the harness; and an
ill-typed stream — one type error injected at one forced position of a well-typed generated program
(plus hand-written programs around array lengths, fields, arguments; the deterministic catalogues `arity:` — a wrong
argument COUNT at every call form — and `argtype:` — a wrong argument TYPE at every argument position of every call
form, harness/src/c03arity.rs / c03argty.rs) — must be rejected by the real compiler in the typer stage (not accepted,
not a panic, not a later stage).
The theorems (Props/C03.lean) are about the same `Wt`/`Closed` definitions and the model of mono.
"""
import os, re, subprocess
import vlib
from props import unify as unify_stream
from props import infer as infer_stream

STAGES = ["core", "mono", "lift", "anf"]


def run_model(ctx, lines):
    p = vlib.srun(["bash", "-c", f"ulimit -s unlimited; exec {vlib.MODEL} c03"], input="\n".join(lines) + "\n",
                       stdout=subprocess.PIPE, stderr=subprocess.PIPE, text=True, timeout=3000)
    res = {}
    for l in p.stdout.split("\n"):
        f = l.split("\t")
        if len(f) >= 2:
            res[f[0]] = f[1:]
    if p.returncode != 0:
        ctx.broken_ties.append(("model driver c03", p.stderr[-1000:]))
    return res


def family(err):
    """an inconsistency whose two sides are a function type and a closure-environment struct (or two
    different closure structs) comes from one decision of lambda lifting: closures become structs
    while the positions they flow through keep their function types"""
    kind, _, detail = err.partition("|")
    if "closure-env" in detail:
        return "closure-struct-vs-function-type"
    return None


PRES_PASSES = [("mono", "core", "mono"), ("lift", "mono", "lift"), ("anf", "lift", "anf")]     # (pass, input stage, output stage)


def run_pres(ctx, progs):
    """hypotheses and conclusions of the preservation theorems (Props/C03pres.lean) on the REAL stage dumps:
    the pass model is run on the real input dump of the pass and compared with the real output dump (tie),
    the decidable side conditions are evaluated per function, and `hypothesis and input judgement => output
    judgement` is re-evaluated (a counter-instance is a broken proof, not a defect of the compiler)"""
    lines = []
    for k, d in progs.items():
        if "ill" in d:
            continue
        for pas, a, b in PRES_PASSES:
            if a in d["wt"] and b in d["wt"]:
                lines.append(f"{k}|{pas}\t(pres {pas} {d['wt'][a]} {d['wt'][b]})")
    agg = {}
    if not lines:
        return agg
    p = vlib.srun(["bash", "-c", f"ulimit -s unlimited; exec {vlib.MODEL} c03pres"], input="\n".join(lines) + "\n",
                  stdout=subprocess.PIPE, stderr=subprocess.PIPE, text=True, timeout=3000)
    if p.returncode != 0:
        ctx.broken_ties.append(("model driver c03pres", p.stderr[-1000:]))
    seen = 0
    for l in p.stdout.split("\n"):
        f = l.split("\t")
        if len(f) < 3:
            continue
        seen += 1
        if f[1] in ("parse-error", "decode-error"):
            ctx.broken_ties.append(("c03pres driver", f"{f[0]}: {f[1]}"))
            continue
        pas = f[1]
        a = agg.setdefault(pas, {"programs": 0})
        a["programs"] += 1
        kv = dict(x.split("=", 1) for x in f[2:] if "=" in x)
        for key, v in kv.items():
            if key == "tie":
                a["tie_" + v] = a.get("tie_" + v, 0) + 1
                if v not in ("EQ", "EQT"):
                    ctx.broken_ties.append((f"c03pres {pas} tie", f"{f[0]}: model output differs from the real {pas} dump"))
            elif key in ("contra", "closed_contra", "scoped_contra"):
                if v.strip():
                    ctx.broken_ties.append((f"c03pres {pas} theorem instance",
                                            f"{f[0]}: hypotheses hold but the conclusion evaluates to false for {v} ({key})"))
            elif key == "unscoped_real":
                if v.strip():
                    k0 = f[0].rsplit("|", 1)[0]
                    ctx.report({"oracle": "scoped", "pass": pas},
                               f"the real {pas} output mentions a variable that no binder binds although the pass input is scope-closed "
                               f"and inside the pass hypothesis (functions: {v})",
                               {"id": k0, "src": progs.get(k0, {}).get("src"), "functions": v})
            elif key == "judge_diff":
                if v.strip():
                    ctx.broken_ties.append((f"c03pres {pas} tie", f"{f[0]}: the model's output and the real {pas} dump are judged "
                                                                   f"differently by Wt for {v}"))
            elif key == "not_in_hyp":
                if v.strip():
                    a.setdefault("programs_with_a_function_outside_the_hypothesis", []).append(f"{f[0]}: {v}")
            elif key == "start":
                continue
            else:
                try:
                    a[key] = a.get(key, 0) + int(v)
                except ValueError:
                    pass
    if seen != len(lines):
        ctx.broken_ties.append(("c03pres driver", f"{len(lines)} cases sent, {seen} answered"))
    for a in agg.values():
        if "programs_with_a_function_outside_the_hypothesis" in a:
            lst = a["programs_with_a_function_outside_the_hypothesis"]
            a["programs_with_a_function_outside_the_hypothesis"] = {"count": len(lst), "first": lst[:5]}
    return agg


def run_pres_match(ctx):
    """`matchc_preserves_closed` on the REAL match sites: `gv c06` dumps every pattern matrix the compiler's
    match compiler was given (corpus, generated programs, generated matrices) with the Core it emitted;
    `gomlmodel c03presmatch` evaluates the decidable hypotheses on the matrix, closedness of the model's tree
    (the conclusion) and closedness of the REAL Core expression (implementation-level oracle)."""
    ok, out = ctx.gv("c06")
    tsv = os.path.join(ctx.run_dir, "c06.cases.tsv")
    if not ok or not os.path.exists(tsv):
        ctx.broken_ties.append(("gv c06 (for c03presmatch)", (out or "")[-500:]))
        return {}, {}
    p = vlib.srun(["bash", "-c", f"ulimit -s unlimited; exec {vlib.MODEL} c03presmatch"], stdin=open(tsv),
                  stdout=subprocess.PIPE, stderr=subprocess.PIPE, text=True, timeout=3000)
    if p.returncode != 0:
        ctx.broken_ties.append(("model driver c03presmatch", p.stderr[-1000:]))
    a = {"sites": 0}
    open_real = {}
    for l in p.stdout.split("\n"):
        f = l.split("\t")
        if len(f) < 3:
            if l.startswith("#") or (len(f) == 2 and "error" in f[1]):
                ctx.broken_ties.append(("c03presmatch driver", l[:200]))
            continue
        a["sites"] += 1
        kv = dict(x.split("=", 1) for x in f[1:] if "=" in x)
        for key in ("hyp", "closed_model", "closed_real", "contra"):
            a[key] = a.get(key, 0) + int(kv.get(key, "0"))
        a["model_" + kv.get("model", "?")] = a.get("model_" + kv.get("model", "?"), 0) + 1
        a["real_" + kv.get("real", "?")] = a.get("real_" + kv.get("real", "?"), 0) + 1
        if kv.get("contra") == "1":
            ctx.broken_ties.append(("c03presmatch theorem instance", f"{f[0]}: hypotheses hold but the model's tree is open"))
        if kv.get("real") == "core" and kv.get("closed_real") == "0":
            open_real[f[0]] = kv
        if kv.get("hyp") == "0":
            a.setdefault("sites_outside_the_hypothesis", []).append(f[0])
    if "sites_outside_the_hypothesis" in a:
        lst = a["sites_outside_the_hypothesis"]
        a["sites_outside_the_hypothesis"] = {"count": len(lst), "first": lst[:5]}
    return a, open_real


def collect(ctx):
    prog = os.path.join(ctx.run_dir, "c03.progress")
    if os.path.exists(prog):
        os.remove(prog)
    ok, out = ctx.gv("c03")
    if not ok and os.path.exists(prog):
        # the process died while the typer was on this hand-written ill-typed program (stack overflow)
        cid, kind, esrc = (open(prog).read().rstrip("\n").split("\t") + ["", ""])[:3]
        ctx.report({"oracle": "ill-typed", "kind": kind, "outcome": "abort"},
                   "an ill-typed program kills the compiler process (stack overflow in the typer)",
                   {"id": cid, "src": vlib.unesc(esrc), "harness_output": out[-300:]})
    rows = vlib.read_tsv(os.path.join(ctx.run_dir, "c03.cases.tsv")) if ok else []
    progs, feats, kinds = {}, "", ""
    for r in rows:
        if r[0] == "#FEATS":
            feats = r[1] if len(r) > 1 else ""
            continue
        if r[0] == "#KINDS":
            kinds = r[1] if len(r) > 1 else ""
            continue
        d = progs.setdefault(r[0], {"wt": {}, "ann": {}})
        k = r[1]
        if k == "SRC":
            d["src"] = vlib.unesc(r[2])
        elif k == "WT":
            d["wt"][r[2]] = r[3]
        elif k == "GO":
            d["go"] = r[2]
        elif k == "SIGTPARAMS":
            d["sigtparams"] = set(r[2].split()) if len(r) > 2 else set()
        elif k == "TPARAMS":
            d["tparams"] = set(r[2].split()) if len(r) > 2 else set()
        elif k == "ANN":
            d["ann"][r[2]] = (int(r[3]), r[4] if len(r) > 4 else "")
        elif k == "ILL":
            d["ill"] = {"kind": r[2], "site": r[3], "outcome": r[4], "stage": r[5] if len(r) > 5 else "",
                        "message": vlib.unesc(r[6]) if len(r) > 6 else ""}
        elif k == "ILLU":
            d["illu"] = {"aim": r[2], "hit": r[3] == "hit", "classes": r[5].split() if len(r) > 5 else []}
        elif k in ("PANIC", "REJECT"):
            d[k.lower()] = (r[2], vlib.unesc(r[3]) if len(r) > 3 else "")
        elif k == "DONE":
            d["done"] = True
    return progs, feats, kinds


def arity_oracle(ctx, progs, res):
    """argument COUNT (harness/src/c03arity.rs), model-free: (a) `CALLN` rows — at every call / dyncall /
    traitcall / constr node of every REAL stage dump of every accepted program the number of written
    arguments equals the number of parameters of the callee's own annotation and of the declaration it
    names; (b) the `arity:` catalogue is complete (every call form has accepted twins) — its variants are
    judged by the ill-typed oracle in run(); (c) an ACCEPTED wrong-count variant must be flagged by the
    count oracle and by `Wt.errs` on its Core dump (otherwise those two are blind: tie broken)."""
    calln, summary = {}, None
    path = os.path.join(ctx.run_dir, "c03.cases.tsv")
    for r in (vlib.read_tsv(path) if os.path.exists(path) else []):
        if len(r) >= 5 and r[1] == "CALLN":
            calln.setdefault(r[0], {})[r[2]] = (int(r[3]), int(r[4]), vlib.unesc(r[5]) if len(r) > 5 else "")
        elif r[0] == "#ARITY":
            summary = r[1:]
    n_nodes = n_dumps = 0
    for k, st_rows in calln.items():
        d = progs.get(k, {})
        seen = set()
        for st in STAGES:
            if st not in st_rows:
                continue
            n, nbad, detail = st_rows[st]
            n_nodes += n
            n_dumps += 1
            if not nbad or "ill" in d:
                continue
            for item in detail.split(" ;; "):
                kind = re.sub(r"\d+", "N", item.split("|")[0])
                if kind in seen:
                    continue      # carried over from an earlier stage
                seen.add(kind)
                ctx.report({"oracle": "call-count", "first_stage": st, "kind": kind},
                           f"a call in the {st} dump of an accepted program does not have the number of arguments its callee declares: {item}",
                           {"id": k, "src": d.get("src"), "stage": st, "calls": detail[:600]})
    forms = {}
    if summary is None or len(summary) < 2 or summary[0] == "no-environment":
        ctx.broken_ties.append(("arity catalogue", f"the harness did not produce the argument-count catalogue: {summary}"))
    else:
        for item in summary[1].split():
            name, _, ab = item.rpartition("=")
            a, _, b = ab.partition("/")
            forms[name] = int(a)
            if int(a) == 0:
                ctx.broken_ties.append(("arity catalogue", f"no accepted twin for call form {name}: the catalogue no longer exercises it"))
    n_acc = n_flagged = 0
    for k, d in progs.items():
        ill = d.get("ill")
        if not ill or not ill["kind"].startswith("arity:") or ill["outcome"] != "accepted":
            continue
        n_acc += 1
        core = calln.get(k, {}).get("core", (0, 0, ""))
        wt = (res.get(f"{k}|core") or ["?"])[0]
        if core[1] > 0 and wt not in ("wt", "?"):
            n_flagged += 1
        else:
            ctx.broken_ties.append(("argument count", f"{k}: accepted with a wrong argument count, but the Core dump is not flagged "
                                    f"(count oracle: {core[1]} bad call(s); Wt: {wt})"))
    return {"call_nodes_counted": n_nodes, "stage_dumps_counted": n_dumps,
            "catalogue": (summary[0] if summary else ""), "catalogue_cases_per_call_form": forms,
            "accepted_wrong_count_variants": n_acc, "of_which_flagged_by_count_oracle_and_Wt_on_Core": n_flagged}


def argty_oracle(ctx, progs, res):
    """argument TYPE (harness/src/c03argty.rs): (a) the `argtype:` catalogue is complete — every call form of the
    call-form catalogue that has an argument position whose type the call fixes has accepted twins (its variants are
    judged by the ill-typed oracle in run(): accepted / panic / rejected outside the typer are violations);
    (b) an ACCEPTED wrong-type variant must be flagged by `Wt.errs` on its Core dump — otherwise the judgement that
    every accepted program's dumps go through is blind to a wrong argument type: tie broken."""
    summary = None
    path = os.path.join(ctx.run_dir, "c03.cases.tsv")
    for r in (vlib.read_tsv(path) if os.path.exists(path) else []):
        if r[0] == "#ARGTY":
            summary = r[1:]
    forms = {}
    if summary is None or len(summary) < 2 or summary[0] == "no-environment":
        ctx.broken_ties.append(("argument-type catalogue", f"the harness did not produce the argument-type catalogue: {summary}"))
    else:
        for item in summary[1].split():
            name, _, ab = item.rpartition("=")
            a, _, b = ab.partition("/")
            forms[name] = int(a)
            if int(a) == 0:
                ctx.broken_ties.append(("argument-type catalogue", f"no accepted twin for call form {name}: the catalogue no longer exercises it"))
        if len(forms) < 40:
            ctx.broken_ties.append(("argument-type catalogue", f"only {len(forms)} call forms in the catalogue (expected every form of c03arity.rs::sites with an argument)"))
    n_acc = n_flagged = 0
    for k, d in progs.items():
        ill = d.get("ill")
        if not ill or not ill["kind"].startswith("argtype:") or ill["outcome"] != "accepted":
            continue
        n_acc += 1
        wt = (res.get(f"{k}|core") or ["?"])[0]
        if wt not in ("wt", "?"):
            n_flagged += 1
        else:
            ctx.broken_ties.append(("argument type", f"{k}: accepted with a wrong argument type, but Wt.errs does not flag the Core dump (Wt: {wt})"))
    return {"catalogue": (summary[0] if summary else ""), "catalogue_cases_per_call_form": forms,
            "accepted_wrong_type_variants": n_acc, "of_which_flagged_by_Wt_on_Core": n_flagged}


def run(ctx):
    ctx.extract()
    ctx.build_lean([m for m in ("GomlVerif.Props.C03", "GomlVerif.Props.C03pres", "GomlVerif.Props.C03Arity", "GomlVerif.Props.C03ArgTy",
                                "GomlVerif.Props.Unify", "GomlVerif.Props.Solve", "GomlVerif.Props.Infer")
                    if os.path.exists(os.path.join(vlib.LEAN, m.replace(".", "/") + ".lean"))])
    if not ctx.build_harness():
        return ctx.finish("proof", {"evaluations": 0, "distinct_nontrivial": 0}, [], "lake build")
    progs, feats, kinds = collect(ctx)
    res = run_model(ctx, [f"{k}|{st}\t{sx}" for k, d in progs.items() for st, sx in d["wt"].items()])

    pres = run_pres(ctx, progs)
    pres["matchc"], open_sites = run_pres_match(ctx)
    for sid, kv in sorted(open_sites.items())[:20]:
        ctx.report({"oracle": "match-output-closed", "stage": "core"},
                   "the expression the match compiler emitted for a match site mentions a variable that no enclosing binder binds",
                   {"id": sid, "site": kv})

    n_dumps = n_wt = n_closed = 0
    per_stage = {st: [0, 0] for st in STAGES}
    n_let_ann = 0
    later_panics = {}
    distinct, samples = set(), []
    for k, d in progs.items():
        src = d.get("src")
        seen = set()
        for st in STAGES:
            if st not in d["wt"]:
                continue
            r = res.get(f"{k}|{st}")
            if r is None or r[0] in ("parse-error", "decode-error"):
                ctx.broken_ties.append(("wt driver", f"{k}|{st}: {r}"))
                continue
            n_dumps += 1
            per_stage[st][0] += 1
            if "ill" in d:
                continue   # an accepted ill-typed variant: reported below with what its dumps look like
            if r[0] == "wt":
                n_wt += 1
                per_stage[st][1] += 1
            else:
                errs = set()
                for item in r[2].split(" ;; "):
                    if " => " in item:
                        errs.update(item.split(" => ", 1)[1].split(", "))
                for e in sorted(errs):
                    fam = family(e)
                    kind, _, detail = e.partition("|")
                    if kind == "var:unbound":
                        detail = ""     # the name of the missing function is not part of the defect's identity
                    key = fam or (kind, detail)
                    if key in seen:
                        continue       # the same inconsistency carried over from an earlier stage
                    seen.add(key)
                    sig = {"oracle": "wt", "first_stage": st, "family": fam} if fam else \
                          {"oracle": "wt", "first_stage": st, "kind": kind, "detail": detail}
                    ctx.report(sig, f"the {st} dump is not type-consistent: {e}", {"id": k, "src": src, "stage": st, "functions": r[2][:600]})
            if st != "core":
                if r[1] == "closed":
                    n_closed += 1
                else:
                    kindset = set()
                    for item in r[3].split(" ;; "):
                        for kk in item.rsplit(":", 1)[-1].split(","):
                            m = re.match(r"param-in-type-definition\((.*)\)", kk)
                            if m:
                                # phantom parameter (occurs in no function signature): the known finding `param`
                                names = set(m.group(1).split("+"))
                                kk = "param" if not (names & d.get("sigtparams", set())) else "param-in-type-definition"
                            kindset.add(kk)
                    for kk in sorted(kindset):
                        if ("closed", kk) in seen:
                            continue
                        seen.add(("closed", kk))
                        ctx.report({"oracle": "closed", "first_stage": st, "residue": kk},
                                   f"the {st} dump still contains a {kk}", {"id": k, "src": src, "functions": r[3][:400]})
            # annotations the dump drops
            n, detail = d["ann"].get(st, (0, ""))
            nodes = [x for x in detail.split(",") if x]
            n_let_ann += nodes.count("let")
            for node in sorted(set(nodes) - {"let"}):
                if "closure-env" in node:
                    key = "closure-struct-vs-function-type"
                    if key not in seen:
                        seen.add(key)
                        ctx.report({"oracle": "wt", "first_stage": st, "family": key},
                                   f"the {st} dump is not type-consistent: {node}", {"id": k, "src": src, "stage": st})
                    continue
                ctx.report({"oracle": "dropped-annotation", "first_stage": st, "node": node},
                           f"the type stored on a {node} node of the {st} IR differs from the type of the sub-expression it repeats",
                           {"id": k, "src": src})
        # the emitted Go: no type may be a type parameter of the source, or an instance named after one
        if d.get("go") and d.get("tparams") and "ill" not in d:
            declared = set(re.findall(r"\((?:enum|struct) ([^\s()]+) ", d["wt"].get("core", "")))
            # (type parameters that occur in no function signature are phantom: the known finding covers them)
            tps = (d["tparams"] - declared) & d.get("sigtparams", set())
            bad = sorted({n for n in re.findall(r"\(name ([^\s()]+)\)", d["go"]) if any(seg in tps for seg in re.split(r"__", n))})
            if bad and ("closed", "go") not in seen:
                ctx.report({"oracle": "closed", "first_stage": "go" if not any(x[0] == "closed" for x in seen if isinstance(x, tuple)) else "earlier", "residue": "type-parameter-in-go-type-name"},
                           "the emitted Go mentions a type that is a type parameter of the source program (or an instance named after one)",
                           {"id": k, "src": src, "go_type_names": bad[:8]})
        if "panic" in d and "ill" not in d:
            later_panics[d["panic"][0]] = later_panics.get(d["panic"][0], 0) + 1
        if d["wt"] and "ill" not in d:
            distinct.add(len(d["wt"].get("core", "")))
            if len(samples) < 2 and k.startswith("gen"):
                samples.append({"id": k, "src": (src or "")[:500], "stages_checked": sorted(d["wt"])})

    # ------------------------------------------------------------------ ill-typed stream
    n_ill = n_ill_ok = n_base_rej = 0
    ill_kinds = {}
    for k, d in progs.items():
        ill = d.get("ill")
        if not ill:
            continue
        if ill["outcome"] in ("base-rejected", "not-injected"):
            n_base_rej += 1
            continue
        n_ill += 1
        ill_kinds[ill["kind"]] = ill_kinds.get(ill["kind"], 0) + 1
        payload = {"id": k, "src": d.get("src"), "injected": ill["site"], "kind": ill["kind"], "outcome": ill["outcome"],
                   "stage": ill["stage"], "message": ill["message"][:300]}
        if ill["outcome"] == "rejected" and ill["stage"] == "typer":
            n_ill_ok += 1
            if len(samples) < 4:
                samples.append({"id": k, "injected": ill["site"], "diagnostic": ill["message"][:160]})
        elif ill["outcome"] == "accepted":
            dumps = {st: (res.get(f"{k}|{st}") or ["?"])[0] for st in d["wt"]}
            ctx.report({"oracle": "ill-typed", "kind": ill["kind"], "outcome": "accepted"},
                       "a program with one injected type error is accepted", dict(payload, wt_of_its_dumps=dumps))
        elif ill["outcome"] == "panic":
            ctx.report({"oracle": "ill-typed", "kind": ill["kind"], "outcome": "panic", "stage": ill["stage"]},
                       "a program with one injected type error makes the compiler panic", payload)
        else:
            ctx.report({"oracle": "ill-typed", "kind": ill["kind"], "outcome": "rejected-outside-the-typer", "stage": ill["stage"]},
                       "a program with one injected type error is rejected, but not by the typer", payload)
    arity_cov = arity_oracle(ctx, progs, res)
    # ------------------------------------------------------------------ the unifier: scripts on the real Typer vs the model
    uni = unify_stream.run(ctx)
    sol = unify_stream.run_solve(ctx)
    inf = infer_stream.run(ctx)
    # programs whose rejection goes through each diagnostic class of `unify` (rows ILLU of the ill-typed stream)
    prog_classes, prog_miss = {}, []
    for k, d in progs.items():
        u = d.get("illu")
        if not u:
            continue
        for c in set(u["classes"]) - {"other"}:
            prog_classes[c] = prog_classes.get(c, 0) + 1
        if not u["hit"]:
            prog_miss.append(k)
    if prog_miss:
        ctx.broken_ties.append(("illu programs", "no diagnostic of the aimed unify class: " + ", ".join(prog_miss[:6])))
    ctx.violations.sort(key=lambda v: len(v[2].get("src") or v[2].get("script") or "x" * 10**6))
    cov = {
        "evaluations": n_dumps + n_ill + uni.get("unify_steps", 0) + sol.get("queues", 0) + inf.get("functions_compared", 0),
        "distinct_nontrivial": len(distinct) + len(ill_kinds) + uni.get("distinct_unify_steps", 0) + sol.get("distinct(diagnostics, kinds, left-over)", 0)
                               + inf.get("distinct(generation diagnostics, solve diagnostics, constraint kinds, queue length, fresh keys)", 0),
        "rule": "one evaluation = one real stage dump of an accepted program checked by Wt.errs/Closed, or one ill-typed variant compiled by the "
                "real compiler, or one `unify` step run on the real Typer and on the model; programs: 74 corpus programs, witnesses under corpus/C03 and C07, generated programs (C01's generator incl. the "
                "rich-generics library); distinct by Core size / by kind of injected error / by (class, both argument types) of a unify step",
        "samples": samples or [{"id": "corpus only"}],
        "stage_dumps_checked": n_dumps, "stage_dumps_well_typed": n_wt,
        "per_stage(checked, well-typed)": per_stage, "dumps_after_mono_closed": n_closed,
        "let_annotations_that_hold_the_bound_type(not a dump field, not read by any pass)": n_let_ann,
        "ill_typed_variants": n_ill, "ill_typed_rejected_by_typer": n_ill_ok, "ill_typed_kinds": ill_kinds,
        "ill_typed_skipped(base program rejected)": n_base_rej,
        "panics_in_later_stages(owned by C04)": later_panics,
        "pass_preservation(per pass: functions; inside the decidable hypothesis; input judged wt; theorem applicable; "
        "output of the MODEL pass judged wt; real output judged wt; closedness in / in and out)": pres,
        "generator_features": feats, "injection_kinds": kinds,
        "unifier(real Typer::unify/norm driven through the goml_verif hook, vs Model/Unify.lean)": uni,
        "unify_diagnostic_classes_reached_by_whole_programs(class: programs)": prog_classes,
        "solver(real Typer::solve on generated constraint queues, vs Model/Solve.lean)": sol,
        "constraint_generation(real typecheck_fn observed through the goml_verif hook on generated function bodies, vs Model/Infer.lean)": inf,
        "impl_oracle_failures": len(ctx.violations) + sum(h["count"] for h in ctx.known_hits), "model_diffs": uni.get("model_diffs", 0) + sol.get("model_diffs", 0) + inf.get("model_diffs", 0),
    }
    cov["argument_count(c03arity.rs)"] = arity_cov
    # round 11: soundness of Sem w.r.t. Wt — the decidable hypothesis of `sem_preserves_types_partial` and the static-dispatch
    # oracle on the real Core / Mono dumps of the C01 streams (tools/props/tsound.py)
    from props import tsound
    cov["type_soundness_of_Sem(sem_preserves_types_partial, traitcall_static_dispatch)"] = tsound.collect_and_evaluate(ctx)
    ctx.assumptions += tsound.ASSUMPTIONS
    cov["argument_type(c03argty.rs)"] = argty_oracle(ctx, progs, res)
    ctx.assumptions += [
        "Wt.errs (Model/Wt.lean) is our statement of type consistency of the IR; the signature environment is dumped from the real genv/monoenv/liftenv",
        "a callee annotation with the wildcard array length (array_get/array_set) is read as 'any length', as the typer's unifier does",
        "let/if/while/go/prim annotations are not in the dump; the harness checks if/while/go/prim against the sub-expression; the let field holds "
        "the type of the bound value in blocks (compile_match.rs), is printed by no dump and read by no pass, and is only counted",
        "ill-typed variants are ill-typed by construction: the wrong value is a bool/string literal at a position whose type is fixed by a "
        "declaration, an annotation, a sibling branch/element or an operator; the un-mutated program must be accepted",
        "of the typer's inference, the unifier (typer/unify.rs: occurs, norm, unify, the ena table) is modelled (Model/Unify.lean) and tied by "
        "scripts run on the real Typer through the cfg(goml_verif) hook; the solve loop likewise (Model/Solve.lean); constraint generation "
        "(check.rs) is modelled for the fragment of Model/Infer.lean (literals, names, tuples, closures, let, blocks, if, while, match on "
        "literal/variable/wildcard/tuple patterns, calls, operators, projections, field access) and tied on generated function bodies; "
        "constructors, struct literals, arrays, method calls, dyn coercions, trait-bounded calls are outside it: their outputs are checked "
        "and their rejections sampled",
        "infer_sound_partial needs the decidable certificate `justB` (every obligation of the elaborated tree is an identity or a queued "
        "constraint); it is evaluated on every function of the tie stream, not proved for all inputs",
        "the ena table is modelled by what the typer observes of it (find, probe_value, rank-directed choice of the root); path compression is not",
    ]
    tb = ["Lean 4 kernel", "axioms: " + ",".join(ctx.proof["axioms"] or ["none"]), "harness/src/c03.rs, c07.rs, dump.rs",
          "Driver/C03.lean, Driver/Unify.lean, DecSyntax.lean", "tools/props/c03.py, unify.py, infer.py", "harness/src/unify.rs, solve.rs, infer.rs + the verif-hook commits in goml", "the generator's own typing (harness/src/progen.rs)"]
    return ctx.finish("proof", cov, tb, "lake build GomlVerif.Props.C03 && lake env lean Axioms.lean (#print axioms); gomlmodel c03 on the real dumps")
