"""C04 — the compiler never crashes or hangs: proof of the parser's termination logic +
crash/hang search (fault enumeration) over every entry point."""
import json, os, re
import vlib


def form_of(tag):
    return tag.split("@")[0] if "@" in tag else tag


def run(ctx):
    ctx.extract()
    ctx.build_lean(["GomlVerif.Props.C04"])
    level = "other"
    if not ctx.build_harness():
        return ctx.finish(level, {"evaluations": 0, "distinct_nontrivial": 0, "explanation": "harness build failed"}, [], "lake build")
    extra = []
    if ctx.replay:
        rp = json.load(open(ctx.replay))
        src = (rp.get("cases") or [{}])[0].get("input")
        if src is None:
            print(f"replay file {ctx.replay} carries no input text (it names a proof/tie failure)")
        else:
            f = os.path.join(ctx.run_dir, "replay.gom")
            open(f, "w", encoding="utf-8").write(src)
            extra = ["--file", f]
    ok, out = ctx.gv("c04", extra, timeout=7200)
    path = os.path.join(ctx.run_dir, "c04.cases.tsv")
    rows = vlib.read_tsv(path) if ok and os.path.exists(path) else []
    F = [r for r in rows if r[0] == "F"]
    R = [r for r in rows if r[0] == "R"]
    S = [r for r in rows if r[0] == "S"]
    TIE = [r for r in rows if r[0] == "TIE"]
    ABANDONED = [r for r in rows if r[0] == "A"]
    if ABANDONED:
        ctx.notes.append("chunks abandoned after 6 dead children (every one of them is reported): " +
                         ", ".join(f"{r[1]}[{r[2]}..{r[3]})" for r in ABANDONED))

    # ---------------------------------------------------------------- hang verdicts are confirmed by a solitary re-run
    # The watchdog limits the CPU time of a child that shares the machine with 15 sibling children (and whatever else runs):
    # under heavy load the slow-but-finite nesting cases have been seen to cross the limit (DESIGN §9.6). A real hang hangs
    # again when its input is run alone with the same limit, so a hang row is kept only if the solitary run (the --replay
    # path) reports a hang too; at most 6 distinct inputs are re-run, the others are reported unconfirmed as they are.
    if not ctx.replay:
        hang_texts = []
        for r in F:
            if r[3] == "hang" and len(r) > 8 and r[8] not in hang_texts:
                hang_texts.append(r[8])
        cleared = set()
        for i, t in enumerate(hang_texts[:6]):
            f = os.path.join(ctx.run_dir, f"hang-confirm-{i}.gom")
            open(f, "w", encoding="utf-8").write(vlib.unesc(t))
            ok2, _ = ctx.gv("c04", ["--file", f], timeout=1800)
            rows2 = vlib.read_tsv(path) if ok2 and os.path.exists(path) else None
            if rows2 is not None and not any(r2[0] == "F" and r2[3] in ("hang", "abort") for r2 in rows2):
                cleared.add(t)
        if cleared:
            ctx.notes.append(f"{len(cleared)} hang verdict(s) of the parallel run were not reproduced when the input was run alone "
                             "with the same CPU-time limit (machine load); they are not reported")
            F = [r for r in F if not (r[3] == "hang" and len(r) > 8 and r[8] in cleared)]

    # ---------------------------------------------------------------- findings
    groups = {}
    for r in F:
        _, stream, idx, kind, entry, site, msg, tag, text = (r + [""] * 9)[:9]
        cls = stream if stream.startswith("known-") else "main"
        if kind == "panic":
            sig = {"oracle": "panic", "site": site, "entry": entry.split("/")[0], "stream": cls}
        elif kind in ("hang", "abort"):
            sig = {"oracle": kind, "stream": cls if cls != "main" else stream, "form": form_of(vlib.unesc(tag)) if stream == "nest" else ""}
        else:
            sig = {"oracle": kind, "entry": entry, "where": site, "stream": cls}
        k = json.dumps(sig, sort_keys=True)
        g = groups.setdefault(k, {"sig": sig, "n": 0, "best": None, "streams": set()})
        g["n"] += 1
        g["streams"].add(stream)
        t = vlib.unesc(text)
        if g["best"] is None or len(t) < len(g["best"]["input"]):
            g["best"] = {"stream": stream, "index": int(idx), "kind": kind, "entry": entry, "site": site,
                         "message": vlib.unesc(msg), "generator_tag": vlib.unesc(tag)[:300], "input": t}
    for k, g in groups.items():
        b = g["best"]
        what = {
            "panic": f"{b['entry']} panics at {b['site']}: {b['message'][:140]}",
            "hang": f"{b['entry']} did not return within the CPU-time limit ({b['generator_tag'][:60]})",
            "abort": f"the process died ({b['message'][:80]}) on {b['generator_tag'][:60]}",
            "range": f"{b['entry']}: {b['message'][:160]}",
            "nodiag": f"{b['entry']} returned Err without an error diagnostic ({b['site']})",
        }.get(b["kind"], b["message"][:160])
        pay = dict(b, hits=g["n"], streams=sorted(g["streams"]))
        for _ in range(1):
            ctx.report(g["sig"], what, pay)
        # count every hit for KNOWN-FINDING lines
        for h in ctx.known_hits:
            if h["signature"] == g["sig"]:
                h["count"] += g["n"] - 1

    # ---------------------------------------------------------------- model tie (parser primitives)
    n_tie = n_tie_eq = 0
    tie_samples = []
    if TIE and os.path.exists(vlib.MODEL):
        model = ctx.model("c04", [f"{r[1]}\t{r[2]}\t{r[3]}" for r in TIE])
        bad = []
        for r in TIE:
            n_tie += 1
            m = (model.get(r[1]) or ["<missing>"])[0]
            if m == r[4]:
                n_tie_eq += 1
            else:
                bad.append(f"{r[1]}: tokens [{r[2]}] ops [{r[3]}] real [{r[4]}] model [{m}]")
            if len(tie_samples) < 2 and "D=1" in r[4]:
                tie_samples.append({"id": r[1], "tokens": r[2], "ops": r[3], "observed": r[4]})
        for b in bad[:10]:
            ctx.broken_ties.append(("parser-primitive correspondence", b))
    elif TIE:
        ctx.broken_ties.append(("model driver", "gomlmodel executable missing"))

    # ---------------------------------------------------------------- coverage
    per_stream, outcomes, feats, nest, layout, art = {}, {}, {}, {}, {}, {}
    arity, arity_ctx, arity_builtins = {}, {}, set()
    pat_dim = {"route": {}, "pos": {}, "form": {}, "type": {}, "pat": {}}
    pat_accept, pat_outcome_by_route = {}, {}
    for r in R:
        _, stream, idx, outs, tag = (r + [""] * 5)[:5]
        per_stream[stream] = per_stream.get(stream, 0) + 1
        o = outcomes.setdefault(stream, {})
        for kv in outs.split(" "):
            if "=" in kv:
                k, v = kv.rsplit("=", 1)
                o[k] = o.get(k, 0) + int(v)
        tag = vlib.unesc(tag)
        if stream == "gen-ok":
            for kv in tag.split(" "):
                if "=" in kv:
                    k, v = kv.rsplit("=", 1)
                    feats[k] = feats.get(k, 0) + 1
        elif stream == "nest" and "@" in tag:
            f, d = tag.split("@")
            nest[f] = max(nest.get(f, 0), int(d))
        elif stream == "layout":
            for t in tag.split("+"):
                layout[t or "plain"] = layout.get(t or "plain", 0) + 1
        elif "artifact" in stream:
            c = tag.split(" ")[0] if tag else "?"
            art[c] = art.get(c, 0) + 1
        elif stream == "call-arity" and tag:
            # tag: "<callee kind> <label…> declared=N given=K args=<fill>/K ctx=<context>"
            kv = dict(x.split("=", 1) for x in tag.split(" ") if "=" in x)
            kind = tag.split(" ")[0]
            rel = "given=declared" if kv.get("declared") == kv.get("given") else ("given=0" if kv.get("given") == "0" else
                  ("given<declared" if int(kv.get("given", 0)) < int(kv.get("declared", 0)) else "given>declared"))
            a = arity.setdefault(kind, {})
            a[rel] = a.get(rel, 0) + 1
            arity_ctx[kv.get("ctx", "?")] = arity_ctx.get(kv.get("ctx", "?"), 0) + 1
            if kind in ("builtin", "builtin-method", "builtin-trait-method"):
                arity_builtins.add(" ".join(tag.split(" ")[1:]).split(" declared=")[0])
    for r in R:
        if r[1] != "pat-scrut" or len(r) < 5:
            continue
        # tag: "pat=<pattern> type=<type> route=<route> pos=<position> form=<form>"
        kv = dict(x.split("=", 1) for x in vlib.unesc(r[4]).split(" ") if "=" in x)
        for d in pat_dim:
            pat_dim[d][kv.get(d, "?")] = pat_dim[d].get(kv.get(d, "?"), 0) + 1
        verdict = ("accepted" if "compile:ok" in r[3] else "typer" if "compile:err:typer" in r[3] else
                   "match-compiler" if "compile:err:compile" in r[3] else "parser" if "compile:err:parser" in r[3] else
                   "panic" if "compile:panic" in r[3] else "other")
        o = pat_outcome_by_route.setdefault(kv.get("route", "?"), {})
        o[verdict] = o.get(verdict, 0) + 1
        if verdict == "accepted" and kv.get("pos") == "top" and kv.get("form") == "match":
            pat_accept.setdefault(kv.get("type", "?"), set()).add(kv.get("pat", "?"))
    n_cases = len(R) + len(TIE) + len([r for r in F if r[3] in ("hang", "abort")])
    genok = outcomes.get("gen-ok", {})
    accepted = genok.get("compile:ok", 0)
    samples = [{"stream": r[1], "index": int(r[2]), "tag": vlib.unesc(r[3])[:200], "input": vlib.unesc(r[4])[:1200]} for r in S[:40]
               if r[1] in ("gen-ok", "gen-ill", "layout", "mut-tokens", "artifact", "call-arity", "pat-scrut")][:7]
    distinct = set()
    for r in R:
        if r[1] in ("gen-ok", "gen-ill", "progen") and "compile:err:parser" not in r[3]:
            distinct.add((r[1], r[2]))
        elif r[1] in ("nest", "layout", "artifact", "known-artifact-core-ir", "occurs", "call-arity", "pat-scrut"):
            distinct.add((r[1], r[4]))
    cov = {
        "evaluations": n_cases, "distinct_nontrivial": len(distinct),
        "rule": "one evaluation = one case (a text through parse + compile + the CLI's error formatting / pretty printers; a directory layout through "
                "compile and check_package of every package; an artefact set with one altered file through check/build or read_core+link_cores; "
                "an op sequence on the parser primitives). Non-trivial and distinct: generated programs that get past the parser (by case index), "
                "nesting cases by form@depth, layouts by feature set, artefact cases by mutation description",
        "explanation": "partial proof + fault enumeration: the parser's termination argument (fuel turns a stuck position into eof, loops with a progressing "
                       "body run at most (fuel+1)(n+1) times, dispatch chains with an advancing default progress, hence file() consumes every token) and the "
                       "token-range of parse diagnostics are proved in Lean over a model of the parser primitives that is diffed against the real Parser on "
                       "random op sequences; that no entry point panics, aborts, overflows the stack or hangs, that every Err carries an error diagnostic and "
                       "every diagnostic range lies inside the text is searched over the streams below, each case in a child process with a CPU-time watchdog",
        "cases_per_stream": per_stream, "outcomes_per_stream": outcomes,
        "occurs_stream": {"cases": per_stream.get("occurs", 0),
                          "ending_in_occurs_check_diagnostic": outcomes.get("occurs", {}).get("compile:occurs-check-diagnostic", 0),
                          "gen_ill_with_occurs_check_diagnostic": outcomes.get("gen-ill", {}).get("compile:occurs-check-diagnostic", 0)},
        "generated_programs_accepted": {"accepted": accepted, "of": per_stream.get("gen-ok", 0)},
        "generator_features_used_in_n_programs": feats, "nesting_forms_max_depth": nest, "layout_features": layout, "artifact_mutations": art,
        "call_arity_catalogue": {
            "what": "deterministic catalogue (harness/src/arity.rs): callee kinds × argument counts 0..declared+2 (three ways of filling the arguments) × "
                    "call contexts; the builtin callees and their parameter lists are read from the real initial environment at run time; every text goes "
                    "through parse, compile, check_package, build_package, link_cores (when build succeeds) and the three editor queries",
            "cases": per_stream.get("call-arity", 0),
            "builtin_callees_from_the_real_environment": len(arity_builtins),
            "cases_per_callee_kind_and_arity_relation": arity, "cases_per_context": arity_ctx,
            "outcomes": outcomes.get("call-arity", {}),
        },
        "pattern_scrutinee_catalogue": {
            "what": "deterministic catalogue (harness/src/patcat.rs): pattern form x scrutinee type x route by which the scrutinee's type becomes known "
                    "(concrete when the pattern is checked: parameter, annotated let, literal; or an inference variable resolved later / never: call, generic call, "
                    "method, trait method, closure parameter resolved by a later call / a later use / a generic higher-order function / never, closure call, field of a "
                    "generic struct, ref_get / vec_get / array_get, if / match / block join, binder of a tuple or constructor pattern, type parameter) x position of the "
                    "pattern (top, tuple component, constructor argument, struct field, nested) x form (match with catch-all, only arm, let); every text goes "
                    "through parse, compile, check_package, build_package, link_cores (when build succeeds) and the three queries at its last 12 positions",
            "cases": per_stream.get("pat-scrut", 0),
            "cases_per_dimension": pat_dim,
            "compile_verdict_per_route": pat_outcome_by_route,
            "patterns_accepted_per_scrutinee_type_at_top_of_a_match_on_some_route": {k: sorted(v) for k, v in sorted(pat_accept.items())},
            "outcomes": outcomes.get("pat-scrut", {}),
        },
        "fuel_limit_catalogue": {
            "what": "the fuel-limit catalogue of C12 (harness/src/c12.rs::fuel_limit_inputs, sized from the fuel measured on the real parser: "
                    "lookahead-only scans, frames that look while they unwind, consuming loops, followers of an out-of-fuel construct), restricted "
                    "to the texts the parser reports a diagnostic for, through parse + compile",
            "cases": per_stream.get("fuel-limit", 0), "outcomes": outcomes.get("fuel-limit", {}),
        },
        "chunks_abandoned": len(ABANDONED),
        "findings_by_signature": [{"signature": g["sig"], "hits": g["n"]} for g in groups.values()],
        "tie": {"op_sequences": n_tie, "equal": n_tie_eq, "samples": tie_samples},
        "samples": samples,
        "impl_oracle_failures": len(ctx.violations), "model_diffs": n_tie - n_tie_eq,
        "what_is_proved": "peek_stuck_eof, stuck_reported_once, loop_terminates, dispatch_progress, file_consumes_all, expect_keeps_recovery_token, "
                          "exprFirst_rejects_eof, error_range_is_token_range (+ StepOK closure lemmas for every primitive)",
        "what_is_searched": "panic / abort / stack overflow / hang / Err without diagnostic / diagnostic range outside the text, over random and mutated texts, "
                            "generated well- and ill-typed programs, nesting to depth 200, package layouts, altered artefacts, the pattern x scrutinee-type x "
                            "type-provenance catalogue (every pattern form against every scrutinee type, whether that type is concrete or still being inferred when the pattern is checked), and the call-arity catalogue "
                            "(every callee kind incl. every builtin of the real initial environment × every argument count × every call context, through every entry point incl. the queries)",
    }
    ctx.assumptions += [
        "item parsers are built from the modelled primitives only (StepOK is closed under composition; the real item parsers are not modelled one by one)",
        "trivia skipping is abstracted: the model's token list is the non-trivia tokens",
        "the hang limit is CPU time of the child process (5 s; 90 s for the nesting stream, whose deepest tuple-pattern case needs ~25 s CPU and 0.9 GB): slower-than-linear passes are reported in the evidence, not as hangs",
        "diagnostics of multi-file projects carry no file name, so their ranges are not checked against a text",
        "termination/validation of package discovery and artefact loading is covered by C16/C15 theorems (Props/C15.lean: validate_iff, corrupt_core_rejected, other_version_*_rejected), not repeated here",
    ]
    tb = ["Lean 4 kernel", "axioms: " + ",".join(ctx.proof["axioms"] or ["none"]),
          "tools/extract.py extract_parser_consts / extract_recovery (regex over parser.rs, expr.rs, file.rs)",
          "harness/src/c04.rs, c04gen.rs, arity.rs, patcat.rs, crash.rs, jsonspan.rs", "tools/props/c04.py"]
    return ctx.finish(level, cov, tb, "lake build GomlVerif.Props.C04 && #print axioms; gv c04 (child processes) | gomlmodel c04")
