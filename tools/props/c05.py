"""C05 — names resolve lexically (proof + correspondence with name_resolution.rs)."""
import os, re
import vlib
from props import lowertie

SCOPE_ERR = re.compile(r"Unresolved name|not found in environment")

def run(ctx):
    ctx.extract()
    lean_ok = ctx.build_lean(["GomlVerif.Props.C05", "GomlVerif.Props.Lower"])
    if not ctx.build_harness():
        return ctx.finish("proof", {"evaluations": 0, "distinct_nontrivial": 0}, [], "lake build")
    extra = ["--file", ctx.replay_file] if getattr(ctx, "replay_file", None) else []
    ok, out = ctx.gv("c05", extra)
    rows = vlib.read_tsv(os.path.join(ctx.run_dir, "c05.cases.tsv")) if ok else []
    cases = [r for r in rows if len(r) >= 7 and r[1] == "CASE"]
    skipped = [r for r in rows if len(r) >= 3 and r[1] == "SKIP"]
    feats = next((r[1] for r in rows if r[0] == "#FEATS"), "")
    model = ctx.model("c05", [f"{r[0]}\t{r[2]}" for r in cases]) if (cases and os.path.exists(vlib.MODEL)) else {}
    n_eq = n_scoped = n_ill = n_corpus = n_accept = n_patclass = 0
    distinct = set()
    samples = []
    streams = {}
    for r in cases:
        cid, sexp, real, acc, stats, src = r[0], r[2], r[3], r[4], r[5], vlib.unesc(r[6])
        m = model.get(cid)
        if not m or len(m) < 6:
            ctx.broken_ties.append(("model driver", f"{cid}: {m}"))
            continue
        spec_eq, con_ok, scoped, fresh = (m[0] == "spec_eq=true", m[1] == "con_ok=true", m[2] == "scoped=true",
                                          m[3] == "fresh=true")
        impl, spec = m[4], m[5]
        if not spec_eq:
            ctx.broken_ties.append(("model≠spec although conOk holds (contradicts resolve_refines_spec)", cid))
        if not fresh:
            ctx.broken_ties.append(("model hands one id to two binders (contradicts binder_ids_fresh)", cid))
        uses = int(re.search(r"uses=(\d+)", stats).group(1))
        binders = int(re.search(r"binders=(\d+)", stats).group(1))
        shared = re.search(r"shared=(\S+)", stats).group(1)
        patclass = (re.search(r"patclass=(\S+)", stats) or [None, "-"])[1]
        stream = re.search(r"stream=(\w+)", stats).group(1)
        site = (re.search(r"site=(\w+)", stats) or [None, "-"])[1]
        streams[f"{stream}/{site}"] = streams.get(f"{stream}/{site}", 0) + 1
        corpus = stream == "corpus"
        n_corpus += corpus
        if uses >= 2 and binders >= 2:
            distinct.add(sexp)
        if len(samples) < 3 and not corpus and (site != "None" or len(samples) < 1):
            samples.append({"id": cid, "src": src, "resolution": real, "accepted": acc[:80], "well_scoped": scoped})
        payload = {"id": cid, "src": src, "expected_resolution(spec)": spec, "observed_resolution": real,
                   "model_of_implementation": impl, "compile": acc, "well_scoped_by_spec": scoped,
                   "lowering_calls_no_local_a_constructor": con_ok, "binders_sharing_one_id": shared,
                   "bare_pattern_names_lowered_against_the_rule(name@offset:kind)": patclass}
        # (0b) which pattern occurrences are binders is the language's rule (a bare identifier that is a constructor of
        # the same file tests the constructor whatever is in scope; harness/src/patrule.rs), not lowering's word
        if patclass != "-":
            n_patclass += 1
            kinds = sorted({x.rsplit(":", 1)[1] for x in patclass.split(",")})
            ctx.report({"oracle": "lowering", "kind": "bare-pattern-name-classified-against-the-file-rule", "kinds": kinds},
                       "AST lowering turns a constructor name in pattern position into a binder (or a binder into a constructor pattern): "
                       "the uses of that spelling in its scope then refer to a binder the program does not have", payload)
        # (0) tie: the implementation model reproduces the real resolver
        if impl == real:
            n_eq += 1
        else:
            ctx.broken_ties.append(("Model/Resolve.lean and name resolution disagree", f"{cid}: model {impl} real {real}"))
        # (1) resolution map: the spec's resolution IS the property; a different map is a failing input
        if spec != real:
            exp = dict(x.split(">") for x in spec.split()) if spec else {}
            got = dict(x.split(">") for x in real.split()) if real and not real.startswith("ERROR") else {}
            kinds = set()
            for t, b in exp.items():
                g = got.get(t)
                if g == b:
                    continue
                if b == "-":
                    kinds.add("use-bound-outside-lexical-scope")
                elif b in ("C", "G"):
                    kinds.add("package-level-name-not-found" if g == "-" else "package-level-name-bound-to-local")
                elif g == "-":
                    kinds.add("in-scope-use-unresolved")
                elif g == "C":
                    kinds.add("local-binder-loses-against-constructor")
                elif g == "G":
                    kinds.add("local-binder-loses-against-definition")
                else:
                    kinds.add("use-bound-to-wrong-binder")
            ctx.report({"oracle": "resolution", "kinds": sorted(kinds) or ["resolver-error"]},
                       "a use is resolved to something other than the innermost lexically enclosing binder", payload)
        elif not con_ok:
            # (1b) AST lowering alone: cannot happen while the maps agree, kept as a separate alarm
            ctx.report({"oracle": "lowering", "kind": "locally-bound-name-classified-as-constructor"},
                       "AST lowering classifies a bare name with a local binder in scope as a constructor", payload)
        # (2) binder identity: every binder occurrence is a binder of its own
        if shared != "-":
            ctx.report({"oracle": "binder-identity", "kind": "two-binders-one-id"},
                       "two binder occurrences (duplicate names in one parameter list / pattern) share one LocalId", payload)
        # (3) acceptance: well-scoped <=> no scoping diagnostic; ill-scoped => unresolved-name diagnostic
        scope_err = acc.startswith("err:") and SCOPE_ERR.search(acc)
        if scoped:
            n_scoped += 1
            if scope_err:
                ctx.report({"oracle": "accept", "kind": "well-scoped-program-rejected-for-scoping"},
                           "a program that is well-scoped by the lexical rules is rejected with a scoping diagnostic", payload)
            if acc.startswith("panic:"):
                ctx.report({"oracle": "accept", "kind": "panic"}, "compiler panics on a well-scoped program", payload)
            # the `scoped` stream is well-typed by construction WHEN every use means its innermost
            # binder: any rejection is a rejection for scoping reasons
            # ... and so are the witnesses kept under corpus/C05
            if stream in ("scoped", "names", "patpos") or cid.startswith("corpus:"):
                n_accept += 1
                if acc.startswith("err:") and not scope_err:
                    ctx.report({"oracle": "accept", "kind": "well-scoped-well-typed-program-rejected"},
                               "a program (generated, or a kept witness) that is well-scoped and, read by the lexical rules, well-typed is rejected", payload)
        else:
            n_ill += 1
            if acc == "ok":
                ctx.report({"oracle": "accept", "kind": "ill-scoped-program-accepted"},
                           "a use with no binder in scope is accepted", payload)
            elif acc.startswith("err:") and "Unresolved name" not in acc and not corpus:
                ctx.report({"oracle": "accept", "kind": "ill-scoped-without-unresolved-name-diagnostic"},
                           "a use with no binder in scope is rejected without an unresolved-name diagnostic", payload)
    # CST→AST lowering (round 11): every file of every generated / catalogue program, lowered by Model/Lower.lean from
    # the real tree, must be the real ast::File — `conOk*` is then a theorem (Props/Lower.lean), not a per-case check
    lower_cov = {}
    if cases and not getattr(ctx, "replay_file", None):
        ltexts = []
        for r in cases:
            src = vlib.unesc(r[6])
            parts, cur = [], None
            if any(l.startswith("//// file: ") for l in src.split("\n")):
                for line in src.splitlines(keepends=True):
                    if line.startswith("//// file: "):
                        cur = [line[len("//// file: "):].strip(), ""]
                        parts.append(cur)
                    elif cur is not None:
                        cur[1] += line
            else:
                parts = [["main.gom", src]]
            for rel, text in parts:
                ltexts.append((f"c05:{r[0]}:{rel}", "c05-programs", text))
        lower_cov = lowertie.run(ctx, ["names"], ltexts)
    # shrink: keep the smallest failing program first
    ctx.violations.sort(key=lambda v: len(v[2].get("src", "")))
    cov = {
        "evaluations": len(cases), "distinct_nontrivial": len(distinct),
        "rule": "one case = one goml program (corpus + generated scope nests in let/if/match-arm/closure/while/tuple- and struct-pattern "
                "positions; names a,b,c, or names spelled like the constructors of an enum of the same file / another file of the "
                "package / an imported package, like the helper function, the enum type, a struct; duplicate names in one parameter "
                "list / pattern in a fifth of them; stream `names` = the catalogue of harness/src/namecat.rs: a binder of every kind "
                "(fn / closure parameter, let, annotated let, match variable, tuple / struct / enum-payload sub-pattern, struct shorthand) "
                "spelled like a variant, struct, enum type, function or builtin, used bare, as the callee of a call (plain, parenthesised, under "
                "unary and binary operators, in arguments, conditions, scrutinees, statements), passed on, aliased, captured, as a receiver); stream `patpos` = "
                "harness/src/patpos.rs: a constructor name of the file in PATTERN position (first / middle / last arm, before `_`, in a tuple, payload, struct field, let) "
                "while a fn / closure / method parameter or shorthand field of the same spelling is in scope, arm bodies using that local; non-trivial = at least 2 binders and 2 identifier uses; distinct by the scope "
                "tree sent to the model",
        "streams(stream/enum-site)": dict(sorted(streams.items())),
        "must_be_accepted(scoped stream)": n_accept,
        "samples": samples,
        "resolution_maps_equal": n_eq, "well_scoped_cases": n_scoped, "ill_scoped_cases": n_ill,
        "corpus_cases": n_corpus, "skipped_unparsable": len(skipped), "generator_features": feats,
        "lowering(Model/Lower.lean on the real CST)": lower_cov,
        "impl_oracle_failures": len(ctx.violations),
        "model_diffs": (len(cases) - n_eq) + (lower_cov.get("lower_texts", 0) - lower_cov.get("lower_model_equals_real", 0)),
        "impl_oracle_failures": len(ctx.violations), "model_diffs": len(cases) - n_eq,
        "programs_with_a_bare_pattern_name_lowered_against_the_rule": n_patclass,
    }
    ctx.assumptions += [
        "the scope tree sent to the model is the real ast::File produced by the repository's parser and lowering (harness/src/c05.rs)",
        "package-level names (constructors per file, definitions, builtins) are read off the declarations of the real AST and form the outermost scope; "
        "which bare name in PATTERN position is a binder is the language's documented rule, applied by harness/src/patrule.rs to the parser's syntax node "
        "and the file's own declarations, NOT taken from lower.rs: the name is a constructor pattern iff it is a variant of an enum or a struct declared in the "
        "SAME file, whatever local binders are in scope (a pattern is not a use); every other bare name and every shorthand field is a binder. The property does "
        "not decide that rule; it decides what the uses in scope of such a pattern refer to (the innermost binder BY that rule) and that a program well-scoped and "
        "well-typed by it is accepted (stream patpos = harness/src/patpos.rs). Which arm such a pattern selects is C06's",
    ]
    tb = ["Lean 4 kernel", "axioms: " + ",".join(ctx.proof["axioms"] or ["none"]),
          "harness/src/c05.rs (AST→scope tree, HIR walk)", "tools/props/c05.py (comparison)"]
    return ctx.finish("proof", cov, tb, "lake build GomlVerif.Props.C05 && lake env lean Axioms.lean (#print axioms)")
