"""C05 — names resolve lexically (proof + correspondence with name_resolution.rs)."""
import os, re
import vlib

SCOPE_ERR = re.compile(r"Unresolved name|not found in environment")

def run(ctx):
    ctx.extract()
    lean_ok = ctx.build_lean(["GomlVerif.Props.C05"])
    if not ctx.build_harness():
        return ctx.finish("proof", {"evaluations": 0, "distinct_nontrivial": 0}, [], "lake build")
    extra = ["--file", ctx.replay_file] if getattr(ctx, "replay_file", None) else []
    ok, out = ctx.gv("c05", extra)
    rows = vlib.read_tsv(os.path.join(ctx.run_dir, "c05.cases.tsv")) if ok else []
    cases = [r for r in rows if len(r) >= 7 and r[1] == "CASE"]
    skipped = [r for r in rows if len(r) >= 3 and r[1] == "SKIP"]
    feats = next((r[1] for r in rows if r[0] == "#FEATS"), "")
    model = ctx.model("c05", [f"{r[0]}\t{r[2]}" for r in cases]) if (cases and os.path.exists(vlib.MODEL)) else {}
    n_eq = n_scoped = n_ill = n_corpus = 0
    distinct = set()
    samples = []
    for r in cases:
        cid, sexp, real, acc, stats, src = r[0], r[2], r[3], r[4], r[5], vlib.unesc(r[6])
        m = model.get(cid)
        if not m or len(m) < 3:
            ctx.broken_ties.append(("model driver", f"{cid}: {m}"))
            continue
        spec_eq, scoped, impl = m[0] == "spec_eq=true", m[1] == "scoped=true", m[2]
        if not spec_eq:
            ctx.broken_ties.append(("model≠spec (contradicts resolve_refines_spec)", cid))
        uses = int(re.search(r"uses=(\d+)", stats).group(1))
        binders = int(re.search(r"binders=(\d+)", stats).group(1))
        corpus = "stream=corpus" in stats
        n_corpus += corpus
        if uses >= 2 and binders >= 2:
            distinct.add(sexp)
        if len(samples) < 3 and not corpus:
            samples.append({"id": cid, "src": src, "resolution": real, "accepted": acc[:80], "well_scoped": scoped})
        payload = {"id": cid, "src": src, "expected_resolution(spec)": impl, "observed_resolution": real,
                   "compile": acc, "well_scoped_by_spec": scoped}
        # (1) resolution map: the spec's resolution IS the property; a different map is a failing input
        if impl == real:
            n_eq += 1
        else:
            exp = dict(x.split(">") for x in impl.split()) if impl else {}
            got = dict(x.split(">") for x in real.split()) if real and not real.startswith("ERROR") else {}
            kinds = set()
            for t, b in exp.items():
                g = got.get(t)
                if g == b:
                    continue
                if b == "-":
                    kinds.add("use-bound-outside-lexical-scope")
                elif g == "-":
                    kinds.add("in-scope-use-unresolved")
                else:
                    kinds.add("use-bound-to-wrong-binder")
            ctx.report({"oracle": "resolution", "kinds": sorted(kinds) or ["resolver-error"]},
                       "a use is resolved to a binder other than the innermost lexically enclosing one", payload)
        # (2) acceptance: well-scoped <=> no scoping diagnostic; ill-scoped => unresolved-name diagnostic
        scope_err = acc.startswith("err:") and SCOPE_ERR.search(acc)
        if scoped:
            n_scoped += 1
            if scope_err:
                ctx.report({"oracle": "accept", "kind": "well-scoped-program-rejected-for-scoping"},
                           "a program that is well-scoped by the lexical rules is rejected with a scoping diagnostic", payload)
            if acc.startswith("panic:"):
                ctx.report({"oracle": "accept", "kind": "panic"}, "compiler panics on a well-scoped program", payload)
        else:
            n_ill += 1
            if acc == "ok":
                ctx.report({"oracle": "accept", "kind": "ill-scoped-program-accepted"},
                           "a use with no binder in scope is accepted", payload)
            elif acc.startswith("err:") and "Unresolved name" not in acc and not corpus:
                ctx.report({"oracle": "accept", "kind": "ill-scoped-without-unresolved-name-diagnostic"},
                           "a use with no binder in scope is rejected without an unresolved-name diagnostic", payload)
    # shrink: keep the smallest failing program first
    ctx.violations.sort(key=lambda v: len(v[2].get("src", "")))
    cov = {
        "evaluations": len(cases), "distinct_nontrivial": len(distinct),
        "rule": "one case = one goml program (corpus + generated scope nests over names a,b,c in let/if/match-arm/closure/while positions); "
                "non-trivial = at least 2 binders and 2 identifier uses; distinct by the scope tree sent to the model",
        "samples": samples,
        "resolution_maps_equal": n_eq, "well_scoped_cases": n_scoped, "ill_scoped_cases": n_ill,
        "corpus_cases": n_corpus, "skipped_unparsable": len(skipped), "generator_features": feats,
        "impl_oracle_failures": len(ctx.violations), "model_diffs": len(cases) - n_eq,
    }
    ctx.assumptions += [
        "the scope tree sent to the model is the real ast::File produced by the repository's parser and lowering (harness/src/c05.rs)",
        "identifier uses that the real resolver binds to items, builtins or constructors are treated as an outermost scope",
    ]
    tb = ["Lean 4 kernel", "axioms: " + ",".join(ctx.proof["axioms"] or ["none"]),
          "harness/src/c05.rs (AST→scope tree, HIR walk)", "tools/props/c05.py (comparison)"]
    return ctx.finish("proof", cov, tb, "lake build GomlVerif.Props.C05 && lake env lean Axioms.lean (#print axioms)")
