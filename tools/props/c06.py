"""C06 — pattern matching picks the first matching arm and binds the right sub-values.

Proof (Props/C06.lean, model Model/Match.lean) + L1 tie (the model's Core for every real match site
equals the Core the real compile_match produced, up to bound names) + first-match oracle that does
not use the compile model (the REAL Core run under Sem on every value of the scrutinee type up to a
depth bound vs firstMatch on the source patterns)."""
import json, os, re, subprocess
import vlib
from props import c01 as C01


def classify(detail):
    """kind of an oracle failure from 'value=… got=[…] want=[…]'"""
    m = re.search(r"got=\[(.*?)\] want=\[(.*?)\]$", detail)
    if not m:
        return "unclassified"
    got, want = m.group(1), m.group(2)
    if got.startswith("stuck:no arm selected"):
        return "falls-out-of-switch-when-no-arm-matches"
    if got.startswith("stuck:"):
        return "tree-not-executable:" + got[6:40].strip()
    if want.startswith("panic:missing") and got.startswith("ok"):
        return "continues-although-no-arm-matches"
    if got.startswith("panic:missing") and want.startswith("ok"):
        return "fails-although-an-arm-matches"
    ga, wa = re.match(r"ok (<\d+>;)", got), re.match(r"ok (<\d+>;)", want)
    if ga and wa:
        if ga.group(1) != wa.group(1):
            return "wrong-arm-selected"
        return "wrong-bindings"
    if got.startswith("ok") and want.startswith("ok"):
        return "more-than-one-arm-ran"
    return "other:" + got.split(" ")[0]


def run_model(ctx, path):
    p = vlib.srun(["bash", "-c", f"ulimit -s unlimited; exec {vlib.MODEL} c06"], stdin=open(path),
                       stdout=subprocess.PIPE, stderr=subprocess.PIPE, text=True, timeout=3000,
                       env=dict(os.environ, GV_C06_CAP="600" if ctx.tier == "quick" else "1500"))
    res = {}
    for l in p.stdout.split("\n"):
        f = l.split("\t")
        if len(f) >= 5:
            res[f[0]] = f[1:]
    if p.returncode != 0:
        ctx.broken_ties.append(("model driver c06", p.stderr[-1000:]))
    return res


def run(ctx):
    ctx.extract()
    ctx.build_lean(["GomlVerif.Props.C06"])
    if not ctx.build_harness():
        return ctx.finish("proof", {"evaluations": 0, "distinct_nontrivial": 0, "samples": [], "rule": ""}, [], "lake build")
    extra = []
    if ctx.replay:
        rp = json.load(open(ctx.replay))
        src = (rp.get("cases") or [{}])[0].get("src")
        if src:
            f = os.path.join(ctx.run_dir, "replay.gom")
            open(f, "w").write(src)
            extra = ["file", f]
    ok, out = ctx.gv("c06", extra)
    tsv = os.path.join(ctx.run_dir, "c06.cases.tsv")
    rows = vlib.read_tsv(tsv) if ok else []
    model = run_model(ctx, tsv) if rows and os.path.exists(vlib.MODEL) else {}
    srcs, sites = {}, []
    for r in rows:
        if len(r) >= 3 and r[1] == "SRC":
            srcs[r[0]] = vlib.unesc(r[2])
        elif len(r) >= 5 and r[1] == "SITE":
            sites.append(r)
    rejects = [r for r in rows if len(r) >= 3 and r[1] == "REJECT"]
    # lowering's classification of bare-identifier patterns against the language's rule (harness/src/patrule.rs):
    # judged on the syntax node and the file's declarations alone — no typer, no model
    n_patclass = 0
    for r in rows:
        if len(r) >= 7 and r[1] == "PATCLASS":
            n_patclass += 1
            kind, name, offset, line, func = r[2], r[3], r[4], r[5], r[6]
            prog = r[0]
            what = ("a bare identifier in pattern position that is a constructor of the file is lowered as a variable binder (a catch-all arm)"
                    if kind == "constructor-pattern-lowered-as-binder" else
                    "a bare identifier in pattern position that is no constructor of the file is lowered as a constructor pattern")
            ctx.report({"oracle": "pattern-classification", "kind": kind},
                       f"{what}: `{name}` in {func}, line {line}",
                       {"id": prog, "src": srcs.get(prog), "site": "", "name": name, "offset": int(offset), "line": int(line), "function": func,
                        "rule": "one identifier not followed by `::`, `(`, `{` is a nullary constructor pattern iff it is a variant of an enum / the name of a struct "
                                "declared in the same file, whatever local binders are in scope (DESIGN.md 9.2)"})
    n_eq = n_diag = n_panic = n_vals = n_orc_ok = n_hyp_bad = 0
    n_unwitnessed = n_written = n_elab = 0
    distinct, streams, samples = set(), {}, []
    for r in sites:
        sid, site, kind, payload = r[0], r[2], r[3], r[4]
        prog = sid.split("#")[0]
        stream = prog.split(":")[0]
        streams[stream] = streams.get(stream, 0) + 1
        m = model.get(sid)
        if not m:
            ctx.broken_ties.append(("model driver", f"{sid}: no answer"))
            continue
        l1, orc, nvals, hyp = m[0], m[1], int(m[2] or 0), m[3]
        n_vals += nvals
        pl = {"id": sid, "site": site[:1500], "written_patterns": (r[5][:1500] if len(r) > 5 else "none"), "real": kind + " " + payload[:1500], "src": srcs.get(prog)}
        # non-trivial: at least two arms, at least one constructor/literal/tuple pattern
        if re.search(r"\((pprim|pconstr|ptuple)", site):
            distinct.add(site + kind)
        if kind == "CORE":
            if l1 == "eq":
                n_eq += 1
            else:
                ctx.broken_ties.append(("L1: model Core ≠ real Core", f"{sid}: {l1} site={site[:300]}"))
            if orc == "ok":
                n_orc_ok += 1
            elif orc.startswith("fail:"):
                detail = orc.split(":", 2)[2]
                k = classify(detail)
                ctx.report({"oracle": "first-match", "kind": k},
                           "the real decision tree does not behave like first-match on a value of the scrutinee type: " + detail[:300],
                           dict(pl, failure=detail[:600], failing_values=int(orc.split(":")[1])))
            else:
                ctx.broken_ties.append(("oracle did not run", f"{sid}: {orc}"))
        elif kind == "DIAG":
            n_diag += 1
            if l1 != "eq-diag":
                ctx.broken_ties.append(("L1: diagnostic outcome differs", f"{sid}: {l1} real={payload[:200]}"))
            if "unmatched-witness=none" in hyp:
                n_unwitnessed += 1
        elif kind == "PANIC":
            n_panic += 1
            if not l1.startswith("eq-panic"):
                ctx.broken_ties.append(("L1: real compiler panics, model does not", f"{sid}: {l1} {payload[:200]}"))
        n_written += "source=written" in hyp
        me = re.search(r"elab-diff=(\d+)", hyp)
        if me and int(me.group(1)) > 0:
            n_elab += 1
            if not orc.startswith("fail:"):
                # the Core agrees with the written patterns although the typed patterns do not: not a
                # behavioural failure, but the TAST the tie is fed from no longer means the source
                ctx.broken_ties.append(("typed patterns differ in meaning from the written patterns", f"{sid}: {hyp} site={site[:300]}"))
        if "conf-fail=0 " not in hyp or "fresh=true" not in hyp or "leavesOK=true" not in hyp:
            n_hyp_bad += 1
            ctx.broken_ties.append(("a hypothesis of compileRows_correct does not hold on a real input", f"{sid}: {hyp}"))
        if len(samples) < 4 and stream in ("small", "repo") and kind == "CORE" and site.count("(p") >= 4 and len(site) < 900:
            samples.append({"id": sid, "site": site, "real_core": payload[:700], "l1": l1, "oracle": orc, "values": nvals})
    # whole pipeline: the runnable small-matrix programs must behave at every later stage
    # (mono, lift, ANF with its tag/literal arm heads, the Go switch) as their Core does
    pipe_rows = vlib.read_tsv(os.path.join(ctx.run_dir, "c06pipe.cases.tsv")) if ok and os.path.exists(os.path.join(ctx.run_dir, "c06pipe.cases.tsv")) else []
    progs = {}
    for r in pipe_rows:
        d = progs.setdefault(r[0], {"stages": {}})
        if r[1] == "SRC":
            d["src"] = vlib.unesc(r[2])
        elif r[1] == "EXPECT":
            d["expect"] = vlib.unesc(r[3]) if len(r) > 3 and r[2] == "out" else None
        elif r[1] == "STAGE":
            d["stages"][r[2]] = r[3]
        elif r[1] in ("REJECT", "PANIC"):
            d["rejected"] = r[2] + " " + (r[3] if len(r) > 3 else "")
            if r[1] == "REJECT" and len(r) > 4:
                d["src"] = vlib.unesc(r[4])
    progs = C01.evaluate(ctx, progs)
    n_pipe = n_pipe_agree = n_pipe_lines = n_pipe_missing = n_pipe_rej = 0
    n_exp = n_exp_ok = 0
    patpos_cells = {}
    for pid, d in progs.items():
        if pid.startswith("patpos:"):
            for k, part in zip(("spelling", "binder", "local-type", "pattern-position"), pid.split(":")[1:5]):
                patpos_cells[f"{k}:{part}"] = patpos_cells.get(f"{k}:{part}", 0) + 1
        if not d["stages"] and pid.startswith("patpos:"):
            # harness/src/patpos.rs: well-typed by construction when every bare constructor name in pattern
            # position tests the constructor and every use in an arm body means the innermost local binder
            n_pipe_rej += 1
            ctx.report({"oracle": "accept", "kind": "well-typed-by-construction-program-rejected"},
                       "a program whose patterns name constructors of the file while a local binder of the same spelling is in scope is rejected: " + d.get("rejected", "")[:200],
                       {"id": pid, "src": d.get("src"), "site": "", "diagnostics": d.get("rejected", "")[:600]})
            continue
        if not d["stages"]:
            n_pipe_rej += 1
            if "non-exhaustive match on integer literal" not in d.get("rejected", ""):
                ctx.broken_ties.append(("pipeline stream: generated program not accepted", f"{pid}: {d.get('rejected', '')[:200]}"))
            continue
        o = d["out"]
        if any(v is None or v[0] in ("decode-error", "parse-error") for v in o.values()):
            ctx.broken_ties.append(("pipeline stream: stage dump not evaluated", f"{pid}: {[(k, v and v[0]) for k, v in o.items()]}"))
            continue
        n_pipe += 1
        ref = o["core"]
        n_pipe_lines += vlib.unesc(ref[1]).count("\n")
        n_pipe_missing += ref[0] == "panic:missing"
        div = next((st for st in C01.STAGES if (o[st][0], o[st][1]) != (ref[0], ref[1])), None)
        exp = d.get("expect")
        if exp is not None:
            # the output the program prints BY CONSTRUCTION (first-match on the generator's own pattern terms):
            # judged at every stage, Core included — no model of the compiler, no lowered AST
            n_exp += 1
            bad = next((st for st in ["core"] + [x for x in C01.STAGES if x != "core"] if st in o and (o[st][0] != "ok" or vlib.unesc(o[st][1]) != exp)), None)
            if bad is None:
                n_exp_ok += 1
            else:
                got = vlib.unesc(o[bad][1]).split("\n")
                want = exp.split("\n")
                first = next(((x, y) for x, y in zip(got + [""] * len(want), want + [""] * len(got)) if x != y), ("", ""))
                kind = ("ends-" + o[bad][0].split(":")[0]) if o[bad][0] != "ok" else "wrong-arm-or-bindings-printed"
                ctx.report({"oracle": "expected-by-construction", "first_divergent_stage": bad, "kind": kind},
                           f"a match does not select the first arm whose pattern matches: the program prints `{first[0]}` where first-match semantics on the written patterns prints `{first[1]}` (stage {bad})",
                           {"id": pid, "src": d.get("src"), "site": "", "expected_stdout": exp[:1200],
                            "first_differing_line": {"printed": first[0], "expected": first[1]},
                            "outcomes": {k: {"status": v[0], "stdout": vlib.unesc(v[1])[:600]} for k, v in o.items()}})
        if div is None:
            n_pipe_agree += 1
        else:
            kind = "stdout-differs" if o[div][0] == ref[0] else f"ends-differently:{ref[0].split(':')[0]}->{o[div][0].split(':')[0]}"
            ctx.report({"oracle": "stagewise", "first_divergent_stage": div, "kind": kind},
                       f"a match behaves differently at the {div} stage than in Core",
                       {"id": pid, "src": d.get("src"), "site": "",
                        "outcomes": {k: {"status": v[0], "stdout": vlib.unesc(v[1])[:400]} for k, v in o.items()}})
    ctx.violations.sort(key=lambda v: len(v[2].get("site") or v[2].get("src") or ""))
    kinds = next((r[1] for r in rows if r[0] == "#KINDS"), "")
    small = next((r[1] for r in rows if r[0] == "#SMALL"), "")
    feats = next((r[1] for r in rows if r[0] == "#FEATS"), "")
    cov = {
        "evaluations": n_vals, "distinct_nontrivial": len(distinct),
        "rule": "one case = one (match site, scrutinee value) pair: every match / destructuring let of the real typed AST of the corpus, of "
                "exhaustively enumerated / sampled small matrices (<=3 rows, <=2 columns, nesting <=2 over bool, int8, string, unit, a tuple, a struct, "
                "enums, generic Opt[T]) and of generated programs with nested patterns, compiled by the real compile_match with marker bodies; the real "
                "Core is run under Sem on every value of the scrutinee type up to depth 3 (capped per site) and compared with firstMatch. "
                "distinct_nontrivial counts distinct sites that contain a literal, constructor or tuple pattern",
        "samples": samples or [{"note": "no site"}],
        "sites": len(sites), "sites_by_stream": streams, "site_kinds": kinds, "small_matrix_space": small,
        "generator_features": feats, "programs_rejected_before_match_compilation": len(rejects),
        "l1_model_core_equal": n_eq, "int_nonexhaustive_rejected(both)": n_diag,
        "rejected_sites_without_unmatched_value_in_bound": n_unwitnessed,
        "real_compiler_panics(owned by C04)": n_panic,
        "sites_whose_source_side_is_the_written_pattern(AST)": n_written,
        "sites_where_typed_and_written_patterns_disagree_on_some_value": n_elab,
        "oracle_sites_ok": n_orc_ok, "impl_oracle_failures": len(ctx.violations),
        "model_diffs": sum(1 for n, _ in ctx.broken_ties if n.startswith("L1")),
        "theorem_hypotheses_violated_on_real_inputs": n_hyp_bad,
        "pipeline_programs_run_at_5_stages": n_pipe, "pipeline_programs_all_stages_agree": n_pipe_agree,
        "pipeline_match_results_printed": n_pipe_lines, "pipeline_programs_ending_in_missing": n_pipe_missing,
        "pipeline_programs_rejected(int literal without catch-all)": n_pipe_rej,
        "bare_identifier_patterns_classified_against_the_rule": n_patclass,
        "programs_with_output_known_by_construction(patpos)": n_exp, "of_which_every_stage_prints_it": n_exp_ok,
        "patpos_cells": dict(sorted(patpos_cells.items())),
    }
    ctx.assumptions += [
        "Sem (Model/Sem.lean) is the meaning of Core; `missing` is the builtin that fails at that point",
        "the decision tree is judged at Core level against firstMatch; its ANF/Go lowering is judged by stage-wise agreement with the Core of the same program (Sem / Go.Sem) on the runnable small-matrix programs",
        "values are enumerated from the type definition up to depth 3 with a per-site cap (integers/strings: the literals of the site plus fresh ones)",
        "the source side of the first-match oracle is the pattern AS WRITTEN (real ast::File, struct sub-patterns bound by field name, constructors resolved by name against the value's type) for every site whose function lines up with the surface syntax; other sites (impl methods of programs with derived impls) fall back to the typed pattern",
        "which bare identifier of a written pattern is a constructor is decided by harness/src/patrule.rs (the identifier is a variant of an enum / the name of a struct declared in the same file; nothing else counts), applied to the parser's syntax node, not by ast/src/lower.rs; a pattern lowered otherwise is reported (oracle pattern-classification)",
        "stream patpos (harness/src/patpos.rs): 405 programs = constructor spelling (nullary lower/upper case, payload variant) x binder kind putting that spelling in scope x type of the local x pattern position, two functions each (arm bodies using / not using the local); expected output computed on the generator's own pattern and value terms",
        "marker bodies replace the arm bodies (compile_rows does not inspect bodies except for their type annotation)",
    ]
    tb = ["Lean 4 kernel", "axioms: " + ",".join(ctx.proof["axioms"] or ["none"]),
          "Model/Sem.lean (meaning of Core)", "harness/src/c06.rs (TAST walk, marker bodies, dumps)",
          "Driver/C06.lean (decoders, alpha-equivalence, value enumeration)", "tools/props/c06.py"]
    return ctx.finish("proof", cov, tb, "lake build GomlVerif.Props.C06 && lake env lean Axioms.lean (#print axioms); gomlmodel c06")
