"""C07 — generic code behaves identically at every instantiation and is fully specialised.

Tie (L1): the Lean model of mono.rs (Model/Mono.lean) run on the REAL Core dump must print the REAL
Mono dump (functions in order, signatures, bodies, mono_enums/mono_structs/mono_funcs), must flag a
panic exactly where the real pass panics and must run out of fuel exactly where the real pass does
not terminate.

Oracles on the implementation's own outputs (independent of the model):
  sem       real Core under Sem == real Mono under Sem (same stdout, same way of ending)
  closed    no TParam / TApp / TVar / ETraitCall in the real Mono, Lift and ANF dumps
  names     function names of the real Mono program pairwise distinct
  instances no reference from Mono code to a Core function that has no Mono instance
  once      no two functions of the real Mono program are the same instance of one Core function (same signature and
            body up to the own name, whatever they are called); in the `req:` catalogue exactly the two requested
            instances of `q` exist, however many routes asked for them
  type-instances  every construction / arm pattern / field read of a data type in the real Mono program carries
            the field types of the ONE definition monoenv holds under that type's name (two instantiations
            given one name leave one definition: the code of the other one disagrees with it)
  panic     the real mono pass does not panic on an accepted program
  watchdog  the real mono pass returns (child process with a time and memory limit)
"""
import os, re, subprocess
import vlib
from props import c01


def run_model(ctx, lines, fuel=None):
    env = dict(os.environ)
    if fuel is not None:
        env["GV_MONO_FUEL"] = str(fuel)
    p = vlib.srun(["bash", "-c", f"ulimit -s unlimited; exec {vlib.MODEL} c07"], input="\n".join(lines) + "\n",
                       stdout=subprocess.PIPE, stderr=subprocess.PIPE, text=True, timeout=3000, env=env)
    res = {}
    for l in p.stdout.split("\n"):
        f = l.split("\t")
        if len(f) >= 2:
            res[f[0]] = f[1:]
    if p.returncode != 0:
        ctx.broken_ties.append(("model driver c07", p.stderr[-1000:]))
    return res


def first_diff(a, b):
    i = next((i for i in range(min(len(a), len(b))) if a[i] != b[i]), min(len(a), len(b)))
    return {"at": i, "model": a[max(0, i - 120):i + 120], "real": b[max(0, i - 120):i + 120]}


def panic_site(msg):
    """signature of a mono panic: the two type constructors the unifier refused, names dropped"""
    m = re.search(r"cannot unify (\w+)\(?.*? with (\w+)", msg)
    if m:
        return f"unify:{m.group(1)}:{m.group(2)}"
    return re.sub(r"[A-Za-z_]*\d+|\"[^\"]*\"", "_", msg)[:80]


SGROUPS = {}


def collect(ctx):
    SGROUPS.clear()
    ok, out = ctx.gv("c07")
    rows = vlib.read_tsv(os.path.join(ctx.run_dir, "c07.cases.tsv")) if ok else []
    progs, feats = {}, ""
    for r in rows:
        if r[0] == "#FEATS":
            feats = r[1] if len(r) > 1 else ""
            continue
        if r[0] == "#SGROUP":
            SGROUPS[r[1]] = {"leaves": r[2].split(" | ") if len(r) > 2 else [], "user_types_named_by_the_real_encoders": r[3].split() if len(r) > 3 else []}
            continue
        d = progs.setdefault(r[0], {"stages": {}})
        k = r[1]
        if k == "SRC":
            d["src"] = vlib.unesc(r[2])
        elif k == "CORE":
            d["core"] = r[2]
        elif k == "MONO":
            d["mono"] = r[2]
        elif k == "STAGE":
            d["stages"][r[2]] = r[3]
        elif k == "GENV":
            d["genv"] = r[2]
        elif k == "SIG":
            d["sig"] = (r[2], r[3])
        elif k == "NAMES":
            d["names"] = r[2:]
        elif k == "SIGTPARAMS":
            d["sigtparams"] = set(r[2].split()) if len(r) > 2 else set()
        elif k == "CALLSIG":
            d["callsig"] = [x.split(">") for x in r[2:]]
        elif k == "UNSPEC":
            d["unspec"] = [x.split(">") for x in r[2:]]
        elif k == "TYINST":
            d["tyinst"] = [[vlib.unesc(y) for y in x.split("\x1f")] for x in r[2:]]
        elif k == "DUPINST":
            d["dupinst"] = [[vlib.unesc(y) for y in x.split(">")] for x in r[2:]]
        elif k == "EXPECTINST":
            d["expectinst"] = (vlib.unesc(r[2]), int(r[3]), int(r[4]))
        elif k == "TYINSTN":
            d["tyinstn"] = (int(r[2]), int(r[3]))
        elif k in ("PANIC", "REJECT"):
            d[k.lower()] = (r[2], vlib.unesc(r[3]) if len(r) > 3 else "")
        elif k == "HANG":
            d["hang"] = r[2]
        elif k == "WATCHDOG":
            d["watchdog"] = r[2]
        elif k == "NEG":
            d["neg"] = (r[2], r[3] if len(r) > 3 else "", vlib.unesc(r[4]) if len(r) > 4 else "")
        elif k == "DONE":
            d["done"] = True
    return progs, feats


def run(ctx):
    ctx.extract()
    ctx.build_lean(["GomlVerif.Props.C07"] if os.path.exists(os.path.join(vlib.LEAN, "GomlVerif/Props/C07.lean")) else [])
    if not ctx.build_harness():
        return ctx.finish("proof", {"evaluations": 0, "distinct_nontrivial": 0}, [], "lake build")
    progs, feats = collect(ctx)
    negs = {k: d for k, d in progs.items() if "neg" in d}
    for k in negs:
        progs.pop(k)
    n_neg_ok = 0
    for k, d in negs.items():
        kind, stage, msg = d["neg"]
        if kind == "reject" and stage in ("typer", "parser", "lower"):
            n_neg_ok += 1
        else:
            ctx.report({"oracle": "negative", "form": k.split(":", 1)[1], "outcome": kind if kind != "reject" else "rejected-late:" + stage},
                       "a form goml does not have (generic trait impl, method value, …) is not rejected by the front end",
                       {"id": k, "src": d.get("src"), "outcome": kind, "stage": stage, "message": msg[:300]})
    main = {k: d for k, d in progs.items() if "watchdog" not in d}
    rec = {k: d for k, d in progs.items() if "watchdog" in d}

    # ------------------------------------------------------------------ model runs
    model = run_model(ctx, [f"{k}\t{d['core']}" for k, d in main.items() if "core" in d])
    model_rec = run_model(ctx, [f"{k}\t{d['core']}" for k, d in rec.items() if "core" in d], fuel=40)
    closed = run_model(ctx, [f"{k}|{st}\t{sx}" for k, d in main.items() for st, sx in d["stages"].items() if st in ("mono", "lift", "anf")])
    defs = run_model(ctx, [f"D!{k}\t{d['mono']}" for k, d in main.items() if "mono" in d])
    # Sem on the real Core and Mono dumps (own driver mode: call-site names of methods of generic impls
    # are mapped to their one Core definition first)
    sem_raw = run_model(ctx, [f"S!{k}|{st}\t{sx}" for k, d in main.items() for st, sx in d["stages"].items() if st in ("core", "mono")])
    sem = {k[2:]: (v + ["", "", ""])[:3] for k, v in sem_raw.items()}

    n_tie = n_tie_eq = n_tie_panic = 0
    n_sem = n_sem_eq = n_sem_skip_stuck = n_sem_skip_fuel = n_sem_skip_ext = 0
    n_closed = n_closed_ok = 0
    n_inst = n_tyinst_sites = n_tyinst_types = 0
    n_dup_groups = n_req = n_req_ok = 0
    n_sinst = n_sinst_mono = 0
    later_panics = {}
    distinct, samples = set(), []
    streams = {}
    for k, d in main.items():
        stream = ("inst-structural" if k.startswith("inst:S:") else k.split(":")[0]) + (":" + k.split(":")[1] if k.startswith("fam") else "") + ("".join(":" + t for t in k.split(":")[3:]) if k.startswith("gen") else "")
        streams[stream] = streams.get(stream, 0) + 1
        src = d.get("src")
        if "hang" in d:
            ctx.report({"oracle": "watchdog", "kind": "mono-does-not-terminate", "family": "main-stream"},
                       "the compiler kept running for 30 s on this program; the rest of the run was abandoned", {"id": k, "src": src})
            continue
        if k.startswith("inst:S:"):
            n_sinst += 1
            if "reject" in d or "core" not in d:
                ctx.broken_ties.append(("catalogue inst:S: a program of the structural instantiation catalogue is not accepted", f"{k}: {d.get('reject') or d.get('panic')}"))
            elif "mono" in d:
                n_sinst_mono += 1
        if k.startswith("req:") and ("reject" in d or "core" not in d):
            ctx.broken_ties.append(("catalogue req: a program of the request-route catalogue is not accepted", f"{k}: {d.get('reject') or d.get('panic')}"))
        if "core" not in d:
            continue
        m = model.get(k)
        real_panic = d.get("panic") if d.get("panic", ("", ""))[0] == "mono" else None
        # ---- oracle: mono must not panic on an accepted program
        if real_panic:
            ctx.report({"oracle": "panic", "stage": "mono", "site": panic_site(real_panic[1])},
                       "mono panics on a program the typer accepted: " + real_panic[1][:160], {"id": k, "src": src, "message": real_panic[1]})
        elif "panic" in d:
            later_panics[d["panic"][0]] = later_panics.get(d["panic"][0], 0) + 1
        # ---- L1 tie
        if m is None:
            ctx.broken_ties.append(("model driver", f"{k}: no output"))
        else:
            n_tie += 1
            if m[0] in ("parse-error", "decode-error"):
                ctx.broken_ties.append(("dump decoder", f"{k}: {m[0]}"))
            elif real_panic:
                if m[0] == "panic":
                    n_tie_panic += 1
                else:
                    ctx.broken_ties.append(("model≠impl", f"{k}: real mono panics ({real_panic[1][:100]}), model says {m[0]}"))
            elif "mono" in d:
                if m[0] == "ok" and m[1] == d["mono"]:
                    n_tie_eq += 1
                elif m[0] == "ok":
                    ctx.broken_ties.append(("model≠impl", f"{k}: {first_diff(m[1], d['mono'])}"))
                else:
                    ctx.broken_ties.append(("model≠impl", f"{k}: real mono returns, model says {m[0]} {m[2] if len(m) > 2 else ''}"))
        if "mono" not in d:
            continue
        names = d.get("names", [])
        n_inst += sum(1 for n in names if "__" in n)
        # ---- oracle: names pairwise distinct
        dups = sorted({n for n in names if names.count(n) > 1})
        if dups:
            ctx.report({"oracle": "names", "kind": "duplicate-instance-name"}, "two functions of the Mono program share a name",
                       {"id": k, "src": src, "duplicates": dups})
        # ---- oracle: every instance is generated exactly once (whatever the copies are called)
        for grp in d.get("dupinst", []):
            n_dup_groups += 1
            ctx.report({"oracle": "instances", "kind": "instance-generated-more-than-once"},
                       f"the Mono program contains {len(grp) - 1} functions that are the same instance of `{grp[0]}` (same parameters, result "
                       "type and body up to the function's own name): " + ", ".join(grp[1:]),
                       {"id": k, "src": src, "core_function": grp[0], "copies": grp[1:], "routes": k.split(":")[2] if k.startswith("req:") else None})
        # ---- catalogue `req:`: one generic function asked for at two instantiations through several routes
        if "expectinst" in d:
            n_req += 1
            q, want, got = d["expectinst"]
            if got == want:
                n_req_ok += 1
            else:
                ctx.report({"oracle": "instances", "kind": "instance-count", "direction": "more" if got > want else "fewer"},
                           f"`{q}` is requested at exactly {want} instantiations (each through several routes: call, function value, from a generic "
                           f"function, from a closure, …) but the Mono program holds {got} instances of it",
                           {"id": k, "src": src, "core_function": q, "expected": want, "got": got,
                            "instances": [n for n in names if n == q or n.startswith(q + "__")]})
        # ---- oracle: a call names an instance of exactly its own type (no two instantiations share an instance)
        if d.get("callsig"):
            ctx.report({"oracle": "instances", "kind": "call-annotation-differs-from-instance-signature"},
                       "a call in the Mono program is annotated with a function type that is not the signature of the Mono function it names "
                       "(call sites at different types share one instance, or an instance was emitted without binding a type parameter)",
                       {"id": k, "src": src, "calls(caller>callee)": d["callsig"][:6]})
        # ---- oracle: distinct type instantiations never share a name or a definition
        n_tyinst_sites += d.get("tyinstn", (0, 0))[0]
        n_tyinst_types += d.get("tyinstn", (0, 0))[1]
        ti = [c for c in d.get("tyinst", []) if len(c) >= 5]
        for site in sorted({c[2] for c in ti}):
            cs = [c for c in ti if c[2] == site]
            sig = {"oracle": "type-instances", "kind": "use-disagrees-with-definition", "site": site}
            if k.startswith("inst:S:"):
                # structural catalogue: the group of leaves (regrouped tuples / applications next to user types named
                # like an encoder's spelling of them, by constructor family and kind of the user type)
                sig["family"] = "structural:" + k.split(":")[4]
            ctx.report(sig,
                       "the Mono program builds / matches / reads a monomorphic data type at field types other than those of the one "
                       "definition registered under its name (distinct instantiations share a name, or an instance was registered with "
                       f"the wrong body): {cs[0][1]} is defined with [{cs[0][3]}] and used in {cs[0][0]} with [{cs[0][4]}]",
                       {"id": k, "src": src, "conflicts": [dict(zip(("function", "type", "site", "defined", "used"), c)) for c in cs[:6]]})
        # ---- oracle: the type instances mono registered are closed
        dr = defs.get(f"D!{k}")
        if dr is None or dr[0] not in ("closed", "open"):
            ctx.broken_ties.append(("closed driver (definitions)", f"{k}: {dr}"))
        elif dr[0] == "open":
            kinds = set()
            for item in dr[1].split(" ;; "):
                kinds.update(item.rsplit(":", 1)[-1].split(","))
            norm = set()
            for kk in kinds:
                m = re.match(r"param-in-type-definition\((.*)\)", kk)
                if m:
                    # a parameter that occurs in no function signature is a phantom one (known finding `param`);
                    # one that does should have been bound by the call that requested the instance
                    names = set(m.group(1).split("+"))
                    norm.add("param" if not (names & d.get("sigtparams", set())) else "param-in-type-definition")
                else:
                    norm.add(kk)
            for kk in sorted(norm):
                ctx.report({"oracle": "closed", "stage": "mono", "residue": kk},
                           f"a monomorphic type definition registered by mono still contains a residue ({kk})",
                           {"id": k, "src": src, "definitions": dr[1][:400]})
        # ---- oracle: every needed instance exists
        unspec = d.get("unspec", [])
        for pos in sorted({u[2] for u in unspec if len(u) > 2}):
            ctx.report({"oracle": "instances", "kind": "generic-function-not-specialised", "position": pos},
                       "Mono code refers to a generic Core function that has no Mono instance (" + pos + " position)",
                       {"id": k, "src": src, "references": [u for u in unspec if u[2] == pos][:5]})
        # ---- oracle: closedness of every later stage dump
        first_open = None
        for st in ("mono", "lift", "anf"):
            if st not in d["stages"]:
                continue
            c = closed.get(f"{k}|{st}")
            if c is None or c[0] not in ("closed", "open"):
                ctx.broken_ties.append(("closed driver", f"{k}|{st}: {c}"))
                continue
            n_closed += 1
            if c[0] == "closed":
                n_closed_ok += 1
            elif first_open is None:
                first_open = (st, c[1])
        if first_open:
            st, detail = first_open
            kinds = set()
            for item in detail.split(" ;; "):
                parts = item.rsplit(":", 2) if ":under=" in item else item.rsplit(":", 1) + [""]
                ks = parts[1].split(",")
                under = parts[2].replace("under=", "") if len(parts) > 2 else ""
                for kk in ks:
                    kinds.add((kk, under if kk == "app" else ""))
            for kk, under in sorted(kinds):
                sig = {"oracle": "closed", "stage": st, "residue": kk}
                if under:
                    sig["under"] = under
                ctx.report(sig, f"the {st} dump still contains a {kk}" + (f" below {under}" if under else ""),
                           {"id": k, "src": src, "functions": detail[:400]})
        # ---- oracle: Core and Mono behave the same under Sem
        a, b = sem.get(f"{k}|core"), sem.get(f"{k}|mono")
        if a is None or b is None:
            if "core" in d["stages"] and "mono" in d["stages"]:
                ctx.broken_ties.append(("sem driver", f"{k}: missing result"))
            continue
        if a[0].endswith("error") or b[0].endswith("error"):
            ctx.broken_ties.append(("dump decoder", f"{k}: sem {a[0]} {b[0]}"))
            continue
        if unspec:
            continue   # the Mono program calls a function that does not exist: reported above
        if a[0] == "fuel" or b[0] == "fuel":
            n_sem_skip_fuel += 1
            continue
        if a[0].startswith("stuck:no impl"):
            n_sem_skip_stuck += 1     # needs type-passing dispatch at Core level (trait call on a type Sem has no key for)
            continue
        if a[2].strip() != b[2].strip():
            # a call that `Sem` cannot resolve to a function or builtin is an extern event: the two programs
            # must make the same ones (a Mono program calling a function that does not exist shows up here)
            ctx.report({"oracle": "sem", "kind": "extern-events-differ"},
                       "the Mono program calls functions the Core program does not (or vice versa)",
                       {"id": k, "src": src, "core_externs": a[2][:300], "mono_externs": b[2][:300]})
            continue
        if a[2].strip():
            n_sem_skip_ext += 1     # real extern \"go\" functions: compared including the events
        if a[0].startswith("stuck"):
            ctx.broken_ties.append(("Sem cannot run the Core program (model gap)", f"{k}: {a[0]}"))
            continue
        n_sem += 1
        if (a[0], a[1]) == (b[0], b[1]):
            n_sem_eq += 1
        else:
            kind = "stdout-differs" if a[0] == b[0] else f"ends-differently:{a[0].split(':')[0]}->{b[0].split(':')[0]}"
            ctx.report({"oracle": "sem", "kind": kind}, "the Mono program does not behave like the Core program",
                       {"id": k, "src": src, "core": {"status": a[0], "stdout": vlib.unesc(a[1])[:300]},
                        "mono": {"status": b[0], "stdout": vlib.unesc(b[1])[:300]}})
        gen_names = [n for n in names if "__" in n]
        if len(gen_names) >= 2:
            distinct.add(tuple(sorted(gen_names)))
        if len(samples) < 3 and k.startswith("gen") and len(gen_names) >= 4:
            samples.append({"id": k, "src": (src or "")[:700], "instances": gen_names[:12], "stdout": vlib.unesc(a[1])[:120]})

    # ------------------------------------------------------------------ termination
    n_rec = n_rec_hang = n_rec_tie = 0
    for k, d in rec.items():
        n_rec += 1
        fam = "control" if ":control:" in k else "polymorphic-recursion"
        w = d["watchdog"]
        mm = model_rec.get(k)
        if w == "hang":
            n_rec_hang += 1
            ctx.report({"oracle": "watchdog", "kind": "mono-does-not-terminate", "family": fam},
                       "monomorphisation did not return within 4 s / 4 GB (child process killed)", {"id": k, "src": d.get("src")})
        elif w != "done":
            ctx.broken_ties.append(("watchdog", f"{k}: {w}"))
        if mm is not None:
            want = "fuel" if w == "hang" else "ok"
            if mm[0] == want:
                n_rec_tie += 1
            else:
                ctx.broken_ties.append(("model≠impl (termination)", f"{k}: real {w}, model {mm[0]}"))
    ctx.violations.sort(key=lambda v: len(v[2].get("src") or "x" * 10**6))
    cov = {
        "evaluations": len(main) + len(rec), "distinct_nontrivial": len(distinct),
        "rule": "one case = one goml program (74 corpus programs, witnesses under corpus/C07, the instantiation-pair catalogue `inst:` (5 generic "
                "containers x 17 positions of the one differing leaf inside the argument's type tree, leaf pair rotating with the seed), its structural "
                "twin `inst:S:` (same containers x positions, all leaves of ONE structural group in one program, group rotating with the seed: every "
                "bracketing of 3 and 4 tuple components; generic / Vec / Ref / array / function / tuple types over a struct and int32 next to user structs or "
                "enums NAMED like the real encode_ty / go_type_name_for / ty_compact spelling of them, names read from the real functions), the request-route "
                "catalogue `req:` (16 signature shapes of a 2-3 parameter generic function/method whose type parameters first occur in different orders in the "
                "declaration, the parameter list and the result x the 9 (methods: 5) ways of asking for an instance — call, function value as argument / let / "
                "returned / array element / struct field, call or value inside another generic instance, call inside a closure — two or all routes per "
                "program, both orders, two instantiations), generated programs over a library of generic "
                "functions/methods/types plus random generic functions, instantiated at primitives, tuples, arrays, Vec, Ref, function types, "
                "structs, enums, nested and recursive generic types, trait-bounded generics); non-trivial = at least two specialised instances; "
                "distinct by the set of instance names",
        "samples": samples or [{"id": "corpus only"}],
        "streams": streams, "generator_features": feats,
        "tie_cases": n_tie, "tie_mono_dump_equal": n_tie_eq, "tie_both_panic": n_tie_panic,
        "instances_specialised_total": n_inst,
        "request_route_programs": n_req, "request_route_programs_with_exactly_two_instances": n_req_ok,
        "groups_of_repeated_instances": n_dup_groups,
        "structural_instantiation_programs": n_sinst, "structural_instantiation_programs_monomorphised": n_sinst_mono,
        "structural_groups": dict(SGROUPS),
        "type_instance_use_sites_checked": n_tyinst_sites, "type_instances_used(sum over programs)": n_tyinst_types,
        "sem_compared": n_sem, "sem_equal": n_sem_eq, "sem_skipped_core_needs_type_passing": n_sem_skip_stuck,
        "sem_skipped_fuel": n_sem_skip_fuel, "sem_with_extern_events(compared)": n_sem_skip_ext,
        "closed_dumps_checked": n_closed, "closed_dumps_ok": n_closed_ok,
        "negative_forms_rejected": f"{n_neg_ok}/{len(negs)}", "termination_cases": n_rec, "termination_hangs": n_rec_hang, "termination_tie_agree": n_rec_tie,
        "panics_in_later_stages(owned by C04)": later_panics,
        "rejected_by_typer": sum(1 for d in main.values() if "reject" in d),
        "impl_oracle_failures": len(ctx.violations) + sum(h["count"] for h in ctx.known_hits),
        "model_diffs": sum(1 for n, _ in ctx.broken_ties if n.startswith("model≠impl")),
    }
    # round 11: the static choice of mono.rs against the runtime key of the receiver, on the real Mono dumps of the C01 streams
    from props import tsound
    cov["static_dispatch_vs_runtime_key(traitcall_static_dispatch)"] = tsound.collect_and_evaluate(ctx)
    # ... and on C07's own stream (several type parameters, bounded generics at many instances, the rich-generics library)
    cov["static_dispatch_vs_runtime_key(C07 stream)"] = tsound.evaluate(ctx, progs)
    ctx.assumptions += tsound.ASSUMPTIONS
    ctx.assumptions += [
        "Sem (Model/Sem.lean) at Core level dispatches a trait call on the runtime value (type key of the receiver); programs whose Core needs "
        "type-passing dispatch (receiver of a type without a key, e.g. a tuple) are not compared by the sem oracle and are counted",
        "let/if/while/go annotations are not part of the dump (they repeat the annotation of a sub-expression); the closedness oracle sees every other annotation",
        "the passes are run one by one by the harness with the calls and the shared Gensym of pipeline::compile",
        "termination: a child process killed after 4 s or at 4 GB counts as non-termination",
    ]
    tb = ["Lean 4 kernel", "axioms: " + ",".join(ctx.proof["axioms"] or ["none"]),
          "harness/src/c07.rs, dump.rs (serialisers, stage-wise runner, watchdog)", "Driver/DecSyntax.lean, EncSyntax.lean",
          "Sem (for the behaviour oracle)", "tools/props/c07.py"]
    return ctx.finish("proof", cov, tb, "lake build GomlVerif.Props.C07 && lake env lean Axioms.lean (#print axioms); gomlmodel c07 / sem on the real dumps")
