"""C08 — closures keep their lexical meaning after lambda lifting.
Proof (Props/C08.lean) about the model of lift.rs (Model/Lift.lean, Model/LiftSim.lean);
L1 tie: the model's lifting of the REAL Mono file equals the REAL Lift file and environment, node by node;
oracle (independent of the model): the REAL Mono, Lift and ANF dumps under Sem and the REAL Go under Go.Sem agree."""
import os, re, subprocess
import vlib
from props import c01

STAGES = ["mono", "lift", "anf", "go"]


def run_model(ctx, sub, lines):
    p = vlib.srun(["bash", "-c", f"ulimit -s unlimited; exec {vlib.MODEL} {sub}"], input="\n".join(lines) + "\n",
                       stdout=subprocess.PIPE, stderr=subprocess.PIPE, text=True, timeout=3000)
    res = {}
    for l in p.stdout.split("\n"):
        f = l.split("\t")
        if len(f) >= 2:
            res[f[0]] = f[1:]
    if p.returncode != 0:
        ctx.broken_ties.append((f"model driver {sub}", p.stderr[-1000:]))
    return res


def flow_of(pid):
    if pid.startswith("site:"):
        return "capture-site"
    if pid.startswith("spell:"):
        return "capture-site-spelled"
    m = re.match(r"gen:\d+:\d+:(.+)$", pid)
    return m.group(1) if m else ("main-stream" if pid.startswith("gen:") else "corpus")


def spelled_twins(ctx, progs, captures, spell_of, gc):
    """Model-free oracles on the `spell:` stream (harness/src/c08spell.rs).  A cell is three programs:
    `:S` the closure mentions a variable of its defining scope that is SPELLED like a package-level
    name, `:A` the same text with that variable called by a fresh name, `:I` the spelled program with
    the closure body evaluated in place.  Lexical scoping + C08: all three are accepted alike, print
    the same at every stage, and S and A capture the same variables."""
    cells = {}
    for pid in progs:
        if pid.startswith("spell:"):
            base, tag = pid.rsplit(":", 1)
            cells.setdefault(base, {})[tag] = pid
    n = {"cells": 0, "cells_compared": 0, "twin_rejected(cell does not exist)": 0, "accept_violations": 0,
         "behaviour_violations": 0, "capture_set_violations": 0, "capture_sets_compared": 0, "captured_variables": 0}
    by_spelling = {}

    def state(pid):
        d = progs.get(pid)
        if d is None:
            return None
        if "reject" in d:
            return "rejected:" + d["reject"][0] + ":" + vlib.unesc(d["reject"][1])[:200]
        if "panic" in d:
            return "panic"
        return "accepted"

    for base, tags in sorted(cells.items()):
        n["cells"] += 1
        sA, sS, sI = state(tags.get("A")), state(tags.get("S")), state(tags.get("I"))
        if sA is None or sS is None:
            ctx.broken_ties.append(("spelled capture sites", f"{base}: program or alpha-twin missing"))
            continue
        name, fresh, spell_kind = spell_of.get(tags["S"], ("?", "?", "?"))
        f = base.split(":")
        dims = {"context": f[1], "value": f[2], "binder": f[3], "depth": f[4], "declared_in": f[5], "spelling": spell_kind}
        bs = by_spelling.setdefault(f"{spell_kind}/{f[5]}", {"cells": 0, "violations": 0})
        bs["cells"] += 1
        payload = {"id": base, **dims, "name": name, "fresh_name": fresh, "src": progs[tags["S"]].get("src"),
                   "alpha_twin_src": progs[tags["A"]].get("src"), "in_place_src": progs.get(tags.get("I"), {}).get("src") if "I" in tags else None,
                   "outcome": {"spelled": sS, "alpha_twin": sA, "in_place": sI}}
        if sA != "accepted":
            if sS == "accepted":
                n["accept_violations"] += 1
                bs["violations"] += 1
                ctx.report({"oracle": "spelling-accept", "kind": "accepted-only-under-the-package-level-spelling", "spelling": spell_kind},
                           "a closure program is accepted when the captured variable is spelled like a package-level name and rejected when it has a fresh name", payload)
            else:
                n["twin_rejected(cell does not exist)"] += 1
            continue
        if sS != "accepted" or (sI is not None and sI != "accepted"):
            which = "closure" if sS != "accepted" else "in-place"
            n["accept_violations"] += 1
            bs["violations"] += 1
            ctx.report({"oracle": "spelling-accept", "kind": f"{which}-program-rejected-under-the-package-level-spelling", "spelling": spell_kind,
                        "stage": (sS if sS != "accepted" else sI).split(":")[1] if ":" in (sS if sS != "accepted" else sI) else "panic"},
                       "a closure program accepted under a fresh name of the captured variable is rejected when that variable is spelled like a package-level name: "
                       "the closure does not see a variable of its defining scope", payload)
            continue
        n["cells_compared"] += 1
        # ---- behaviour: every stage of S and of I prints what the alpha-twin's Mono form prints
        oA = progs[tags["A"]].get("out", {})
        ref = oA.get("mono")
        bad = None
        if ref and ref[0] not in ("fuel", "decode-error", "parse-error") and not ref[0].startswith("stuck"):
            for tag, label in (("S", "closure"), ("I", "in-place")):
                if tag not in tags:
                    continue
                o = progs[tags[tag]].get("out", {})
                go_ok = gc.get(tags[tag], ("ok",))[0] != "err"
                for st in STAGES:
                    v = o.get(st)
                    if v is None or v[0] in ("fuel", "decode-error", "parse-error") or (st == "go" and not go_ok):
                        continue
                    if (v[0], v[1]) != (ref[0], ref[1]):
                        bad = (label, st, v)
                        break
                if bad:
                    break
        if bad:
            label, st, v = bad
            n["behaviour_violations"] += 1
            bs["violations"] += 1
            payload["expected(alpha-twin, Mono under Sem)"] = {"status": ref[0], "stdout": vlib.unesc(ref[1])[:300]}
            payload["observed"] = {"program": label, "stage": st, "status": v[0], "stdout": vlib.unesc(v[1])[:300]}
            ctx.report({"oracle": "spelling-behaviour", "program": label, "first_divergent_stage": st, "spelling": spell_kind},
                       f"the {label} program prints something else when the captured variable is spelled like a package-level name than when it has a fresh name "
                       "(the closure's result is not that of its body evaluated in its defining scope)", payload)
        # ---- capture sets of the REAL Lift output: S and A capture the same variables
        cS, cA = captures.get(tags["S"]), captures.get(tags["A"])
        if cS is not None and cA is not None:
            n["capture_sets_compared"] += 1
            pat = re.compile(r"(?<![A-Za-z0-9])" + re.escape(name) + r"(?=_\d+$)")
            def norm(text):
                out = []
                for item in text.split(";") if text else []:
                    st_name, _, fields = item.partition("=")
                    out.append((pat.sub(fresh, st_name), [pat.sub(fresh, x) for x in fields.split(",") if x]))
                return out
            a, b = norm(cS), norm(cA)
            n["captured_variables"] += sum(len(x[1]) for x in b)
            if a != b:
                n["capture_set_violations"] += 1
                bs["violations"] += 1
                payload = dict(payload)
                payload["capture_sets(env struct = fields)"] = {"spelled": cS, "alpha_twin": cA}
                ctx.report({"oracle": "spelling-capture-set", "spelling": spell_kind},
                           "a closure captures a different set of variables when a variable of its defining scope is spelled like a package-level name", payload)
    n["by_spelling"] = by_spelling
    return n



def run(ctx):
    ctx.extract()
    ctx.build_lean(["GomlVerif.Props.C08"])
    if not ctx.build_harness():
        return ctx.finish("proof", {"evaluations": 0, "distinct_nontrivial": 0, "samples": []}, [], "lake build")
    extra = []
    progs, feats = c01.collect(ctx, "c08", extra)
    rows = vlib.read_tsv(os.path.join(ctx.run_dir, "c08.cases.tsv")) if os.path.exists(os.path.join(ctx.run_dir, "c08.cases.tsv")) else []
    cases = [r for r in rows if len(r) >= 4 and r[1] == "CASE"]
    tyloss = [r for r in rows if len(r) >= 3 and r[1] == "TYLOSS"]
    # closedness of the REAL Lift file (computed by the harness on the real IR, no model involved)
    unbound = {}
    for r in rows:
        if len(r) >= 4 and r[1] == "UNBOUND":
            unbound.setdefault(r[0], []).append((r[2], r[3]))
    captures = {r[0]: (r[2] if len(r) > 2 else "") for r in rows if len(r) >= 2 and r[1] == "CAPTURES"}
    spell_of = {r[0]: (r[2], r[3], r[4]) for r in rows if len(r) >= 5 and r[1] == "SPELL"}
    for r in tyloss[:5]:
        ctx.broken_ties.append(("dump loses a type the pass reads", f"{r[0]}: stored type of `{r[2]}` differs from the type recomputed by Lift.monoTy"))

    # ---- L1: model(REAL mono) == REAL lift, exactly (names included)
    model = run_model(ctx, "c08", [f"{r[0]}\t{r[2]}\t{r[3]}" for r in cases]) if cases and os.path.exists(vlib.MODEL) else {}
    n_eq = n_diff = 0
    stats = {}
    for r in cases:
        m = model.get(r[0])
        if not m or m[0] not in ("EQ", "DIFF"):
            ctx.broken_ties.append(("model driver c08", f"{r[0]}: {m}"))
            continue
        stats[r[0]] = dict(kv.split("=") for kv in (m[2] if len(m) > 2 else "").split() if "=" in kv)
        if m[0] == "EQ":
            n_eq += 1
        else:
            n_diff += 1
            if n_diff <= 5:
                ctx.broken_ties.append(("model of lift.rs ≠ lift.rs", f"{r[0]}: {m[1][:300]}"))

    # ---- validator (DirectFlow / simulation checker) verdicts on the REAL Mono/Lift pair
    sim = run_model(ctx, "c08sim", [f"{r[0]}\t{r[2]}\t{r[3]}\t{r[4]}" for r in cases if len(r) >= 5]) if cases and os.path.exists(vlib.MODEL) else {}

    # ---- oracle on the implementation's own outputs
    for d in progs.values():
        d["stages"] = {k: v for k, v in d["stages"].items() if k in STAGES}
    progs = c01.evaluate(ctx, progs)
    gc = c01.gocheck(ctx, [f"{pid}\t{d['stages']['go']}" for pid, d in progs.items() if "go" in d["stages"]])
    n_prog = n_agree = n_fuel = n_invalid = n_invalid_liftdiff = n_ext = n_closure_progs = 0
    by_flow = {}
    sim_by_flow = {}
    samples, distinct = [], set()
    n_sim_ok = n_sim_total = 0
    invalid_kinds = {}
    for pid, d in progs.items():
        if not d["stages"]:
            continue
        n_prog += 1
        fl = flow_of(pid)
        bf = by_flow.setdefault(fl, {"programs": 0, "go_valid_and_all_agree": 0, "go_invalid": 0, "violations": 0})
        bf["programs"] += 1
        st = stats.get(pid, {})
        ncl = int(st.get("closures", 0))
        n_closure_progs += ncl > 0
        sv = sim.get(pid)
        if sv:
            n_sim_total += 1
            ok = sv[0] == "ACCEPT"
            n_sim_ok += ok
            sb = sim_by_flow.setdefault(fl, [0, 0])
            sb[0] += ok
            sb[1] += 1
        o = d["out"]
        if any(v is None for v in o.values()):
            ctx.broken_ties.append(("sem driver", f"{pid}: missing stage result {[k for k, v in o.items() if v is None]}"))
            continue
        if any(v[0] in ("decode-error", "parse-error") for v in o.values()):
            ctx.broken_ties.append(("dump decoder", f"{pid}: {[(k, v[0]) for k, v in o.items() if v[0].endswith('error')]}"))
            continue
        if any(v[0] == "fuel" for v in o.values()):
            n_fuel += 1
            continue
        ref = o["mono"]
        if ref[2].strip():
            n_ext += 1
            continue
        if ref[0].startswith("stuck"):
            ctx.broken_ties.append(("Sem cannot run the Mono program (model gap)", f"{pid}: {ref[0]}"))
            continue
        payload = {"id": pid, "flow": fl, "src": d.get("src"),
                   "outcomes": {k: {"status": v[0], "stdout": vlib.unesc(v[1])[:400]} for k, v in o.items()},
                   "validator": sv[:2] if sv else None}
        go_ok = gc.get(pid, ("ok",))[0] != "err"
        lift_same = (o["lift"][0], o["lift"][1]) == (ref[0], ref[1])
        if not go_ok:
            # the emitted Go is not valid Go: whether that is acceptable is C02's question (known
            # findings there); the program has no Go behaviour to compare
            n_invalid += 1
            bf["go_invalid"] += 1
            invalid_kinds[gc[pid][1].split("|")[0] + ("|closure_env" if "closure_env" in gc[pid][1] else "")] = \
                invalid_kinds.get(gc[pid][1].split("|")[0] + ("|closure_env" if "closure_env" in gc[pid][1] else ""), 0) + 1
            if not lift_same:
                # the Lift IR itself no longer means what the Mono IR means (whatever the Go looks like)
                n_invalid_liftdiff += 1
                kind = "stdout-differs" if o["lift"][0] == ref[0] else f"ends-differently:{ref[0].split(':')[0]}->{o['lift'][0].split(':')[0]}"
                why = re.sub(r"^[^:]*:", "", sv[1]) if sv and len(sv) > 1 else ""
                payload["kind"] = kind
                ctx.report({"oracle": "lift-sem", "go_valid": False, "validator": (sv[0] + " " + why).strip() if sv else None},
                           "the lifted program (Lift IR under Sem) no longer behaves like its Mono form; the emitted Go is ill-typed as well", payload)
            continue
        div = next((s for s in STAGES if s in o and (o[s][0], o[s][1]) != (ref[0], ref[1])), None)
        if div is None:
            n_agree += 1
            bf["go_valid_and_all_agree"] += 1
            if sv and sv[0] == "ACCEPT" and ncl > 0:
                pass
        else:
            kind = "stdout-differs" if o[div][0] == ref[0] else f"ends-differently:{ref[0].split(':')[0]}->{o[div][0].split(':')[0]}"
            if o[div][0].startswith("stuck"):
                kind = "stage-output-not-executable"
            bf["violations"] += 1
            ctx.report({"oracle": "behaviour", "first_divergent_stage": div, "kind": kind, "flow": fl},
                       f"valid Go is emitted but from the {div} stage on the program no longer behaves like its Mono form (closure flow: {fl})", payload)
        # a validator-accepted pair must agree under Sem (this is the theorem, observed)
        if sv and sv[0] == "ACCEPT" and not lift_same:
            ctx.broken_ties.append(("lift_preserves_partial contradicted by a run", f"{pid}: validator accepts but Sem(mono) != Sem(lift)"))
        if ncl > 0 and len(vlib.unesc(ref[1])) > 0:
            distinct.add(ref[1] + "|" + str(len(d["stages"].get("lift", ""))))
        if len(samples) < 3 and pid.startswith("gen") and ncl > 1:
            samples.append({"id": pid, "flow": fl, "src": (d.get("src") or "")[:700], "stdout": vlib.unesc(ref[1])[:160],
                            "closures": ncl, "validator": sv[0] if sv else None})
    for pid, pairs in unbound.items():
        d = progs.get(pid, {})
        role = "apply-function" if any(f.startswith("inherent#closure_env_") for f, _ in pairs) else "function"
        ctx.report({"oracle": "closed", "stage": "lift", "where": role},
                   "a lifted function refers to an unbound local: a variable of its defining scope that the closure did not capture",
                   {"id": pid, "flow": flow_of(pid), "src": d.get("src"), "unbound": [{"function": f, "variable": v} for f, v in pairs[:5]]})
    spell_cov = spelled_twins(ctx, progs, captures, spell_of, gc)
    rejected = [pid for pid, d in progs.items() if "reject" in d]
    panics = [(pid, d) for pid, d in progs.items() if "panic" in d]
    for pid, d in panics[:3]:
        ctx.report({"oracle": "panic", "where": re.sub(r"\d+", "N", d["panic"])[:80]}, "the compiler panics on a closure program",
                   {"id": pid, "src": d.get("src"), "panic": d["panic"]})
    ctx.violations.sort(key=lambda v: len(v[2].get("src") or "x" * 10**6))
    cov = {
        "evaluations": n_prog * len(STAGES) + len(cases), "distinct_nontrivial": len(distinct),
        "rule": "one case = one accepted goml program (74 corpus programs + C02/C08 witnesses + seeded closure-centred programs + capture sites, "
                "also with the captured variable spelled like a package-level name, each beside its alpha-twin and its in-place twin); L1 compares the model's "
                "lifting of its real Mono file with the real Lift file and environment; the oracle runs its real Mono/Lift/ANF dumps under Sem and its real Go AST "
                "under Go.Sem; non-trivial = at least one closure and prints something; distinct by stdout and Lift size",
        "samples": samples or [{"id": "corpus only"}],
        "programs": n_prog, "programs_with_closures": n_closure_progs,
        "L1_model_equals_real_lift": n_eq, "model_diffs": n_diff,
        "closures_lifted": sum(int(s.get("closures", 0)) for s in stats.values()),
        "closure_nodes_left_in_model_output": sum(int(s.get("closure_nodes_left", 0)) for s in stats.values()),
        "oracle_all_stages_agree(go valid)": n_agree, "impl_oracle_failures": len(ctx.violations),
        "lift_files_not_closed": len(unbound), "capture_site_programs": by_flow.get("capture-site", {}).get("programs", 0),
        "spelled_capture_sites": spell_cov,
        "go_invalid(owned by C02)": n_invalid, "go_invalid_by_gocheck_code": invalid_kinds,
        "go_invalid_and_Sem(lift)!=Sem(mono)": n_invalid_liftdiff,
        "fuel_exhausted(skipped)": n_fuel, "extern_calls(skipped)": n_ext,
        "DirectFlow_ratio(validator accepts real Mono/Lift pair)": f"{n_sim_ok}/{n_sim_total}",
        "DirectFlow_by_flow": {k: f"{a}/{b}" for k, (a, b) in sorted(sim_by_flow.items())},
        "by_flow": by_flow,
        "generator_rejected": len(rejected), "compiler_panics": len(panics), "generator_features": feats,
    }
    ctx.assumptions += [
        "Sem (Model/Sem.lean) is the source-level meaning of Mono and Lift programs; Go.Sem / Go.Check are our reading of the Go spec for the emitted subset",
        "the Mono dump omits the type stored on if/let/while/go/literal nodes; the harness checks on every real Mono tree that Lift.monoTy recomputes it (TYLOSS rows)",
        "the number handed out first by the pipeline-wide Gensym inside the pass is read off the real output (name of the first env parameter)",
        "DirectFlow includes, per program, that no variable in scope is spelled like the apply function or env parameter it meets (checked by the validator, not assumed)",
        "lift_preserves_partial speaks about source runs that end normally or panic; runs that exhaust the fuel or get stuck (ill-typed IR) are outside it",
    ]
    tb = ["Lean 4 kernel", "axioms: " + ",".join(ctx.proof["axioms"] or ["none"]), "Sem/Go.Sem/Go.Check definitions",
          "harness/src/c08.rs, dump.rs, godump.rs (serialisers)", "tools/props/c08.py (comparison)"]
    return ctx.finish("proof", cov, tb, "lake build GomlVerif.Props.C08 && lake env lean Axioms.lean (#print axioms); gomlmodel c08 | c08sim | sem | gocheck")
